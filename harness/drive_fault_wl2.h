/* C16 harness, second group of workloads (included by drive_fault.c): dimension metadata incl. the backward
 * compatible dimension Vdata, every special-element kind, and the public INQUIRY calls of mfsd.c / mfdatainfo.c /
 * mfgr.c / hdatainfo.c / vio.c / vg.c / vattr.c / hfile.c that perform I/O.  Everything an inquiry call delivers is
 * fed to hdata(), so "success with wrong information" is observed as datasame=0. */
#include "hcomp.h"
#include "mfdatainfo.h"
#include "hdatainfo.h"

/* ---------------------------------------------------------------- SD: dimensions, calibration, n-bit, linked blocks */
static void wl_sd_dims(const char *p)
{
    int32 sd = FAIL, s = FAIL, dim, idx;
    int32 dims[2] = {3, 4}, st[2] = {0, 0}, ed[2] = {3, 4};
    int32 ud[1] = {SD_UNLIMITED}, us[1] = {0}, ue[1] = {2}, nd[1] = {8}, ne[1] = {8};
    int32 gd[2] = {4, 4}, gs[2] = {1, 1}, ge[2] = {2, 2};
    float sc[3] = {1.0f, 2.5f, 4.0f};
    int16 fill = -7, mx = 500, mn = -500;
    int32 da[2] = {11, 22};
    TV(sd, "SDstart", SDstart(p, DFACC_CREATE));
    TV(s, "SDcreate", SDcreate(sd, "t", DFNT_INT16, 2, dims));
    T("SDsetfillvalue", SDsetfillvalue(s, &fill));
    T("SDwritedata", SDwritedata(s, st, NULL, ed, pat));
    TV(dim, "SDgetdimid", SDgetdimid(s, 0));
    T("SDsetdimname", SDsetdimname(dim, "lat"));
    T("SDsetdimscale", SDsetdimscale(dim, 3, DFNT_FLOAT32, sc));
    T("SDsetdimstrs", SDsetdimstrs(dim, "latitude", "deg", "%f"));
    T("SDsetattr", SDsetattr(dim, "dimatt", DFNT_INT32, 2, da));
    TV(dim, "SDgetdimid", SDgetdimid(s, 1));
    T("SDsetdimname", SDsetdimname(dim, "lon"));
    T("SDsetdimval_comp", SDsetdimval_comp(dim, SD_DIMVAL_BW_COMP));       /* old-style dimension Vdata at SDend */
    T("SDsetdatastrs", SDsetdatastrs(s, "temp", "K", "%d", "cart"));
    T("SDsetcal", SDsetcal(s, 1.5, 0.1, 2.0, 0.2, DFNT_INT16));
    T("SDsetrange", SDsetrange(s, &mx, &mn));
    E(s, "SDendaccess", SDendaccess);
    TV(s, "SDcreate", SDcreate(sd, "u", DFNT_INT32, 1, ud));
    TV(dim, "SDgetdimid", SDgetdimid(s, 0));
    T("SDsetdimname", SDsetdimname(dim, "time"));
    T("SDsetdimval_comp", SDsetdimval_comp(dim, SD_DIMVAL_BW_COMP));
    T("SDsetblocksize", SDsetblocksize(s, 32));
    T("SDwritedata", SDwritedata(s, us, NULL, ue, pat + 100));
    E(s, "SDendaccess", SDendaccess);
    TV(s, "SDcreate", SDcreate(sd, "n", DFNT_INT32, 1, nd));
    T("SDsetnbitdataset", SDsetnbitdataset(s, 6, 7, FALSE, FALSE));
    T("SDwritedata", SDwritedata(s, us, NULL, ne, pat + 200));
    E(s, "SDendaccess", SDendaccess);
    /* appending to "u", which is no longer at the end of the file: linked blocks */
    TV(idx, "SDnametoindex", SDnametoindex(sd, "u"));
    TV(s, "SDselect", SDselect(sd, idx));
    us[0] = 2; ue[0] = 9;
    T("SDwritedata", SDwritedata(s, us, NULL, ue, pat + 300));
    E(s, "SDendaccess", SDendaccess);
    T("SDsetfillmode", SDsetfillmode(sd, SD_NOFILL));
    TV(s, "SDcreate", SDcreate(sd, "g", DFNT_UINT8, 2, gd));
    T("SDwritedata", SDwritedata(s, gs, NULL, ge, pat + 400));
    E(s, "SDendaccess", SDendaccess);
    TV(s, "SDcreate", SDcreate(sd, "empty", DFNT_UINT8, 2, gd));             /* never written */
    E(s, "SDendaccess", SDendaccess);
    T("SDsetattr", SDsetattr(sd, "history", DFNT_CHAR8, 7, "c16dims"));
done:
    FIN(s, "SDendaccess", SDendaccess);
    FIN(sd, "SDend", SDend);
}

/* every inquiry call on every dataset of the file */
static void wl_sd_inq_body(const char *p)
{
    int32 sd = FAIL, s = FAIL, nds, nat, rank, dims[4], nt, na, dim, dsz, dnt, dna, csz, osz, flags, n, ref, bs;
    int   empty;
    char  name[96], l[64], u[64], f[64], c[64];
    unsigned char buf[1024];
    comp_coder_t  ct;
    comp_info     ci;
    HDF_CHUNK_DEF cd;
    float64 cal[4];
    int32   off[8], len[8], org[2] = {0, 0};
    uint16  nl;
    unsigned nv;
    hdf_varlist_t vl[4];
    TV(sd, "SDstart", SDstart(p, DFACC_READ));
    T("SDfileinfo", SDfileinfo(sd, &nds, &nat));
    hdata(&nds, 4); hdata(&nat, 4);
    T("SDgetfilename", SDgetfilename(sd, name));
    for (int i = 0; i < nds && i < 10; i++) {
        TV(s, "SDselect", SDselect(sd, i));
        memset(name, 0, sizeof name);
        T("SDgetinfo", SDgetinfo(s, name, &rank, dims, &nt, &na));
        hdata(name, 64); hdata(dims, rank * 4); hdata(&nt, 4); hdata(&na, 4);
        T("SDgetnamelen", SDgetnamelen(s, &nl)); hdata(&nl, 2);
        T("SDgetnumvars_byname", SDgetnumvars_byname(sd, name, &nv)); hdata(&nv, sizeof nv);
        T("SDnametoindices", SDnametoindices(sd, name, vl)); hdata(&vl[0].var_index, 4);
        TV(ref, "SDidtoref", SDidtoref(s)); hdata(&ref, 4);
        TN("SDreftoindex", SDreftoindex(sd, ref), i);
        n = SDisrecord(s); hdata(&n, 4);
        n = SDiscoordvar(s); hdata(&n, 4);
        T("SDcheckempty", SDcheckempty(s, &empty)); hdata(&empty, sizeof empty);
        T("SDgetdatasize", SDgetdatasize(s, &csz, &osz)); hdata(&csz, 4); hdata(&osz, 4);
        memset(&ci, 0, sizeof ci);
        T("SDgetcompinfo", SDgetcompinfo(s, &ct, &ci)); hdata(&ct, sizeof ct);
        T("SDgetcomptype", SDgetcomptype(s, &ct)); hdata(&ct, sizeof ct);
        memset(&cd, 0, sizeof cd);
        T("SDgetchunkinfo", SDgetchunkinfo(s, &cd, &flags)); hdata(&flags, 4);
        if (flags != HDF_NONE) {
            hdata(cd.chunk_lengths, rank * 4);
            memset(buf, 0, sizeof buf);
            T("SDreadchunk", SDreadchunk(s, org, buf)); hdata(buf, 64);
            TV(n, "SDgetdatainfo", SDgetdatainfo(s, org, 0, 0, NULL, NULL)); hdata(&n, 4);
            if (n > 0) { TV(n, "SDgetdatainfo", SDgetdatainfo(s, org, 0, n > 8 ? 8 : n, off, len)); hdata(len, n * 4); }
        }
        else if (!empty) {
            TV(n, "SDgetdatainfo", SDgetdatainfo(s, NULL, 0, 0, NULL, NULL)); hdata(&n, 4);
            if (n > 0) { TV(n, "SDgetdatainfo", SDgetdatainfo(s, NULL, 0, n > 8 ? 8 : n, off, len)); hdata(len, n * 4); }
        }
        if (OPT("SDgetblocksize", SDgetblocksize(s, &bs))) hdata(&bs, 4);   /* FAIL for a dataset without data */
        if (OPT("SDgetfillvalue", SDgetfillvalue(s, buf))) hdata(buf, 8);   /* FAIL = no fill value set */
        if (OPT("SDgetrange", SDgetrange(s, buf, buf + 8))) hdata(buf, 16);
        if (OPT("SDgetcal", SDgetcal(s, &cal[0], &cal[1], &cal[2], &cal[3], &n))) hdata(cal, sizeof cal);
        memset(l, 0, 64); memset(u, 0, 64); memset(f, 0, 64); memset(c, 0, 64);
        if (OPT("SDgetdatastrs", SDgetdatastrs(s, l, u, f, c, 63))) { hdata(l, 64); hdata(u, 64); hdata(f, 64); hdata(c, 64); }
        for (int a = 0; a < na && a < 6; a++) {
            memset(name, 0, sizeof name);
            T("SDattrinfo", SDattrinfo(s, a, name, &nt, &n)); hdata(name, 64); hdata(&n, 4);
            TN("SDfindattr", SDfindattr(s, name), a);
            memset(buf, 0, 256);
            T("SDreadattr", SDreadattr(s, a, buf)); hdata(buf, 256);
            T("SDgetattdatainfo", SDgetattdatainfo(s, a, &off[0], &len[0])); hdata(len, 4);
        }
        for (int d = 0; d < rank; d++) {
            TV(dim, "SDgetdimid", SDgetdimid(s, d));
            memset(name, 0, sizeof name);
            T("SDdiminfo", SDdiminfo(dim, name, &dsz, &dnt, &dna)); hdata(name, 64); hdata(&dsz, 4); hdata(&dnt, 4); hdata(&dna, 4);
            n = SDisdimval_bwcomp(dim); hdata(&n, 4);
            if (dnt != 0) { memset(buf, 0, 256); T("SDgetdimscale", SDgetdimscale(dim, buf)); hdata(buf, 64); }
            memset(l, 0, 64); memset(u, 0, 64); memset(f, 0, 64);
            if (OPT("SDgetdimstrs", SDgetdimstrs(dim, l, u, f, 63))) { hdata(l, 64); hdata(u, 64); hdata(f, 64); }
            for (int a = 0; a < dna && a < 4; a++) {
                memset(name, 0, sizeof name);
                T("SDattrinfo", SDattrinfo(dim, a, name, &nt, &n)); hdata(name, 64);
                memset(buf, 0, 256);
                T("SDreadattr", SDreadattr(dim, a, buf)); hdata(buf, 256);
            }
        }
        memset(buf, 0, sizeof buf);
        { int32 st[4] = {0, 0, 0, 0}, ed[4]; for (int d = 0; d < rank; d++) ed[d] = dims[d] ? dims[d] : 1;
          T("SDreaddata", SDreaddata(s, st, NULL, ed, buf)); hdata(buf, 256); }
        E(s, "SDendaccess", SDendaccess);
    }
    for (int a = 0; a < nat && a < 4; a++) {
        memset(name, 0, sizeof name);
        T("SDattrinfo", SDattrinfo(sd, a, name, &nt, &n)); hdata(name, 64);
        memset(buf, 0, 256);
        T("SDreadattr", SDreadattr(sd, a, buf)); hdata(buf, 256);
        T("SDgetattdatainfo", SDgetattdatainfo(sd, a, &off[0], &len[0])); hdata(len, 4);
    }
done:
    FIN(s, "SDendaccess", SDendaccess);
    FIN(sd, "SDend", SDend);
}

/* ---------------------------------------------------------------- H: compressed + external + linked elements, inquiry */
static void wl_h_special(const char *p)
{
    int32 fid = FAIL, aid = FAIL;
    comp_info  ci;
    model_info mi;
    char ext[700];
    snprintf(ext, sizeof ext, "%s.ext", p);
    unlink(ext);
    memset(&ci, 0, sizeof ci); memset(&mi, 0, sizeof mi);
    TV(fid, "Hopen", Hopen(p, DFACC_CREATE, 8));
    TV(aid, "HCcreate", HCcreate(fid, 120, 1, COMP_MODEL_STDIO, &mi, COMP_CODE_RLE, &ci));
    TN("Hwrite", Hwrite(aid, 300, pat), 300);
    E(aid, "Hendaccess", Hendaccess);
    ci.deflate.level = 6;
    TV(aid, "HCcreate", HCcreate(fid, 120, 2, COMP_MODEL_STDIO, &mi, COMP_CODE_DEFLATE, &ci));
    TN("Hwrite", Hwrite(aid, 500, pat + 100), 500);
    E(aid, "Hendaccess", Hendaccess);
    ci.skphuff.skp_size = 2;
    TV(aid, "HCcreate", HCcreate(fid, 120, 3, COMP_MODEL_STDIO, &mi, COMP_CODE_SKPHUFF, &ci));
    TN("Hwrite", Hwrite(aid, 200, pat + 50), 200);
    E(aid, "Hendaccess", Hendaccess);
    TV(aid, "HLcreate", HLcreate(fid, 121, 1, 32, 3));
    TN("Hwrite", Hwrite(aid, 150, pat + 700), 150);
    E(aid, "Hendaccess", Hendaccess);
    TV(aid, "HXcreate", HXcreate(fid, 122, 1, ext, 0, 0));
    TN("Hwrite", Hwrite(aid, 90, pat + 900), 90);
    E(aid, "Hendaccess", Hendaccess);
    TN("Hputelement", Hputelement(fid, 123, 1, pat + 40, 44), 44);
    T("Hdupdd", Hdupdd(fid, 123, 2, 123, 1));
done:
    FIN(aid, "Hendaccess", Hendaccess);
    FIN(fid, "Hclose", Hclose);
}
static void wl_h_inq_body(const char *p)
{
    int32 fid = FAIL, aid = FAIL, n, csz, osz, off[8], len[8], bs, nb, l, o;
    int   empty;
    comp_coder_t ct;
    comp_info    ci;
    uint16 ft = 0, fr = 0, tag, ref;
    int16  sp, acc;
    sp_info_block_t info;
    unsigned char buf[600];
    static const uint16 tr[][2] = {{120, 1}, {120, 2}, {120, 3}, {121, 1}, {122, 1}, {123, 1}, {123, 2}};
    TV(fid, "Hopen", Hopen(p, DFACC_READ, 0));
    TV(n, "Hnumber", Hnumber(fid, DFTAG_WILDCARD)); hdata(&n, 4);
    while (Hfind(fid, DFTAG_WILDCARD, DFREF_WILDCARD, &ft, &fr, &o, &l, DF_FORWARD) != FAIL) { hdata(&ft, 2); hdata(&fr, 2); hdata(&l, 4); }
    for (int i = 0; i < 7; i++) {
        tag = tr[i][0]; ref = tr[i][1];
        TV(l, "Hlength", Hlength(fid, tag, ref)); hdata(&l, 4);
        TV(o, "Hoffset", Hoffset(fid, tag, ref));
        T("HDcheck_empty", HDcheck_empty(fid, tag, ref, &empty)); hdata(&empty, sizeof empty);
        T("HCPgetdatasize", HCPgetdatasize(fid, tag, ref, &csz, &osz)); hdata(&csz, 4); hdata(&osz, 4);
        memset(&ci, 0, sizeof ci);
        T("HCPgetcompinfo", HCPgetcompinfo(fid, tag, ref, &ct, &ci)); hdata(&ct, sizeof ct);
        T("HCPgetcomptype", HCPgetcomptype(fid, tag, ref, &ct)); hdata(&ct, sizeof ct);
        TV(n, "HDgetdatainfo", HDgetdatainfo(fid, tag, ref, NULL, 0, 0, NULL, NULL)); hdata(&n, 4);
        if (n > 0) { TV(n, "HDgetdatainfo", HDgetdatainfo(fid, tag, ref, NULL, 0, n > 8 ? 8 : n, off, len)); hdata(len, n * 4); }
        TV(aid, "Hstartread", Hstartread(fid, tag, ref));
        T("Hinquire", Hinquire(aid, NULL, &ft, &fr, &l, &o, &n, &acc, &sp)); hdata(&l, 4); hdata(&sp, 2);
        if (sp) {
            memset(&info, 0, sizeof info);
            T("HDget_special_info", HDget_special_info(aid, &info)); hdata(&info.key, sizeof info.key);
            if (info.key == SPECIAL_LINKED) { T("HLgetblockinfo", HLgetblockinfo(aid, &bs, &nb)); hdata(&bs, 4); hdata(&nb, 4); }
        }
        memset(buf, 0, sizeof buf);
        TN("Hread", Hread(aid, 0, buf), l); hdata(buf, l);
        E(aid, "Hendaccess", Hendaccess);
        ft = fr = 0;
    }
done:
    FIN(aid, "Hendaccess", Hendaccess);
    FIN(fid, "Hclose", Hclose);
}

/* ---------------------------------------------------------------- Vdata / Vgroup: attributes, linked blocks, inquiry */
static void wl_v_attr(const char *p)
{
    int32 fid = FAIL, vs = FAIL, vg = FAIL, vg2 = FAIL, started = FAIL, r1, r2, r3;
    int32 iv[3] = {1, 2, 3}, tags[2], refs[2];
    float fv[2] = {0.5f, -1.5f};
    TV(fid, "Hopen", Hopen(p, DFACC_CREATE, 0));
    TV(started, "Vstart", Vstart(fid) == FAIL ? FAIL : fid);
    TV(vs, "VSattach", VSattach(fid, -1, "w"));
    T("VSsetname", VSsetname(vs, "grow"));
    T("VSsetclass", VSsetclass(vs, "c16v"));
    T("VSfdefine", VSfdefine(vs, "x", DFNT_INT16, 3));
    T("VSfdefine", VSfdefine(vs, "y", DFNT_FLOAT64, 1));
    T("VSsetfields", VSsetfields(vs, "x,y"));
    T("VSsetinterlace", VSsetinterlace(vs, NO_INTERLACE));
    T("VSsetblocksize", VSsetblocksize(vs, 64));
    T("VSsetnumblocks", VSsetnumblocks(vs, 3));
    TN("VSwrite", VSwrite(vs, pat, 5, NO_INTERLACE), 5);
    T("VSsetattr", VSsetattr(vs, _HDF_VDATA, "vatt", DFNT_INT32, 3, iv));
    T("VSsetattr", VSsetattr(vs, 0, "fatt0", DFNT_FLOAT32, 2, fv));
    T("VSsetattr", VSsetattr(vs, 1, "fatt1", DFNT_CHAR8, 4, "unit"));
    TV(r1, "VSQueryref", VSQueryref(vs));
    E(vs, "VSdetach", VSdetach);
    TV(r2, "VHstoredata", VHstoredata(fid, "v", pat + 500, 12, DFNT_UINT8, "stored", "c16s"));
    /* "grow" is no longer at the end of the file: appending converts it to linked blocks */
    TV(vs, "VSattach", VSattach(fid, r1, "w"));
    T("VSsetfields", VSsetfields(vs, "x,y"));
    TN("VSseek", VSseek(vs, 4), 4);
    TN("VSwrite", VSwrite(vs, pat + 600, 30, NO_INTERLACE), 30);
    T("VSsetattr", VSsetattr(vs, _HDF_VDATA, "vatt", DFNT_INT32, 3, iv + 0));      /* replace */
    E(vs, "VSdetach", VSdetach);
    tags[0] = DFTAG_VH; refs[0] = r1; tags[1] = DFTAG_VH; refs[1] = r2;
    TV(r3, "VHmakegroup", VHmakegroup(fid, tags, refs, 2, "made", "c16m"));
    TV(vg, "Vattach", Vattach(fid, -1, "w"));
    T("Vsetname", Vsetname(vg, "top"));
    T("Vsetclass", Vsetclass(vg, "c16t"));
    TV(vg2, "Vattach", Vattach(fid, r3, "w"));
    T("Vinsert", Vinsert(vg, vg2));
    T("Vsetattr", Vsetattr(vg2, "inner", DFNT_FLOAT32, 2, fv));
    E(vg2, "Vdetach", Vdetach);
    T("Vaddtagref", Vaddtagref(vg, 300, 9));
    T("Vsetattr", Vsetattr(vg, "a1", DFNT_INT32, 3, iv));
    T("Vsetattr", Vsetattr(vg, "a2", DFNT_CHAR8, 5, "hello"));
    T("Vsetattr", Vsetattr(vg, "a1", DFNT_INT32, 3, iv));                          /* replace */
    T("Vdeletetagref", Vdeletetagref(vg, 300, 9));
    E(vg, "Vdetach", Vdetach);
done:
    FIN(vs, "VSdetach", VSdetach);
    FIN(vg2, "Vdetach", Vdetach);
    FIN(vg, "Vdetach", Vdetach);
    FIN(started, "Vend", Vend);
    FIN(fid, "Hclose", Hclose);
}
static void wl_v_inq_body(const char *p)
{
    int32 fid = FAIL, vs = FAIL, vg = FAIL, started = FAIL, n, il, sz, r, nt, cnt, asz, idx, bs, nb, t, rf, off[8], len[8];
    int32 lone[8];
    uint16 refs[8];
    char  name[128], fields[256];
    unsigned char buf[2048];
    TV(fid, "Hopen", Hopen(p, DFACC_READ, 0));
    TV(started, "Vstart", Vstart(fid) == FAIL ? FAIL : fid);
    TV(n, "VSlone", VSlone(fid, lone, 8)); hdata(&n, 4);
    TV(n, "Vlone", Vlone(fid, lone, 8)); hdata(&n, 4);
    TV(n, "VSgetvdatas", VSgetvdatas(fid, 0, 8, refs)); hdata(&n, 4);
    TV(n, "Vgetvgroups", Vgetvgroups(fid, 0, 8, refs)); hdata(&n, 4);
    TV(n, "VSofclass", VSofclass(fid, "c16v", 0, 8, refs)); hdata(&n, 4);
    r = -1;
    for (int k = 0; k < 8 && (r = VSgetid(fid, r)) != FAIL; k++) {
        TV(vs, "VSattach", VSattach(fid, r, "r"));
        memset(name, 0, sizeof name); memset(fields, 0, sizeof fields);
        T("VSinquire", VSinquire(vs, &n, &il, fields, &sz, name)); hdata(&n, 4); hdata(&il, 4); hdata(fields, 256); hdata(&sz, 4); hdata(name, 128);
        memset(name, 0, sizeof name);
        T("VSgetclass", VSgetclass(vs, name)); hdata(name, 128);
        TV(sz, "VSsizeof", VSsizeof(vs, fields)); hdata(&sz, 4);
        TV(cnt, "VSelts", VSelts(vs)); hdata(&cnt, 4);
        il = VSisattr(vs); hdata(&il, 4);
        TV(n, "VFnfields", VFnfields(vs)); hdata(&n, 4);
        TV(asz, "VSnattrs", VSnattrs(vs)); hdata(&asz, 4);
        for (int fi = -1; fi < n; fi++) {
            int32 na = VSfnattrs(vs, fi);
            hdata(&na, 4);
            for (int a = 0; a < na && a < 4; a++) {
                memset(name, 0, sizeof name);
                T("VSattrinfo", VSattrinfo(vs, fi, a, name, &nt, &cnt, &asz)); hdata(name, 128); hdata(&cnt, 4);
                TN("VSfindattr", VSfindattr(vs, fi, name), a);
                memset(buf, 0, 256);
                T("VSgetattr", VSgetattr(vs, fi, a, buf)); hdata(buf, 256);
                T("VSgetattdatainfo", VSgetattdatainfo(vs, fi, a, &off[0], &len[0])); hdata(len, 4);
            }
        }
        if (OPT("VSgetblockinfo", VSgetblockinfo(vs, &bs, &nb))) { hdata(&bs, 4); hdata(&nb, 4); }
        TV(nb, "VSgetdatainfo", VSgetdatainfo(vs, 0, 0, NULL, NULL)); hdata(&nb, 4);
        if (nb > 0) { TV(nb, "VSgetdatainfo", VSgetdatainfo(vs, 0, nb > 8 ? 8 : nb, off, len)); hdata(len, nb * 4); }
        cnt = VSelts(vs);
        if (cnt > 0 && cnt * sz <= (int32)sizeof buf) {
            T("VSsetfields", VSsetfields(vs, fields));
            memset(buf, 0, sizeof buf);
            TN("VSread", VSread(vs, buf, cnt, FULL_INTERLACE), cnt); hdata(buf, cnt * sz);
        }
        E(vs, "VSdetach", VSdetach);
    }
    r = -1;
    for (int k = 0; k < 6 && (r = Vgetid(fid, r)) != FAIL; k++) {
        TV(vg, "Vattach", Vattach(fid, r, "r"));
        memset(name, 0, sizeof name);
        T("Vinquire", Vinquire(vg, &n, name)); hdata(&n, 4); hdata(name, 128);
        memset(name, 0, sizeof name);
        T("Vgetclass", Vgetclass(vg, name)); hdata(name, 128);
        TV(cnt, "Vnattrs", Vnattrs(vg)); hdata(&cnt, 4);
        for (int a = 0; a < cnt && a < 4; a++) {
            memset(name, 0, sizeof name);
            T("Vattrinfo", Vattrinfo(vg, a, name, &nt, &asz, &sz)); hdata(name, 128); hdata(&asz, 4);
            TN("Vfindattr", Vfindattr(vg, name), a);
            memset(buf, 0, 256);
            T("Vgetattr", Vgetattr(vg, a, buf)); hdata(buf, 256);
            T("Vgetattdatainfo", Vgetattdatainfo(vg, a, &off[0], &len[0])); hdata(len, 4);
        }
        for (int i = 0; i < n && i < 6; i++) {
            T("Vgettagref", Vgettagref(vg, i, &t, &rf)); hdata(&t, 4);
            idx = Visvs(vg, rf); hdata(&idx, 4);
            idx = Visvg(vg, rf); hdata(&idx, 4);
            idx = Vinqtagref(vg, t, rf); hdata(&idx, 4);
        }
        idx = Vflocate(vg, "x"); OPT("Vflocate", idx); hdata(&idx, 4);            /* FAIL = not found, or error */
        idx = Vnrefs(vg, DFTAG_VH); OPT("Vnrefs", idx); hdata(&idx, 4);
        E(vg, "Vdetach", Vdetach);
    }
done:
    FIN(vs, "VSdetach", VSdetach);
    FIN(vg, "Vdetach", Vdetach);
    FIN(started, "Vend", Vend);
    FIN(fid, "Hclose", Hclose);
}

/* ---------------------------------------------------------------- GR: chunked / RLE images, palettes, inquiry */
static void wl_gr_more(const char *p)
{
    int32 fid = FAIL, gr = FAIL, ri = FAIL, pal;
    int32 dims[2] = {6, 4}, st[2] = {0, 0}, org[2] = {1, 0};
    HDF_CHUNK_DEF cd;
    comp_info ci;
    TV(fid, "Hopen", Hopen(p, DFACC_CREATE, 0));
    TV(gr, "GRstart", GRstart(fid));
    TV(ri, "GRcreate", GRcreate(gr, "chunky", 1, DFNT_UINT8, MFGR_INTERLACE_PIXEL, dims));
    memset(&cd, 0, sizeof cd); cd.chunk_lengths[0] = 3; cd.chunk_lengths[1] = 2;
    T("GRsetchunk", GRsetchunk(ri, cd, HDF_CHUNK));
    T("GRsetchunkcache", GRsetchunkcache(ri, 2, 0) == FAIL ? FAIL : 0);
    T("GRwriteimage", GRwriteimage(ri, st, NULL, dims, pat));
    T("GRwritechunk", GRwritechunk(ri, org, pat + 64));
    TV(pal, "GRgetlutid", GRgetlutid(ri, 0));
    T("GRwritelut", GRwritelut(pal, 3, DFNT_UINT8, MFGR_INTERLACE_PIXEL, 256, pat + 300));
    T("GRsetattr", GRsetattr(ri, "ia", DFNT_FLOAT32, 2, pat + 8));
    E(ri, "GRendaccess", GRendaccess);
    TV(ri, "GRcreate", GRcreate(gr, "rle", 3, DFNT_UINT8, MFGR_INTERLACE_LINE, dims));
    memset(&ci, 0, sizeof ci);
    T("GRsetcompress", GRsetcompress(ri, COMP_CODE_RLE, &ci));
    T("GRwriteimage", GRwriteimage(ri, st, NULL, dims, pat + 1200));
    TV(pal, "GRgetlutid", GRgetlutid(ri, 0));
    T("GRreqlutil", GRreqlutil(pal, MFGR_INTERLACE_LINE));
    T("GRwritelut", GRwritelut(pal, 3, DFNT_UINT8, MFGR_INTERLACE_PIXEL, 256, pat + 1500));
    E(ri, "GRendaccess", GRendaccess);
    TV(ri, "GRcreate", GRcreate(gr, "nodata", 1, DFNT_INT16, MFGR_INTERLACE_PIXEL, dims));   /* never written */
    T("GRsetattr", GRsetattr(ri, FILL_ATTR, DFNT_INT16, 1, pat + 30));
    E(ri, "GRendaccess", GRendaccess);
    T("GRsetattr", GRsetattr(gr, "ga1", DFNT_INT32, 2, pat + 16));
    T("GRsetattr", GRsetattr(gr, "ga2", DFNT_CHAR8, 3, "abc"));
done:
    FIN(ri, "GRendaccess", GRendaccess);
    FIN(gr, "GRend", GRend);
    FIN(fid, "Hclose", Hclose);
}
static void wl_gr_inq_body(const char *p)
{
    int32 fid = FAIL, gr = FAIL, ri = FAIL, pal, nimg, nat, nc, nt, il, dims[2], na, n, ref, flags, cnt, off[8], len[8];
    int32 st[2] = {0, 0}, org[2] = {0, 0};
    char  name[128];
    unsigned char buf[4096];
    comp_coder_t  ct;
    comp_info     ci;
    HDF_CHUNK_DEF cd;
    hdf_ddinfo_t  pi[8];
    TV(fid, "Hopen", Hopen(p, DFACC_READ, 0));
    TV(gr, "GRstart", GRstart(fid));
    T("GRfileinfo", GRfileinfo(gr, &nimg, &nat)); hdata(&nimg, 4); hdata(&nat, 4);
    TV(n, "GRgetpalinfo", GRgetpalinfo(gr, 0, NULL)); hdata(&n, 4);
    if (n > 0) { TV(n, "GRgetpalinfo", GRgetpalinfo(gr, n > 8 ? 8 : n, pi)); for (int i = 0; i < n && i < 8; i++) hdata(&pi[i].length, 4); }
    for (int i = 0; i < nimg && i < 5; i++) {
        TV(ri, "GRselect", GRselect(gr, i));
        memset(name, 0, sizeof name);
        T("GRgetiminfo", GRgetiminfo(ri, name, &nc, &nt, &il, dims, &na)); hdata(name, 128); hdata(dims, 8); hdata(&nc, 4); hdata(&na, 4);
        TN("GRnametoindex", GRnametoindex(gr, name), i);
        TV(ref, "GRidtoref", GRidtoref(ri)); hdata(&ref, 4);
        TN("GRreftoindex", GRreftoindex(gr, (uint16)ref), i);
        memset(&ci, 0, sizeof ci);
        T("GRgetcompinfo", GRgetcompinfo(ri, &ct, &ci)); hdata(&ct, sizeof ct);
        memset(&cd, 0, sizeof cd);
        T("GRgetchunkinfo", GRgetchunkinfo(ri, &cd, &flags)); hdata(&flags, 4);
        n = 0;
        if (flags == HDF_NONE) { TV(n, "GRgetdatainfo", GRgetdatainfo(ri, 0, 0, NULL, NULL)); hdata(&n, 4); }   /* not offered for chunked images */
        if (n > 0) { TV(n, "GRgetdatainfo", GRgetdatainfo(ri, 0, n > 8 ? 8 : n, off, len)); hdata(len, n * 4); }
        if (flags != HDF_NONE) { memset(buf, 0, 256); T("GRreadchunk", GRreadchunk(ri, org, buf)); hdata(buf, 64); }
        T("GRreqimageil", GRreqimageil(ri, MFGR_INTERLACE_COMPONENT));
        memset(buf, 0, sizeof buf);
        T("GRreadimage", GRreadimage(ri, st, NULL, dims, buf)); hdata(buf, 256);
        for (int a = 0; a < na && a < 4; a++) {
            memset(name, 0, sizeof name);
            T("GRattrinfo", GRattrinfo(ri, a, name, &nt, &cnt)); hdata(name, 128); hdata(&cnt, 4);
            TN("GRfindattr", GRfindattr(ri, name), a);
            memset(buf, 0, 256);
            T("GRgetattr", GRgetattr(ri, a, buf)); hdata(buf, 256);
            T("GRgetattdatainfo", GRgetattdatainfo(ri, a, &off[0], &len[0])); hdata(len, 4);
        }
        TV(n, "GRgetnluts", GRgetnluts(ri)); hdata(&n, 4);
        if (n > 0) {
            TV(pal, "GRgetlutid", GRgetlutid(ri, 0));
            T("GRgetlutinfo", GRgetlutinfo(pal, &nc, &nt, &il, &cnt)); hdata(&nc, 4); hdata(&cnt, 4);
            ref = GRluttoref(pal); hdata(&ref, 4);
            memset(buf, 0, sizeof buf);
            T("GRreadlut", GRreadlut(pal, buf)); hdata(buf, 768);
        }
        E(ri, "GRendaccess", GRendaccess);
    }
    for (int a = 0; a < nat && a < 4; a++) {
        memset(name, 0, sizeof name);
        T("GRattrinfo", GRattrinfo(gr, a, name, &nt, &cnt)); hdata(name, 128);
        memset(buf, 0, 256);
        T("GRgetattr", GRgetattr(gr, a, buf)); hdata(buf, 256);
        T("GRgetattdatainfo", GRgetattdatainfo(gr, a, &off[0], &len[0])); hdata(len, 4);
    }
done:
    FIN(ri, "GRendaccess", GRendaccess);
    FIN(gr, "GRend", GRend);
    FIN(fid, "Hclose", Hclose);
}

static void wl_sd_inq(const char *p) { prep(wl_sd_dims, p); wl_sd_inq_body(p); }
static void wl_sd_cinq(const char *p) { prep(wl_sd_chunk, p); wl_sd_inq_body(p); }
static void wl_h_inq(const char *p) { prep(wl_h_special, p); wl_h_inq_body(p); }
static void wl_v_inq(const char *p) { prep(wl_v_attr, p); wl_v_inq_body(p); }
static void wl_v_inq1(const char *p) { prep(wl_v_write, p); wl_v_inq_body(p); }
static void wl_gr_inq(const char *p) { prep(wl_gr_more, p); wl_gr_inq_body(p); }
static void wl_gr_inq1(const char *p) { prep(wl_gr_write, p); wl_gr_inq_body(p); }
