/* C20 harness: format limits.  Runs histories of limit-probing operations against the freshly built library.
 * usage: drive_limits <workdir> <history-file>
 * A history file holds several histories separated by lines "history <name>"; every history runs in its own child
 * process with fresh files and a watchdog (DRIVE_LIMITS_TIMEOUT seconds, default 60: "<lineno> hang"; after two hangs the
 * remaining histories are reported "<lineno> notrun").  One output line per input line: "<lineno> ok v1 v2 .." or "<lineno> fail v1 .."
 * (values after "fail" are the state observables that must be unchanged).
 *
 * H level (one HDF file):
 *   hopen ndds                     Hopen(DFACC_CREATE, ndds) + Vstart             -> ok eof
 *   reserve tag ref len            Hstartwrite(len) + Hendaccess (never written)  -> ok eof | fail eof
 *   put tag ref n                  Hputelement of n pattern bytes                 -> ok eof | fail eof
 *   get tag ref                    Hlength + Hgetelement, pattern verified        -> ok n | fail
 *   reopen                         Vend + Hclose + Hopen(DFACC_RDWR) + Vstart     -> ok eof | fail
 *   dds                            enumerate all descriptors (Hfind)              -> ok nvalid nplaceholder nbad
 *   appendat tag ref pos n         Hstartaccess(RDWR|APPENDABLE) Hseek(pos) Hwrite(n) Htell Hinquire Hendaccess
 *                                                                                 -> ok n tell len eof | fail tell len eof
 *   hlwrite tag ref blen nblk pos n  HLcreate, Hseek(pos), Hwrite(n), Htell, Hinquire  -> ok n tell len | fail tell len
 *   fillrefs tag lo hi             Hputelement(1 byte) for refs lo..hi            -> ok count
 *   seekat tag ref app origin offset pos0   Hstartaccess(RDWR[|APPENDABLE]) Hseek(pos0,START) Hseek(offset,origin) Htell -> ok tell | fail tell
 *   chunkfill tag ref k            HMCcreate (2 chunks of 4 bytes); refs 1..k of DFTAG_CHUNK taken; Hwrite both, Hendaccess -> ok stored(1|0)
 *   fn_vshdrlen idx                Hlength of the DFTAG_VH header of the idx-th created Vdata (after its detach) -> ok len
 *   newref                         Hnewref                                        -> ok ref | fail
 *   tagnewref tag                  Htagnewref                                     -> ok ref | fail
 * V level (vgroup slots 0..7, vdata slots 0..7; objects are remembered by creation index):
 *   vgnew V                        Vattach(-1,"w")                                -> ok
 *   vgadd V tag ref0 n             n x Vaddtagref(tag, ref0+i mod 65535 +1)       -> ok nsucc last | fail nsucc
 *   vgn V                          Vntagrefs                                      -> ok n
 *   vgsetname V len / vgsetclass V len                                            -> ok | fail
 *   vgname V / vgclass V           Vgetnamelen + Vgetname, pattern verified       -> ok len | fail
 *   vgdetach V                     Vdetach                                        -> ok | fail
 *   vgattach V idx mode            Vattach(ref of idx-th created vgroup, mode r/w)-> ok | fail
 *   vsnew X                        VSattach(-1,"w")                               -> ok
 *   vsfdefine X idx namelen type order                                            -> ok | fail
 *   vssetfields X i,j,..           (P = predefined field PX)                      -> ok nfields ivsize | fail nfields ivsize
 *   vswrite X nrec                 VSwrite of nrec zero records (FULL_INTERLACE)  -> ok n | fail
 *   vswritebig X nelt              VSwrite with nelt*ivsize beyond int32, 1-record buffer  -> ok n | fail
 *   vsseek X pos                   VSseek                                         -> ok pos | fail
 *   vsread X n                     VSread                                         -> ok n | fail
 *   vselts X                       VSelts                                         -> ok n
 *   vssetname X len / vssetclass X len                                            -> ok | fail
 *   vsname X / vsclass X           VSgetname / VSgetclass, pattern verified       -> ok len | fail
 *   vsfieldname X i                VFfieldname(i), pattern verified               -> ok len | fail
 *   vsdetach X / vsattach X idx mode
 * SD level (files k = 0..199):
 *   sdlimit n                      setrlimit(RLIMIT_NOFILE, n)                    -> ok syslimit
 *   sdstart k                      SDstart(create)                                -> ok | fail
 *   sdopen k                       SDstart(DFACC_RDWR) of an existing file        -> ok | fail
 *   sdend k                                                                       -> ok | fail
 *   sdcreate k namelen rank                                                       -> ok | fail
 *   sdinfo k                       SDfileinfo                                     -> ok ndatasets
 *   sdname k i                     SDselect(i) SDgetinfo: name (pattern verified), rank  -> ok namelen rank | fail
 *   sdattr k obj a nt count        SDsetattr on the file (obj -1), data set obj, or first dimension of data set obj-1000 -> ok | fail
 *   sdattrinfo k obj a             SDfindattr + SDattrinfo                        -> ok nt count | fail
 *   grattr2 nt c1 c2 / vgattr2 V nt c1 c2 / vsattr2 X nt c1 c2
 *                                  GRsetattr / Vsetattr / VSsetattr of a NEW name with c1 values, again with c2 values,
 *                                  then the count the interface reports       -> ok r1 r2 count
 *   sdfill k n                     n more data sets (rank 1)                      -> ok created
 *   sdattrfill k obj n             n new one-byte attributes on data set obj      -> ok accepted
 *   lonevs R / lonevg R            a Vdata / Vgroup with ref R outside every Vgroup: VSlone/Vlone and VSgetid/Vgetid -> ok ref inlone initer
 *   hlhole tag ref blen            write into the hole of a linked-block element with the file full, then read the hole -> ok wrote readlen allzero firstok
 *   sdmax n                        SDreset_maxopenfiles(n)                        -> ok value | fail
 *   sdgetmax                       SDget_maxopenfiles                             -> ok cur sys
 *   sdnopen                        SDget_numopenfiles                             -> ok n
 * function level (R-vs-M): no file I/O, the record fields are set directly
 *   fn_getdiskblock eof size       HPgetdiskblock on a cached file record with f_end_off := eof  -> ok off eof' | fail eof'
 *   fn_vinsertpair nvelt           vinsertpair on a VGROUP with nvelt members     -> ok ret nvelt' | fail nvelt'
 *   fn_endoff n off1 len1 ..       Hopen of a crafted file whose first DD block holds the given descriptors -> ok eof | fail
 */
#include <stdio.h>
#include <stdlib.h>
#include <string.h>
#include <unistd.h>
#include <sys/wait.h>
#include <sys/resource.h>
#include "hdf.h"
#include "hfile_priv.h"
#include "vg_priv.h"
#include "mfhdf.h"
#include "hchunks_priv.h"

#define NV 8
#define NSD 200
static const char *wd;
static char        hname[600];
static int32       fid = FAIL;
static int32       vg[NV], vs[NV];
static int32       vgrefs[64], vsrefs[64];
static int         nvg, nvs;
static int32       sd[NSD];
static int32       grid = FAIL;   /* GR interface on the H-level file, started on first use, ended at reopen */

static int32 feof_(void)
{
    filerec_t *f = HAatom_object(fid);
    return f ? f->f_end_off : -999;
}
static char *mkname(long n, int seed)
{
    char *s = malloc((size_t)n + 1);
    for (long i = 0; i < n; i++) s[i] = (char)('a' + ((i * 7 + seed) % 26));
    s[n] = 0;
    return s;
}
static int okname(const char *s, long n, int seed)
{
    for (long i = 0; i < n; i++) if (s[i] != (char)('a' + ((i * 7 + seed) % 26))) return 0;
    return s[n] == 0;
}
static void fieldname(char *out, int idx, int namelen)
{ /* "F<idx>_" padded with a pattern up to namelen characters (at least the prefix) */
    int k = sprintf(out, "F%d_", idx);
    for (; k < namelen; k++) out[k] = (char)('a' + (k * 5 + idx) % 26);
    out[k] = 0;
}
static void sdfile(char *out, int k) { sprintf(out, "%s/sd%d.hdf", wd, k); }

static void cleanup(void)
{
    char p[700];
    unlink(hname);
    for (int k = 0; k < NSD; k++) { sdfile(p, k); unlink(p); }
    sprintf(p, "%s/craft.hdf", wd); unlink(p);
    sprintf(p, "%s/craft2.hdf", wd); unlink(p);
}

/* watchdog: the property says the library stays usable, so a call that does not return is a violation.  Every
 * history (child process) gets DRIVE_LIMITS_TIMEOUT seconds (default 60); on expiry the child reports the line it is
 * stuck on and exits with code 124. */
#include <signal.h>
static volatile long cur_lineno;
static void on_alarm(int sig)
{
    char b[64];
    int  n = snprintf(b, sizeof b, "\n%ld hang\n", (long)cur_lineno);
    (void)sig;
    if (n > 0) { ssize_t w = write(1, b, (size_t)n); (void)w; }
    _exit(124);
}

static void run_history(char **lines, long *lnos, long n)
{
    for (int i = 0; i < NV; i++) vg[i] = vs[i] = FAIL;
    for (int i = 0; i < NSD; i++) sd[i] = FAIL;
    sprintf(hname, "%s/h.hdf", wd);
    cleanup();
    for (long li = 0; li < n; li++) {
        char op[64] = "";
        long a[8] = {0};
        char sarg[4096] = "";
        const char *L = lines[li];
        sscanf(L, "%63s", op);
        cur_lineno = lnos[li];
        printf("%ld ", lnos[li]);
        if (!strcmp(op, "history")) { printf("history\n"); continue; }
        if (!strcmp(op, "hopen")) {
            sscanf(L, "%*s %ld", &a[0]);
            fid = Hopen(hname, DFACC_CREATE, (int16)a[0]);
            if (fid == FAIL) { printf("fail\n"); continue; }
            Vstart(fid);
            printf("ok %d\n", feof_());
        }
        else if (!strcmp(op, "reserve")) {
            sscanf(L, "%*s %ld %ld %ld", &a[0], &a[1], &a[2]);
            int32 aid = Hstartwrite(fid, (uint16)a[0], (uint16)a[1], (int32)a[2]);
            if (aid != FAIL) Hendaccess(aid);
            printf("%s %d\n", aid != FAIL ? "ok" : "fail", feof_());
        }
        else if (!strcmp(op, "put")) {
            sscanf(L, "%*s %ld %ld %ld", &a[0], &a[1], &a[2]);
            uint8 *b = malloc((size_t)a[2] + 1);
            for (long i = 0; i < a[2]; i++) b[i] = (uint8)(i * 31 + a[1]);
            int32 r = Hputelement(fid, (uint16)a[0], (uint16)a[1], b, (int32)a[2]);
            free(b);
            printf("%s %d\n", r != FAIL ? "ok" : "fail", feof_());
        }
        else if (!strcmp(op, "get")) {
            sscanf(L, "%*s %ld %ld", &a[0], &a[1]);
            int32 len = Hlength(fid, (uint16)a[0], (uint16)a[1]);
            if (len < 0 || len > 100000000) { printf("fail\n"); continue; }
            uint8 *b = malloc((size_t)len + 1);
            int32 r = Hgetelement(fid, (uint16)a[0], (uint16)a[1], b);
            int good = (r == len);
            for (long i = 0; good && i < len; i++) if (b[i] != (uint8)(i * 31 + a[1])) good = 0;
            free(b);
            if (good) printf("ok %d\n", len); else printf("fail\n");
        }
        else if (!strcmp(op, "reopen")) {
            for (int i = 0; i < NV; i++) { if (vg[i] != FAIL) Vdetach(vg[i]); if (vs[i] != FAIL) VSdetach(vs[i]); vg[i] = vs[i] = FAIL; }
            if (grid != FAIL) { GRend(grid); grid = FAIL; }
            Vend(fid);
            int c = Hclose(fid);
            fid = Hopen(hname, DFACC_RDWR, 0);
            if (c == FAIL || fid == FAIL) { printf("fail close=%d open=%d\n", c, fid == FAIL ? -1 : 0); if (fid != FAIL) Vstart(fid); continue; }
            Vstart(fid);
            printf("ok %d\n", feof_());
        }
        else if (!strcmp(op, "dds")) {
            uint16 t = 0, r = 0; int32 o, l;
            long nvalid = 0, nph = 0, nbad = 0, cap = 0, cnt = 0;
            long long (*ext)[2] = NULL;
            while (Hfind(fid, DFTAG_WILDCARD, DFREF_WILDCARD, &t, &r, &o, &l, DF_FORWARD) == SUCCEED) {
                if (o == INVALID_OFFSET && l == INVALID_LENGTH) { nph++; continue; }
                if (o < 0 || l < 0 || (long long)o + (long long)l > 2147483647LL) { nbad++; continue; }
                nvalid++;
                if (cnt == cap) { cap = cap ? cap * 2 : 256; ext = realloc(ext, (size_t)cap * sizeof *ext); }
                ext[cnt][0] = o; ext[cnt][1] = (long long)o + l; cnt++;
            }
            /* overlap check on non-empty extents (few extents in the histories that matter; quadratic only when small) */
            if (cnt <= 4000)
                for (long i = 0; i < cnt; i++)
                    for (long j = i + 1; j < cnt; j++)
                        if (ext[i][0] < ext[j][1] && ext[j][0] < ext[i][1] && ext[i][0] < ext[i][1] && ext[j][0] < ext[j][1]) { nbad++; j = cnt; }
            free(ext);
            printf("ok %ld %ld %ld\n", nvalid, nph, nbad);
        }
        else if (!strcmp(op, "appendat")) {
            sscanf(L, "%*s %ld %ld %ld %ld", &a[0], &a[1], &a[2], &a[3]);
            int32 aid = Hstartaccess(fid, (uint16)a[0], (uint16)a[1], DFACC_RDWR | DFACC_APPENDABLE);
            if (aid == FAIL) { printf("fail noaccess\n"); continue; }
            uint8 *b = calloc(1, (size_t)a[3] + 1);
            int   sk = Hseek(aid, (int32)a[2], DF_START);
            int32 w  = sk == FAIL ? FAIL : Hwrite(aid, (int32)a[3], b);
            int32 tell = Htell(aid), len = -1;
            Hinquire(aid, NULL, NULL, NULL, &len, NULL, NULL, NULL, NULL);
            Hendaccess(aid);
            free(b);
            if (w != FAIL) printf("ok %d %d %d %d\n", w, tell, len, feof_());
            else printf("fail %d %d %d\n", tell, len, feof_());
        }
        else if (!strcmp(op, "hlwrite")) {
            sscanf(L, "%*s %ld %ld %ld %ld %ld %ld", &a[0], &a[1], &a[2], &a[3], &a[4], &a[5]);
            int32 aid = HLcreate(fid, (uint16)a[0], (uint16)a[1], (int32)a[2], (int32)a[3]);
            if (aid == FAIL) { printf("fail nocreate\n"); continue; }
            uint8 *b = calloc(1, (size_t)a[5] + 1);
            int   sk = Hseek(aid, (int32)a[4], DF_START);
            int32 w  = sk == FAIL ? FAIL : Hwrite(aid, (int32)a[5], b);
            int32 tell = Htell(aid), len = -1;
            Hinquire(aid, NULL, NULL, NULL, &len, NULL, NULL, NULL, NULL);
            Hendaccess(aid);
            free(b);
            if (w != FAIL) printf("ok %d %d %d\n", w, tell, len);
            else printf("fail %d %d\n", tell, len);
        }
        else if (!strcmp(op, "seekat")) {
            /* seekat tag ref app origin offset pos0 */
            sscanf(L, "%*s %ld %ld %ld %ld %ld %ld", &a[0], &a[1], &a[2], &a[3], &a[4], &a[5]);
            int32 aid = Hstartaccess(fid, (uint16)a[0], (uint16)a[1], DFACC_RDWR | (a[2] ? DFACC_APPENDABLE : 0));
            if (aid == FAIL) { printf("fail noaccess\n"); continue; }
            if (a[5] != 0 && Hseek(aid, (int32)a[5], DF_START) == FAIL) { printf("fail setup\n"); Hendaccess(aid); continue; }
            int r = Hseek(aid, (int32)a[4], (int)a[3]);
            int32 tell = Htell(aid);
            Hendaccess(aid);
            printf("%s %d\n", r != FAIL ? "ok" : "fail", tell);
        }
        else if (!strcmp(op, "chunkfill")) {
            /* chunkfill tag ref k: chunked element of two 4-byte chunks; refs 1..k of DFTAG_CHUNK taken; write both */
            sscanf(L, "%*s %ld %ld %ld", &a[0], &a[1], &a[2]);
            HCHUNK_DEF cd; DIM_DEF dd; uint8 fill = 0;
            memset(&cd, 0, sizeof cd); memset(&dd, 0, sizeof dd);
            dd.dim_length = 8; dd.chunk_length = 4; dd.distrib_type = 1;
            cd.chunk_size = 4; cd.nt_size = 1; cd.num_dims = 1; cd.pdims = &dd; cd.chunk_flag = 0;
            int32 aid = HMCcreate(fid, (uint16)a[0], (uint16)a[1], 1, 1, &fill, &cd);
            if (aid == FAIL) { printf("fail nocreate\n"); continue; }
            for (long r = 1; r <= a[2]; r++) Hputelement(fid, DFTAG_CHUNK, (uint16)r, (const uint8 *)"x", 1);
            int32 w1 = Hwrite(aid, 4, "abcd");
            if (w1 == FAIL) Hseek(aid, 4, DF_START);
            int32 w2 = Hwrite(aid, 4, "efgh");
            int   e  = Hendaccess(aid);
            /* chunks go through a write-back cache: a chunk without a ref is reported by the write that evicts it
               or by Hendaccess; the observable is whether everything was stored */
            printf("ok %d\n", (w1 == 4 && w2 == 4 && e != FAIL) ? 1 : 0);
        }
        else if (!strcmp(op, "fn_vshdrlen")) {
            sscanf(L, "%*s %ld", &a[0]);
            int32 len = (a[0] < nvs) ? Hlength(fid, DFTAG_VH, (uint16)vsrefs[a[0]]) : FAIL;
            if (len != FAIL) printf("ok %d\n", len); else printf("fail\n");
        }
        else if (!strcmp(op, "fillrefs")) {
            sscanf(L, "%*s %ld %ld %ld", &a[0], &a[1], &a[2]);
            long cnt = 0;
            for (long r = a[1]; r <= a[2]; r++) if (Hputelement(fid, (uint16)a[0], (uint16)r, (const uint8 *)"x", 1) != FAIL) cnt++;
            printf("ok %ld\n", cnt);
        }
        else if (!strcmp(op, "newref")) {
            uint16 r = Hnewref(fid);
            if (r) printf("ok %u\n", r); else printf("fail\n");
        }
        else if (!strcmp(op, "tagnewref")) {
            sscanf(L, "%*s %ld", &a[0]);
            uint16 r = Htagnewref(fid, (uint16)a[0]);
            if (r) printf("ok %u\n", r); else printf("fail\n");
        }
        /* ---------------------------------------------------------------- vgroups */
        else if (!strcmp(op, "vgnew")) {
            sscanf(L, "%*s %ld", &a[0]);
            vg[a[0]] = Vattach(fid, -1, "w");
            if (vg[a[0]] == FAIL) { printf("fail\n"); continue; }
            vgrefs[nvg++] = VQueryref(vg[a[0]]);
            printf("ok\n");
        }
        else if (!strcmp(op, "vgadd")) {
            sscanf(L, "%*s %ld %ld %ld %ld", &a[0], &a[1], &a[2], &a[3]);
            long ns = 0; int32 last = FAIL;
            for (long i = 0; i < a[3]; i++) { last = Vaddtagref(vg[a[0]], (int32)a[1], (int32)((a[2] + i) % 65535 + 1)); if (last != FAIL) ns++; }
            if (last != FAIL) printf("ok %ld %d\n", ns, last); else printf("fail %ld\n", ns);
        }
        else if (!strcmp(op, "vgn")) {
            sscanf(L, "%*s %ld", &a[0]);
            int32 r = Vntagrefs(vg[a[0]]);
            if (r != FAIL) printf("ok %d\n", r); else printf("fail\n");
        }
        else if (!strcmp(op, "vgsetname") || !strcmp(op, "vgsetclass")) {
            sscanf(L, "%*s %ld %ld", &a[0], &a[1]);
            int   isn = !strcmp(op, "vgsetname");
            char *s = mkname(a[1], isn ? 3 : 11);
            int32 r = isn ? Vsetname(vg[a[0]], s) : Vsetclass(vg[a[0]], s);
            free(s);
            printf("%s\n", r != FAIL ? "ok" : "fail");
        }
        else if (!strcmp(op, "vgname") || !strcmp(op, "vgclass")) {
            sscanf(L, "%*s %ld", &a[0]);
            int    isn = !strcmp(op, "vgname");
            uint16 l16 = 0;
            int32  r = isn ? Vgetnamelen(vg[a[0]], &l16) : Vgetclassnamelen(vg[a[0]], &l16);
            if (r == FAIL) { printf("fail\n"); continue; }
            char *s = calloc(1, 200000);
            r = isn ? Vgetname(vg[a[0]], s) : Vgetclass(vg[a[0]], s);
            if (r == FAIL || strlen(s) != l16 || !okname(s, l16, isn ? 3 : 11)) printf("fail len16=%u strlen=%zu\n", l16, strlen(s));
            else printf("ok %u\n", l16);
            free(s);
        }
        else if (!strcmp(op, "vgdetach")) {
            sscanf(L, "%*s %ld", &a[0]);
            int32 r = Vdetach(vg[a[0]]); vg[a[0]] = FAIL;
            printf("%s\n", r != FAIL ? "ok" : "fail");
        }
        else if (!strcmp(op, "vgattach")) {
            char m[8] = "r";
            sscanf(L, "%*s %ld %ld %7s", &a[0], &a[1], m);
            vg[a[0]] = (a[1] < nvg) ? Vattach(fid, vgrefs[a[1]], m) : FAIL;
            printf("%s\n", vg[a[0]] != FAIL ? "ok" : "fail");
        }
        /* ---------------------------------------------------------------- vdatas */
        else if (!strcmp(op, "vsnew")) {
            sscanf(L, "%*s %ld", &a[0]);
            vs[a[0]] = VSattach(fid, -1, "w");
            if (vs[a[0]] == FAIL) { printf("fail\n"); continue; }
            vsrefs[nvs++] = VSQueryref(vs[a[0]]);
            printf("ok\n");
        }
        else if (!strcmp(op, "vsfdefine")) {
            sscanf(L, "%*s %ld %ld %ld %ld %ld", &a[0], &a[1], &a[2], &a[3], &a[4]);
            char *fnm = malloc((size_t)a[2] + 64);
            fieldname(fnm, (int)a[1], (int)a[2]);
            int r = VSfdefine(vs[a[0]], fnm, (int32)a[3], (int32)a[4]);
            free(fnm);
            printf("%s\n", r != FAIL ? "ok" : "fail");
        }
        else if (!strcmp(op, "vssetfields")) {
            sscanf(L, "%*s %ld %4000s", &a[0], sarg);
            /* sarg: comma separated field indices ("P" = PX); "idx:len" gives the name length used at definition */
            char *list = malloc(600000), *q = list; *q = 0;
            for (char *tok = strtok(sarg, ","); tok; tok = strtok(NULL, ",")) {
                if (q != list) *q++ = ',';
                if (tok[0] == 'P') { strcpy(q, "PX"); q += 2; continue; }
                int idx = 0, nl = 0;
                if (sscanf(tok, "%d:%d", &idx, &nl) < 2) nl = 0;
                fieldname(q, idx, nl);
                q += strlen(q);
            }
            int r = VSsetfields(vs[a[0]], list);
            free(list);
            DYN_VWRITELIST *w = vswritelist(vs[a[0]]);
            printf("%s %d %u\n", r != FAIL ? "ok" : "fail", w ? w->n : -1, w ? (unsigned)w->ivsize : 0);
        }
        else if (!strcmp(op, "vswrite")) {
            sscanf(L, "%*s %ld %ld", &a[0], &a[1]);
            DYN_VWRITELIST *w = vswritelist(vs[a[0]]);
            size_t es = 0;
            if (w) for (int j = 0; j < w->n; j++) es += w->esize[j];
            uint8 *b = calloc((size_t)(a[1] > 0 ? a[1] : 1), es ? es : 1);
            int32 r = VSwrite(vs[a[0]], b, (int32)a[1], FULL_INTERLACE);
            free(b);
            if (r != FAIL) printf("ok %d\n", r); else printf("fail\n");
        }
        else if (!strcmp(op, "vswritebig")) {
            sscanf(L, "%*s %ld %ld", &a[0], &a[1]);
            DYN_VWRITELIST *w = vswritelist(vs[a[0]]);
            size_t es = 0;
            if (w) for (int j = 0; j < w->n; j++) es += w->esize[j];
            uint8 *b = calloc(1, es ? es : 1);
            int32 r = VSwrite(vs[a[0]], b, (int32)a[1], FULL_INTERLACE);
            free(b);
            if (r != FAIL) printf("ok %d\n", r); else printf("fail\n");
        }
        else if (!strcmp(op, "vsseek")) {
            sscanf(L, "%*s %ld %ld", &a[0], &a[1]);
            int32 r = VSseek(vs[a[0]], (int32)a[1]);
            if (r != FAIL) printf("ok %d\n", r); else printf("fail\n");
        }
        else if (!strcmp(op, "vsread")) {
            sscanf(L, "%*s %ld %ld", &a[0], &a[1]);
            DYN_VWRITELIST *w = vswritelist(vs[a[0]]);
            size_t es = 0;
            if (w) for (int j = 0; j < w->n; j++) es += w->esize[j];
            uint8 *b = calloc((size_t)(a[1] > 0 ? a[1] : 1), es ? es : 1);
            int32 r = VSread(vs[a[0]], b, (int32)a[1], FULL_INTERLACE);
            free(b);
            if (r != FAIL) printf("ok %d\n", r); else printf("fail\n");
        }
        else if (!strcmp(op, "vselts")) {
            sscanf(L, "%*s %ld", &a[0]);
            int32 r = VSelts(vs[a[0]]);
            if (r != FAIL) printf("ok %d\n", r); else printf("fail\n");
        }
        else if (!strcmp(op, "vssetname") || !strcmp(op, "vssetclass")) {
            sscanf(L, "%*s %ld %ld", &a[0], &a[1]);
            int   isn = !strcmp(op, "vssetname");
            char *s = mkname(a[1], isn ? 5 : 13);
            int32 r = isn ? VSsetname(vs[a[0]], s) : VSsetclass(vs[a[0]], s);
            free(s);
            printf("%s\n", r != FAIL ? "ok" : "fail");
        }
        else if (!strcmp(op, "vsname") || !strcmp(op, "vsclass")) {
            sscanf(L, "%*s %ld", &a[0]);
            int   isn = !strcmp(op, "vsname");
            char *s = calloc(1, 100000);
            int32 r = isn ? VSgetname(vs[a[0]], s) : VSgetclass(vs[a[0]], s);
            size_t l = strlen(s);
            if (r == FAIL || !okname(s, (long)l, isn ? 5 : 13)) printf("fail\n"); else printf("ok %zu\n", l);
            free(s);
        }
        else if (!strcmp(op, "vsfieldname")) {
            sscanf(L, "%*s %ld %ld %ld %ld", &a[0], &a[1], &a[2], &a[3]);   /* slot, position, defining idx, defining namelen */
            char *s = VFfieldname(vs[a[0]], (int32)a[1]);
            if (!s) { printf("fail\n"); continue; }
            char *e = malloc((size_t)a[3] + 64);
            fieldname(e, (int)a[2], (int)a[3]);
            size_t l = strlen(s);
            if (strncmp(s, e, l) != 0) printf("fail mismatch\n"); else printf("ok %zu\n", l);
            free(e);
        }
        else if (!strcmp(op, "vsdetach")) {
            sscanf(L, "%*s %ld", &a[0]);
            int32 r = VSdetach(vs[a[0]]); vs[a[0]] = FAIL;
            printf("%s\n", r != FAIL ? "ok" : "fail");
        }
        else if (!strcmp(op, "vsattach")) {
            char m[8] = "r";
            sscanf(L, "%*s %ld %ld %7s", &a[0], &a[1], m);
            vs[a[0]] = (a[1] < nvs) ? VSattach(fid, vsrefs[a[1]], m) : FAIL;
            printf("%s\n", vs[a[0]] != FAIL ? "ok" : "fail");
        }
        /* ---------------------------------------------------------------- SD */
        else if (!strcmp(op, "sdlimit")) {
            sscanf(L, "%*s %ld", &a[0]);
            struct rlimit rl; getrlimit(RLIMIT_NOFILE, &rl);
            rl.rlim_cur = (rlim_t)a[0];
            setrlimit(RLIMIT_NOFILE, &rl);
            printf("ok %d\n", NC_get_systemlimit());
        }
        else if (!strcmp(op, "sdstart") || !strcmp(op, "sdopen")) {
            sscanf(L, "%*s %ld", &a[0]);
            char p[700]; sdfile(p, (int)a[0]);
            sd[a[0]] = SDstart(p, !strcmp(op, "sdstart") ? DFACC_CREATE : DFACC_RDWR);
            printf("%s\n", sd[a[0]] != FAIL ? "ok" : "fail");
        }
        else if (!strcmp(op, "sdend")) {
            sscanf(L, "%*s %ld", &a[0]);
            int r = SDend(sd[a[0]]); sd[a[0]] = FAIL;
            printf("%s\n", r != FAIL ? "ok" : "fail");
        }
        else if (!strcmp(op, "sdcreate")) {
            sscanf(L, "%*s %ld %ld %ld", &a[0], &a[1], &a[2]);
            int32 dims[64];
            for (int i = 0; i < 64; i++) dims[i] = 1;
            char *s = mkname(a[1], 17);
            int32 id = SDcreate(sd[a[0]], s, DFNT_INT8, (int32)a[2], dims);
            free(s);
            if (id != FAIL) SDendaccess(id);
            printf("%s\n", id != FAIL ? "ok" : "fail");
        }
        else if (!strcmp(op, "sdinfo")) {
            sscanf(L, "%*s %ld", &a[0]);
            int32 nd = -1, na = -1;
            if (SDfileinfo(sd[a[0]], &nd, &na) == FAIL) printf("fail\n"); else printf("ok %d\n", nd);
        }
        else if (!strcmp(op, "sdname")) {
            sscanf(L, "%*s %ld %ld", &a[0], &a[1]);
            int32 id = SDselect(sd[a[0]], (int32)a[1]);
            if (id == FAIL) { printf("fail\n"); continue; }
            char *s = calloc(1, 70000); int32 rank = -1, dims[64], nt, na;
            if (SDgetinfo(id, s, &rank, dims, &nt, &na) == FAIL || !okname(s, (long)strlen(s), 17)) printf("fail\n");
            else printf("ok %zu %d\n", strlen(s), rank);
            free(s); SDendaccess(id);
        }
        else if (!strcmp(op, "sdattr") || !strcmp(op, "sdattrinfo")) {
            /* sdattr k obj a nt count | sdattrinfo k obj a   (obj: -1 file, i data set i, 1000+i first dimension of i) */
            sscanf(L, "%*s %ld %ld %ld %ld %ld", &a[0], &a[1], &a[2], &a[3], &a[4]);
            int32 sid = FAIL, id = FAIL;
            if (a[1] == -1) id = sd[a[0]];
            else {
                sid = SDselect(sd[a[0]], (int32)(a[1] % 1000));
                id  = (sid == FAIL) ? FAIL : (a[1] >= 1000 ? SDgetdimid(sid, 0) : sid);
            }
            char nm[32]; sprintf(nm, "A%ld", a[2]);
            if (id == FAIL) printf("fail noobject\n");
            else if (!strcmp(op, "sdattr")) {
                size_t nb = (a[4] > 0 && a[4] <= 1000000 ? (size_t)a[4] : 1) * 8;   /* see grattr2 */
                void *b = calloc(nb, 1);
                int r = SDsetattr(id, nm, (int32)a[3], (int32)a[4], b);
                free(b);
                printf("%s\n", r != FAIL ? "ok" : "fail");
            }
            else {
                int32 idx = SDfindattr(id, nm), nt = -1, cnt = -1; char an[300];
                if (idx == FAIL || SDattrinfo(id, idx, an, &nt, &cnt) == FAIL) printf("fail\n");
                else printf("ok %d %d\n", nt, cnt);
            }
            if (sid != FAIL) SDendaccess(sid);
        }
        else if (!strcmp(op, "grattr2") || !strcmp(op, "vgattr2") || !strcmp(op, "vsattr2")) {
            /* set a NEW attribute name with c1 values, set the same name again with c2 values, ask for the count */
            static int seq = 0;
            int  isgr = op[0] == 'g', isvg = op[1] == 'g' && !isgr;
            long slot = 0, nt, c1, c2;
            if (isgr) sscanf(L, "%*s %ld %ld %ld", &nt, &c1, &c2); else sscanf(L, "%*s %ld %ld %ld %ld", &slot, &nt, &c1, &c2);
            char nm[32]; sprintf(nm, "T%d", seq++);
            /* the buffer holds the larger of the two requests as far as they are plausible (<= 10^6 values); a
               request beyond that must be refused before the data is looked at (ASan reports it otherwise) */
            long big = 1;
            if (c1 > big && c1 <= 1000000) big = c1;
            if (c2 > big && c2 <= 1000000) big = c2;
            void *b = calloc((size_t)big * 8, 1);
            int r1, r2; int32 cnt = -1;
            if (isgr) {
                if (grid == FAIL) grid = GRstart(fid);
                r1 = GRsetattr(grid, nm, (int32)nt, (int32)c1, b);
                r2 = GRsetattr(grid, nm, (int32)nt, (int32)c2, b);
                int32 idx = GRfindattr(grid, nm), ant; char an[300];
                if (idx == FAIL || GRattrinfo(grid, idx, an, &ant, &cnt) == FAIL) cnt = -1;
            }
            else if (isvg) {
                r1 = Vsetattr(vg[slot], nm, (int32)nt, (int32)c1, b);
                r2 = Vsetattr(vg[slot], nm, (int32)nt, (int32)c2, b);
                intn idx = Vfindattr(vg[slot], nm); int32 ant, sz; char an[300];
                if (idx == FAIL || Vattrinfo(vg[slot], idx, an, &ant, &cnt, &sz) == FAIL) cnt = -1;
            }
            else {
                r1 = VSsetattr(vs[slot], _HDF_VDATA, nm, (int32)nt, (int32)c1, b);
                r2 = VSsetattr(vs[slot], _HDF_VDATA, nm, (int32)nt, (int32)c2, b);
                intn idx = VSfindattr(vs[slot], _HDF_VDATA, nm); int32 ant, sz; char an[300];
                if (idx == FAIL || VSattrinfo(vs[slot], _HDF_VDATA, idx, an, &ant, &cnt, &sz) == FAIL) cnt = -1;
            }
            free(b);
            printf("ok %d %d %d\n", r1 != FAIL, r2 != FAIL, cnt);
        }
        else if (!strcmp(op, "sdfill")) {
            /* sdfill k n: n more data sets of rank 1 with a 6-character name */
            sscanf(L, "%*s %ld %ld", &a[0], &a[1]);
            int32 dims[1] = {1}; long okc = 0; char *nm = mkname(6, 17);
            for (long i = 0; i < a[1]; i++) {
                int32 id = SDcreate(sd[a[0]], nm, DFNT_INT8, 1, dims);
                if (id != FAIL) { okc++; SDendaccess(id); }
            }
            free(nm);
            printf("ok %ld\n", okc);
        }
        else if (!strcmp(op, "sdattrfill")) {
            /* sdattrfill k obj n: n new one-byte attributes F<i> on data set obj */
            sscanf(L, "%*s %ld %ld %ld", &a[0], &a[1], &a[2]);
            static long fseq = 0;
            int32 sid = SDselect(sd[a[0]], (int32)a[1]); long okc = 0; int8 v = 7;
            if (sid == FAIL) { printf("fail noobject\n"); continue; }
            for (long i = 0; i < a[2]; i++) {
                char nm[32]; sprintf(nm, "F%ld", fseq++);
                if (SDsetattr(sid, nm, DFNT_INT8, 1, &v) != FAIL) okc++;
            }
            SDendaccess(sid);
            printf("ok %ld\n", okc);
        }
        else if (!strcmp(op, "lonevs") || !strcmp(op, "lonevg")) {
            /* lonevs R / lonevg R: push the highest ref to R-1, create a Vdata / Vgroup (it gets ref R), detach it, and
               look for it in VSlone / Vlone and in the VSgetid / Vgetid iteration -> ok ref inlone initer */
            sscanf(L, "%*s %ld", &a[0]);
            int isvs = op[5] == 's';
            Hputelement(fid, 777, (uint16)(a[0] - 1), (const uint8 *)"x", 1);
            int32 ref = FAIL;
            if (isvs) {
                int32 k = VSattach(fid, -1, "w");
                if (k != FAIL) { ref = VSQueryref(k); VSfdefine(k, "A", DFNT_INT8, 1); VSsetfields(k, "A"); int8 z = 1; VSwrite(k, (uint8 *)&z, 1, FULL_INTERLACE); VSsetname(k, "lone"); VSdetach(k); }
            }
            else {
                int32 k = Vattach(fid, -1, "w");
                if (k != FAIL) { ref = VQueryref(k); Vsetname(k, "lone"); Vdetach(k); }
            }
            if (ref == FAIL) { printf("fail nocreate\n"); continue; }
            int32 *arr = calloc(70000, sizeof(int32));
            int32 n = isvs ? VSlone(fid, arr, 70000) : Vlone(fid, arr, 70000);
            int inl = 0, initer = 0;
            for (int32 i = 0; i < n && i < 70000; i++) if (arr[i] == ref) inl = 1;
            free(arr);
            int32 id = -1; long guard = 0;
            while ((id = isvs ? VSgetid(fid, id) : Vgetid(fid, id)) != FAIL && guard++ < 200000) if (id == ref) initer = 1;
            printf("ok %d %d %d\n", ref, inl, initer);
        }
        else if (!strcmp(op, "hlhole")) {
            /* hlhole tag ref blen: linked-block element, blocks 0 and 2 written, block 1 a hole; the file is filled to
               within blen/2 of 2^31-1; a write into the hole must be refused; then the hole must still read as zeros
               and block 0 as written -> ok wrote readlen allzero firstok */
            sscanf(L, "%*s %ld %ld %ld", &a[0], &a[1], &a[2]);
            int32 blen = (int32)a[2];
            int32 aid = HLcreate(fid, (uint16)a[0], (uint16)a[1], blen, 4);
            if (aid == FAIL) { printf("fail nocreate\n"); continue; }
            Hwrite(aid, 4, "abcd");
            Hseek(aid, 2 * blen, DF_START);
            Hwrite(aid, 4, "wxyz");
            filerec_t *fr = HAatom_object(fid);
            int32 fill = INT32_MAX - fr->f_end_off - blen / 2;
            int32 faid = Hstartwrite(fid, 778, (uint16)a[1], fill);
            if (faid != FAIL) Hendaccess(faid);
            Hseek(aid, blen + 1, DF_START);
            int32 w = Hwrite(aid, 4, "HOLE");
            uint8 rb[8]; memset(rb, 0x55, sizeof rb);
            int32 rl = (Hseek(aid, blen, DF_START) == FAIL) ? -2 : Hread(aid, 8, rb);
            int allz = 1; for (int i = 0; i < 8; i++) if (rb[i] != 0) allz = 0;
            uint8 fb[4] = {0};
            int fok = (Hseek(aid, 0, DF_START) != FAIL && Hread(aid, 4, fb) == 4 && !memcmp(fb, "abcd", 4));
            Hendaccess(aid);
            printf("ok %d %d %d %d\n", w == FAIL ? 0 : w, rl, allz, fok);
        }
        else if (!strcmp(op, "sdmax")) {
            sscanf(L, "%*s %ld", &a[0]);
            int r = SDreset_maxopenfiles((int)a[0]);
            if (r != FAIL) printf("ok %d\n", r); else printf("fail\n");
        }
        else if (!strcmp(op, "sdgetmax")) {
            int c = -1, s = -1;
            SDget_maxopenfiles(&c, &s);
            printf("ok %d %d\n", c, s);
        }
        else if (!strcmp(op, "sdnopen")) {
            printf("ok %d\n", SDget_numopenfiles());
        }
        /* ---------------------------------------------------------------- function level */
        else if (!strcmp(op, "fn_getdiskblock")) {
            sscanf(L, "%*s %ld %ld", &a[0], &a[1]);
            static int32 fnf = FAIL;
            if (fnf == FAIL) { char p[700]; sprintf(p, "%s/craft.hdf", wd); fnf = Hopen(p, DFACC_CREATE, 16); Hcache(fnf, TRUE); }
            filerec_t *fr = HAatom_object(fnf);
            int32 keep = fr->f_end_off;
            fr->f_end_off = (int32)a[0];
            int32 off = HPgetdiskblock(fr, (int32)a[1], FALSE);
            int32 e = fr->f_end_off;
            fr->f_end_off = keep;      /* the file itself is never extended: caching is on, the record is restored */
            if (off != FAIL) printf("ok %d %d\n", off, e); else printf("fail %d\n", e);
        }
        else if (!strcmp(op, "fn_vinsertpair")) {
            sscanf(L, "%*s %ld", &a[0]);
            VGROUP g; memset(&g, 0, sizeof g);
            g.nvelt = (uint16)a[0]; g.msize = (int)a[0] + 1;
            g.tag = calloc((size_t)g.msize * 2 + 4, sizeof(uint16)); g.ref = calloc((size_t)g.msize * 2 + 4, sizeof(uint16));
            int32 r = vinsertpair(&g, 1000, 7);
            if (r != FAIL) printf("ok %d %u\n", r, (unsigned)g.nvelt); else printf("fail %u\n", (unsigned)g.nvelt);
            free(g.tag); free(g.ref);
        }
        else if (!strcmp(op, "fn_endoff")) {
            long nd = 0; int pos = 0, adv = 0;
            sscanf(L, "%*s %ld%n", &nd, &pos);
            char p[700]; sprintf(p, "%s/craft2.hdf", wd);
            FILE *fp = fopen(p, "wb");
            uint8 hdr[10] = {0x0e, 0x03, 0x13, 0x01, 0, 0, 0, 0, 0, 0};
            long ndds = nd < 1 ? 1 : nd;
            hdr[4] = (uint8)(ndds >> 8); hdr[5] = (uint8)ndds;
            fwrite(hdr, 1, 10, fp);
            for (long i = 0; i < ndds; i++) {
                long o = -1, l = -1; uint8 dd[12];
                uint16 t = DFTAG_NULL, r = 0;
                if (i < nd && sscanf(L + pos, "%ld %ld%n", &o, &l, &adv) == 2) { pos += adv; t = 500; r = (uint16)(i + 1); }
                dd[0] = t >> 8; dd[1] = (uint8)t; dd[2] = r >> 8; dd[3] = (uint8)r;
                uint32 uo = (uint32)(int32)o, ul = (uint32)(int32)l;
                dd[4] = uo >> 24; dd[5] = uo >> 16; dd[6] = uo >> 8; dd[7] = uo;
                dd[8] = ul >> 24; dd[9] = ul >> 16; dd[10] = ul >> 8; dd[11] = ul;
                fwrite(dd, 1, 12, fp);
            }
            fclose(fp);
            int32 f = Hopen(p, DFACC_READ, 0);
            if (f == FAIL) { printf("fail\n"); unlink(p); continue; }
            filerec_t *fr = HAatom_object(f);
            printf("ok %d\n", fr->f_end_off);
            Hclose(f); unlink(p);
        }
        else
            printf("badop %s\n", op);
        fflush(stdout);
    }
    /* leave nothing behind (the sparse files in particular) */
    cleanup();
}

int main(int argc, char **argv)
{
    if (argc < 3) return 2;
    wd = argv[1];
    FILE *f = fopen(argv[2], "r");
    if (!f) return 2;
    static char buf[70000];
    char **lines = NULL; long *lnos = NULL; long n = 0, cap = 0, ln = 0;
    while (fgets(buf, sizeof buf, f)) {
        ln++;
        if (n == cap) { cap = cap ? cap * 2 : 1024; lines = realloc(lines, (size_t)cap * sizeof *lines); lnos = realloc(lnos, (size_t)cap * sizeof *lnos); }
        lines[n] = strdup(buf); lnos[n] = ln; n++;
    }
    fclose(f);
    long i = 0;
    int  tmo = getenv("DRIVE_LIMITS_TIMEOUT") ? atoi(getenv("DRIVE_LIMITS_TIMEOUT")) : 60;
    int  hangs = 0;
    if (tmo < 1) tmo = 60;
    while (i < n) {
        long j = i + 1;
        while (j < n && strncmp(lines[j], "history", 7) != 0) j++;
        fflush(stdout);
        if (hangs >= 2) { /* do not let a library that hangs on every history block the run: the rest is not run */
            printf("%ld notrun\n", lnos[i]);
            i = j;
            continue;
        }
        pid_t pid = fork();
        if (pid == 0) {
            setvbuf(stdout, NULL, _IOLBF, 0);   /* every finished line is out before anything can hang or crash */
            signal(SIGALRM, on_alarm);
            alarm((unsigned)tmo);
            run_history(lines + i, lnos + i, j - i);
            alarm(0);
            fflush(stdout);
            _exit(0);
        }
        int st = 0;
        waitpid(pid, &st, 0);
        if (WIFEXITED(st) && WEXITSTATUS(st) == 124) { hangs++; cleanup(); }
        else if (!(WIFEXITED(st) && WEXITSTATUS(st) == 0)) {
            int code = WIFEXITED(st) ? WEXITSTATUS(st) : 128 + WTERMSIG(st);
            printf("\n%ld crash %d\n", lnos[j - 1], code);
            cleanup();
        }
        i = j;
    }
    return 0;
}
