/* C18 function-level correspondence: calls hrepack's option handling directly (the real parse_comp, parse_chunk,
 * parse_number, hrepack_addcomp, hrepack_addchunk, print_options, options_get_info), by including the tool's
 * sources.  One case per input line:
 *
 *   O <k> { <t|c|m> <hex> }*k  Q <n> { <rank> <pathhex> <flags> <len,len..|-> <ctype> <cinfo> <comp> <info> }*n
 *
 * Output (lines starting with "R "; everything else is hrepack's own chatter):
 *   R build=<ok|err> all_chunk=.. all_comp=.. comp_g=t,i chunk_g=rank:l,l threshold=.. consistent=<0|1> tbl=<n>
 *   R e <pathhex> <comp.type> <comp.info> <chunk.rank> <lens|->
 *   R q <ret> <flags> <lens|-> <ctype> <cinfo> <comp> <info>
 *   R end
 */
#include <stdio.h>
#include <stdlib.h>
#include <string.h>

#include "hdf.h"
#include "mfhdf.h"
#include "hrepack.h"
#include "hrepack_parse.h"
#include "hrepack_opttable.h"
#include "hrepack_utils.h"

#include "hrepack_parse.c"
#include "hrepack_opttable.c"
#include "hrepack_utils.c"
#include "hrepack.c"

/* hrepack.c refers to the traversal; it is never called here */
int
list_main(const char *infname, const char *outfname, options_t *options)
{
    (void)infname;
    (void)outfname;
    (void)options;
    return FAIL;
}

static int
hexval(int c)
{
    if (c >= '0' && c <= '9')
        return c - '0';
    if (c >= 'a' && c <= 'f')
        return c - 'a' + 10;
    return 0;
}

static char *
unhex(const char *h)
{
    size_t n = strlen(h), i;
    char  *o = calloc(n / 2 + 2, 1);
    if (strcmp(h, "-") == 0)
        return o;
    for (i = 0; i + 1 < n; i += 2)
        o[i / 2] = (char)(hexval(h[i]) * 16 + hexval(h[i + 1]));
    return o;
}

static void
puthex(const char *s)
{
    if (!*s)
        putchar('-');
    for (; *s; s++)
        printf("%02x", (unsigned char)*s);
}

static void
putlens(const int32 *l, int n)
{
    int i;
    if (n <= 0)
        putchar('-');
    for (i = 0; i < n; i++)
        printf("%s%d", i ? "," : "", (int)l[i]);
}

int
main(int argc, char **argv)
{
    FILE *fp = argc > 1 ? fopen(argv[1], "r") : stdin;
    static char line[1 << 16];
    if (!fp)
        return 2;
    setvbuf(stdout, NULL, _IOFBF, 1 << 16);
    while (fgets(line, sizeof line, fp)) {
        char     *tok[4096];
        int       nt = 0, p = 0, k, i, ok = 1;
        options_t options;
        char     *s = strtok(line, " \t\r\n");
        while (s && nt < 4096) {
            tok[nt++] = s;
            s         = strtok(NULL, " \t\r\n");
        }
        if (nt < 2 || strcmp(tok[0], "O") != 0)
            continue;
        hrepack_init(&options, 0);
        k = atoi(tok[1]);
        p = 2;
        for (i = 0; i < k && ok; i++, p += 2) {
            char *arg = unhex(tok[p + 1]);
            if (tok[p][0] == 't') {
                if (hrepack_addcomp(arg, &options) < 0)
                    ok = 0;
            }
            else if (tok[p][0] == 'c') {
                if (hrepack_addchunk(arg, &options) < 0)
                    ok = 0;
            }
            else {
                options.threshold = parse_number(arg);
                if (options.threshold == -1)
                    ok = 0;
            }
            free(arg);
        }
        p = 2 + 2 * k;
        if (!ok) {
            printf("\nR build=err\nR end\n");
            hrepack_end(&options);
            continue;
        }
        {
            int c = print_options(&options) < 0 ? 0 : 1;
            printf("\nR build=ok all_chunk=%d all_comp=%d comp_g=%d,%d chunk_g=%d:", options.all_chunk, options.all_comp,
                   options.all_comp ? (int)options.comp_g.type : 0, options.all_comp ? options.comp_g.info : 0,
                   options.all_chunk ? options.chunk_g.rank : 0);
            putlens(options.chunk_g.chunk_lengths, options.all_chunk ? options.chunk_g.rank : 0);
            printf("\nR threshold=%d consistent=%d tbl=%d\n", options.threshold, c, options.op_tbl->nelems);
        }
        for (i = 0; i < options.op_tbl->nelems; i++) {
            pack_info_t *e = &options.op_tbl->objs[i];
            printf("R e ");
            puthex(e->objpath);
            printf(" %d %d %d ", (int)e->comp.type, e->comp.info, e->chunk.rank);
            putlens(e->chunk.chunk_lengths, e->chunk.rank);
            printf("\n");
        }
        if (p < nt && strcmp(tok[p], "Q") == 0) {
            int nq = atoi(tok[p + 1]);
            p += 2;
            for (i = 0; i < nq && p + 7 < nt + 0; i++, p += 8) {
                int           rank = atoi(tok[p]);
                char         *path = unhex(tok[p + 1]);
                int32         flags = atoi(tok[p + 2]);
                HDF_CHUNK_DEF cd;
                int           info = atoi(tok[p + 7]), szip_mode = 0, ret, j;
                comp_coder_t  comp = (comp_coder_t)atoi(tok[p + 6]);
                int32         dims[H4_MAX_VAR_DIMS];
                const char   *ls = tok[p + 3];
                memset(&cd, 0, sizeof cd);
                memset(dims, 0, sizeof dims);
                for (j = 0; j < rank && *ls && strcmp(tok[p + 3], "-") != 0; j++) {
                    cd.chunk_lengths[j] = (int32)strtol(ls, (char **)&ls, 10);
                    if (*ls == ',')
                        ls++;
                }
                cd.comp.comp_type           = atoi(tok[p + 4]);
                cd.comp.cinfo.deflate.level = atoi(tok[p + 5]);
                ret = options_get_info(&options, &flags, &cd, &info, &szip_mode, &comp, rank, path, 1, dims, DFNT_INT32);
                if (ret == FAIL)
                    printf("\nR q -1\n");
                else {
                    printf("\nR q %d %d ", ret, (int)flags);
                    putlens(cd.chunk_lengths, rank);
                    printf(" %d %d %d %d\n", (int)cd.comp.comp_type, cd.comp.cinfo.deflate.level, (int)comp, info);
                }
                free(path);
            }
        }
        printf("R end\n");
        hrepack_end(&options);
    }
    return 0;
}
