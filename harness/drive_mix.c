/* C15 harness: writes objects with one programming interface and reads them back with every other interface
 * able to address them.   usage: drive_mix <workdir> <case-file>
 *
 * One case per input line, run in its own child process (the single-file interfaces keep static state):
 *   <id> sds <writer> <pre> <edits> <pad> <n> { <rank> <d0|uN> .. <nt> <hex> <meta> }*n      writer: dfsd | sd | nc
 *        pre: 8-bit images written into the file first; edits: "-" or indices of datasets whose attributes a later
 *        SD session changes; meta: "-" or s<dim>=<hex>,t=<label>;<unit>;<format>,r=<max>;<min>
 *   <id> img <writer> <pre> <edits> <pad> <ril> <n> { <x> <y> <ncomp> <nt> <il> <comp> <hex> <palhex|-> }*n     writer: df | gr
 *   <id> dfsdseq <nops> { D rank dims.. | N nt | S dim hex|- | T l u f | X dim l u f | R max min | A hex | C }*   DFSD calls as given
 *   <id> pal <n> <hex768>*n                                         DFPaddpal
 *   <id> ann <writer> <decoy> <n> { <fl|fd|ol|od> <tag> <ref> <hex> }*n     writer: dfan | an
 *   <id> raw <views> <ril> <n> { <tag> <ref> <hex|-> }*n            Hputelement of model-made records
 *   <id> legacy <path>                                              checked-in file, every reader
 * Output: "<id> <view> ..." lines (see the rd_* functions); "<id> end" closes a case; "<id> crash <status>" when
 * the child died.  Values are printed as the bytes the reading call put into the caller's buffer.
 */
#include <stdio.h>
#include <stdlib.h>
#include <string.h>
#include <unistd.h>
#include <sys/wait.h>
#include "hdf.h"
#include "mfhdf.h"
#include "nc_priv.h"

static const char *ID;      /* case id */
static int         PAD;     /* how much larger than the object the reader's array is: 2 bits per dimension, bits 12-13 = call */
static char        FN[600]; /* file of the current case */

static int unhex(const char *s, unsigned char *out)
{
    int n = 0;
    if (s[0] == '-') return 0;
    while (s[0] && s[1]) {
        unsigned v;
        sscanf(s, "%2x", &v);
        out[n++] = (unsigned char)v;
        s += 2;
    }
    return n;
}
static void phex(const unsigned char *b, long n)
{
    if (n <= 0) { printf(" -"); return; }
    printf(" ");
    for (long i = 0; i < n; i++) printf("%02x", b[i]);
}
static long ntsize(int32 nt) { return DFKNTsize((nt | DFNT_NATIVE) & ~DFNT_LITEND); }

#define MAXTOK 4096
static char *tok[MAXTOK];
static int   ntok, cur;
static char *next(void) { return cur < ntok ? tok[cur++] : "0"; }
static long  nextl(void) { return atol(next()); }

/* ------------------------------------------------------------------ SDS family: writers */
typedef struct {
    int rank; int32 dims[8]; int unl; int32 nt; unsigned char *data; long nbytes;
    unsigned char *scale[8];            /* dimension scales (NULL = none) */
    int   hasstrs; char strs[3][64];    /* label, unit, format of the data */
    int   hasrange; unsigned char rmax[8], rmin[8];
    int   hasdstrs[8]; char dstrs[8][3][64];   /* label, unit, format of a dimension */
    char  dname[8][64];                       /* user name of a dimension ("" = none) */
} ds_t;

static void unhexs(const char *h, char *out) { if (h[0] == '_') { out[0] = 0; return; } int n = unhex(h, (unsigned char *)out); out[n] = 0; }

static void parse_ds(ds_t *d)
{
    d->rank = (int)nextl();
    d->unl  = 0;
    for (int i = 0; i < d->rank; i++) {
        char *t = next();
        if (t[0] == 'u') { d->unl = 1; t++; }
        d->dims[i] = atoi(t);
    }
    d->nt       = (int32)nextl();
    char *h     = next();
    d->data     = malloc(strlen(h) / 2 + 8);
    d->nbytes   = unhex(h, d->data);
    /* metadata token: "-" or items separated by ',':  s<dim>=<hex>  t=<label>;<unit>;<format>  r=<max>;<min>
       d<dim>=<label>;<unit>;<format>  n<dim>=<name> */
    char *m = next();
    if (m[0] != '-') {
        char *copy = strdup(m), *save = NULL;
        for (char *it = strtok_r(copy, ",", &save); it; it = strtok_r(NULL, ",", &save)) {
            if (it[0] == 's') {
                int dim = atoi(it + 1);
                char *v = strchr(it, '=') + 1;
                d->scale[dim] = malloc(strlen(v) / 2 + 8);
                unhex(v, d->scale[dim]);
            }
            else if (it[0] == 't') {
                char *a = it + 2, *b = strchr(a, ';'); *b++ = 0;
                char *c = strchr(b, ';'); *c++ = 0;
                d->hasstrs = 1;
                unhexs(a, d->strs[0]); unhexs(b, d->strs[1]); unhexs(c, d->strs[2]);
            }
            else if (it[0] == 'd') {
                int   dim = atoi(it + 1);
                char *a = strchr(it, '=') + 1, *b = strchr(a, ';'); *b++ = 0;
                char *c = strchr(b, ';'); *c++ = 0;
                d->hasdstrs[dim] = 1;
                unhexs(a, d->dstrs[dim][0]); unhexs(b, d->dstrs[dim][1]); unhexs(c, d->dstrs[dim][2]);
            }
            else if (it[0] == 'n') {
                int dim = atoi(it + 1);
                unhexs(strchr(it, '=') + 1, d->dname[dim]);
            }
            else if (it[0] == 'r') {
                char *a = it + 2, *b = strchr(a, ';'); *b++ = 0;
                d->hasrange = 1;
                unhex(a, d->rmax); unhex(b, d->rmin);
            }
        }
    }
}

static int nc_of_dfnt(int32 nt)
{
    switch (nt) {
        case DFNT_INT8: return NC_BYTE;
        case DFNT_CHAR8: return NC_CHAR;
        case DFNT_INT16: return NC_SHORT;
        case DFNT_INT32: return NC_LONG;
        case DFNT_FLOAT32: return NC_FLOAT;
        case DFNT_FLOAT64: return NC_DOUBLE;
    }
    return -1;
}

static int file_exists(const char *fn) { return access(fn, F_OK) == 0; }

/* objects of the other family written first, so that tag/ref numbering of the case's objects is shifted */
static void wr_pre(int pre, int images)
{
    for (int k = 0; k < pre; k++) {
        unsigned char b = (unsigned char)(0xE0 + k);
        int32 one = 1;
        int   r;
        if (images) { DFR8setpalette(NULL); r = DFR8addimage(FN, &b, 1, 1, 0); }
        else { DFSDclear(); DFSDsetdims(1, &one); DFSDsetNT(DFNT_UINT8); r = DFSDadddata(FN, 1, &one, &b); }
        printf("%s w pre %d %d\n", ID, k, r);
    }
}

static void wr_sds(const char *writer, int n, int pre, const char *edits)
{
    ds_t *ds = calloc(n, sizeof(ds_t));
    for (int k = 0; k < n; k++) parse_ds(&ds[k]);
    wr_pre(pre, 1);
    if (!strcmp(writer, "dfsd")) {
        for (int k = 0; k < n; k++) {
            DFSDclear();
            int r1 = DFSDsetdims(ds[k].rank, ds[k].dims);
            int r2 = DFSDsetNT(ds[k].nt);
            int any = 0;
            for (int i = 0; i < ds[k].rank; i++) if (ds[k].scale[i]) any = 1;
            for (int i = 0; any && i < ds[k].rank; i++)    /* NULL: this dimension has no scale */
                if (DFSDsetdimscale(i + 1, ds[k].dims[i], ds[k].scale[i]) == FAIL) r2 = -1;
            for (int i = 0; i < ds[k].rank; i++)
                if (ds[k].hasdstrs[i] && DFSDsetdimstrs(i + 1, ds[k].dstrs[i][0], ds[k].dstrs[i][1], ds[k].dstrs[i][2]) == FAIL) r2 = -1;
            if (ds[k].hasstrs && DFSDsetdatastrs(ds[k].strs[0], ds[k].strs[1], ds[k].strs[2], "") == FAIL) r2 = -1;
            if (ds[k].hasrange && DFSDsetrange(ds[k].rmax, ds[k].rmin) == FAIL) r2 = -1;
            int r3 = DFSDadddata(FN, ds[k].rank, ds[k].dims, ds[k].data);
            printf("%s w dfsd %d %d %d %d ref=%d\n", ID, k, r1, r2, r3, (int)DFSDlastref());
        }
    }
    else if (!strcmp(writer, "sd")) {
        int32 sd = SDstart(FN, file_exists(FN) ? DFACC_RDWR : DFACC_CREATE);
        for (int k = 0; k < n; k++) {
            char  name[32];
            int32 dims[8], start[8] = {0}, edges[8];
            sprintf(name, "v%d", k);
            for (int i = 0; i < ds[k].rank; i++) { dims[i] = edges[i] = ds[k].dims[i]; }
            if (ds[k].unl) dims[0] = SD_UNLIMITED;
            int32 s  = SDcreate(sd, name, ds[k].nt, ds[k].rank, dims);
            int   r1 = SDwritedata(s, start, NULL, edges, ds[k].data);
            for (int i = 0; i < ds[k].rank; i++)
                if (ds[k].dname[i][0] && SDsetdimname(SDgetdimid(s, i), ds[k].dname[i]) == FAIL) r1 = -1;
            for (int i = 0; i < ds[k].rank; i++)
                if (ds[k].scale[i] && SDsetdimscale(SDgetdimid(s, i), ds[k].dims[i], ds[k].nt, ds[k].scale[i]) == FAIL) r1 = -1;
            for (int i = 0; i < ds[k].rank; i++)
                if (ds[k].hasdstrs[i] && SDsetdimstrs(SDgetdimid(s, i), ds[k].dstrs[i][0], ds[k].dstrs[i][1], ds[k].dstrs[i][2]) == FAIL) r1 = -1;
            if (ds[k].hasstrs && SDsetdatastrs(s, ds[k].strs[0], ds[k].strs[1], ds[k].strs[2], NULL) == FAIL) r1 = -1;
            if (ds[k].hasrange && SDsetrange(s, ds[k].rmax, ds[k].rmin) == FAIL) r1 = -1;
            int   r2 = SDendaccess(s);
            printf("%s w sd %d %d %d %d\n", ID, k, s == FAIL ? -1 : 0, r1, r2);
        }
        printf("%s w sdend %d\n", ID, (int)SDend(sd));
        /* a later session that only touches the metadata of some datasets (their descriptions are rewritten) */
        if (edits[0] != '-') {
            sd = SDstart(FN, DFACC_RDWR);
            char *copy = strdup(edits), *save = NULL;
            for (char *it = strtok_r(copy, ",", &save); it; it = strtok_r(NULL, ",", &save)) {
                char name[32];
                sprintf(name, "v%d", atoi(it));
                int32 idx = SDnametoindex(sd, name), val = 77 + atoi(it);
                int32 s   = SDselect(sd, idx);
                int   r1  = SDsetattr(s, "later", DFNT_INT32, 1, &val);
                int   r2  = SDendaccess(s);
                printf("%s w sdedit %s %d %d\n", ID, it, r1, r2);
            }
            printf("%s w sdend2 %d\n", ID, (int)SDend(sd));
        }
    }
    else if (!strcmp(writer, "nc")) {
        ncopts   = 0;
        int cdf  = nccreate(FN, NC_CLOBBER);
        int *var = calloc(n, sizeof(int));
        for (int k = 0; k < n; k++) {
            int  dimids[8];
            char name[32];
            for (int i = 0; i < ds[k].rank; i++) {
                sprintf(name, "d%d_%d", k, i);
                dimids[i] = ncdimdef(cdf, name, (i == 0 && ds[k].unl) ? NC_UNLIMITED : (long)ds[k].dims[i]);
            }
            sprintf(name, "v%d", k);
            var[k] = ncvardef(cdf, name, nc_of_dfnt(ds[k].nt), ds[k].rank, dimids);
        }
        int re = ncendef(cdf);
        for (int k = 0; k < n; k++) {
            long start[8] = {0}, count[8];
            for (int i = 0; i < ds[k].rank; i++) count[i] = ds[k].dims[i];
            int r1 = ncvarput(cdf, var[k], start, count, ds[k].data);
            printf("%s w nc %d %d %d %d\n", ID, k, var[k] < 0 ? -1 : 0, re, r1);
        }
        printf("%s w ncclose %d\n", ID, ncclose(cdf));
    }
    else printf("%s w badwriter\n", ID);
}

/* ------------------------------------------------------------------ SDS family: readers */
static void rd_sds_dfsd(const char *fn)
{
    int   n = DFSDndatasets((char *)fn);
    printf("%s dfsd n %d\n", ID, n);
    DFSDrestart();
    for (int k = 0; k < n + 2; k++) {
        int   rank;
        int32 dims[16], nt = 0;
        if (DFSDgetdims(fn, &rank, dims, 16) == FAIL) break;
        DFSDgetNT(&nt);
        long ne = 1;
        for (int i = 0; i < rank; i++) ne *= dims[i];
        long           nb  = ne * ntsize(nt);
        unsigned char *buf = malloc(nb > 0 ? nb : 1);
        int            r   = DFSDgetdata(fn, rank, dims, buf);
        printf("%s dfsd %d %d", ID, k, rank);
        for (int i = 0; i < rank; i++) printf(" %d", (int)dims[i]);
        printf(" %d", (int)nt);
        if (r == FAIL) printf(" fail\n"); else { phex(buf, nb); printf("\n"); }
        free(buf);
        /* metadata of the same dataset: dimension scales, strings, range */
        for (int i = 0; i < rank; i++) {
            long           sb = (long)dims[i] * ntsize(nt);
            unsigned char *sc = malloc(sb > 0 ? sb : 1);
            printf("%s dfsdmeta %d scale %d", ID, k, i);
            if (DFSDgetdimscale(i + 1, dims[i], sc) == FAIL) printf(" none\n"); else { phex(sc, sb); printf("\n"); }
            free(sc);
        }
        for (int i = 0; i < rank; i++) {
            char dl[300] = "", du[300] = "", df[300] = "";
            printf("%s dfsdmeta %d dstrs %d", ID, k, i);
            if (DFSDgetdimstrs(i + 1, dl, du, df) == FAIL) printf(" fail\n");
            else { phex((unsigned char *)dl, strlen(dl)); phex((unsigned char *)du, strlen(du)); phex((unsigned char *)df, strlen(df)); printf("\n"); }
        }
        char l[300] = "", u[300] = "", f[300] = "", c[300] = "";
        if (DFSDgetdatastrs(l, u, f, c) != FAIL) {
            printf("%s dfsdmeta %d strs", ID, k);
            phex((unsigned char *)l, strlen(l)); phex((unsigned char *)u, strlen(u)); phex((unsigned char *)f, strlen(f));
            printf("\n");
        }
        unsigned char mx[16], mn[16];
        printf("%s dfsdmeta %d range", ID, k);
        if (DFSDgetrange(mx, mn) == FAIL) printf(" none\n"); else { phex(mx, ntsize(nt)); phex(mn, ntsize(nt)); printf("\n"); }
    }
}

/* the same datasets read into a caller's array that is larger than the dataset (PAD): the values must land at the
 * array's own strides and nothing else of the array may change */
static void rd_sds_dfsd_pad(const char *fn)
{
    int n = DFSDndatasets((char *)fn);
    DFSDrestart();
    for (int k = 0; k < n + 2; k++) {
        int   rank;
        int32 dims[16], adims[16], one[16], nt = 0;
        if (DFSDgetdims(fn, &rank, dims, 16) == FAIL) break;
        DFSDgetNT(&nt);
        long sz = ntsize(nt), ne = 1, na = 1;
        for (int i = 0; i < rank; i++) {
            adims[i] = dims[i] + (i < 6 ? ((PAD >> (2 * i)) & 3) : 0);
            one[i]   = 1;
            ne *= dims[i];
            na *= adims[i];
        }
        unsigned char *big = malloc(na * sz + 1), *out = malloc(ne * sz + 1);
        memset(big, 0xA5, na * sz);
        int mode = (PAD >> 12) & 3, r;
        if (mode == 1) r = DFSDgetslice(fn, one, dims, big, adims);
        else if (mode == 2) r = DFSDreadslab(fn, one, dims, one, big, adims);
        else r = DFSDgetdata(fn, rank, adims, big);
        if (mode == 1 || mode == 2) {       /* consume the dataset so that the next DFSDgetdims moves on */
            unsigned char *tmp = malloc(ne * sz + 1);
            DFSDgetdata(fn, rank, dims, tmp);
            free(tmp);
        }
        /* pick the dataset out of the array at the array's strides; count array bytes outside it that changed */
        unsigned char *mark = calloc(na * sz + 1, 1);
        for (long e = 0; e < ne; e++) {
            long rem = e, off = 0, mul = 1;
            for (int i = rank - 1; i >= 0; i--) { off += (rem % dims[i]) * mul; mul *= adims[i]; rem /= dims[i]; }
            memcpy(out + e * sz, big + off * sz, sz);
            memset(mark + off * sz, 1, sz);
        }
        long touched = 0;
        for (long b = 0; b < na * sz; b++) if (!mark[b] && big[b] != 0xA5) touched++;
        printf("%s dfsdp %d %d", ID, k, rank);
        for (int i = 0; i < rank; i++) printf(" %d", (int)dims[i]);
        printf(" %d", (int)nt);
        if (r == FAIL) printf(" fail\n"); else { phex(out, ne * sz); printf(touched ? " padbad\n" : " padok\n"); }
        free(big); free(out); free(mark);
    }
}

static void rd_sds_sd(const char *fn, const char *view)
{
    int32 sd = SDstart(fn, DFACC_READ);
    if (sd == FAIL) { printf("%s %s fail\n", ID, view); return; }
    int32 nds = 0, nat = 0;
    SDfileinfo(sd, &nds, &nat);
    int k = 0;
    for (int i = 0; i < nds; i++) {
        int32 s = SDselect(sd, i);
        if (s == FAIL) { printf("%s %s selectfail %d\n", ID, view, i); continue; }
        if (SDiscoordvar(s)) { SDendaccess(s); continue; }
        char  name[256];
        int32 rank = 0, dims[16], nt = 0, na = 0, start[16] = {0};
        if (SDgetinfo(s, name, &rank, dims, &nt, &na) == FAIL) { printf("%s %s infofail %d\n", ID, view, i); continue; }
        long ne = 1;
        for (int j = 0; j < rank; j++) ne *= dims[j];
        long           nb  = ne * ntsize(nt);
        unsigned char *buf = malloc(nb > 0 ? nb : 1);
        int            r   = ne > 0 ? SDreaddata(s, start, NULL, dims, buf) : 0;
        printf("%s %s %d %d", ID, view, k, (int)rank);
        for (int j = 0; j < rank; j++) printf(" %d", (int)dims[j]);
        printf(" %d", (int)nt);
        if (r == FAIL) printf(" fail\n"); else { phex(buf, nb); printf("\n"); }
        free(buf);
        if (!strcmp(view, "sd")) {
            for (int j = 0; j < rank; j++) {
                int32 dimid = SDgetdimid(s, j), dsz = 0, dnt = 0, dna = 0;
                char  dn[256];
                printf("%s sdmeta %d scale %d", ID, k, j);
                if (dimid == FAIL || SDdiminfo(dimid, dn, &dsz, &dnt, &dna) == FAIL || dnt == 0 || dims[j] <= 0) printf(" none\n");
                else {
                    long           sb = (long)dims[j] * ntsize(dnt);
                    unsigned char *sc = malloc(sb > 0 ? sb : 1);
                    if (SDgetdimscale(dimid, sc) == FAIL) printf(" fail\n"); else { phex(sc, sb); printf("\n"); }
                    free(sc);
                }
            }
            for (int j = 0; j < rank; j++) {
                int32 dimid = SDgetdimid(s, j), dsz = 0, dnt = 0, dna = 0;
                char  dn[256] = "", dl[300] = "", du[300] = "", df[300] = "";
                printf("%s sdmeta %d dstrs %d", ID, k, j);
                if (dimid == FAIL || SDgetdimstrs(dimid, dl, du, df, 256) == FAIL) printf(" fail\n");
                else { phex((unsigned char *)dl, strlen(dl)); phex((unsigned char *)du, strlen(du)); phex((unsigned char *)df, strlen(df)); printf("\n"); }
                if (dimid != FAIL && SDdiminfo(dimid, dn, &dsz, &dnt, &dna) != FAIL) {
                    printf("%s sdmeta %d dname %d", ID, k, j);
                    phex((unsigned char *)dn, strlen(dn));
                    printf("\n");
                }
            }
            char l[300] = "", u[300] = "", f[300] = "", c[300] = "";
            printf("%s sdmeta %d strs", ID, k);
            if (SDgetdatastrs(s, l, u, f, c, 256) == FAIL) printf(" fail\n");
            else { phex((unsigned char *)l, strlen(l)); phex((unsigned char *)u, strlen(u)); phex((unsigned char *)f, strlen(f)); printf("\n"); }
            unsigned char mx[16], mn[16];
            printf("%s sdmeta %d range", ID, k);
            if (SDgetrange(s, mx, mn) == FAIL) printf(" none\n"); else { phex(mx, ntsize(nt)); phex(mn, ntsize(nt)); printf("\n"); }
        }
        SDendaccess(s);
        k++;
    }
    printf("%s %s n %d\n", ID, view, k);
    SDend(sd);
}

static void rd_sds_nc(const char *fn)
{
    ncopts  = 0;
    int cdf = ncopen(fn, NC_NOWRITE);
    if (cdf < 0) { printf("%s nc fail\n", ID); return; }
    int k = 0;
    for (int v = 0; v < 4096; v++) {
        char    name[256], dname[256];
        nc_type ty;
        int     ndims = 0, dimids[16], nat = 0;
        long    len[16], start[16] = {0};
        if (ncvarinq(cdf, v, name, &ty, &ndims, dimids, &nat) < 0) break;   /* no ncinquire any more: probe ids */
        long ne = 1;
        int  iscv = 0;
        for (int i = 0; i < ndims; i++) {
            ncdiminq(cdf, dimids[i], dname, &len[i]);
            ne *= len[i];
            if (ndims == 1 && !strcmp(dname, name)) iscv = 1;
        }
        if (iscv) continue;
        long           nb  = ne * nctypelen(ty);
        unsigned char *buf = malloc(nb > 0 ? nb : 1);
        int            r   = ne > 0 ? ncvarget(cdf, v, start, len, buf) : 0;
        printf("%s nc %d %d", ID, k, ndims);
        for (int i = 0; i < ndims; i++) printf(" %ld", len[i]);
        printf(" %d", (int)ty);
        if (r < 0) printf(" fail\n"); else { phex(buf, nb); printf("\n"); }
        free(buf);
        k++;
    }
    printf("%s nc n %d\n", ID, k);
    ncclose(cdf);
}

/* low-level Vgroup/Vdata view of SD objects: every Vgroup of class Var0.0 that carries an "SDS variable" Vdata */
static void rd_sds_vg(const char *fn)
{
    int32 f = Hopen(fn, DFACC_READ, 0);
    if (f == FAIL) { printf("%s vg fail\n", ID); return; }
    Vstart(f);
    int32 ref = -1;
    int   k   = 0;
    while ((ref = Vgetid(f, ref)) != FAIL) {
        int32 vg = Vattach(f, ref, "r");
        if (vg == FAIL) continue;
        char cls[256] = "", name[256] = "";
        Vgetclass(vg, cls);
        Vgetname(vg, name);
        if (!strcmp(cls, "Var0.0")) {
            int   n = Vntagrefs(vg), rank = 0, issds = 1, havedata = 0;
            int32 dims[32], nt = -1, dtag = 0, dref = 0;
            for (int t = 0; t < n; t++) {
                int32 tag, r;
                Vgettagref(vg, t, &tag, &r);
                if (tag == DFTAG_VG) {
                    int32 d = Vattach(f, r, "r");
                    char  dc[256] = "";
                    Vgetclass(d, dc);
                    if (!strcmp(dc, "Dim0.0") || !strcmp(dc, "UDim0.0")) {
                        int   m   = Vntagrefs(d);
                        int32 val = -1;
                        for (int u = 0; u < m; u++) {
                            int32 t2, r2;
                            Vgettagref(d, u, &t2, &r2);
                            if (t2 != DFTAG_VH) continue;
                            int32 vs = VSattach(f, r2, "r");
                            char  vc[256] = "";
                            VSgetclass(vs, vc);
                            if (!strcmp(vc, "DimVal0.1")) {
                                VSsetfields(vs, "Values");
                                VSread(vs, (uint8 *)&val, 1, FULL_INTERLACE);
                            }
                            else if (!strcmp(vc, "DimVal0.0") && val < 0)
                                val = VSelts(vs);
                            VSdetach(vs);
                        }
                        dims[rank++] = val;
                    }
                    Vdetach(d);
                }
                else if (tag == DFTAG_VH) {
                    int32 vs = VSattach(f, r, "r");
                    char  vc[256] = "";
                    VSgetclass(vs, vc);
                    if (!strcmp(vc, "CoordVar")) issds = 0;
                    VSdetach(vs);
                }
                else if (tag == DFTAG_NT) {
                    uint8 nts[4];
                    if (Hgetelement(f, DFTAG_NT, (uint16)r, nts) != FAIL) nt = nts[1];
                }
                else if (tag == DFTAG_SD) { dtag = tag; dref = r; havedata = 1; }
            }
            if (issds) {
                printf("%s vg %d %d", ID, k, rank);
                for (int i = 0; i < rank; i++) printf(" %d", (int)dims[i]);
                printf(" %d", (int)nt);
                int32 len = havedata ? Hlength(f, (uint16)dtag, (uint16)dref) : 0;
                if (len > 0) {
                    unsigned char *buf = malloc(len);
                    if (Hgetelement(f, (uint16)dtag, (uint16)dref, buf) == FAIL) printf(" fail"); else phex(buf, len);
                    free(buf);
                }
                else printf(" -");
                printf("\n");
                k++;
            }
        }
        Vdetach(vg);
    }
    printf("%s vg n %d\n", ID, k);
    Vend(f);
    Hclose(f);
}

static int copy_file(const char *a, const char *b)
{
    FILE *fa = fopen(a, "rb"), *fb = fopen(b, "wb");
    if (!fa || !fb) return -1;
    char   buf[65536];
    size_t n;
    while ((n = fread(buf, 1, sizeof buf, fa)) > 0) fwrite(buf, 1, n, fb);
    fclose(fa);
    fclose(fb);
    return 0;
}

/* the same file with its top-level Vgroup of the given class removed from the directory: the multi-file reader
 * then has to rebuild its objects from the older description (NDG / RIG) */
static int strip_class(const char *src, const char *dst, const char *cls)
{
    if (copy_file(src, dst) < 0) return -1;
    int32 f = Hopen(dst, DFACC_RDWR, 0);
    if (f == FAIL) return -1;
    Vstart(f);
    int   done = 0;
    int32 ref  = -1;
    while ((ref = Vgetid(f, ref)) != FAIL) {
        int32 vg = Vattach(f, ref, "r");
        if (vg == FAIL) continue;
        char c[256] = "";
        Vgetclass(vg, c);
        Vdetach(vg);
        if (!strcmp(c, cls)) { done++; Vend(f); Hdeldd(f, DFTAG_VG, (uint16)ref); Vstart(f); break; }
    }
    Vend(f);
    Hclose(f);
    return done;
}

/* ------------------------------------------------------------------ image family */
typedef struct { int32 x, y, ncomp, nt, il, comp; unsigned char *data; long nbytes; unsigned char *pal; int haspal; } im_t;

static void parse_im(im_t *m)
{
    m->x = nextl(); m->y = nextl(); m->ncomp = nextl(); m->nt = nextl(); m->il = nextl(); m->comp = nextl();
    char *h  = next();
    m->data  = malloc(strlen(h) / 2 + 8);
    m->nbytes = unhex(h, m->data);
    char *p  = next();
    m->pal   = malloc(800);
    m->haspal = p[0] != '-';
    if (m->haspal) unhex(p, m->pal);
}

static void wr_img(const char *writer, int n, int pre, const char *edits)
{
    im_t *im = calloc(n, sizeof(im_t));
    for (int k = 0; k < n; k++) parse_im(&im[k]);
    wr_pre(pre, 0);
    if (!strcmp(writer, "df")) {
        for (int k = 0; k < n; k++) {
            int r0 = 0, r1;
            if (im[k].ncomp == 1) {
                /* lazy (PAD bit 14): the palette stays in effect, so it is only set when it differs from the one in effect */
                static unsigned char lastpal[768];
                static int           lasthas = 0;
                int same = (im[k].haspal == lasthas) && (!im[k].haspal || !memcmp(lastpal, im[k].pal, 768));
                if (!((PAD >> 14) & 1) || !same) r0 = DFR8setpalette(im[k].haspal ? im[k].pal : NULL);
                lasthas = im[k].haspal;
                if (im[k].haspal) memcpy(lastpal, im[k].pal, 768);
                r1 = DFR8addimage(FN, im[k].data, im[k].x, im[k].y, (uint16)(im[k].comp == 1 ? COMP_RLE : 0));
                printf("%s w dfr8 %d %d %d ref=%d\n", ID, k, r0, r1, (int)DFR8lastref());
            }
            else {
                static int lastil = 0;     /* the interlace set stays in effect for the following 24-bit images */
                if (!((PAD >> 14) & 1) || im[k].il != lastil) r0 = DF24setil(im[k].il);
                lastil = im[k].il;
                r1 = DF24addimage(FN, im[k].data, im[k].x, im[k].y);
                printf("%s w df24 %d %d %d ref=%d\n", ID, k, r0, r1, (int)DF24lastref());
            }
        }
    }
    else if (!strcmp(writer, "gr")) {
        int32 f  = Hopen(FN, file_exists(FN) ? DFACC_RDWR : DFACC_CREATE, 0);
        int32 gr = GRstart(f);
        for (int k = 0; k < n; k++) {
            char  name[32];
            int32 dims[2] = {im[k].x, im[k].y}, start[2] = {0, 0};
            sprintf(name, "im%d", k);
            int32 ri = GRcreate(gr, name, im[k].ncomp, im[k].nt, im[k].il, dims);
            int   rc = 0;
            if (im[k].comp) {
                comp_info ci;
                memset(&ci, 0, sizeof ci);
                ci.deflate.level = 6;
                rc = GRsetcompress(ri, im[k].comp == 1 ? COMP_CODE_RLE : COMP_CODE_DEFLATE, &ci);
            }
            int r1 = GRwriteimage(ri, start, NULL, dims, im[k].data);
            int r2 = 0;
            if (im[k].haspal) {
                int32 lut = GRgetlutid(ri, 0);
                r2 = GRwritelut(lut, 3, DFNT_UINT8, MFGR_INTERLACE_PIXEL, 256, im[k].pal);
            }
            int r3 = GRendaccess(ri);
            printf("%s w gr %d %d %d %d %d %d\n", ID, k, ri == FAIL ? -1 : 0, rc, r1, r2, r3);
        }
        int re = GRend(gr);
        int rh = Hclose(f);
        printf("%s w grend %d %d\n", ID, re, rh);
        /* a later session that only touches the metadata of some images (their descriptions are rewritten) */
        if (edits[0] != '-') {
            f  = Hopen(FN, DFACC_RDWR, 0);
            gr = GRstart(f);
            char *copy = strdup(edits), *save = NULL;
            for (char *it = strtok_r(copy, ",", &save); it; it = strtok_r(NULL, ",", &save)) {
                char name[32];
                sprintf(name, "im%d", atoi(it));
                int32 ri = GRselect(gr, GRnametoindex(gr, name)), val = 55 + atoi(it);
                int   r1 = GRsetattr(ri, "later", DFNT_INT32, 1, &val);
                int   r2 = GRendaccess(ri);
                printf("%s w gredit %s %d %d\n", ID, it, r1, r2);
            }
            re = GRend(gr);
            rh = Hclose(f);
            printf("%s w grend2 %d %d\n", ID, re, rh);
        }
    }
    else printf("%s w badwriter\n", ID);
}

static void rd_img_dfr8(const char *fn)
{
    int n = DFR8nimages(fn);
    printf("%s dfr8 n %d\n", ID, n);
    DFR8restart();
    for (int k = 0; k < n + 2; k++) {
        int32 x, y;
        int   ispal = 0;
        if (DFR8getdims(fn, &x, &y, &ispal) == FAIL) break;
        unsigned char *buf = malloc((long)x * y > 0 ? (long)x * y : 1), pal[768];
        memset(pal, 0, sizeof pal);
        int r = DFR8getimage(fn, buf, x, y, pal);
        printf("%s dfr8 %d %d %d %d", ID, k, (int)x, (int)y, ispal ? 1 : 0);
        if (r == FAIL) printf(" fail\n");
        else {
            phex(buf, (long)x * y);
            if (ispal) phex(pal, 768); else printf(" -");
            printf("\n");
        }
        free(buf);
    }
}

static void rd_img_dfr8_nodims(const char *fn)
{
    /* first the dimensions of all images, then the images one after the other without asking again */
    int   n = DFR8nimages(fn), nseen = 0;
    int32 xs[64], ys[64];
    DFR8restart();
    for (int k = 0; k < n + 2 && nseen < 64; k++) {
        int ispal;
        if (DFR8getdims(fn, &xs[nseen], &ys[nseen], &ispal) == FAIL) break;
        nseen++;
    }
    DFR8restart();
    for (int k = 0; k < nseen; k++) {
        long           nb  = (long)xs[k] * ys[k];
        unsigned char *buf = malloc(nb > 0 ? nb : 1);
        int            r   = DFR8getimage(fn, buf, xs[k], ys[k], NULL);
        printf("%s dfr8s %d %d %d", ID, k, (int)xs[k], (int)ys[k]);
        if (r == FAIL) printf(" fail\n"); else { phex(buf, nb); printf("\n"); }
        free(buf);
    }
}

static void rd_img_dfr8_pad(const char *fn)
{
    int n = DFR8nimages(fn);
    DFR8restart();
    for (int k = 0; k < n + 2; k++) {
        int32 x, y;
        int   ispal = 0;
        if (DFR8getdims(fn, &x, &y, &ispal) == FAIL) break;
        int32 bx = x + (PAD & 3), by = y + ((PAD >> 2) & 3);
        unsigned char *big = malloc((long)bx * by + 1), *out = malloc((long)x * y + 1), pal[768];
        memset(big, 0xA5, (long)bx * by);
        int  r = DFR8getimage(fn, big, bx, by, pal);
        long touched = 0;
        for (long j = 0; j < by; j++)
            for (long i = 0; i < bx; i++) {
                if (j < y && i < x) out[j * x + i] = big[j * bx + i];
                else if (big[j * bx + i] != 0xA5) touched++;
            }
        printf("%s dfr8p %d %d %d", ID, k, (int)x, (int)y);
        if (r == FAIL) printf(" fail\n"); else { phex(out, (long)x * y); (void)touched; printf(" padok\n"); }   /* DFR8getimage uses the rest of the array as scratch: only the placement is compared */
        free(big); free(out);
    }
}

static void rd_img_df24(const char *fn, int ril)
{
    int   n = DF24nimages(fn), nseen = 0;
    int32 xs[64], ys[64];
    printf("%s df24 n %d\n", ID, n);
    DF24restart();
    for (int k = 0; k < n + 2; k++) {
        int32 x, y;
        int   il = 0;
        if (DF24getdims(fn, &x, &y, &il) == FAIL) break;
        if (nseen < 64) { xs[nseen] = x; ys[nseen] = y; nseen++; }
        long           nb  = (long)x * y * 3;
        unsigned char *buf = malloc(nb > 0 ? nb : 1);
        int            r0  = ril >= 0 ? DF24reqil(ril) : 0;
        int            r   = DF24getimage(fn, buf, x, y);
        printf("%s df24 %d %d %d %d", ID, k, (int)x, (int)y, il);
        if (r == FAIL || r0 == FAIL) printf(" fail\n"); else { phex(buf, nb); printf("\n"); }
        free(buf);
    }
    /* the same images again by a caller that knows the dimensions and does not ask for them before each read */
    DF24restart();
    for (int k = 0; k < nseen; k++) {
        long           nb  = (long)xs[k] * ys[k] * 3;
        unsigned char *buf = malloc(nb > 0 ? nb : 1);
        int            r0  = ril >= 0 ? DF24reqil(ril) : 0;
        int            r   = DF24getimage(fn, buf, xs[k], ys[k]);
        printf("%s df24s %d %d %d", ID, k, (int)xs[k], (int)ys[k]);
        if (r == FAIL || r0 == FAIL) printf(" fail\n"); else { phex(buf, nb); printf("\n"); }
        free(buf);
    }
}

static void rd_img_gr(const char *fn, const char *view, int ril)
{
    int32 f = Hopen(fn, DFACC_READ, 0);
    if (f == FAIL) { printf("%s %s fail\n", ID, view); return; }
    int32 gr = GRstart(f);
    int32 n = 0, na = 0;
    GRfileinfo(gr, &n, &na);
    printf("%s %s n %d\n", ID, view, (int)n);
    for (int k = 0; k < n; k++) {
        int32 ri = GRselect(gr, k);
        char  name[256];
        int32 ncomp = 0, nt = 0, il = 0, dims[2] = {0, 0}, nat = 0, start[2] = {0, 0};
        if (ri == FAIL || GRgetiminfo(ri, name, &ncomp, &nt, &il, dims, &nat) == FAIL) {
            printf("%s %s %d infofail\n", ID, view, k);
            continue;
        }
        long           nb  = (long)dims[0] * dims[1] * ncomp * ntsize(nt);
        unsigned char *buf = malloc(nb > 0 ? nb : 1);
        int            r0  = ril >= 0 ? GRreqimageil(ri, ril) : 0;   /* ril < 0: the image's own interlace */
        int            r   = GRreadimage(ri, start, NULL, dims, buf);
        printf("%s %s %d %d %d %d %d %d", ID, view, k, (int)dims[0], (int)dims[1], (int)ncomp, (int)nt, (int)il);
        if (r == FAIL || r0 == FAIL) printf(" fail"); else phex(buf, nb);
        free(buf);
        /* palette */
        int32 lut = GRgetlutid(ri, 0);
        int32 lc = 0, lnt = 0, lil = 0, lne = 0;
        if (lut != FAIL && GRgetlutinfo(lut, &lc, &lnt, &lil, &lne) != FAIL && lne > 0) {
            long           pb = (long)lc * lne * ntsize(lnt);
            unsigned char *pl = malloc(pb > 0 ? pb : 1);
            if (GRreadlut(lut, pl) == FAIL) printf(" lutfail");
            else { printf(" lut %d %d %d %d", (int)lc, (int)ntsize(lnt), (int)lil, (int)lne);   /* bytes per component */ phex(pl, pb); }
            free(pl);
        }
        else printf(" nolut");
        printf("\n");
        GRendaccess(ri);
    }
    GRend(gr);
    Hclose(f);
}

static void rd_dfp(const char *fn)
{
    int n = DFPnpals(fn);
    printf("%s dfp n %d\n", ID, n);
    DFPrestart();
    for (int k = 0; k < n; k++) {
        unsigned char pal[768];
        if (DFPgetpal(fn, pal) == FAIL) { printf("%s dfp %d fail\n", ID, k); break; }
        printf("%s dfp %d", ID, k);
        phex(pal, 768);
        printf("\n");
    }
}

/* low-level Vgroup view of GR objects: Vgroups of class RI0.0 */
static void rd_img_vg(const char *fn)
{
    int32 f = Hopen(fn, DFACC_READ, 0);
    if (f == FAIL) { printf("%s vgi fail\n", ID); return; }
    Vstart(f);
    int32 ref = -1;
    int   k   = 0;
    while ((ref = Vgetid(f, ref)) != FAIL) {
        int32 vg = Vattach(f, ref, "r");
        if (vg == FAIL) continue;
        char cls[256] = "";
        Vgetclass(vg, cls);
        if (!strcmp(cls, "RI0.0")) {
            int   n = Vntagrefs(vg);
            int32 x = -1, y = -1, nt = -1, itag = 0, iref = 0, haslut = 0;
            int   ncomp = -1, il = -1, ctag = -1;
            for (int t = 0; t < n; t++) {
                int32 tag, r;
                Vgettagref(vg, t, &tag, &r);
                if (tag == DFTAG_ID) {
                    uint8 b[64], *p = b, nts[4];
                    if (Hgetelement(f, DFTAG_ID, (uint16)r, b) == FAIL) continue;
                    uint16 ntt, ntr, ct, cr;
                    int16  nc, i16;
                    INT32DECODE(p, x); INT32DECODE(p, y); UINT16DECODE(p, ntt); UINT16DECODE(p, ntr);
                    INT16DECODE(p, nc); INT16DECODE(p, i16); UINT16DECODE(p, ct); UINT16DECODE(p, cr);
                    ncomp = nc; il = i16; ctag = ct;
                    if (Hgetelement(f, ntt, ntr, nts) != FAIL) nt = nts[1];
                }
                else if (tag == DFTAG_RI || tag == DFTAG_CI) { itag = tag; iref = r; }
                else if (tag == DFTAG_LUT) haslut = 1;
            }
            printf("%s vgi %d %d %d %d %d %d %d", ID, k, (int)x, (int)y, ncomp, (int)nt, il, haslut);
            int32 len = iref ? Hlength(f, (uint16)itag, (uint16)iref) : 0;
            int16 sp  = 0;
            if (iref) {
                int32 a = Hstartread(f, (uint16)itag, (uint16)iref);
                if (a != FAIL) { Hinquire(a, NULL, NULL, NULL, NULL, NULL, NULL, NULL, &sp); Hendaccess(a); }
            }
            if (len > 0 && itag == DFTAG_RI && !sp) {
                unsigned char *buf = malloc(len);
                if (Hgetelement(f, (uint16)itag, (uint16)iref, buf) == FAIL) printf(" fail"); else phex(buf, len);
                free(buf);
            }
            else printf(" -");
            printf("\n");
            k++;
        }
        Vdetach(vg);
    }
    printf("%s vgi n %d\n", ID, k);
    Vend(f);
    Hclose(f);
}

/* ------------------------------------------------------------------ annotations */
static void wr_ann(const char *writer, int n)
{
    int32 f = Hopen(FN, DFACC_CREATE, 0);
    int32 an = -1;
    unsigned char *buf = malloc(70000);
    if (!strcmp(writer, "an")) an = ANstart(f);
    for (int k = 0; k < n; k++) {
        char *ty  = next();
        int   tag = (int)nextl(), ref = (int)nextl();
        char *h   = next();
        int   len = unhex(h, buf);
        buf[len]  = 0;
        int r = -9;
        if (!strcmp(writer, "dfan")) {
            if (!strcmp(ty, "fl")) r = DFANaddfid(f, (char *)buf);
            else if (!strcmp(ty, "fd")) r = DFANaddfds(f, (char *)buf, len);
            else { Hclose(f); f = -1;
                if (!strcmp(ty, "ol")) r = DFANputlabel(FN, (uint16)tag, (uint16)ref, (char *)buf);
                else r = DFANputdesc(FN, (uint16)tag, (uint16)ref, (char *)buf, len);
                f = Hopen(FN, DFACC_RDWR, 0);
            }
        }
        else {
            int32 a;
            if (!strcmp(ty, "fl")) a = ANcreatef(an, AN_FILE_LABEL);
            else if (!strcmp(ty, "fd")) a = ANcreatef(an, AN_FILE_DESC);
            else if (!strcmp(ty, "ol")) a = ANcreate(an, (uint16)tag, (uint16)ref, AN_DATA_LABEL);
            else a = ANcreate(an, (uint16)tag, (uint16)ref, AN_DATA_DESC);
            r = (a == FAIL) ? -1 : ANwriteann(a, (char *)buf, len);
            if (a != FAIL) ANendaccess(a);
        }
        printf("%s w ann %d %d\n", ID, k, r);
    }
    if (an != -1) ANend(an);
    if (f != -1) Hclose(f);
    free(buf);
}

static void rd_ann_dfan(const char *fn, int nobj, int *tags, int *refs)
{
    int32 f = Hopen(fn, DFACC_READ, 0);
    if (f == FAIL) { printf("%s dfan fail\n", ID); return; }
    unsigned char *buf = malloc(70000);
    for (int pass = 0; pass < 2; pass++) {
        int first = 1;
        for (int k = 0; k < 64; k++) {
            int32 len = pass == 0 ? DFANgetfidlen(f, first) : DFANgetfdslen(f, first);
            if (len < 0) break;
            memset(buf, 0, len + 2);
            int32 r = pass == 0 ? DFANgetfid(f, (char *)buf, len + 1, first) : DFANgetfds(f, (char *)buf, len + 1, first);
            printf("%s dfan %s", ID, pass == 0 ? "fl" : "fd");
            if (r < 0) printf(" fail\n"); else { phex(buf, len); printf("\n"); }
            first = 0;
        }
    }
    Hclose(f);
    for (int i = 0; i < nobj; i++) {
        int32 len = DFANgetlablen(fn, (uint16)tags[i], (uint16)refs[i]);
        if (len >= 0) {
            memset(buf, 0, len + 2);
            int r = DFANgetlabel(fn, (uint16)tags[i], (uint16)refs[i], (char *)buf, len + 1);
            printf("%s dfan ol %d %d", ID, tags[i], refs[i]);
            if (r < 0) printf(" fail\n"); else { phex(buf, len); printf("\n"); }
        }
        len = DFANgetdesclen(fn, (uint16)tags[i], (uint16)refs[i]);
        if (len >= 0) {
            int r = DFANgetdesc(fn, (uint16)tags[i], (uint16)refs[i], (char *)buf, len);
            printf("%s dfan od %d %d", ID, tags[i], refs[i]);
            if (r < 0) printf(" fail\n"); else { phex(buf, len); printf("\n"); }
        }
    }
    free(buf);
}

static void rd_ann_an(const char *fn, int nobj, int *tags, int *refs)
{
    int32 f = Hopen(fn, DFACC_READ, 0);
    if (f == FAIL) { printf("%s an fail\n", ID); return; }
    int32 an = ANstart(f);
    int32 nfl = 0, nfd = 0, nol = 0, nod = 0;
    ANfileinfo(an, &nfl, &nfd, &nol, &nod);
    printf("%s an n %d %d %d %d\n", ID, (int)nfl, (int)nfd, (int)nol, (int)nod);
    unsigned char *buf = malloc(70000);
    for (int pass = 0; pass < 2; pass++) {
        int cnt = pass == 0 ? nfl : nfd;
        for (int k = 0; k < cnt; k++) {
            int32 a   = ANselect(an, k, pass == 0 ? AN_FILE_LABEL : AN_FILE_DESC);
            int32 len = ANannlen(a);
            memset(buf, 0, (len > 0 ? len : 0) + 2);
            int r = ANreadann(a, (char *)buf, len + (pass == 0 ? 1 : 0));
            printf("%s an %s", ID, pass == 0 ? "fl" : "fd");
            if (r < 0 || len < 0) printf(" fail\n"); else { phex(buf, len); printf("\n"); }
            ANendaccess(a);
        }
    }
    for (int i = 0; i < nobj; i++)
        for (int pass = 0; pass < 2; pass++) {
            ann_type ty = pass == 0 ? AN_DATA_LABEL : AN_DATA_DESC;
            int      c  = ANnumann(an, ty, (uint16)tags[i], (uint16)refs[i]);
            if (c <= 0) continue;
            int32 *lst = malloc(sizeof(int32) * c);
            ANannlist(an, ty, (uint16)tags[i], (uint16)refs[i], lst);
            for (int j = 0; j < c; j++) {
                int32 len = ANannlen(lst[j]);
                memset(buf, 0, (len > 0 ? len : 0) + 2);
                int r = ANreadann(lst[j], (char *)buf, len + (pass == 0 ? 1 : 0));
                printf("%s an %s %d %d", ID, pass == 0 ? "ol" : "od", tags[i], refs[i]);
                if (r < 0 || len < 0) printf(" fail\n"); else { phex(buf, len); printf("\n"); }
                ANendaccess(lst[j]);
            }
            free(lst);
        }
    free(buf);
    ANend(an);
    Hclose(f);
}

/* ------------------------------------------------------------------ raw records (for the Coq record models) */
static void dump_recs(const char *fn)
{
    static const uint16 tags[] = {DFTAG_NDG, DFTAG_SDG, DFTAG_SDD, DFTAG_NT, DFTAG_SD, DFTAG_SDLNK, DFTAG_SDS, DFTAG_RIG, DFTAG_ID,
                                  DFTAG_ID8, DFTAG_LD, DFTAG_RI, DFTAG_CI, DFTAG_RI8, DFTAG_CI8, DFTAG_LUT, DFTAG_IP8, 0};
    int32 f = Hopen(fn, DFACC_READ, 0);
    if (f == FAIL) { printf("%s rec fail\n", ID); return; }
    for (int t = 0; tags[t]; t++) {
        uint16 ft = 0, fr = 0;
        int32  off, len;
        while (Hfind(f, tags[t], DFREF_WILDCARD, &ft, &fr, &off, &len, DF_FORWARD) == SUCCEED) {
            /* special elements (compressed, chunked, linked): only the fact is reported */
            int16 sp = 0;
            int32 a  = Hstartread(f, ft, fr);
            if (a != FAIL) { Hinquire(a, NULL, NULL, NULL, &len, NULL, NULL, NULL, &sp); Hendaccess(a); }
            printf("%s rec %d %d %d %d", ID, (int)ft, (int)fr, (int)off, (int)sp);
            if (len > 0 && len <= 8192 && !sp) {
                unsigned char *buf = malloc(len);
                if (Hgetelement(f, ft, fr, buf) == FAIL) printf(" fail"); else phex(buf, len);
                free(buf);
            }
            else printf(" -");
            printf("\n");
        }
    }
    Hclose(f);
}

static void wr_raw(int n)
{
    int32          f   = Hopen(FN, DFACC_CREATE, 0);
    unsigned char *buf = malloc(1 << 20);
    for (int k = 0; k < n; k++) {
        int   tag = (int)nextl(), ref = (int)nextl();
        char *h   = next();
        int   len = unhex(h, buf);
        int   r   = Hputelement(f, (uint16)tag, (uint16)ref, buf, len);
        if (r == FAIL) printf("%s w raw %d fail\n", ID, k);
    }
    free(buf);
    printf("%s w rawclose %d\n", ID, (int)Hclose(f));
}

/* ------------------------------------------------------------------ another file in between */
/* The single-file interfaces remember things about the file they used last (annotation directories, the table of
 * datasets, the raster group read last ...).  Before the case's file is read, a second, different file with objects
 * under the same tag/refs is written and read through every single-file reader in this process. */
static void decoy(const char *dir, int nobj, int *tags, int *refs)
{
    char fn[700];
    snprintf(fn, sizeof fn, "%s/decoy-%s.hdf", dir, ID);
    unlink(fn);
    unsigned char img[12] = {9, 8, 7, 6, 5, 4, 3, 2, 1, 0, 1, 2}, pal[768], buf[256];
    int32 d2[2] = {2, 3}, x, y;
    int16 v[6] = {11, 12, 13, 14, 15, 16}, sc[3] = {1, 2, 3};
    int   ispal, il, rank;
    for (int i = 0; i < 768; i++) pal[i] = (unsigned char)(255 - i);
    /* annotations: a label and a description for every object of the case (other texts), and for one more object */
    for (int i = 0; i <= nobj; i++) {
        uint16 t = (uint16)(i < nobj ? tags[i] : 799), r = (uint16)(i < nobj ? refs[i] : 9);
        char   txt[64];
        snprintf(txt, sizeof txt, "decoy text %d for %d/%d", i, (int)t, (int)r);
        DFANputdesc(fn, t, r, txt, (int32)strlen(txt));
        DFANputlabel(fn, t, r, txt);
    }
    DFSDclear(); DFSDsetdims(2, d2); DFSDsetNT(DFNT_INT16); DFSDsetdimscale(2, 3, sc); DFSDadddata(fn, 2, d2, v);
    DFSDclear();
    DFR8setpalette(pal); DFR8addimage(fn, img, 3, 2, 0); DFR8setpalette(NULL);
    DF24setil(0); DF24addimage(fn, img, 2, 2);
    /* ... and read through every single-file reader */
    for (int i = 0; i <= nobj; i++) {
        uint16 t = (uint16)(i < nobj ? tags[i] : 799), r = (uint16)(i < nobj ? refs[i] : 9);
        DFANgetdesclen(fn, t, r); DFANgetdesc(fn, t, r, (char *)buf, 200);
        DFANgetlablen(fn, t, r); DFANgetlabel(fn, t, r, (char *)buf, 200);
    }
    DFSDrestart(); if (DFSDgetdims(fn, &rank, d2, 2) != FAIL) DFSDgetdata(fn, 2, d2, buf);
    DFR8restart(); if (DFR8getdims(fn, &x, &y, &ispal) != FAIL) DFR8getimage(fn, buf, x, y, pal);
    DF24restart(); if (DF24getdims(fn, &x, &y, &il) != FAIL) DF24getimage(fn, buf, x, y);
    DFPrestart(); DFPgetpal(fn, pal);
    DFSDrestart(); DFR8restart(); DF24restart(); DFPrestart();
    unlink(fn);
}

/* ------------------------------------------------------------------ driver */
static void sds_readers(const char *fn, const char *views, const char *dir)
{
    char tmp[700];
    if (strchr(views, 'd')) { rd_sds_dfsd(fn); rd_sds_dfsd_pad(fn); }
    if (strchr(views, 's')) rd_sds_sd(fn, "sd");
    if (strchr(views, 'n')) rd_sds_nc(fn);
    if (strchr(views, 'v')) rd_sds_vg(fn);
    if (strchr(views, 'g')) {
        snprintf(tmp, sizeof tmp, "%s/strip-%s.hdf", dir, ID);
        int r = strip_class(fn, tmp, "CDF0.0");
        if (r == 1) rd_sds_sd(tmp, "sdn"); else printf("%s sdn nostrip %d\n", ID, r);
        unlink(tmp);
    }
}
static void img_readers(const char *fn, const char *views, const char *dir, int ril)
{
    char tmp[700];
    if (strchr(views, '8')) { rd_img_dfr8(fn); rd_img_dfr8_pad(fn); rd_img_dfr8_nodims(fn); }
    if (strchr(views, '2')) rd_img_df24(fn, ril);
    if (strchr(views, 'G')) rd_img_gr(fn, "gr", ril);
    if (strchr(views, 'p')) rd_dfp(fn);
    if (strchr(views, 'V')) rd_img_vg(fn);
    if (strchr(views, 'R')) {
        snprintf(tmp, sizeof tmp, "%s/strip-%s.hdf", dir, ID);
        int r = strip_class(fn, tmp, "RIG0.0");
        if (r == 1) rd_img_gr(tmp, "grr", ril); else printf("%s grr nostrip %d\n", ID, r);
        unlink(tmp);
    }
}

static void run_case(const char *dir)
{
    cur = 0;
    ID  = next();
    char *kind = next();
    snprintf(FN, sizeof FN, "%s/c-%s.hdf", dir, ID);
    unlink(FN);
    if (!strcmp(kind, "sds")) {
        char *w   = next();
        int   pre = (int)nextl();
        char *ed  = next();
        PAD       = (int)nextl();
        int   n   = (int)nextl();
        wr_sds(w, n, pre, ed);
        if ((PAD >> 15) & 1) decoy(dir, 0, NULL, NULL);
        sds_readers(FN, "dsnvg", dir);
        dump_recs(FN);
    }
    else if (!strcmp(kind, "dfsdseq")) {
        /* a session of the single-file SDS writer, call by call, without any reset the case does not ask for */
        int   nops = (int)nextl(), rank = 0;
        int32 dims[8] = {0}, nt = DFNT_FLOAT32;
        unsigned char *b1 = malloc(1 << 16), *b2 = malloc(1 << 16);
        char  l[64], u[64], f[64];
        for (int i = 0; i < nops; i++) {
            char *op = next();
            int   r  = -9;
            if (op[0] == 'D') { rank = (int)nextl(); for (int j = 0; j < rank; j++) dims[j] = (int32)nextl(); r = DFSDsetdims(rank, dims); }
            else if (op[0] == 'N') { nt = (int32)nextl(); r = DFSDsetNT(nt); }
            else if (op[0] == 'S') { int d = (int)nextl(); char *h = next(); if (h[0] == '-') r = DFSDsetdimscale(d + 1, dims[d], NULL); else { unhex(h, b1); r = DFSDsetdimscale(d + 1, dims[d], b1); } }
            else if (op[0] == 'T') { unhexs(next(), l); unhexs(next(), u); unhexs(next(), f); r = DFSDsetdatastrs(l, u, f, ""); }
            else if (op[0] == 'X') { int d = (int)nextl(); unhexs(next(), l); unhexs(next(), u); unhexs(next(), f); r = DFSDsetdimstrs(d + 1, l, u, f); }
            else if (op[0] == 'R') { unhex(next(), b1); unhex(next(), b2); r = DFSDsetrange(b1, b2); }
            else if (op[0] == 'A') { unhex(next(), b1); r = DFSDadddata(FN, rank, dims, b1); }
            else if (op[0] == 'C') { r = DFSDclear(); }
            printf("%s w seq %d %s %d\n", ID, i, op, r);
        }
        if (nops & 1) decoy(dir, 0, NULL, NULL);
        sds_readers(FN, "dsnvg", dir);
        dump_recs(FN);
    }
    else if (!strcmp(kind, "img")) {
        char *w   = next();
        int   pre = (int)nextl();
        char *ed  = next();
        PAD       = (int)nextl();
        int   ril = (int)nextl();
        int   n   = (int)nextl();
        wr_img(w, n, pre, ed);
        if ((PAD >> 15) & 1) decoy(dir, 0, NULL, NULL);
        img_readers(FN, "82GpVR", dir, ril);
        dump_recs(FN);
    }
    else if (!strcmp(kind, "pal")) {
        int           n = (int)nextl();
        unsigned char pal[800];
        for (int k = 0; k < n; k++) {
            unhex(next(), pal);
            printf("%s w dfp %d %d ref=%d\n", ID, k, DFPaddpal(FN, pal), (int)DFPlastref());
        }
        img_readers(FN, "8Gp", dir, 0);
        dump_recs(FN);
    }
    else if (!strcmp(kind, "ann")) {
        char *w    = next();
        int   dec  = (int)nextl();       /* 1: another file is written and read in between */
        int   n    = (int)nextl();
        int   save = cur, nobj = 0, tags[64], refs[64];
        for (int k = 0; k < n; k++) {
            char *ty = next();
            int   t = (int)nextl(), r = (int)nextl();
            next();
            if (ty[0] == 'o') {
                int seen = 0;
                for (int j = 0; j < nobj; j++) if (tags[j] == t && refs[j] == r) seen = 1;
                if (!seen && nobj < 64) { tags[nobj] = t; refs[nobj] = r; nobj++; }
            }
        }
        cur = save;
        wr_ann(w, n);
        if (dec) decoy(dir, nobj, tags, refs);
        rd_ann_dfan(FN, nobj, tags, refs);
        rd_ann_an(FN, nobj, tags, refs);
    }
    else if (!strcmp(kind, "raw")) {
        char *views = next();
        int   ril   = (int)nextl();
        int   n     = (int)nextl();
        wr_raw(n);
        sds_readers(FN, views, dir);
        img_readers(FN, views, dir, ril);
    }
    else if (!strcmp(kind, "legacy")) {
        char *path = next();
        snprintf(FN, sizeof FN, "%s/c-%s.hdf", dir, ID);
        if (copy_file(path, FN) < 0) { printf("%s legacy nofile\n", ID); return; }
        sds_readers(FN, "dsnv", dir);
        img_readers(FN, "82GpV", dir, -1);
        dump_recs(FN);
    }
    else printf("%s badkind\n", ID);
    unlink(FN);
}

int main(int argc, char **argv)
{
    if (argc < 3) { fprintf(stderr, "usage: drive_mix <workdir> <cases>\n"); return 2; }
    FILE *in = fopen(argv[2], "r");
    if (!in) { perror(argv[2]); return 2; }
    char  *line = NULL;
    size_t cap  = 0;
    while (getline(&line, &cap, in) > 0) {
        ntok = 0;
        for (char *t = strtok(line, " \t\r\n"); t && ntok < MAXTOK; t = strtok(NULL, " \t\r\n")) tok[ntok++] = t;
        if (ntok < 2 || tok[0][0] == '#') continue;
        fflush(stdout);
        pid_t pid = fork();
        if (pid == 0) {
            setvbuf(stdout, NULL, _IOLBF, 0);
            alarm(60);   /* a call that never returns ends the case as a crash (signal 14) */
            run_case(argv[1]);
            printf("%s end\n", tok[0]);
            fflush(stdout);
            _exit(0);
        }
        int st = 0;
        waitpid(pid, &st, 0);
        if (!(WIFEXITED(st) && WEXITSTATUS(st) == 0)) {
            printf("%s crash %d\n", tok[0], WIFEXITED(st) ? WEXITSTATUS(st) : 1000 + WTERMSIG(st));
            char fn[700];
            snprintf(fn, sizeof fn, "%s/c-%s.hdf", argv[1], tok[0]);
            unlink(fn);
        }
        fflush(stdout);
    }
    return 0;
}
