/* C10 harness: attribute / descriptive-metadata histories against the freshly built library.
 * usage: drive_attr <workdir> <history-file>
 * A history file holds several histories separated by lines "history <name>"; every history runs in its own child
 * process on fresh files (<workdir>/<pid>_sd.hdf for the SD interface, <pid>_h.hdf for GR / Vdata / Vgroup).
 * One output line per input line: "<lineno> ok tok.." | "<lineno> fail" | "<lineno> history" | "<lineno> skip".
 * Tokens are decimal integers or hex byte strings ("-" = empty).  Names and strings travel hex-encoded.
 *
 *   sd.start c|w|r        SDstart(DFACC_CREATE|DFACC_RDWR|DFACC_READ)          sd.end   SDend
 *   sd.create NAME NT RANK D0..            SDcreate + SDendaccess               -> ok index
 *   OBJ = F (file) | V<i> (variable index i: SDselect) | D<i>.<d> (SDgetdimid(SDselect(i), d))
 *   sd.setattr OBJ NAME NT COUNT DATA      SDsetattr
 *   sd.attrs OBJ          n from SDfileinfo/SDgetinfo/SDdiminfo, then per index SDattrinfo+SDreadattr+SDfindattr(name)
 *                                                                               -> ok n {name nt count data findidx}*
 *   sd.attrinfo OBJ IDX   SDattrinfo + SDreadattr                               -> ok name nt count data
 *   sd.findattr OBJ NAME  SDfindattr                                            -> ok idx
 *   sd.setdatastrs V<i> L U F C | sd.getdatastrs V<i> LEN                       (string: hex | - NULL | e empty)
 *   sd.setcal V<i> DATA32 NT | sd.getcal V<i>                                   -> ok data32 nt
 *   sd.setrange V<i> MAX MIN | sd.getrange V<i>                                 -> ok max min
 *   sd.setfill V<i> DATA | sd.getfill V<i>                                      -> ok data
 *   sd.setdimname D<i>.<d> NAME | sd.diminfo D<i>.<d>                           -> ok name size nt nattr
 *   sd.setdimscale D<i>.<d> COUNT NT DATA | sd.getdimscale D<i>.<d>             -> ok data
 *   sd.setdimstrs D<i>.<d> L U F | sd.getdimstrs D<i>.<d> LEN                   -> ok l u f
 *   sd.lookup             per variable index: name, SDnametoindex(name), ref stable since first seen,
 *                         SDreftoindex(SDidtoref), SDiscoordvar, rank, nt, nattrs; last token: refs pairwise distinct
 *   h.start c|w|r         Hopen + Vstart + GRstart                              h.end   GRend + Vend + Hclose
 *   gr.create NAME NCOMP NT X Y            GRcreate + GRwriteimage(zeros) + GRendaccess  -> ok index
 *   gr.setattr G|I<i> NAME NT COUNT DATA | gr.attrs G|I<i> | gr.attrinfo G|I<i> IDX | gr.findattr G|I<i> NAME
 *   gr.lookup             per image: name, GRnametoindex, GRreftoindex(GRidtoref), ref stable
 *   vs.create NAME NFIELDS                 new Vdata, NFIELDS int32 fields f0.., 2 records  -> ok slot
 *   vs.setattr K FINDEX NAME NT COUNT DATA | vs.attrs K FINDEX (-> ok total n {..}*) | vs.attrinfo K FINDEX IDX |
 *   vs.findattr K FINDEX NAME              (FINDEX -1 = the Vdata itself)
 *   vg.create NAME                         new Vgroup -> ok slot
 *   vg.setattr K NAME NT COUNT DATA | vg.attrs K | vg.attrinfo K IDX | vg.findattr K NAME
 *   vs.rsetattr / vs.rattrs / vs.rattrinfo / vs.rfindattr, vg.r...: the same calls on an object attached "r"
 *   unit.put ...          function-level correspondence on a bare NC_array attribute list (see below)
 */
#include <stdio.h>
#include <stdlib.h>
#include <string.h>
#include <unistd.h>
#include <sys/wait.h>
#include "hdf.h"
#include "mfhdf.h"
#include "nc_priv.h"
#include "vg_priv.h"
#include "mfgr_priv.h"

#define MAXV 64
static int32 sd = FAIL, hf = FAIL, gr = FAIL;
static int   sd_mode, h_mode;
static char  sdname[600], hname[600];
static int32 sdref[256]; static int sdref_n;
static int32 grref[MAXV]; static int grref_n;
static int32 vsrefs[MAXV]; static int nvs;
static int32 vgrefs[MAXV]; static int nvg;

static int unhex(const char *s, unsigned char *out)
{
    int n = 0;
    if ((s[0] == '-' || s[0] == 'e') && s[1] == 0) return 0;
    while (s[0] && s[1]) { unsigned v; sscanf(s, "%2x", &v); out[n++] = (unsigned char)v; s += 2; }
    return n;
}
static void phex(const unsigned char *b, long n)
{
    if (n <= 0) { printf(" -"); return; }
    putchar(' ');
    for (long i = 0; i < n; i++) printf("%02x", b[i]);
}
static void pstr(const char *s) { phex((const unsigned char *)s, (long)strlen(s)); }
/* string argument: hex -> malloc'ed C string, "-" -> NULL, "e" -> "" */
static char *sarg(const char *t)
{
    if (t[0] == '-' && t[1] == 0) return NULL;
    char *p = calloc(strlen(t) / 2 + 2, 1);
    unhex(t, (unsigned char *)p);
    return p;
}
static int ntsize(int32 nt) { int s = DFKNTsize(nt | DFNT_NATIVE); return s < 0 ? 0 : s; }

/* ---- SD object resolution ------------------------------------------------------------------------------- */
static int32 cur_sds = FAIL;
static int32 sd_obj(const char *o, char *kind)
{
    *kind = o[0];
    cur_sds = FAIL;
    if (o[0] == 'F') return sd;
    int i = -1, d = -1;
    if (o[0] == 'V') { sscanf(o + 1, "%d", &i); cur_sds = SDselect(sd, i); return cur_sds; }
    if (o[0] == 'D') {
        sscanf(o + 1, "%d.%d", &i, &d);
        cur_sds = SDselect(sd, i);
        if (cur_sds == FAIL) return FAIL;
        return SDgetdimid(cur_sds, d);
    }
    return FAIL;
}
static void sd_rel(void) { if (cur_sds != FAIL) SDendaccess(cur_sds); cur_sds = FAIL; }

static int sd_nattrs(int32 id, char kind)
{
    int32 n = -1, a = -1, rank, nt, dims[H4_MAX_VAR_DIMS], size;
    char  name[H4_MAX_NC_NAME + 1];
    if (kind == 'F') { if (SDfileinfo(id, &n, &a) == FAIL) return -1; return a; }
    if (kind == 'V') { if (SDgetinfo(id, name, &rank, dims, &nt, &a) == FAIL) return -1; return a; }
    if (SDdiminfo(id, name, &size, &nt, &a) == FAIL) return -1;
    return a;
}
/* one attribute by index: name nt count data; returns 0 on failure (nothing printed) */
static int sd_one_attr(int32 id, int idx, int withfind)
{
    char  name[H4_MAX_NC_NAME + 8];
    int32 nt = 0, cnt = 0;
    if (SDattrinfo(id, idx, name, &nt, &cnt) == FAIL) return 0;
    long nb = (long)cnt * ntsize(nt);
    unsigned char *buf = malloc(nb > 0 ? nb : 1);
    if (SDreadattr(id, idx, buf) == FAIL) { free(buf); return 0; }
    pstr(name); printf(" %d %d", (int)nt, (int)cnt); phex(buf, nb);
    if (withfind) printf(" %d", (int)SDfindattr(id, name));
    free(buf);
    return 1;
}

/* ---- generic dump helpers for GR / VS / V --------------------------------------------------------------- */
static int32 gr_obj(const char *o, int32 *ri)
{
    *ri = FAIL;
    if (o[0] == 'G') return gr;
    int i = -1; sscanf(o + 1, "%d", &i);
    *ri = GRselect(gr, i);
    return *ri;
}
static int gr_one_attr(int32 id, int idx, int withfind)
{
    char  name[1024];
    int32 nt = 0, cnt = 0;
    if (GRattrinfo(id, idx, name, &nt, &cnt) == FAIL) return 0;
    long nb = (long)cnt * ntsize(nt);
    unsigned char *buf = malloc(nb > 0 ? nb : 1);
    if (GRgetattr(id, idx, buf) == FAIL) { free(buf); return 0; }
    pstr(name); printf(" %d %d", (int)nt, (int)cnt); phex(buf, nb);
    if (withfind) printf(" %d", (int)GRfindattr(id, name));
    free(buf);
    return 1;
}
static int vs_one_attr(int32 vs, int fi, int idx, int withfind)
{
    char  name[1024];
    int32 nt = 0, cnt = 0, size = 0;
    if (VSattrinfo(vs, fi, idx, name, &nt, &cnt, &size) == FAIL) return 0;
    long nb = (long)cnt * ntsize(nt);
    unsigned char *buf = malloc(nb > 0 ? nb : 1);
    if (VSgetattr(vs, fi, idx, buf) == FAIL) { free(buf); return 0; }
    pstr(name); printf(" %d %d", (int)nt, (int)cnt); phex(buf, nb);
    if (withfind) printf(" %d", (int)VSfindattr(vs, fi, name));
    free(buf);
    return 1;
}
static int vg_one_attr(int32 vg, int idx, int withfind)
{
    char  name[1024];
    int32 nt = 0, cnt = 0, size = 0;
    if (Vattrinfo(vg, idx, name, &nt, &cnt, &size) == FAIL) return 0;
    long nb = (long)cnt * ntsize(nt);
    unsigned char *buf = malloc(nb > 0 ? nb : 1);
    if (Vgetattr(vg, idx, buf) == FAIL) { free(buf); return 0; }
    pstr(name); printf(" %d %d", (int)nt, (int)cnt); phex(buf, nb);
    if (withfind) printf(" %d", (int)Vfindattr(vg, name));
    free(buf);
    return 1;
}

/* ---- function-level correspondence: SDIputattr / NC_findattr on a bare attribute list ------------------- */
extern int       SDIputattr(NC_array **ap, const char *name, int32 nt, int count, const void *data);
extern NC_attr **NC_findattr(NC_array **ap, const char *name);
extern NC       *SDIhandle_from_id(int32 id, int typ);
static NC_array *unit_list;
static void unit_dump(void)
{
    unsigned n = unit_list ? unit_list->count : 0;
    printf(" %u", n);
    for (unsigned i = 0; i < n; i++) {
        NC_attr *a = ((NC_attr **)unit_list->values)[i];
        phex((unsigned char *)a->name->values, a->name->len);
        printf(" %d %u", (int)a->HDFtype, a->data->count);
        phex((unsigned char *)a->data->values, (long)a->data->count * a->data->szof);
    }
}

#define OKLN(...) do { printf("%ld ok", ln); printf(__VA_ARGS__); printf("\n"); } while (0)
#define FAILLN() printf("%ld fail\n", ln)

static unsigned char dbuf[700000];
static char *tok[16];

static void run_history(const char *dir, char **lines, long *lnos, long n)
{
    snprintf(sdname, sizeof sdname, "%s/%d_sd.hdf", dir, (int)getpid());
    snprintf(hname, sizeof hname, "%s/%d_h.hdf", dir, (int)getpid());
    unlink(sdname); unlink(hname);
    ncopts = 0;    /* what SDstart does: netCDF-level errors are returned, not fatal (the unit.* ops run without SDstart) */
    for (long li = 0; li < n; li++) {
        long  ln = lnos[li];
        char *line = lines[li];
        int   nt_ = 0;
        for (char *p = strtok(line, " \t\r\n"); p && nt_ < 16; p = strtok(NULL, " \t\r\n")) tok[nt_++] = p;
        if (nt_ == 0 || tok[0][0] == '#') { printf("%ld skip\n", ln); continue; }
        const char *op = tok[0];
        if (!strcmp(op, "history")) { printf("%ld history\n", ln); continue; }
        /* ------------------------------------------------ SD ------------------------------------------- */
        if (!strcmp(op, "sd.start")) {
            char m = tok[1][0];
            sd_mode = m;
            sd = SDstart(sdname, m == 'c' ? DFACC_CREATE : m == 'w' ? DFACC_RDWR : DFACC_READ);
            if (sd != FAIL) {
                /* variables that existed only in memory (a coordinate variable made by a query in a session that wrote
                 * nothing) are gone: forget the refs remembered for them */
                int32 nds = 0, nga = 0;
                if (SDfileinfo(sd, &nds, &nga) != FAIL && nds < sdref_n) sdref_n = nds;
            }
            if (sd == FAIL) FAILLN(); else OKLN("");
        }
        else if (!strcmp(op, "sd.end")) {
            if (getenv("DRIVE_ATTR_PROBE") && sd_mode != 'r') {
                /* diagnostics for the known-findings signature: will hdf_write_dim give an unnamed ("fakeDim<n>")
                 * dimension another number than the one it has in memory?  (duplicates by name+size are written once) */
                NC *h = SDIhandle_from_id(sd, CDFTYPE);
                if (h && h->dims && (h->flags & NC_HDIRTY)) {
                    NC_dim **dp = (NC_dim **)h->dims->values;
                    int cnt = 0;
                    for (unsigned i = 0; i < h->dims->count; i++) {
                        int dup = 0;
                        for (unsigned j = 0; j < i; j++)
                            if (dp[j]->size == dp[i]->size && dp[j]->name->len == dp[i]->name->len &&
                                !strncmp(dp[j]->name->values, dp[i]->name->values, dp[i]->name->len)) dup = 1;
                        if (dup) continue;
                        if (!strncmp(dp[i]->name->values, "fakeDim", 7) && atoi(dp[i]->name->values + 7) != cnt)
                            printf("%ld probe renumber %s -> fakeDim%d\n", ln, dp[i]->name->values, cnt);
                        cnt++;
                    }
                }
            }
            int r = SDend(sd); sd = FAIL;
            if (r == FAIL) FAILLN(); else OKLN("");
        }
        else if (!strcmp(op, "sd.create")) {
            char *name = sarg(tok[1]);
            int32 nt = atoi(tok[2]), rank = atoi(tok[3]), dims[8] = {0};
            for (int i = 0; i < rank && i < 8; i++) dims[i] = atoi(tok[4 + i]);
            int32 id = SDcreate(sd, name, nt, rank, dims);
            if (id == FAIL) FAILLN();
            else { OKLN(" %d", (int)(id & 0xffff)); SDendaccess(id); }
            free(name);
        }
        else if (!strcmp(op, "sd.setattr")) {
            char k; int32 id = sd_obj(tok[1], &k);
            char *name = sarg(tok[2]);
            int32 nt = atoi(tok[3]), cnt = atoi(tok[4]);
            int   nb = unhex(tok[5], dbuf);
            /* exact-size heap copy so that an over-read is seen by the sanitizer */
            void *d = malloc(nb > 0 ? nb : 1); memcpy(d, dbuf, nb);
            int r = id == FAIL ? FAIL : SDsetattr(id, name, nt, cnt, d);
            if (r == FAIL) FAILLN(); else OKLN("");
            free(d); free(name); sd_rel();
        }
        else if (!strcmp(op, "sd.attrs")) {
            char k; int32 id = sd_obj(tok[1], &k);
            int n_ = id == FAIL ? -1 : sd_nattrs(id, k);
            if (n_ < 0) FAILLN();
            else {
                printf("%ld ok %d", ln, n_);
                for (int i = 0; i < n_; i++) if (!sd_one_attr(id, i, 1)) printf(" FAIL");
                printf("\n");
            }
            sd_rel();
        }
        else if (!strcmp(op, "sd.attrinfo")) {
            char k; int32 id = sd_obj(tok[1], &k);
            char  name[H4_MAX_NC_NAME + 8]; int32 nt, cnt;
            if (id == FAIL || SDattrinfo(id, atoi(tok[2]), name, &nt, &cnt) == FAIL) FAILLN();
            else { printf("%ld ok", ln); sd_one_attr(id, atoi(tok[2]), 0); printf("\n"); }
            sd_rel();
        }
        else if (!strcmp(op, "sd.findattr")) {
            char k; int32 id = sd_obj(tok[1], &k);
            char *name = sarg(tok[2]);
            int32 r = id == FAIL ? FAIL : SDfindattr(id, name);
            if (r == FAIL) FAILLN(); else OKLN(" %d", (int)r);
            free(name); sd_rel();
        }
        else if (!strcmp(op, "sd.setdatastrs")) {
            char k; int32 id = sd_obj(tok[1], &k);
            char *l = sarg(tok[2]), *u = sarg(tok[3]), *f = sarg(tok[4]), *c = sarg(tok[5]);
            int r = id == FAIL ? FAIL : SDsetdatastrs(id, l, u, f, c);
            if (r == FAIL) FAILLN(); else OKLN("");
            free(l); free(u); free(f); free(c); sd_rel();
        }
        else if (!strcmp(op, "sd.getdatastrs")) {
            char k; int32 id = sd_obj(tok[1], &k);
            int len = atoi(tok[2]);
            char *b[4];
            for (int i = 0; i < 4; i++) b[i] = calloc(len + 2, 1);
            int r = id == FAIL ? FAIL : SDgetdatastrs(id, b[0], b[1], b[2], b[3], len);
            if (r == FAIL) FAILLN();
            else { printf("%ld ok", ln); for (int i = 0; i < 4; i++) pstr(b[i]); printf("\n"); }
            for (int i = 0; i < 4; i++) free(b[i]);
            sd_rel();
        }
        else if (!strcmp(op, "sd.setcal")) {
            char k; int32 id = sd_obj(tok[1], &k);
            float64 v[4]; unhex(tok[2], (unsigned char *)v);
            int r = id == FAIL ? FAIL : SDsetcal(id, v[0], v[1], v[2], v[3], atoi(tok[3]));
            if (r == FAIL) FAILLN(); else OKLN("");
            sd_rel();
        }
        else if (!strcmp(op, "sd.getcal")) {
            char k; int32 id = sd_obj(tok[1], &k);
            /* generous, zeroed buffers: a foreign-typed attribute of the same name may be longer (outside the domain) */
            float64 *v = calloc(4, 70000); int32 *nt = calloc(1, 70000);
            int r = id == FAIL ? FAIL : SDgetcal(id, v, v + 8750, v + 2 * 8750, v + 3 * 8750, nt);
            if (r == FAIL) FAILLN();
            else {
                float64 o[4] = {v[0], v[8750], v[2 * 8750], v[3 * 8750]};
                printf("%ld ok", ln); phex((unsigned char *)o, 32); printf(" %d\n", (int)*nt);
            }
            free(v); free(nt); sd_rel();
        }
        else if (!strcmp(op, "sd.setrange")) {
            char k; int32 id = sd_obj(tok[1], &k);
            unsigned char mx[16] = {0}, mn[16] = {0}; unhex(tok[2], mx); unhex(tok[3], mn);
            int r = id == FAIL ? FAIL : SDsetrange(id, mx, mn);
            if (r == FAIL) FAILLN(); else OKLN("");
            sd_rel();
        }
        else if (!strcmp(op, "sd.getrange") || !strcmp(op, "sd.getfill")) {
            char k; int32 id = sd_obj(tok[1], &k);
            char  name[H4_MAX_NC_NAME + 1]; int32 rank, dims[H4_MAX_VAR_DIMS], nt = 0, na;
            unsigned char *mx = calloc(1, 70000), *mn = calloc(1, 70000);
            int r = id == FAIL ? FAIL : SDgetinfo(id, name, &rank, dims, &nt, &na);
            if (r != FAIL) r = op[6] == 'r' ? SDgetrange(id, mx, mn) : SDgetfillvalue(id, mx);
            if (r == FAIL) FAILLN();
            else { printf("%ld ok", ln); phex(mx, ntsize(nt)); if (op[6] == 'r') phex(mn, ntsize(nt)); printf("\n"); }
            free(mx); free(mn); sd_rel();
        }
        else if (!strcmp(op, "sd.setfill")) {
            char k; int32 id = sd_obj(tok[1], &k);
            unsigned char v[16] = {0}; unhex(tok[2], v);
            int r = id == FAIL ? FAIL : SDsetfillvalue(id, v);
            if (r == FAIL) FAILLN(); else OKLN("");
            sd_rel();
        }
        else if (!strcmp(op, "sd.setdimname")) {
            char k; int32 id = sd_obj(tok[1], &k);
            char *name = sarg(tok[2]);
            int r = id == FAIL ? FAIL : SDsetdimname(id, name);
            if (r == FAIL) FAILLN(); else OKLN("");
            free(name); sd_rel();
        }
        else if (!strcmp(op, "sd.diminfo")) {
            char k; int32 id = sd_obj(tok[1], &k);
            char  name[H4_MAX_NC_NAME + 1]; int32 size, nt, na;
            if (id == FAIL || SDdiminfo(id, name, &size, &nt, &na) == FAIL) FAILLN();
            else { printf("%ld ok", ln); pstr(name); printf(" %d %d %d\n", (int)size, (int)nt, (int)na); }
            sd_rel();
        }
        else if (!strcmp(op, "sd.setdimscale")) {
            char k; int32 id = sd_obj(tok[1], &k);
            int32 cnt = atoi(tok[2]), nt = atoi(tok[3]);
            int   nb = unhex(tok[4], dbuf);
            void *d = malloc(nb > 0 ? nb : 1); memcpy(d, dbuf, nb);
            int r = id == FAIL ? FAIL : SDsetdimscale(id, cnt, nt, d);
            if (r == FAIL) FAILLN(); else OKLN("");
            free(d); sd_rel();
        }
        else if (!strcmp(op, "sd.getdimscale")) {
            char k; int32 id = sd_obj(tok[1], &k);
            char  name[H4_MAX_NC_NAME + 1]; int32 size = 0, nt = 0, na;
            int r = id == FAIL ? FAIL : SDdiminfo(id, name, &size, &nt, &na);
            if (r != FAIL && size == 0) {
                /* unlimited dimension: the number of scale values is the current length of its coordinate variable */
                int32 nds = 0, nga = 0;
                SDfileinfo(sd, &nds, &nga);
                for (int j = 0; j < nds; j++) {
                    int32 v = SDselect(sd, j);
                    char  vn[H4_MAX_NC_NAME + 1] = ""; int32 rk = 0, dm[H4_MAX_VAR_DIMS], vt = 0, va = 0;
                    if (v != FAIL && SDiscoordvar(v) == TRUE && SDgetinfo(v, vn, &rk, dm, &vt, &va) != FAIL && rk == 1 && !strcmp(vn, name)) size = dm[0];
                    if (v != FAIL) SDendaccess(v);
                }
            }
            long nb = (long)size * (nt ? ntsize(nt) : 4);
            unsigned char *b = calloc(nb > 0 ? nb : 1, 1);
            if (r != FAIL) r = SDgetdimscale(id, b);
            if (r == FAIL) FAILLN();
            else { printf("%ld ok %d", ln, (int)nt); phex(b, nb); printf("\n"); }
            free(b); sd_rel();
        }
        else if (!strcmp(op, "sd.setdimstrs")) {
            char k; int32 id = sd_obj(tok[1], &k);
            char *l = sarg(tok[2]), *u = sarg(tok[3]), *f = sarg(tok[4]);
            int r = id == FAIL ? FAIL : SDsetdimstrs(id, l, u, f);
            if (r == FAIL) FAILLN(); else OKLN("");
            free(l); free(u); free(f); sd_rel();
        }
        else if (!strcmp(op, "sd.getdimstrs")) {
            char k; int32 id = sd_obj(tok[1], &k);
            int len = atoi(tok[2]);
            char *b[3];
            for (int i = 0; i < 3; i++) b[i] = calloc(len + 2, 1);
            int r = id == FAIL ? FAIL : SDgetdimstrs(id, b[0], b[1], b[2], len);
            if (r == FAIL) FAILLN();
            else { printf("%ld ok", ln); for (int i = 0; i < 3; i++) pstr(b[i]); printf("\n"); }
            for (int i = 0; i < 3; i++) free(b[i]);
            sd_rel();
        }
        else if (!strcmp(op, "sd.lookup")) {
            int32 nds = 0, nga = 0;
            if (SDfileinfo(sd, &nds, &nga) == FAIL) { FAILLN(); continue; }
            printf("%ld ok %d", ln, (int)nds);
            int32 refs[256]; int distinct = 1;
            for (int j = 0; j < nds && j < 256; j++) {
                int32 id = SDselect(sd, j);
                char  name[H4_MAX_NC_NAME + 1] = ""; int32 rank = -1, dims[H4_MAX_VAR_DIMS], nt = -1, na = -1;
                SDgetinfo(id, name, &rank, dims, &nt, &na);
                int32 ref = SDidtoref(id);
                refs[j] = ref;
                if (j >= sdref_n) { sdref[j] = ref; sdref_n = j + 1; }
                for (int q = 0; q < j; q++) if (refs[q] == ref) distinct = 0;
                pstr(name);
                printf(" %d %d %d %d %d %d %d", (int)SDnametoindex(sd, name), ref != FAIL && ref == sdref[j],
                       (int)SDreftoindex(sd, ref), (int)SDiscoordvar(id), (int)rank, (int)nt, (int)na);
                SDendaccess(id);
            }
            printf(" %d\n", distinct);
        }
        /* ------------------------------------------------ H file: GR, VS, V ---------------------------- */
        else if (!strcmp(op, "h.start")) {
            char m = tok[1][0];
            h_mode = m;
            hf = Hopen(hname, m == 'c' ? DFACC_CREATE : m == 'w' ? DFACC_RDWR : DFACC_READ, 0);
            if (hf == FAIL) { FAILLN(); continue; }
            Vstart(hf);
            gr = GRstart(hf);
            if (gr == FAIL) FAILLN(); else OKLN("");
        }
        else if (!strcmp(op, "h.end")) {
            int r = GRend(gr); gr = FAIL;
            if (Vend(hf) == FAIL) r = FAIL;
            if (Hclose(hf) == FAIL) r = FAIL;
            hf = FAIL;
            if (r == FAIL) FAILLN(); else OKLN("");
        }
        else if (!strcmp(op, "gr.create")) {
            char *name = sarg(tok[1]);
            int32 ncomp = atoi(tok[2]), nt = atoi(tok[3]), dims[2] = {atoi(tok[4]), atoi(tok[5])};
            int32 ri = GRcreate(gr, name, ncomp, nt, MFGR_INTERLACE_PIXEL, dims);
            if (ri == FAIL) FAILLN();
            else {
                int32 start[2] = {0, 0};
                void *z = calloc((size_t)dims[0] * dims[1] * ncomp, 8);
                int r = GRwriteimage(ri, start, NULL, dims, z);
                free(z);
                int32 idx = GRreftoindex(gr, (uint16)GRidtoref(ri));
                if (GRendaccess(ri) == FAIL) r = FAIL;
                if (r == FAIL) FAILLN(); else OKLN(" %d", (int)idx);
            }
            free(name);
        }
        else if (!strcmp(op, "gr.setattr")) {
            int32 ri; int32 id = gr_obj(tok[1], &ri);
            char *name = sarg(tok[2]);
            int32 nt = atoi(tok[3]), cnt = atoi(tok[4]);
            int   nb = unhex(tok[5], dbuf);
            void *d = malloc(nb > 0 ? nb : 1); memcpy(d, dbuf, nb);
            int r = id == FAIL ? FAIL : GRsetattr(id, name, nt, cnt, d);
            if (r == FAIL) FAILLN(); else OKLN("");
            free(d); free(name);
            if (ri != FAIL) GRendaccess(ri);
        }
        else if (!strcmp(op, "gr.attrs")) {
            int32 ri; int32 id = gr_obj(tok[1], &ri);
            int32 n_ = -1, a, b, c, dm[2]; char nm[1024];
            int r = id == FAIL ? FAIL : (tok[1][0] == 'G' ? GRfileinfo(id, &a, &n_) : GRgetiminfo(id, nm, &a, &b, &c, dm, &n_));
            if (r == FAIL) FAILLN();
            else {
                printf("%ld ok %d", ln, (int)n_);
                for (int i = 0; i < n_; i++) if (!gr_one_attr(id, i, 1)) printf(" FAIL");
                printf("\n");
            }
            if (ri != FAIL) GRendaccess(ri);
        }
        else if (!strcmp(op, "gr.attrinfo")) {
            int32 ri; int32 id = gr_obj(tok[1], &ri);
            char nm[1024]; int32 a, b;
            if (id == FAIL || GRattrinfo(id, atoi(tok[2]), nm, &a, &b) == FAIL) FAILLN();
            else { printf("%ld ok", ln); gr_one_attr(id, atoi(tok[2]), 0); printf("\n"); }
            if (ri != FAIL) GRendaccess(ri);
        }
        else if (!strcmp(op, "gr.findattr")) {
            int32 ri; int32 id = gr_obj(tok[1], &ri);
            char *name = sarg(tok[2]);
            int32 r = id == FAIL ? FAIL : GRfindattr(id, name);
            if (r == FAIL) FAILLN(); else OKLN(" %d", (int)r);
            free(name);
            if (ri != FAIL) GRendaccess(ri);
        }
        else if (!strcmp(op, "gr.raw")) {          /* R-vs-M observable: the attribute tree in key order */
            int32 ri; int32 id = gr_obj(tok[1], &ri);
            TBBT_TREE *tree = NULL; int32 cnt = -1;
            if (id != FAIL && tok[1][0] == 'G') { gr_info_t *g = (gr_info_t *)HAatom_object(id); tree = g->gattree; cnt = g->gattr_count; }
            else if (id != FAIL) { ri_info_t *r_ = (ri_info_t *)HAatom_object(id); tree = r_->lattree; cnt = r_->lattr_count; }
            if (!tree) { FAILLN(); continue; }
            printf("%ld ok %d", ln, (int)cnt);
            for (void **t = (void **)tbbtfirst(tree->root); t; t = (void **)tbbtnext((TBBT_NODE *)t)) {
                at_info_t *a = (at_info_t *)*t;
                printf(" %d", (int)a->index); pstr(a->name); printf(" %d %d", (int)a->nt, (int)a->len);
            }
            printf("\n");
            if (ri != FAIL) GRendaccess(ri);
        }
        else if (!strcmp(op, "gr.lookup")) {
            int32 nim = 0, na = 0;
            if (GRfileinfo(gr, &nim, &na) == FAIL) { FAILLN(); continue; }
            printf("%ld ok %d", ln, (int)nim);
            for (int j = 0; j < nim && j < MAXV; j++) {
                int32 ri = GRselect(gr, j);
                char  nm[1024] = ""; int32 a, b, c, dm[2], n2;
                GRgetiminfo(ri, nm, &a, &b, &c, dm, &n2);
                int32 ref = GRidtoref(ri);
                if (j >= grref_n) { grref[j] = ref; grref_n = j + 1; }
                pstr(nm);
                printf(" %d %d %d", (int)GRnametoindex(gr, nm), (int)GRreftoindex(gr, (uint16)ref), ref != FAIL && ref == grref[j]);
                GRendaccess(ri);
            }
            printf("\n");
        }
        else if (!strcmp(op, "vs.create")) {
            char *name = sarg(tok[1]);
            int   nf = atoi(tok[2]);
            int32 vs = VSattach(hf, -1, "w");
            char  fields[256] = "";
            int r = vs;
            for (int i = 0; i < nf && r != FAIL; i++) {
                char fn[16]; snprintf(fn, sizeof fn, "f%d", i);
                r = VSfdefine(vs, fn, DFNT_INT32, 1);
                if (i) strcat(fields, ",");
                strcat(fields, fn);
            }
            if (r != FAIL) r = VSsetfields(vs, fields);
            if (r != FAIL) r = VSsetname(vs, name);
            int32 rec[2 * 8] = {0};
            if (r != FAIL) r = VSwrite(vs, (uint8 *)rec, 2, FULL_INTERLACE);
            int32 ref = vs != FAIL ? VSQueryref(vs) : FAIL;
            if (vs != FAIL && VSdetach(vs) == FAIL) r = FAIL;
            if (r == FAIL || nvs >= MAXV) FAILLN();
            else { vsrefs[nvs] = ref; OKLN(" %d", nvs); nvs++; }
            free(name);
        }
        else if (!strncmp(op, "vs.", 3)) {
            int   k = atoi(tok[1]), fi = atoi(tok[2]);
            /* vs.rsetattr / vs.rattrs / vs.rattrinfo / vs.rfindattr: the same call on a Vdata attached "r" in a file
             * that may be open for writing */
            int   rd = !strcmp(op, "vs.rsetattr") || !strcmp(op, "vs.rattrs") || !strcmp(op, "vs.rattrinfo") || !strcmp(op, "vs.rfindattr");
            char  opb[32];
            if (rd) { snprintf(opb, sizeof opb, "vs.%s", op + 4); op = opb; }
            int32 vs = (k >= 0 && k < nvs) ? VSattach(hf, vsrefs[k], (rd || h_mode == 'r') ? "r" : "w") : FAIL;
            if (vs == FAIL) { FAILLN(); continue; }
            if (!strcmp(op, "vs.setattr")) {
                char *name = sarg(tok[3]);
                int32 nt = atoi(tok[4]), cnt = atoi(tok[5]);
                int   nb = unhex(tok[6], dbuf);
                void *d = malloc(nb > 0 ? nb : 1); memcpy(d, dbuf, nb);
                if (VSsetattr(vs, fi, name, nt, cnt, d) == FAIL) FAILLN(); else OKLN("");
                free(d); free(name);
            }
            else if (!strcmp(op, "vs.attrs")) {
                int n_ = VSfnattrs(vs, fi);
                if (n_ == FAIL) FAILLN();
                else {
                    printf("%ld ok %d %d", ln, (int)VSnattrs(vs), n_);
                    for (int i = 0; i < n_; i++) if (!vs_one_attr(vs, fi, i, 1)) printf(" FAIL");
                    printf("\n");
                }
            }
            else if (!strcmp(op, "vs.raw")) {      /* R-vs-M observable: the raw attribute table and its attribute Vdatas */
                vsinstance_t *w = (vsinstance_t *)HAatom_object(vs);
                VDATA *v = w ? w->vs : NULL;
                printf("%ld ok %d", ln, v ? (int)v->nattrs : -1);
                for (int i = 0; v && i < v->nattrs; i++) {
                    int32 a = VSattach(hf, (int32)v->alist[i].aref, "r");
                    char nm[VSNAMELENMAX + 1] = "", cl[VSNAMELENMAX + 1] = "";
                    VSgetname(a, nm); VSgetclass(a, cl);
                    printf(" %d", (int)v->alist[i].findex); pstr(nm); pstr(cl); pstr(VFfieldname(a, 0));
                    printf(" %d %d %d", (int)VFfieldtype(a, 0), (int)VFfieldorder(a, 0), (int)VSelts(a));
                    VSdetach(a);
                }
                printf("\n");
            }
            else if (!strcmp(op, "vs.attrinfo")) {
                char nm[1024]; int32 a, b, c;
                if (VSattrinfo(vs, fi, atoi(tok[3]), nm, &a, &b, &c) == FAIL) FAILLN();
                else { printf("%ld ok", ln); vs_one_attr(vs, fi, atoi(tok[3]), 0); printf("\n"); }
            }
            else if (!strcmp(op, "vs.findattr")) {
                char *name = sarg(tok[3]);
                int r = VSfindattr(vs, fi, name);
                if (r == FAIL) FAILLN(); else OKLN(" %d", r);
                free(name);
            }
            else printf("%ld skip\n", ln);
            VSdetach(vs);
        }
        else if (!strcmp(op, "vg.create")) {
            char *name = sarg(tok[1]);
            int32 vg = Vattach(hf, -1, "w");
            int r = vg;
            if (r != FAIL) r = Vsetname(vg, name);
            int32 ref = vg != FAIL ? VQueryref(vg) : FAIL;
            if (vg != FAIL && Vdetach(vg) == FAIL) r = FAIL;
            if (r == FAIL || nvg >= MAXV) FAILLN();
            else { vgrefs[nvg] = ref; OKLN(" %d", nvg); nvg++; }
            free(name);
        }
        else if (!strncmp(op, "vg.", 3)) {
            int   k = atoi(tok[1]);
            int   rd = !strcmp(op, "vg.rsetattr") || !strcmp(op, "vg.rattrs") || !strcmp(op, "vg.rattrinfo") || !strcmp(op, "vg.rfindattr");
            char  opb[32];
            if (rd) { snprintf(opb, sizeof opb, "vg.%s", op + 4); op = opb; }
            int32 vg = (k >= 0 && k < nvg) ? Vattach(hf, vgrefs[k], (rd || h_mode == 'r') ? "r" : "w") : FAIL;
            if (vg == FAIL) { FAILLN(); continue; }
            if (!strcmp(op, "vg.setattr")) {
                char *name = sarg(tok[2]);
                int32 nt = atoi(tok[3]), cnt = atoi(tok[4]);
                int   nb = unhex(tok[5], dbuf);
                void *d = malloc(nb > 0 ? nb : 1); memcpy(d, dbuf, nb);
                if (Vsetattr(vg, name, nt, cnt, d) == FAIL) FAILLN(); else OKLN("");
                free(d); free(name);
            }
            else if (!strcmp(op, "vg.attrs")) {
                int n_ = Vnattrs(vg);
                if (n_ == FAIL) FAILLN();
                else {
                    printf("%ld ok %d", ln, n_);
                    for (int i = 0; i < n_; i++) if (!vg_one_attr(vg, i, 1)) printf(" FAIL");
                    printf("\n");
                }
            }
            else if (!strcmp(op, "vg.raw")) {
                vginstance_t *w = (vginstance_t *)HAatom_object(vg);
                VGROUP *g = w ? w->vg : NULL;
                printf("%ld ok %d", ln, g ? (int)g->nattrs : -1);
                for (int i = 0; g && i < g->nattrs; i++) {
                    int32 a = VSattach(hf, (int32)g->alist[i].aref, "r");
                    char nm[VSNAMELENMAX + 1] = "", cl[VSNAMELENMAX + 1] = "";
                    VSgetname(a, nm); VSgetclass(a, cl);
                    printf(" 0"); pstr(nm); pstr(cl); pstr(VFfieldname(a, 0));
                    printf(" %d %d %d", (int)VFfieldtype(a, 0), (int)VFfieldorder(a, 0), (int)VSelts(a));
                    VSdetach(a);
                }
                printf("\n");
            }
            else if (!strcmp(op, "vg.attrinfo")) {
                char nm[1024]; int32 a, b, c;
                if (Vattrinfo(vg, atoi(tok[2]), nm, &a, &b, &c) == FAIL) FAILLN();
                else { printf("%ld ok", ln); vg_one_attr(vg, atoi(tok[2]), 0); printf("\n"); }
            }
            else if (!strcmp(op, "vg.findattr")) {
                char *name = sarg(tok[2]);
                int r = Vfindattr(vg, name);
                if (r == FAIL) FAILLN(); else OKLN(" %d", r);
                free(name);
            }
            else printf("%ld skip\n", ln);
            Vdetach(vg);
        }
        /* ------------------------------------------------ unit level ---------------------------------- */
        else if (!strcmp(op, "unit.put")) {        /* unit.put NAME NT COUNT DATA : SDIputattr on a bare list */
            char *name = sarg(tok[1]);
            int32 nt = atoi(tok[2]), cnt = atoi(tok[3]);
            int   nb = unhex(tok[4], dbuf);
            void *d = malloc(nb > 0 ? nb : 1); memcpy(d, dbuf, nb);
            int r = SDIputattr(&unit_list, name, nt, cnt, d);
            if (r == FAIL) printf("%ld fail", ln); else printf("%ld ok", ln);
            unit_dump(); printf("\n");
            free(d); free(name);
        }
        else if (!strcmp(op, "unit.find")) {       /* unit.find NAME : NC_findattr -> position */
            char *name = sarg(tok[1]);
            NC_attr **p = unit_list ? NC_findattr(&unit_list, name) : NULL;
            if (p == NULL) FAILLN(); else OKLN(" %d", (int)(p - (NC_attr **)unit_list->values));
            free(name);
        }
        else printf("%ld skip\n", ln);
        fflush(stdout);
    }
    if (sd != FAIL) SDend(sd);
    if (hf != FAIL) { if (gr != FAIL) GRend(gr); Vend(hf); Hclose(hf); }
    unlink(sdname); unlink(hname);
}

int main(int argc, char **argv)
{
    if (argc < 3) return 2;
    const char *dir = argv[1];
    FILE *f = fopen(argv[2], "r");
    if (!f) return 2;
    static char buf[1400000];
    char **lines = NULL; long *lnos = NULL; long n = 0, cap = 0, ln = 0;
    while (fgets(buf, sizeof buf, f)) {
        ln++;
        if (n == cap) { cap = cap ? cap * 2 : 1024; lines = realloc(lines, cap * sizeof *lines); lnos = realloc(lnos, cap * sizeof *lnos); }
        lines[n] = strdup(buf); lnos[n] = ln; n++;
    }
    long i = 0;
    while (i < n) {
        long j = i + 1;
        while (j < n && strncmp(lines[j], "history", 7) != 0) j++;
        fflush(stdout);
        pid_t pid = fork();
        if (pid == 0) { run_history(dir, lines + i, lnos + i, j - i); fflush(stdout); _exit(0); }
        int st = 0;
        waitpid(pid, &st, 0);
        if (!(WIFEXITED(st) && WEXITSTATUS(st) == 0)) {
            int code = WIFEXITED(st) ? WEXITSTATUS(st) : 128 + WTERMSIG(st);
            printf("%ld crash %d\n", lnos[j - 1], code);
            char p[700];
            snprintf(p, sizeof p, "%s/%d_sd.hdf", dir, (int)pid); unlink(p);
            snprintf(p, sizeof p, "%s/%d_h.hdf", dir, (int)pid); unlink(p);
        }
        i = j;
    }
    return 0;
}
