/* C08 harness: runs Vgroup edit histories against the freshly built library.
 * usage: drive_vg <workdir> <history-file>
 * A history file holds several histories separated by lines "history <name>"; every history runs in its own
 * child process on a fresh file.  One output line per operation: "<lineno> ok v1 v2 .. [hex]" / "<lineno> fail".
 *
 * Objects are named by reference number.  A creating operation ends in a label "=k"; the token "@k" stands
 * for the reference number the library gave to the object labelled k (0 when there is none).
 * G = vgroup handle slot 0..31, S = vdata handle slot 0..15; HEX = bytes in hex, "-" = empty.
 *
 *   open                      Hopen(DFACC_CREATE) + Vinitialize
 *   reopen                    Vfinish + Hclose + Hopen(DFACC_RDWR) + Vinitialize          -> ok | fail
 *   vgnew G =k                Vattach(f,-1,"w"); VQueryref                               -> ok ref | fail
 *   vgattach G ref w|r        Vattach(f,ref,mode)                                         -> ok | fail
 *   vgdetach G                Vdetach                                                     -> ok | fail
 *   setname G HEX / setclass G HEX         Vsetname / Vsetclass                           -> ok | fail
 *   addtagref G tag ref       Vaddtagref                                                  -> ok n | fail
 *   addmany G tag ref cnt step   cnt x Vaddtagref(tag, ref + i*step)                      -> ok n(last) | fail
 *   insertvg G G2 / insertvs G S2          Vinsert                                        -> ok index | fail
 *   deltagref G tag ref       Vdeletetagref                                               -> ok | fail
 *   vdelete ref / vsdelete ref             Vdelete / VSdelete                             -> ok | fail
 *   vsnew HEXname HEXclass n =k  VHstoredata (n uint8 records)                            -> ok ref | fail
 *   vsnewempty HEXname HEXclass =k   VSattach(-1,"w"), VSsetname, VSsetclass, VSdetach       -> ok ref | fail
 *   vsattach S ref / vsdetach S            VSattach(f,ref,"r") / VSdetach                 -> ok | fail
 *   ntagrefs G                Vntagrefs                                                   -> ok n
 *   gettagrefs G n            Vgettagrefs into exact heap arrays of n entries             -> ok k t r t r ..
 *   gettagref G i             Vgettagref                                                  -> ok t r | fail
 *   inqtagref G tag ref       Vinqtagref                                                  -> ok 0|1
 *   nrefs G tag               Vnrefs                                                      -> ok n
 *   getname G / getclass G    Vgetnamelen/Vgetclassnamelen + Vgetname/Vgetclass (exact)   -> ok HEX
 *   inquire G                 Vinquire                                                    -> ok n HEX | fail
 *   queryref G                VQueryref                                                   -> ok ref
 *   isvg G id / isvs G id     Visvg / Visvs                                               -> ok 0|1
 *   lone n / vslone n         Vlone / VSlone with an exact array of n entries             -> ok total r1 r2 ..
 *   getid ref / vsgetid ref   Vgetid / VSgetid                                            -> ok next | fail
 *   iter / vsiter             Vgetid / VSgetid from -1 until FAIL                         -> ok r1 r2 ..
 *   find HEX / findclass HEX / vsfind HEX / vsfindclass HEX                               -> ok ref (0 = none)
 *   getvgroupsf start n / getvgroupsg G start n    Vgetvgroups (file id / vgroup id)      -> ok k r1 .. | fail
 *   vsgetvdatasf start n / vsgetvdatasg G start n       VSgetvdatas (file id / vgroup id)   -> ok k r1 .. | fail
 *   vsofclassf HEX start n / vsofclassg G HEX start n   VSofclass   (n = 0: NULL array, count only -> ok count)
 *   countvgroupsf start / countvgroupsg G start         Vgetvgroups with a NULL array       -> ok count | fail
 *   vhmakegroup HEXname HEXclass =k t r t r ..          VHmakegroup ("~" = NULL name/class) -> ok ref | fail
 *   ventries ref              Ventries                                                    -> ok n | fail
 *   querytag G                VQuerytag                                                   -> ok tag
 *   gisinternal G             Vgisinternal                                                -> ok 0|1 | fail
 *   flocate G HEXfield        Vflocate                                                    -> ok ref | fail
 *   reopen v                  as reopen, through Vclose + Vopen
 *   getnext G id              Vgetnext                        (R-vs-M only)               -> ok id | fail
 *   msize G                   vg->nvelt, vg->msize            (R-vs-M only)               -> ok nvelt msize
 *   rawvg ref                 Hgetelement(DFTAG_VG, ref)      (R-vs-M only)               -> ok HEX | fail
 *   putraw ref HEX            Hputelement(DFTAG_VG, ref, ..)  (R-vs-M only)               -> ok | fail
 */
#include <stdio.h>
#include <stdlib.h>
#include <string.h>
#include <unistd.h>
#include <sys/wait.h>
#include "hdf.h"
#include "hfile_priv.h"
#include "vg_priv.h"

#define NG 32
#define NS 16
#define NOBJ 4096
static int32 fid = FAIL;
static int32 gk[NG], sk[NS];
static long  objref[NOBJ];
static char  fname[600];

#define LINEMAX 400000
static char line[LINEMAX];
static unsigned char nbuf[LINEMAX / 2 + 8], cbuf[LINEMAX / 2 + 8];

static int unhex(const char *s, unsigned char *out)
{
    int n = 0;
    if (s[0] == '-' || s[0] == 0) { out[0] = 0; return 0; }
    while (s[0] && s[1]) { unsigned v; sscanf(s, "%2x", &v); out[n++] = (unsigned char)v; s += 2; }
    out[n] = 0;
    return n;
}
static void phex(const unsigned char *b, long n)
{
    if (n <= 0) { printf(" -"); return; }
    printf(" ");
    for (long i = 0; i < n; i++) printf("%02x", b[i]);
}
/* numeric token: literal or @k */
static long num(const char *t)
{
    if (t == NULL) return 0;
    if (t[0] == '@') { long k = atol(t + 1); return (k >= 0 && k < NOBJ) ? objref[k] : 0; }
    return atol(t);
}
/* "=k" on a creating operation: the new object gets label k */
static void setlabel(const char *t, long ref)
{
    if (t != NULL && t[0] == '=') { long k = atol(t + 1); if (k >= 0 && k < NOBJ) objref[k] = ref; }
}

static void run_history(const char *dir, char **lines, long *lnos, long n);

int main(int argc, char **argv)
{
    if (argc < 3) return 2;
    const char *dir = argv[1];
    FILE *f = fopen(argv[2], "r");
    if (!f) return 2;
    char **lines = NULL; long *lnos = NULL; long n = 0, cap = 0, ln = 0;
    while (fgets(line, sizeof line, f)) {
        ln++;
        if (n == cap) { cap = cap ? cap * 2 : 1024; lines = realloc(lines, cap * sizeof *lines); lnos = realloc(lnos, cap * sizeof *lnos); }
        lines[n] = strdup(line); lnos[n] = ln; n++;
    }
    long i = 0;
    while (i < n) {
        long j = i + 1;
        while (j < n && strncmp(lines[j], "history", 7) != 0) j++;
        fflush(stdout);
        pid_t pid = fork();
        if (pid == 0) { alarm(20); run_history(dir, lines + i, lnos + i, j - i); fflush(stdout); _exit(0); }   /* a history that spins (e.g. an enumeration that never ends) is killed: reported as a crash */
        int st = 0;
        waitpid(pid, &st, 0);
        if (!(WIFEXITED(st) && WEXITSTATUS(st) == 0)) {
            int code = WIFEXITED(st) ? WEXITSTATUS(st) : 128 + WTERMSIG(st);
            printf("%ld crash %d\n", lnos[j - 1], code);
        }
        i = j;
    }
    return 0;
}

#define MAXTOK 1400
static void run_history(const char *dir, char **lines, long *lnos, long nlines)
{
    for (int i = 0; i < NG; i++) gk[i] = FAIL;
    for (int i = 0; i < NS; i++) sk[i] = FAIL;
    memset(objref, 0, sizeof objref);
    snprintf(fname, sizeof fname, "%s/vg-%d.hdf", dir, (int)getpid());
    unlink(fname);
    for (long li = 0; li < nlines; li++) {
        long ln = lnos[li];
        strncpy(line, lines[li], sizeof line - 1);
        char *tok[MAXTOK]; int nt = 0;
        for (char *p = strtok(line, " \t\r\n"); p && nt < MAXTOK; p = strtok(NULL, " \t\r\n")) tok[nt++] = p;
        for (int i = nt; i < MAXTOK; i++) tok[i] = "0";
        if (nt == 0 || tok[0][0] == '#') { printf("%ld skip\n", ln); continue; }
        const char *op = tok[0];
        long a = num(tok[1]), b = num(tok[2]), c = num(tok[3]), d = num(tok[4]), e = num(tok[5]);
#define OK()   do { printf("%ld ok\n", ln); } while (0)
#define FAILED() do { printf("%ld fail\n", ln); } while (0)
#define GSLOT(x) ((x) >= 0 && (x) < NG && gk[x] != FAIL)
#define SSLOT(x) ((x) >= 0 && (x) < NS && sk[x] != FAIL)
        if (!strcmp(op, "history")) { printf("%ld history\n", ln); }
        else if (!strcmp(op, "open")) {
            fid = Hopen(fname, DFACC_CREATE, 0);
            if (fid == FAIL || Vinitialize(fid) == FAIL) FAILED(); else OK();
        }
        else if (!strcmp(op, "reopen")) {
            int r;
            if (nt > 1 && tok[1][0] == 'v') {
                r = Vclose(fid);
                fid = Vopen(fname, DFACC_RDWR, 0);
                if (fid == FAIL) r = FAIL;
            }
            else {
                r = Vfinish(fid);
                if (Hclose(fid) == FAIL) r = FAIL;
                fid = Hopen(fname, DFACC_RDWR, 0);
                if (fid == FAIL || Vinitialize(fid) == FAIL) r = FAIL;
            }
            for (int i = 0; i < NG; i++) gk[i] = FAIL;
            for (int i = 0; i < NS; i++) sk[i] = FAIL;
            if (r == FAIL) FAILED(); else OK();
        }
        else if (!strcmp(op, "vgnew")) {
            if (a < 0 || a >= NG || gk[a] != FAIL) { FAILED(); continue; }
            gk[a] = Vattach(fid, -1, "w");
            if (gk[a] == FAIL) { FAILED(); continue; }
            long r = VQueryref(gk[a]);
            setlabel(tok[2], r);
            printf("%ld ok %ld\n", ln, r);
        }
        else if (!strcmp(op, "vgattach")) {
            if (a < 0 || a >= NG || gk[a] != FAIL) { FAILED(); continue; }
            gk[a] = Vattach(fid, (int32)b, tok[3][0] == 'r' ? "r" : "w");
            if (gk[a] == FAIL) FAILED(); else OK();
        }
        else if (!strcmp(op, "vgdetach")) {
            if (!GSLOT(a)) { FAILED(); continue; }
            int r = Vdetach(gk[a]); gk[a] = FAIL;
            if (r == FAIL) FAILED(); else OK();
        }
        else if (!strcmp(op, "setname") || !strcmp(op, "setclass")) {
            if (!GSLOT(a)) { FAILED(); continue; }
            unhex(tok[2], nbuf);
            int r = op[3] == 'n' ? Vsetname(gk[a], (char *)nbuf) : Vsetclass(gk[a], (char *)nbuf);
            if (r == FAIL) FAILED(); else OK();
        }
        else if (!strcmp(op, "addtagref")) {
            if (!GSLOT(a)) { FAILED(); continue; }
            int32 r = Vaddtagref(gk[a], (int32)b, (int32)c);
            if (r == FAIL) FAILED(); else printf("%ld ok %ld\n", ln, (long)r);
        }
        else if (!strcmp(op, "addmany")) {
            if (!GSLOT(a)) { FAILED(); continue; }
            int32 r = FAIL;
            for (long i = 0; i < d; i++) { r = Vaddtagref(gk[a], (int32)b, (int32)(c + i * e)); if (r == FAIL) break; }
            if (r == FAIL) FAILED(); else printf("%ld ok %ld\n", ln, (long)r);
        }
        else if (!strcmp(op, "insertvg") || !strcmp(op, "insertvs")) {
            int vs = op[7] == 's';
            if (!GSLOT(a) || (vs ? !SSLOT(b) : !GSLOT(b))) { FAILED(); continue; }
            int32 r = Vinsert(gk[a], vs ? sk[b] : gk[b]);
            if (r == FAIL) FAILED(); else printf("%ld ok %ld\n", ln, (long)r);
        }
        else if (!strcmp(op, "deltagref")) {
            if (!GSLOT(a)) { FAILED(); continue; }
            if (Vdeletetagref(gk[a], (int32)b, (int32)c) == FAIL) FAILED(); else OK();
        }
        else if (!strcmp(op, "vdelete")) { if (Vdelete(fid, (int32)a) == FAIL) FAILED(); else OK(); }
        else if (!strcmp(op, "vsdelete")) { if (VSdelete(fid, (int32)a) == FAIL) FAILED(); else OK(); }
        else if (!strcmp(op, "vsnew")) {
            unhex(tok[1], nbuf); unhex(tok[2], cbuf);
            long nrec = atol(tok[3]);
            unsigned char *data = malloc(nrec > 0 ? nrec : 1);
            for (long i = 0; i < nrec; i++) data[i] = (unsigned char)(i * 7 + 1);
            int32 r = VHstoredata(fid, "f", data, (int32)nrec, DFNT_UINT8, (char *)nbuf, (char *)cbuf);
            free(data);
            setlabel(tok[4], r == FAIL ? 0 : r);
            if (r == FAIL) FAILED(); else printf("%ld ok %ld\n", ln, (long)r);
        }
        else if (!strcmp(op, "vsnewempty")) {
            unhex(tok[1], nbuf); unhex(tok[2], cbuf);
            int32 k = VSattach(fid, -1, "w");
            long r = FAIL;
            if (k != FAIL) {
                r = VSQueryref(k);
                if (VSsetname(k, (char *)nbuf) == FAIL || VSsetclass(k, (char *)cbuf) == FAIL) r = FAIL;
                if (VSdetach(k) == FAIL) r = FAIL;
            }
            setlabel(tok[3], r == FAIL ? 0 : r);
            if (r == FAIL) FAILED(); else printf("%ld ok %ld\n", ln, r);
        }
        else if (!strcmp(op, "vsattach")) {
            if (a < 0 || a >= NS || sk[a] != FAIL) { FAILED(); continue; }
            sk[a] = VSattach(fid, (int32)b, "r");
            if (sk[a] == FAIL) FAILED(); else OK();
        }
        else if (!strcmp(op, "vsdetach")) {
            if (!SSLOT(a)) { FAILED(); continue; }
            int r = VSdetach(sk[a]); sk[a] = FAIL;
            if (r == FAIL) FAILED(); else OK();
        }
        else if (!strcmp(op, "ntagrefs")) {
            if (!GSLOT(a)) { FAILED(); continue; }
            int32 r = Vntagrefs(gk[a]);
            if (r == FAIL) FAILED(); else printf("%ld ok %ld\n", ln, (long)r);
        }
        else if (!strcmp(op, "gettagrefs")) {
            if (!GSLOT(a) || b < 0) { FAILED(); continue; }
            int32 *ta = malloc((b ? b : 1) * sizeof(int32)), *ra = malloc((b ? b : 1) * sizeof(int32));
            int32 k = Vgettagrefs(gk[a], ta, ra, (int32)b);
            if (k == FAIL) FAILED();
            else {
                printf("%ld ok %ld", ln, (long)k);
                for (int32 i = 0; i < k && i < b; i++) printf(" %ld %ld", (long)ta[i], (long)ra[i]);
                printf("\n");
            }
            free(ta); free(ra);
        }
        else if (!strcmp(op, "gettagref")) {
            if (!GSLOT(a)) { FAILED(); continue; }
            int32 t = -7, r = -7;
            if (Vgettagref(gk[a], (int32)b, &t, &r) == FAIL) FAILED(); else printf("%ld ok %ld %ld\n", ln, (long)t, (long)r);
        }
        else if (!strcmp(op, "inqtagref")) {
            if (!GSLOT(a)) { FAILED(); continue; }
            printf("%ld ok %d\n", ln, Vinqtagref(gk[a], (int32)b, (int32)c) ? 1 : 0);
        }
        else if (!strcmp(op, "nrefs")) {
            if (!GSLOT(a)) { FAILED(); continue; }
            int32 r = Vnrefs(gk[a], (int32)b);
            if (r == FAIL) FAILED(); else printf("%ld ok %ld\n", ln, (long)r);
        }
        else if (!strcmp(op, "getname") || !strcmp(op, "getclass")) {
            if (!GSLOT(a)) { FAILED(); continue; }
            uint16 len = 0;
            int isn = op[3] == 'n';
            if ((isn ? Vgetnamelen(gk[a], &len) : Vgetclassnamelen(gk[a], &len)) == FAIL) { FAILED(); continue; }
            char *buf = malloc((size_t)len + 1);
            memset(buf, 0x55, (size_t)len + 1);
            if ((isn ? Vgetname(gk[a], buf) : Vgetclass(gk[a], buf)) == FAIL) FAILED();
            else { printf("%ld ok", ln); phex((unsigned char *)buf, (long)strlen(buf)); printf("\n"); }
            free(buf);
        }
        else if (!strcmp(op, "inquire")) {
            if (!GSLOT(a)) { FAILED(); continue; }
            uint16 len = 0;
            Vgetnamelen(gk[a], &len);
            char *buf = malloc((size_t)len + 1);
            memset(buf, 0x55, (size_t)len + 1);
            int32 ne = -7;
            if (Vinquire(gk[a], &ne, buf) == FAIL) FAILED();
            else { printf("%ld ok %ld", ln, (long)ne); phex((unsigned char *)buf, (long)strnlen(buf, (size_t)len + 1)); printf("\n"); }
            free(buf);
        }
        else if (!strcmp(op, "queryref")) {
            if (!GSLOT(a)) { FAILED(); continue; }
            int32 r = VQueryref(gk[a]);
            if (r == FAIL) FAILED(); else printf("%ld ok %ld\n", ln, (long)r);
        }
        else if (!strcmp(op, "isvg") || !strcmp(op, "isvs")) {
            if (!GSLOT(a)) { FAILED(); continue; }
            printf("%ld ok %d\n", ln, (op[3] == 'g' ? Visvg(gk[a], (int32)b) : Visvs(gk[a], (int32)b)) ? 1 : 0);
        }
        else if (!strcmp(op, "lone") || !strcmp(op, "vslone")) {
            if (a < 0) { FAILED(); continue; }
            int32 *arr = malloc((a ? a : 1) * sizeof(int32));
            int32 t = op[0] == 'l' ? Vlone(fid, arr, (int32)a) : VSlone(fid, arr, (int32)a);
            if (t == FAIL) FAILED();
            else {
                printf("%ld ok %ld", ln, (long)t);
                for (int32 i = 0; i < t && i < a; i++) printf(" %ld", (long)arr[i]);
                printf("\n");
            }
            free(arr);
        }
        else if (!strcmp(op, "getid") || !strcmp(op, "vsgetid")) {
            int32 r = op[0] == 'g' ? Vgetid(fid, (int32)a) : VSgetid(fid, (int32)a);
            if (r == FAIL) FAILED(); else printf("%ld ok %ld\n", ln, (long)r);
        }
        else if (!strcmp(op, "iter") || !strcmp(op, "vsiter")) {
            int32 id = -1; long steps = 0;
            printf("%ld ok", ln);
            while (steps++ < 70000 && (id = (op[0] == 'i' ? Vgetid(fid, id) : VSgetid(fid, id))) != FAIL) printf(" %ld", (long)id);
            printf("\n");
        }
        else if (!strcmp(op, "find") || !strcmp(op, "findclass") || !strcmp(op, "vsfind") || !strcmp(op, "vsfindclass")) {
            unhex(tok[1], nbuf);
            int32 r;
            if (!strcmp(op, "find")) r = Vfind(fid, (char *)nbuf);
            else if (!strcmp(op, "findclass")) r = Vfindclass(fid, (char *)nbuf);
            else if (!strcmp(op, "vsfind")) r = VSfind(fid, (char *)nbuf);
            else r = VSfindclass(fid, (char *)nbuf);
            if (r == FAIL) FAILED(); else printf("%ld ok %ld\n", ln, (long)r);
        }
        else if (!strcmp(op, "getvgroupsf") || !strcmp(op, "getvgroupsg")) {
            int g = op[10] == 'g';
            long start = g ? b : a, cnt = g ? c : b;
            if ((g && !GSLOT(a)) || cnt < 1 || start < 0) { FAILED(); continue; }
            uint16 *arr = malloc(cnt * sizeof(uint16));
            int k = Vgetvgroups(g ? gk[a] : fid, (unsigned)start, (unsigned)cnt, arr);
            if (k == FAIL) FAILED();
            else {
                printf("%ld ok %d", ln, k);
                for (int i = 0; i < k && i < cnt; i++) printf(" %u", (unsigned)arr[i]);
                printf("\n");
            }
            free(arr);
        }
        else if (!strcmp(op, "vsgetvdatasf") || !strcmp(op, "vsgetvdatasg") || !strcmp(op, "vsofclassf") || !strcmp(op, "vsofclassg")) {
            int g = op[strlen(op) - 1] == 'g', cls = op[2] == 'o';
            int ti = 1;
            int32 id = fid;
            if (g) { long hs = num(tok[ti++]); if (!GSLOT(hs)) { FAILED(); continue; } id = gk[hs]; }
            const char *q = NULL;
            if (cls) { unhex(tok[ti++], cbuf); q = (char *)cbuf; }
            long start = num(tok[ti]), cnt = num(tok[ti + 1]);
            if (start < 0 || cnt < 0) { FAILED(); continue; }
            uint16 *arr = cnt ? malloc(cnt * sizeof(uint16)) : NULL;
            int32 k = cls ? VSofclass(id, q, (unsigned)start, (unsigned)cnt, arr)
                          : VSgetvdatas(id, (unsigned)start, (unsigned)cnt, arr);
            if (k == FAIL) FAILED();
            else {
                printf("%ld ok %ld", ln, (long)k);
                for (int i = 0; arr && i < k && i < cnt; i++) printf(" %u", (unsigned)arr[i]);
                printf("\n");
            }
            free(arr);
        }
        else if (!strcmp(op, "countvgroupsf") || !strcmp(op, "countvgroupsg")) {
            int g = op[12] == 'g';
            long start = g ? b : a;
            if ((g && !GSLOT(a)) || start < 0) { FAILED(); continue; }
            int k = Vgetvgroups(g ? gk[a] : fid, (unsigned)start, 0, NULL);
            if (k == FAIL) FAILED(); else printf("%ld ok %d\n", ln, k);
        }
        else if (!strcmp(op, "vhmakegroup")) {
            const char *nm = NULL, *cl = NULL;
            if (tok[1][0] != '~') { unhex(tok[1], nbuf); nm = (char *)nbuf; }
            if (tok[2][0] != '~') { unhex(tok[2], cbuf); cl = (char *)cbuf; }
            int np = (nt - 4) / 2;
            if (np < 0) np = 0;
            int32 *ta = malloc((np ? np : 1) * sizeof(int32)), *ra = malloc((np ? np : 1) * sizeof(int32));
            for (int i = 0; i < np; i++) { ta[i] = (int32)num(tok[4 + 2 * i]); ra[i] = (int32)num(tok[5 + 2 * i]); }
            int32 r = VHmakegroup(fid, ta, ra, np, nm, cl);
            free(ta); free(ra);
            setlabel(tok[3], r == FAIL ? 0 : r);
            if (r == FAIL) FAILED(); else printf("%ld ok %ld\n", ln, (long)r);
        }
        else if (!strcmp(op, "ventries")) {
            int32 r = Ventries(fid, (int32)a);
            if (r == FAIL) FAILED(); else printf("%ld ok %ld\n", ln, (long)r);
        }
        else if (!strcmp(op, "querytag")) {
            if (!GSLOT(a)) { FAILED(); continue; }
            int32 r = VQuerytag(gk[a]);
            if (r == FAIL) FAILED(); else printf("%ld ok %ld\n", ln, (long)r);
        }
        else if (!strcmp(op, "gisinternal")) {
            if (!GSLOT(a)) { FAILED(); continue; }
            int r = Vgisinternal(gk[a]);
            if (r == FAIL) FAILED(); else printf("%ld ok %d\n", ln, r ? 1 : 0);
        }
        else if (!strcmp(op, "flocate")) {
            if (!GSLOT(a)) { FAILED(); continue; }
            unhex(tok[2], nbuf);
            int32 r = Vflocate(gk[a], (char *)nbuf);
            if (r == FAIL) FAILED(); else printf("%ld ok %ld\n", ln, (long)r);
        }
        else if (!strcmp(op, "getnext")) {
            if (!GSLOT(a)) { FAILED(); continue; }
            int32 r = Vgetnext(gk[a], (int32)b);
            if (r == FAIL) FAILED(); else printf("%ld ok %ld\n", ln, (long)r);
        }
        else if (!strcmp(op, "msize")) {
            if (!GSLOT(a)) { FAILED(); continue; }
            vginstance_t *v = (vginstance_t *)HAatom_object(gk[a]);
            if (v == NULL || v->vg == NULL) FAILED();
            else printf("%ld ok %ld %ld\n", ln, (long)v->vg->nvelt, (long)v->vg->msize);
        }
        else if (!strcmp(op, "rawvg")) {
            int32 len = Hlength(fid, DFTAG_VG, (uint16)a);
            if (len == FAIL) { FAILED(); continue; }
            unsigned char *buf = malloc(len > 0 ? len : 1);
            if (Hgetelement(fid, DFTAG_VG, (uint16)a, buf) == FAIL) FAILED();
            else { printf("%ld ok", ln); phex(buf, len); printf("\n"); }
            free(buf);
        }
        else if (!strcmp(op, "putraw")) {
            int n = unhex(tok[2], nbuf);
            if (Hputelement(fid, DFTAG_VG, (uint16)a, nbuf, n) == FAIL) FAILED(); else OK();
        }
        else printf("%ld skip\n", ln);
        fflush(stdout);
    }
    if (fid != FAIL) { Vfinish(fid); Hclose(fid); }
    unlink(fname);
}
