/* C12 harness: drives the bit-vector of the freshly built tree directly (bitvect.c is #included so that the
 * private struct -- bits_used, array_size, last_zero -- can be compared with the model after every call).
 * input lines: "new N" | "s n v" (bv_set) | "g n" (bv_get) | "z" (bv_find_next_zero)
 * output: "new ok|fail", then per op "result bits_used array_size last_zero"                               */
#include <stdio.h>
#include <stdlib.h>
#include <string.h>
#include "bitvect.c"

int main(int argc, char **argv)
{
    char   line[128], op[16];
    long   a, b;
    bv_ptr v = NULL;
    FILE  *f = argc > 1 ? fopen(argv[1], "r") : stdin;
    if (!f) return 2;
    while (fgets(line, sizeof line, f)) {
        int n = sscanf(line, "%15s %ld %ld", op, &a, &b);
        long r;
        if (n < 1 || op[0] == '#') continue;
        if (!strcmp(op, "new")) {
            if (v) bv_delete(v);
            v = bv_new((int32)a);
            printf("new %s\n", v ? "ok" : "fail");
            continue;
        }
        if (!v) continue;
        if (!strcmp(op, "s")) r = bv_set(v, (int32)a, (bv_bool)b);
        else if (!strcmp(op, "g")) r = bv_get(v, (int32)a);
        else if (!strcmp(op, "z")) r = bv_find_next_zero(v);
        else continue;
        printf("%ld %ld %ld %ld\n", r, (long)v->bits_used, (long)v->array_size, (long)v->last_zero);
    }
    if (v) bv_delete(v);
    return 0;
}
