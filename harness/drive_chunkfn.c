/* C04 function-level harness: the static chunk arithmetic of hdf/src/hchunks.c, called directly.
 * The DIM_RECs come from a real HMCcreate of a chunked element (so num_chunks / last_chunk_length are the library's).
 *   usage: drive_chunkfn <case file> <work dir>
 *   P <nt_size> <ndims> <d..> <c..> <pos> <len> <done>  ->  chunk_num seek_in_chunk piece sbi.. spb..
 *   C <nt_size> <ndims> <d..> <c..> <o..>               ->  chunk_num posn_after_whole_chunk spb.. array_idx.. (num_chunks last_len)..
 */
#include "hchunks.c"
#include <unistd.h>

#define MAXR 8

int main(int argc, char **argv)
{
    FILE *f;
    char  kw[8], fname[1024];
    int32 fid;
    if (argc < 3) return 2;
    f = fopen(argv[1], "r");
    if (!f) return 2;
    snprintf(fname, sizeof fname, "%s/c04fn-%d.hdf", argv[2], (int)getpid());
    fid = Hopen(fname, DFACC_CREATE, 0);
    if (fid == FAIL) return 2;
    long ncase = 0;
    while (fscanf(f, "%7s", kw) == 1) {
        long        nt, nd, i, d[MAXR], c[MAXR];
        HCHUNK_DEF  chunk[1];
        DIM_DEF     pd[MAXR];
        comp_info   cinfo;
        model_info  minfo;
        int32       aid, fillv = 0;
        accrec_t   *arec;
        chunkinfo_t *info;
        if (fscanf(f, "%ld %ld", &nt, &nd) != 2 || nd < 1 || nd > MAXR) return 2;
        if (++ncase % 300 == 0) { /* keep the DD list short: start a fresh file */
            Hclose(fid);
            fid = Hopen(fname, DFACC_CREATE, 0);
            if (fid == FAIL) return 2;
        }
        for (i = 0; i < nd; i++) if (fscanf(f, "%ld", &d[i]) != 1) return 2;
        for (i = 0; i < nd; i++) if (fscanf(f, "%ld", &c[i]) != 1) return 2;
        memset(chunk, 0, sizeof chunk);
        chunk[0].chunk_size = 1;
        chunk[0].num_dims   = (int32)nd;
        chunk[0].pdims      = pd;
        for (i = 0; i < nd; i++) {
            pd[i].dim_length = (int32)d[i]; pd[i].chunk_length = (int32)c[i]; pd[i].distrib_type = 1;
            chunk[0].chunk_size *= (int32)c[i];
        }
        chunk[0].nt_size    = (int32)nt;
        chunk[0].comp_type  = COMP_CODE_NONE;
        chunk[0].model_type = COMP_MODEL_STDIO;
        chunk[0].cinfo      = &cinfo;
        chunk[0].minfo      = &minfo;
        aid = HMCcreate(fid, DFTAG_SD, Hnewref(fid), 1, (int32)(nt <= 4 ? nt : 4), &fillv, chunk);
        if (aid == FAIL) { printf("createfail\n"); /* consume the rest of the line */
            { int ch; while ((ch = fgetc(f)) != '\n' && ch != EOF) ; } continue; }
        arec = HAatom_object(aid);
        info = (chunkinfo_t *)arec->special_info;
        if (kw[0] == 'P') {
            long  pos, len, done;
            int32 sbi[MAXR], spb[MAXR], cn = -1, seek = -1, piece = -1;
            if (fscanf(f, "%ld %ld %ld", &pos, &len, &done) != 3) return 2;
            update_chunk_indices_seek((int32)pos, info->ndims, info->nt_size, sbi, spb, info->ddims);
            calculate_chunk_num(&cn, info->ndims, sbi, info->ddims);
            calculate_seek_in_chunk(&seek, info->ndims, info->nt_size, spb, info->ddims);
            calculate_chunk_for_chunk(&piece, info->ndims, info->nt_size, (int32)len, (int32)done, sbi, spb, info->ddims);
            printf("%d %d %d", (int)cn, (int)seek, (int)piece);
            for (i = 0; i < nd; i++) printf(" %d", (int)sbi[i]);
            for (i = 0; i < nd; i++) printf(" %d", (int)spb[i]);
            printf("\n");
        }
        else {
            int32 o[MAXR], spb[MAXR], ai[MAXR], cn = -1, posn = -1;
            for (i = 0; i < nd; i++) { long v; if (fscanf(f, "%ld", &v) != 1) return 2; o[i] = (int32)v; spb[i] = 0; }
            calculate_chunk_num(&cn, info->ndims, o, info->ddims);
            update_seek_pos_chunk(info->chunk_size * info->nt_size, info->ndims, info->nt_size, spb, info->ddims);
            compute_chunk_to_array(o, spb, ai, info->ndims, info->ddims);
            compute_array_to_seek(&posn, ai, info->nt_size, info->ndims, info->ddims);
            printf("%d %d", (int)cn, (int)posn);
            for (i = 0; i < nd; i++) printf(" %d", (int)spb[i]);
            for (i = 0; i < nd; i++) printf(" %d", (int)ai[i]);
            for (i = 0; i < nd; i++) printf(" %d %d", (int)info->ddims[i].num_chunks, (int)info->ddims[i].last_chunk_length);
            printf("\n");
        }
        Hendaccess(aid);
    }
    Hclose(fid);
    unlink(fname);
    return 0;
}
