/* C19 harness (inspection tools).  Three modes:
 *
 *   drive_c19 mk <desc> <out.hdf>     build an HDF4 file from a content description
 *   drive_c19 rd <desc> <file.hdf>    read the objects named in <desc> back through the public API and print
 *                                     what the API returns, in the same description format (the reference the
 *                                     hdp dumps / hdfimport outputs are compared with)
 *   drive_c19 rd0 <file.hdf>          read dataset 0 of a file (hdfimport output): "S <name> nt rank dims n vals"
 *   drive_c19 ad <cases>              call hdiff's array_diff (hdiff_array.c is #included) directly
 *
 * Description format, one record per line, all tokens separated by blanks, names without blanks:
 *   G name nt n v..                    global SD attribute
 *   S name nt rank d.. n v..           SDS (n = number of values, row-major)
 *   A name nt n v..                    attribute of the preceding S
 *   R name nt ncomp xdim ydim n v..    GR image, pixel interlace, n = xdim*ydim*ncomp
 *   V name nrec nf (fname nt order)*nf n v..   Vdata, full interlace, n = nrec*sum(order)
 *   E name                             empty Vgroup
 *   N name nrec nf ...                 like V, stored with NO_INTERLACE (VSsetinterlace)
 *   T owner findex name nt n v..       attribute of the Vdata `owner` (findex -1) / of its field findex (>= 0), set with
 *                                      VSsetattr, or of the Vgroup `owner` (findex -2), set with Vsetattr
 *   D il xdim ydim n v..               24-bit raster added with DF24setil(il) + DF24addimage (v: pixel-major logical values,
 *                                      n = xdim*ydim*3); B xdim ydim n v.. 8-bit raster added with DFR8addimage.  Both get
 *                                      their refs from Htagnewref and are named "Raster Image #k" by the GR interface
 *   Z name nt rank d.. fill idx val    (mk only) SDS filled with one value, element idx set to val
 *   Q name nt ncomp xdim ydim fill idx val   (mk only) image filled with one value, element idx set to val
 *   W name nrec nf (fname nt order)*nf a b   (mk only) Vdata whose k-th scalar is (k*a+b) mod 127 (floats: that / 8)
 * Values: integers for the integer/char types; float32/float64 values are given by their IEEE bit pattern
 * (unsigned integer), so that nothing in the harness or the drivers formats or parses floating text.
 *
 * ad case line:  nt n maxcnt lim relnum relden a0..a(n-1) b0..b(n-1)
 *   -> "BEGIN" / lines printed by array_diff / "END <n_diff>"                                              */
#include <stdio.h>
#include <stdlib.h>
#include <string.h>
#include "hdf.h"
#include "mfhdf.h"
#include "hdiff.h"

#include "hdiff_array.c"

#define MAXTOK 70000
static char *tok[MAXTOK];
static int ntok;

static int split(char *line)
{
    ntok = 0;
    for (char *p = strtok(line, " \t\r\n"); p && ntok < MAXTOK; p = strtok(NULL, " \t\r\n")) tok[ntok++] = p;
    return ntok;
}

static int ntsize(int32 nt) { return DFKNTsize(nt | DFNT_NATIVE); }

static void put_val(int32 nt, unsigned char *dst, const char *s)
{
    long long v = strtoll(s, NULL, 10);
    unsigned long long u = strtoull(s, NULL, 10);
    switch (nt & 0xff) { /* memory image is the same for the standard, native and little-endian flavours */
    case DFNT_INT8: { int8 x = (int8)v; memcpy(dst, &x, 1); break; }
    case DFNT_CHAR8: case DFNT_UCHAR8: case DFNT_UINT8: { uint8 x = (uint8)v; memcpy(dst, &x, 1); break; }
    case DFNT_INT16: { int16 x = (int16)v; memcpy(dst, &x, 2); break; }
    case DFNT_UINT16: { uint16 x = (uint16)v; memcpy(dst, &x, 2); break; }
    case DFNT_INT32: { int32 x = (int32)v; memcpy(dst, &x, 4); break; }
    case DFNT_UINT32: { uint32 x = (uint32)u; memcpy(dst, &x, 4); break; }
    case DFNT_FLOAT32: { uint32 x = (uint32)u; memcpy(dst, &x, 4); break; }
    case DFNT_FLOAT64: { unsigned long long x = u; memcpy(dst, &x, 8); break; }
    default: break;
    }
}

static void print_val(int32 nt, const unsigned char *src)
{
    switch (nt & 0xff) {
    case DFNT_INT8: { int8 x; memcpy(&x, src, 1); printf(" %d", (int)x); break; }
    case DFNT_CHAR8: case DFNT_UCHAR8: case DFNT_UINT8: { uint8 x; memcpy(&x, src, 1); printf(" %u", (unsigned)x); break; }
    case DFNT_INT16: { int16 x; memcpy(&x, src, 2); printf(" %d", (int)x); break; }
    case DFNT_UINT16: { uint16 x; memcpy(&x, src, 2); printf(" %u", (unsigned)x); break; }
    case DFNT_INT32: { int32 x; memcpy(&x, src, 4); printf(" %d", (int)x); break; }
    case DFNT_UINT32: case DFNT_FLOAT32: { uint32 x; memcpy(&x, src, 4); printf(" %u", (unsigned)x); break; }
    case DFNT_FLOAT64: { unsigned long long x; memcpy(&x, src, 8); printf(" %llu", x); break; }
    default: printf(" ?"); break;
    }
}

static unsigned char *vals(int32 nt, int first, int n)
{
    int w = ntsize(nt);
    unsigned char *b = (unsigned char *)calloc((size_t)(n > 0 ? n : 1), (size_t)(w > 0 ? w : 1));
    for (int i = 0; i < n; i++) put_val(nt, b + (size_t)i * w, tok[first + i]);
    return b;
}

#define CK(e) do { if ((e) == FAIL) { fprintf(stderr, "drive_c19: %s failed (line %d)\n", #e, __LINE__); return 3; } } while (0)

/* ---------------------------------------------------------------- mk */
static int do_mk(const char *desc, const char *out)
{
    FILE *f = fopen(desc, "r");
    if (!f) return 2;
    static char line[1 << 20];
    int32 sd = SDstart(out, DFACC_CREATE);
    CK(sd);
    int32 sds = FAIL;
    /* pass 1: SD objects */
    while (fgets(line, sizeof line, f)) {
        if (!split(line)) continue;
        if (!strcmp(tok[0], "G")) {
            int32 nt = atoi(tok[2]), n = atoi(tok[3]);
            unsigned char *b = vals(nt, 4, n);
            CK(SDsetattr(sd, tok[1], nt, n, b));
            free(b);
        }
        else if (!strcmp(tok[0], "S")) {
            if (sds != FAIL) { CK(SDendaccess(sds)); sds = FAIL; }
            int32 nt = atoi(tok[2]), rank = atoi(tok[3]), dims[H4_MAX_VAR_DIMS], start[H4_MAX_VAR_DIMS];
            for (int i = 0; i < rank; i++) { dims[i] = atoi(tok[4 + i]); start[i] = 0; }
            int n = atoi(tok[4 + rank]);
            unsigned char *b = vals(nt, 5 + rank, n);
            sds = SDcreate(sd, tok[1], nt, rank, dims);
            CK(sds);
            if (n > 0) CK(SDwritedata(sds, start, NULL, dims, b));
            free(b);
        }
        else if (!strcmp(tok[0], "A")) {
            int32 nt = atoi(tok[2]), n = atoi(tok[3]);
            unsigned char *b = vals(nt, 4, n);
            CK(SDsetattr(sds, tok[1], nt, n, b));
            free(b);
        }
        else if (!strcmp(tok[0], "Z")) { /* Z name nt rank d.. fill idx val : constant dataset with one element set */
            if (sds != FAIL) { CK(SDendaccess(sds)); sds = FAIL; }
            int32 nt = atoi(tok[2]), rank = atoi(tok[3]), dims[H4_MAX_VAR_DIMS], start[H4_MAX_VAR_DIMS];
            long n = 1;
            for (int i = 0; i < rank; i++) { dims[i] = atoi(tok[4 + i]); start[i] = 0; n *= dims[i]; }
            int w = ntsize(nt);
            unsigned char *b = (unsigned char *)calloc((size_t)n, (size_t)w);
            for (long i = 0; i < n; i++) put_val(nt, b + (size_t)i * w, tok[4 + rank]);
            long idx = atol(tok[5 + rank]);
            if (idx >= 0 && idx < n) put_val(nt, b + (size_t)idx * w, tok[6 + rank]);
            sds = SDcreate(sd, tok[1], nt, rank, dims);
            CK(sds);
            CK(SDwritedata(sds, start, NULL, dims, b));
            free(b);
        }
    }
    if (sds != FAIL) CK(SDendaccess(sds));
    CK(SDend(sd));
    /* pass 2: GR, VS, VG objects */
    rewind(f);
    int32 fid = Hopen(out, DFACC_RDWR, 0);
    CK(fid);
    CK(Vstart(fid));
    int32 gr = GRstart(fid);
    CK(gr);
    while (fgets(line, sizeof line, f)) {
        if (!split(line)) continue;
        if (!strcmp(tok[0], "R")) {
            int32 nt = atoi(tok[2]), nc = atoi(tok[3]), dims[2], start[2] = {0, 0};
            dims[0] = atoi(tok[4]); dims[1] = atoi(tok[5]);
            int n = atoi(tok[6]);
            unsigned char *b = vals(nt, 7, n);
            int32 ri = GRcreate(gr, tok[1], nc, nt, MFGR_INTERLACE_PIXEL, dims);
            CK(ri);
            CK(GRwriteimage(ri, start, NULL, dims, b));
            CK(GRendaccess(ri));
            free(b);
        }
        else if (!strcmp(tok[0], "T")) {
            int findex = atoi(tok[2]);
            int32 nt = atoi(tok[4]), n = atoi(tok[5]);
            unsigned char *b = vals(nt, 6, n);
            if (findex == -2) {
                int32 ref = Vfind(fid, tok[1]);
                CK(ref > 0 ? ref : FAIL);
                int32 vg = Vattach(fid, ref, "w");
                CK(vg);
                CK(Vsetattr(vg, tok[3], nt, n, b));
                CK(Vdetach(vg));
            }
            else {
                int32 ref = VSfind(fid, tok[1]);
                CK(ref > 0 ? ref : FAIL);
                int32 vs = VSattach(fid, ref, "w");
                CK(vs);
                CK(VSsetattr(vs, findex, tok[3], nt, n, b));
                CK(VSdetach(vs));
            }
            free(b);
        }
        else if (!strcmp(tok[0], "V") || !strcmp(tok[0], "N")) {
            int nrec = atoi(tok[2]), nf = atoi(tok[3]);
            int32 vs = VSattach(fid, -1, "w");
            CK(vs);
            CK(VSsetname(vs, tok[1]));
            char fields[2048] = "";
            int recsz = 0, nper = 0;
            for (int i = 0; i < nf; i++) {
                int32 nt = atoi(tok[5 + 3 * i]), ord = atoi(tok[6 + 3 * i]);
                CK(VSfdefine(vs, tok[4 + 3 * i], nt, ord));
                if (i) strcat(fields, ",");
                strcat(fields, tok[4 + 3 * i]);
                recsz += ntsize(nt) * ord; nper += ord;
            }
            CK(VSsetfields(vs, fields));
            if (tok[0][0] == 'N') CK(VSsetinterlace(vs, NO_INTERLACE));
            int base = 4 + 3 * nf; /* tok[base] = n */
            unsigned char *b = (unsigned char *)calloc((size_t)(nrec > 0 ? nrec : 1), (size_t)recsz);
            unsigned char *p = b;
            int k = base + 1;
            for (int r = 0; r < nrec; r++)
                for (int i = 0; i < nf; i++) {
                    int32 nt = atoi(tok[5 + 3 * i]), ord = atoi(tok[6 + 3 * i]);
                    for (int o = 0; o < ord; o++) { put_val(nt, p, tok[k++]); p += ntsize(nt); }
                }
            if (nrec > 0) CK(VSwrite(vs, b, nrec, FULL_INTERLACE));
            CK(VSdetach(vs));
            free(b);
        }
        else if (!strcmp(tok[0], "Q")) {
            int32 nt = atoi(tok[2]), nc = atoi(tok[3]), dims[2], start[2] = {0, 0};
            dims[0] = atoi(tok[4]); dims[1] = atoi(tok[5]);
            long n = (long)dims[0] * dims[1] * nc, idx = atol(tok[7]);
            int w = ntsize(nt);
            unsigned char *b = (unsigned char *)calloc((size_t)n, (size_t)w);
            for (long i = 0; i < n; i++) put_val(nt, b + (size_t)i * w, tok[6]);
            if (idx >= 0 && idx < n) put_val(nt, b + (size_t)idx * w, tok[8]);
            int32 ri = GRcreate(gr, tok[1], nc, nt, MFGR_INTERLACE_PIXEL, dims);
            CK(ri);
            CK(GRwriteimage(ri, start, NULL, dims, b));
            CK(GRendaccess(ri));
            free(b);
        }
        else if (!strcmp(tok[0], "W")) {
            int nrec = atoi(tok[2]), nf = atoi(tok[3]);
            long a = atol(tok[4 + 3 * nf]), bb = atol(tok[5 + 3 * nf]);
            int32 vs = VSattach(fid, -1, "w");
            CK(vs);
            CK(VSsetname(vs, tok[1]));
            char fields[2048] = "";
            int recsz = 0;
            for (int i = 0; i < nf; i++) {
                int32 nt = atoi(tok[5 + 3 * i]), ord = atoi(tok[6 + 3 * i]);
                CK(VSfdefine(vs, tok[4 + 3 * i], nt, ord));
                if (i) strcat(fields, ",");
                strcat(fields, tok[4 + 3 * i]);
                recsz += ntsize(nt) * ord;
            }
            CK(VSsetfields(vs, fields));
            unsigned char *buf = (unsigned char *)calloc((size_t)nrec, (size_t)recsz), *p = buf;
            long k = 0;
            for (int r = 0; r < nrec; r++)
                for (int i = 0; i < nf; i++) {
                    int32 nt = atoi(tok[5 + 3 * i]), ord = atoi(tok[6 + 3 * i]);
                    for (int o = 0; o < ord; o++, k++) {
                        long v = (k * a + bb) % 127;
                        if ((nt & 0xff) == DFNT_FLOAT32) { float x = (float)v / 8.0f; memcpy(p, &x, 4); }
                        else if ((nt & 0xff) == DFNT_FLOAT64) { double x = (double)v / 8.0; memcpy(p, &x, 8); }
                        else { char t[32]; snprintf(t, sizeof t, "%ld", v); put_val(nt, p, t); }
                        p += ntsize(nt);
                    }
                }
            CK(VSwrite(vs, buf, nrec, FULL_INTERLACE));
            CK(VSdetach(vs));
            free(buf);
        }
        else if (!strcmp(tok[0], "E")) {
            int32 vg = Vattach(fid, -1, "w");
            CK(vg);
            CK(Vsetname(vg, tok[1]));
            CK(Vdetach(vg));
        }
    }
    CK(GRend(gr));
    CK(Vend(fid));
    CK(Hclose(fid));
    /* pass 3: objects of the single-file raster interfaces (their refs come from Htagnewref) */
    rewind(f);
    while (fgets(line, sizeof line, f)) {
        if (!split(line)) continue;
        if (!strcmp(tok[0], "D")) {
            int il = atoi(tok[1]), xd = atoi(tok[2]), yd = atoi(tok[3]), n = atoi(tok[4]);
            unsigned char *b = (unsigned char *)calloc((size_t)n + 1, 1);
            for (int y = 0; y < yd; y++)
                for (int x = 0; x < xd; x++)
                    for (int c = 0; c < 3; c++) {
                        unsigned char v = (unsigned char)atoi(tok[5 + (y * xd + x) * 3 + c]);
                        long pos = il == 0 ? ((long)y * xd + x) * 3 + c : il == 1 ? ((long)y * 3 + c) * xd + x : ((long)c * yd + y) * xd + x;
                        b[pos] = v;
                    }
            CK(DF24setil(il));
            CK(DF24addimage(out, b, xd, yd));
            free(b);
        }
        else if (!strcmp(tok[0], "B")) {
            int xd = atoi(tok[1]), yd = atoi(tok[2]), n = atoi(tok[3]);
            unsigned char *b = (unsigned char *)calloc((size_t)n + 1, 1);
            for (int i = 0; i < n; i++) b[i] = (unsigned char)atoi(tok[4 + i]);
            CK(DFR8addimage(out, b, xd, yd, 0));
            free(b);
        }
    }
    fclose(f);
    return 0;
}

/* ---------------------------------------------------------------- rd */
static void print_attr_line(const char *tag, const char *name, int32 nt, int32 n, unsigned char *b)
{
    printf("%s %s %d %d", tag, name, (int)nt, (int)n);
    for (int i = 0; i < n; i++) print_val(nt, b + (size_t)i * ntsize(nt));
    printf("\n");
}

static int do_rd(const char *desc, const char *file)
{
    FILE *f = fopen(desc, "r");
    if (!f) return 2;
    static char line[1 << 20];
    int32 sd = SDstart(file, DFACC_RDONLY);
    CK(sd);
    int32 fid = Hopen(file, DFACC_READ, 0);
    CK(fid);
    CK(Vstart(fid));
    int32 gr = GRstart(fid);
    CK(gr);
    int32 sds = FAIL;
    int32 nraster = 0;
    while (fgets(line, sizeof line, f)) {
        if (!split(line)) continue;
        if (!strcmp(tok[0], "G") || !strcmp(tok[0], "A")) {
            int32 id = tok[0][0] == 'G' ? sd : sds, idx = SDfindattr(id, tok[1]);
            if (idx == FAIL) { printf("%s %s missing\n", tok[0], tok[1]); continue; }
            char nm[H4_MAX_NC_NAME + 1]; int32 nt, n;
            CK(SDattrinfo(id, idx, nm, &nt, &n));
            unsigned char *b = (unsigned char *)calloc((size_t)n + 1, (size_t)ntsize(nt));
            CK(SDreadattr(id, idx, b));
            print_attr_line(tok[0], nm, nt, n, b);
            free(b);
        }
        else if (!strcmp(tok[0], "S") || !strcmp(tok[0], "Z")) {
            if (sds != FAIL) { SDendaccess(sds); sds = FAIL; }
            int32 idx = SDnametoindex(sd, tok[1]);
            if (idx == FAIL) { printf("S %s missing\n", tok[1]); continue; }
            sds = SDselect(sd, idx);
            char nm[H4_MAX_NC_NAME + 1]; int32 rank, dims[H4_MAX_VAR_DIMS], nt, na, start[H4_MAX_VAR_DIMS];
            CK(SDgetinfo(sds, nm, &rank, dims, &nt, &na));
            long n = 1;
            for (int i = 0; i < rank; i++) { n *= dims[i]; start[i] = 0; }
            unsigned char *b = (unsigned char *)calloc((size_t)n + 1, (size_t)ntsize(nt));
            int32 rc = SDreaddata(sds, start, NULL, dims, b);
            printf("S %s %d %d", nm, (int)nt, (int)rank);
            for (int i = 0; i < rank; i++) printf(" %d", (int)dims[i]);
            if (rc == FAIL) { printf(" readfail\n"); free(b); continue; }
            printf(" %ld", n);
            for (long i = 0; i < n; i++) print_val(nt, b + (size_t)i * ntsize(nt));
            printf("\n");
            free(b);
        }
        else if (!strcmp(tok[0], "R") || !strcmp(tok[0], "Q") || !strcmp(tok[0], "D") || !strcmp(tok[0], "B")) {
            int32 idx = (tok[0][0] == 'D' || tok[0][0] == 'B') ? nraster++ : GRnametoindex(gr, tok[1]);
            if (idx == FAIL) { printf("R %s missing\n", tok[1]); continue; }
            int32 ri = GRselect(gr, idx);
            char nm[H4_MAX_GR_NAME + 1]; int32 nc, nt, il, dims[2], na, start[2] = {0, 0};
            CK(GRgetiminfo(ri, nm, &nc, &nt, &il, dims, &na));
            long n = (long)dims[0] * dims[1] * nc;
            unsigned char *b = (unsigned char *)calloc((size_t)n + 1, (size_t)ntsize(nt));
            CK(GRreqimageil(ri, MFGR_INTERLACE_PIXEL));
            CK(GRreadimage(ri, start, NULL, dims, b));
            for (char *q = nm; *q; q++) if (*q == ' ') *q = '~';
            printf("R %s %d %d %d %d %ld", nm, (int)nt, (int)nc, (int)dims[0], (int)dims[1], n);
            for (long i = 0; i < n; i++) print_val(nt, b + (size_t)i * ntsize(nt));
            printf("\n");
            GRendaccess(ri);
            free(b);
        }
        else if (!strcmp(tok[0], "V") || !strcmp(tok[0], "W") || !strcmp(tok[0], "N")) {
            int32 ref = VSfind(fid, tok[1]);
            if (ref <= 0) { printf("V %s missing\n", tok[1]); continue; }
            int32 vs = VSattach(fid, ref, "r");
            CK(vs);
            int32 nrec, il, sz; char fields[4096], nm[VSNAMELENMAX + 1];
            CK(VSinquire(vs, &nrec, &il, fields, &sz, nm));
            int nf = VFnfields(vs);
            printf("V %s %d %d", nm, (int)nrec, nf);
            int nper = 0;
            for (int i = 0; i < nf; i++) {
                printf(" %s %d %d", VFfieldname(vs, i), (int)VFfieldtype(vs, i), (int)VFfieldorder(vs, i));
                nper += VFfieldorder(vs, i);
            }
            CK(VSsetfields(vs, fields));
            unsigned char *b = (unsigned char *)calloc((size_t)nrec + 1, (size_t)sz + 1);
            if (nrec > 0) CK(VSread(vs, b, nrec, FULL_INTERLACE));
            printf(" %d", nrec * nper);
            unsigned char *p = b;
            for (int r = 0; r < nrec; r++)
                for (int i = 0; i < nf; i++) {
                    int32 nt = VFfieldtype(vs, i);
                    for (int o = 0; o < VFfieldorder(vs, i); o++) { print_val(nt, p); p += ntsize(nt); }
                }
            printf("\n");
            VSdetach(vs);
            free(b);
        }
        else if (!strcmp(tok[0], "E")) {
            int32 ref = Vfind(fid, tok[1]);
            printf(ref > 0 ? "E %s\n" : "E %s missing\n", tok[1]);
        }
    }
    if (sds != FAIL) SDendaccess(sds);
    GRend(gr);
    Vend(fid);
    Hclose(fid);
    SDend(sd);
    fclose(f);
    return 0;
}

static int do_rd0(const char *file)
{
    int32 sd = SDstart(file, DFACC_RDONLY);
    CK(sd);
    int32 nds, nga;
    CK(SDfileinfo(sd, &nds, &nga));
    printf("N %d\n", (int)nds);
    for (int32 k = 0; k < nds; k++) {
        int32 sds = SDselect(sd, k);
        CK(sds);
        if (SDiscoordvar(sds)) { SDendaccess(sds); continue; }
        char nm[H4_MAX_NC_NAME + 1]; int32 rank, dims[H4_MAX_VAR_DIMS], nt, na, start[H4_MAX_VAR_DIMS];
        CK(SDgetinfo(sds, nm, &rank, dims, &nt, &na));
        long n = 1;
        for (int i = 0; i < rank; i++) { n *= dims[i]; start[i] = 0; }
        unsigned char *b = (unsigned char *)calloc((size_t)n + 1, (size_t)ntsize(nt));
        CK(SDreaddata(sds, start, NULL, dims, b));
        printf("S ds%d %d %d", (int)k, (int)nt, (int)rank);
        for (int i = 0; i < rank; i++) printf(" %d", (int)dims[i]);
        printf(" %ld", n);
        for (long i = 0; i < n; i++) print_val(nt, b + (size_t)i * ntsize(nt));
        printf("\n");
        free(b);
        SDendaccess(sds);
    }
    SDend(sd);
    return 0;
}

/* ---------------------------------------------------------------- ad */
static int do_ad(const char *cases)
{
    FILE *f = fopen(cases, "r");
    if (!f) return 2;
    static char line[1 << 20];
    while (fgets(line, sizeof line, f)) {
        if (split(line) < 6) continue;
        int32 nt = atoi(tok[0]);
        int n = atoi(tok[1]);
        uint32 maxcnt = (uint32)strtoul(tok[2], NULL, 10);
        float32 lim = (float32)atof(tok[3]);
        double rn = atof(tok[4]), rdn = atof(tok[5]);
        float32 rel = (float32)(rdn != 0 ? rn / rdn : 0.0);
        if (ntok != 6 + 2 * n) { printf("BEGIN\nEND badline\n"); continue; }
        unsigned char *a = vals(nt, 6, n), *b = vals(nt, 6 + n, n);
        int32 dims[1];
        dims[0] = n;
        printf("BEGIN\n");
        uint32 nd = array_diff(a, b, (uint32)n, "a", "b", 1, dims, nt, lim, rel, maxcnt, 0, NULL, NULL);
        printf("\nEND %u\n", nd);
        fflush(stdout);
        free(a);
        free(b);
    }
    fclose(f);
    return 0;
}

int main(int argc, char **argv)
{
    if (argc >= 4 && !strcmp(argv[1], "mk")) return do_mk(argv[2], argv[3]);
    if (argc >= 4 && !strcmp(argv[1], "rd")) return do_rd(argv[2], argv[3]);
    if (argc >= 3 && !strcmp(argv[1], "rd0")) return do_rd0(argv[2]);
    if (argc >= 3 && !strcmp(argv[1], "ad")) return do_ad(argv[2]);
    fprintf(stderr, "usage: drive_c19 mk|rd|rd0|ad ...\n");
    return 2;
}
