/* C09 harness: drives the GR interface of the freshly built library through histories.
 *
 * usage: drive_gr <history-file>          (scratch HDF file: <history-file>.hdf)
 * One operation per input line (integers only), one output line per operation:
 *   H id                              new history (new file)                      -> H id
 *   C k xdim ydim ncomp nt il         GRcreate image slot k (name "img<k>")       -> C ok|fail
 *   F k n b..                         GRsetattr(FILL_ATTR, nt, ncomp, bytes)       -> F ok|fail
 *   A k                               FillValue attribute (GRfindattr/GRgetattr)   -> A ok b..|none
 *   Z k ctype p                       GRsetcompress (1 RLE, 3 SKPHUFF p, 4 DEFLATE p) -> Z ok|fail
 *   K k cx cy ctype p                 GRsetchunk (ctype 0: HDF_CHUNK, else |HDF_COMP) -> K ok|fail
 *   W k sx sy tx ty cx cy n b..       GRwriteimage                                 -> W ok|fail | trace
 *   I k il                            GRreqimageil                                 -> I ok|fail
 *   R k sx sy tx ty cx cy             GRreadimage                                  -> R ok b..|fail | trace
 *   G k                               GRgetiminfo                                  -> G ok ncomp nt il xdim ydim
 *   L k ncomp nt il nentries n b..    GRwritelut                                   -> L ok|fail
 *   J k il                            GRreqlutil                                   -> J ok|fail
 *   P k                               GRgetlutinfo + GRreadlut                     -> P ok ncomp nt il nent b..|none
 *   O k w h ncomp ctype n b..         old-style raster: DFR8addimage (ncomp 1; ctype 1 = RLE) / DF24addimage -> O ok|fail
 *   U n b..                           DFCIrle + DFCIunrle on one row               -> U ok decoded.. | encoded..
 *   E                                 GRendaccess*, GRend, Hclose, Hopen, GRstart, GRselect by name -> E ok|fail
 *   X k c0 c1 o0 o1 n b..             GRwritechunk of chunk (o0,o1); c0,c1 = chunk lengths -> X ok|fail
 *   Y k c0 c1 o0 o1 n                 GRreadchunk (n = bytes expected)             -> Y ok b..|fail
 *   D k                               raw image element bytes (Hgetelement)        -> D ok len b..|none
 *   V inil outil X Y nc nt n b..      direct call of GRIil_convert                 -> V ok b..|fail
 * "trace" = the Hseek/Hwrite/Hread calls GRwriteimage/GRreadimage issue on the image element
 * (S<offset>, W<length>, R<length>), collected through -Wl,--wrap; nested calls of lower layers are
 * not recorded.  The trace is compared with the implementation model only (R ~ M), never with the
 * specification.                                                                                     */
#include <stdio.h>
#include <stdlib.h>
#include <string.h>
#include "hdf.h"
#include "mfgr.h"
#include "mfgr_priv.h"

#define NSLOT 6
static int32 fid = FAIL, grid = FAIL;
static int32 riid[NSLOT];
static int   used[NSLOT];
static int   legacy[NSLOT]; /* old-style image (DFR8/DF24): selected by index = order of addition */
static int   nlegacy = 0;
static char  path[4096];

/* ---- call trace through --wrap ---------------------------------------------------------------- */
static int  tr_on = 0, tr_depth = 0;
static char tr_buf[1 << 16];
static int  tr_len = 0;
static ri_info_t *tr_ri = NULL; /* only calls on this image's element are recorded */
static void tr_add(int32 aid, char c, long v)
{
    if (tr_on && tr_depth == 0 && tr_ri != NULL && aid == tr_ri->img_aid && tr_len < (int)sizeof(tr_buf) - 32)
        tr_len += sprintf(tr_buf + tr_len, " %c%ld", c, v);
}
int32 __real_Hwrite(int32 aid, int32 len, const void *d);
int32 __real_Hread(int32 aid, int32 len, void *d);
intn  __real_Hseek(int32 aid, int32 off, intn origin);
int32 __wrap_Hwrite(int32 aid, int32 len, const void *d)
{
    int32 r;
    tr_add(aid, 'W', len);
    tr_depth++;
    r = __real_Hwrite(aid, len, d);
    tr_depth--;
    return r;
}
int32 __wrap_Hread(int32 aid, int32 len, void *d)
{
    int32 r;
    tr_add(aid, 'R', len);
    tr_depth++;
    r = __real_Hread(aid, len, d);
    tr_depth--;
    return r;
}
intn __wrap_Hseek(int32 aid, int32 off, intn origin)
{
    intn r;
    tr_add(aid, 'S', off);
    tr_depth++;
    r = __real_Hseek(aid, off, origin);
    tr_depth--;
    return r;
}
static void tr_start(int k)
{
    tr_ri = (k >= 0 && k < NSLOT && used[k] && riid[k] != FAIL) ? (ri_info_t *)HAatom_object(riid[k]) : NULL;
    tr_on = 1; tr_len = 0; tr_buf[0] = 0; tr_depth = 0; }
static void tr_stop(void) { tr_on = 0; }

/* ---- helpers ---------------------------------------------------------------------------------- */
static void close_all(void)
{
    int k;
    if (grid != FAIL) {
        for (k = 0; k < NSLOT; k++)
            if (used[k] && riid[k] != FAIL) GRendaccess(riid[k]);
        GRend(grid);
    }
    if (fid != FAIL) Hclose(fid);
    fid = grid = FAIL;
    for (k = 0; k < NSLOT; k++) riid[k] = FAIL;
}

static unsigned char *read_bytes(FILE *f, long n)
{
    unsigned char *b = (unsigned char *)malloc(n > 0 ? (size_t)n : 1);
    long i, v;
    for (i = 0; i < n; i++) {
        if (fscanf(f, "%ld", &v) != 1) exit(3);
        b[i] = (unsigned char)v;
    }
    return b;
}

static void print_bytes(const unsigned char *b, long n)
{
    long i;
    for (i = 0; i < n; i++) printf(" %d", b[i]);
}

static long pix_mem_size(int k)
{
    int32 nc, nt, il, dims[2], na;
    if (GRgetiminfo(riid[k], NULL, &nc, &nt, &il, dims, &na) == FAIL) return -1;
    return (long)nc * DFKNTsize((nt | DFNT_NATIVE) & (~DFNT_LITEND));
}

static int okslot(long k) { return k >= 0 && k < NSLOT && used[k] && riid[k] != FAIL; }

/* GRendaccess*, GRend, Hclose (returns 0 if any failed) */
static int end_session(void)
{
    int k, ok = 1;
    if (grid == FAIL) return 0;
    for (k = 0; k < NSLOT; k++)
        if (used[k] && riid[k] != FAIL && GRendaccess(riid[k]) == FAIL) ok = 0;
    if (GRend(grid) == FAIL) ok = 0;
    if (Hclose(fid) == FAIL) ok = 0;
    fid = grid = FAIL;
    for (k = 0; k < NSLOT; k++) riid[k] = FAIL;
    return ok;
}

/* Hopen, GRstart, GRselect of every slot (by name, or by index for old-style images) */
static int start_session(void)
{
    int  k, ok = 1;
    char name[32];
    fid  = Hopen(path, DFACC_RDWR, 0);
    grid = fid == FAIL ? FAIL : GRstart(fid);
    if (grid == FAIL) return 0;
    for (k = 0; k < NSLOT; k++)
        if (used[k]) {
            int32 idx;
            if (legacy[k]) idx = legacy[k] - 1;
            else { sprintf(name, "img%d", k); idx = GRnametoindex(grid, name); }
            riid[k] = idx == FAIL ? FAIL : GRselect(grid, idx);
            if (riid[k] == FAIL) ok = 0;
        }
    return ok;
}

int main(int argc, char **argv)
{
    FILE *f;
    char  op[8];
    long  a[16];
    int   k, i;
    if (argc < 2) return 2;
    f = fopen(argv[1], "r");
    if (!f) return 2;
    snprintf(path, sizeof path, "%s.hdf", argv[1]);
    for (k = 0; k < NSLOT; k++) { riid[k] = FAIL; used[k] = 0; }
    setvbuf(stdout, NULL, _IOLBF, 0);

    while (fscanf(f, "%7s", op) == 1) {
        switch (op[0]) {
            case 'H': {
                if (fscanf(f, "%ld", &a[0]) != 1) return 3;
                close_all();
                for (k = 0; k < NSLOT; k++) { used[k] = 0; legacy[k] = 0; }
                nlegacy = 0;
                remove(path);
                /* one file per history: a session that could not be closed must not disturb the next history */
                snprintf(path, sizeof path, "%s.%ld.hdf", argv[1], a[0]);
                remove(path);
                fid = Hopen(path, DFACC_CREATE, 0);
                grid = fid == FAIL ? FAIL : GRstart(fid);
                printf("H %ld%s\n", a[0], grid == FAIL ? " fail" : "");
                break;
            }
            case 'C': {
                int32 dims[2];
                char  name[32];
                for (i = 0; i < 6; i++) if (fscanf(f, "%ld", &a[i]) != 1) return 3;
                k = (int)a[0];
                if (k < 0 || k >= NSLOT || used[k] || grid == FAIL) { printf("C fail\n"); break; }
                dims[0] = (int32)a[1]; dims[1] = (int32)a[2];
                sprintf(name, "img%d", k);
                riid[k] = GRcreate(grid, name, (int32)a[3], (int32)a[4], (int32)a[5], dims);
                used[k] = riid[k] != FAIL;
                printf("C %s\n", used[k] ? "ok" : "fail");
                break;
            }
            case 'F': {
                unsigned char *b;
                int32 nc, nt, il, dims[2], na;
                intn  rc = FAIL;
                for (i = 0; i < 2; i++) if (fscanf(f, "%ld", &a[i]) != 1) return 3;
                b = read_bytes(f, a[1]);
                k = (int)a[0];
                if (okslot(k) && GRgetiminfo(riid[k], NULL, &nc, &nt, &il, dims, &na) != FAIL &&
                    a[1] == (long)nc * DFKNTsize((nt | DFNT_NATIVE) & (~DFNT_LITEND)))
                    rc = GRsetattr(riid[k], FILL_ATTR, nt, nc, b);
                printf("F %s\n", rc == FAIL ? "fail" : "ok");
                free(b);
                break;
            }
            case 'A': { /* A k: the FillValue attribute as stored with the image */
                intn rc = FAIL;
                int32 idx, ant, acnt;
                char  an[128];
                if (fscanf(f, "%ld", &a[0]) != 1) return 3;
                k = (int)a[0];
                if (!okslot(k)) { printf("A fail\n"); break; }
                idx = GRfindattr(riid[k], FILL_ATTR);
                if (idx == FAIL) { printf("A none\n"); break; }
                if (GRattrinfo(riid[k], idx, an, &ant, &acnt) != FAIL) {
                    long n = (long)acnt * DFKNTsize((ant | DFNT_NATIVE) & (~DFNT_LITEND));
                    unsigned char *b = (unsigned char *)malloc(n > 0 ? (size_t)n : 1);
                    memset(b, 0xAA, n > 0 ? (size_t)n : 1);
                    rc = GRgetattr(riid[k], idx, b);
                    if (rc != FAIL) { printf("A ok"); print_bytes(b, n); printf("\n"); }
                    free(b);
                }
                if (rc == FAIL) printf("A fail\n");
                break;
            }
            case 'Z': {
                comp_info ci;
                intn rc = FAIL;
                for (i = 0; i < 3; i++) if (fscanf(f, "%ld", &a[i]) != 1) return 3;
                k = (int)a[0];
                memset(&ci, 0, sizeof ci);
                if (a[1] == COMP_CODE_SKPHUFF) ci.skphuff.skp_size = (int)a[2];
                if (a[1] == COMP_CODE_DEFLATE) ci.deflate.level = (int)a[2];
                if (okslot(k)) rc = GRsetcompress(riid[k], (comp_coder_t)a[1], &ci);
                printf("Z %s\n", rc == FAIL ? "fail" : "ok");
                break;
            }
            case 'K': {
                HDF_CHUNK_DEF cd;
                intn rc = FAIL;
                for (i = 0; i < 5; i++) if (fscanf(f, "%ld", &a[i]) != 1) return 3;
                k = (int)a[0];
                memset(&cd, 0, sizeof cd);
                if (okslot(k)) {
                    if (a[3] == 0) {
                        cd.chunk_lengths[0] = (int32)a[1]; cd.chunk_lengths[1] = (int32)a[2];
                        rc = GRsetchunk(riid[k], cd, HDF_CHUNK);
                    }
                    else {
                        cd.comp.chunk_lengths[0] = (int32)a[1]; cd.comp.chunk_lengths[1] = (int32)a[2];
                        cd.comp.comp_type = (int32)a[3];
                        if (a[3] == COMP_CODE_SKPHUFF) cd.comp.cinfo.skphuff.skp_size = (int)a[4];
                        if (a[3] == COMP_CODE_DEFLATE) cd.comp.cinfo.deflate.level = (int)a[4];
                        rc = GRsetchunk(riid[k], cd, HDF_CHUNK | HDF_COMP);
                    }
                }
                printf("K %s\n", rc == FAIL ? "fail" : "ok");
                break;
            }
            case 'W': {
                unsigned char *b;
                int32 st[2], sr[2], ct[2];
                intn  rc = FAIL;
                for (i = 0; i < 8; i++) if (fscanf(f, "%ld", &a[i]) != 1) return 3;
                b = read_bytes(f, a[7]);
                k = (int)a[0];
                st[0] = (int32)a[1]; st[1] = (int32)a[2]; sr[0] = (int32)a[3]; sr[1] = (int32)a[4];
                ct[0] = (int32)a[5]; ct[1] = (int32)a[6];
                tr_start(k);
                if (okslot(k) && pix_mem_size(k) > 0 && pix_mem_size(k) * a[5] * a[6] == a[7]) rc = GRwriteimage(riid[k], st, sr, ct, b);
                tr_stop();
                printf("W %s |%s\n", rc == FAIL ? "fail" : "ok", tr_buf);
                free(b);
                break;
            }
            case 'I': case 'J': {
                intn rc = FAIL;
                for (i = 0; i < 2; i++) if (fscanf(f, "%ld", &a[i]) != 1) return 3;
                k = (int)a[0];
                if (okslot(k)) rc = op[0] == 'I' ? GRreqimageil(riid[k], (intn)a[1]) : GRreqlutil(riid[k], (intn)a[1]);
                printf("%c %s\n", op[0], rc == FAIL ? "fail" : "ok");
                break;
            }
            case 'R': {
                int32 st[2], sr[2], ct[2];
                intn  rc = FAIL;
                long  n = 0;
                unsigned char *b = NULL;
                for (i = 0; i < 7; i++) if (fscanf(f, "%ld", &a[i]) != 1) return 3;
                k = (int)a[0];
                st[0] = (int32)a[1]; st[1] = (int32)a[2]; sr[0] = (int32)a[3]; sr[1] = (int32)a[4];
                ct[0] = (int32)a[5]; ct[1] = (int32)a[6];
                tr_start(k);
                if (okslot(k) && a[5] > 0 && a[6] > 0 && pix_mem_size(k) > 0) {
                    n = pix_mem_size(k) * a[5] * a[6];
                    b = (unsigned char *)malloc((size_t)n);
                    memset(b, 0xAA, (size_t)n);
                    rc = GRreadimage(riid[k], st, sr, ct, b);
                }
                tr_stop();
                if (rc == FAIL) printf("R fail |%s\n", tr_buf);
                else { printf("R ok"); print_bytes(b, n); printf(" |%s\n", tr_buf); }
                free(b);
                break;
            }
            case 'G': {
                int32 nc, nt, il, dims[2], na;
                if (fscanf(f, "%ld", &a[0]) != 1) return 3;
                k = (int)a[0];
                if (okslot(k) && GRgetiminfo(riid[k], NULL, &nc, &nt, &il, dims, &na) != FAIL)
                    printf("G ok %d %d %d %d %d\n", (int)nc, (int)nt, (int)il, (int)dims[0], (int)dims[1]);
                else printf("G fail\n");
                break;
            }
            case 'L': {
                unsigned char *b;
                intn rc = FAIL;
                for (i = 0; i < 6; i++) if (fscanf(f, "%ld", &a[i]) != 1) return 3;
                b = read_bytes(f, a[5]);
                k = (int)a[0];
                if (okslot(k)) {
                    int32 lid = GRgetlutid(riid[k], 0);
                    if (lid != FAIL) rc = GRwritelut(lid, (int32)a[1], (int32)a[2], (int32)a[3], (int32)a[4], b);
                }
                printf("L %s\n", rc == FAIL ? "fail" : "ok");
                free(b);
                break;
            }
            case 'P': {
                int32 nc = -9, nt = -9, il = -9, ne = -9, lid;
                if (fscanf(f, "%ld", &a[0]) != 1) return 3;
                k = (int)a[0];
                if (!okslot(k) || (lid = GRgetlutid(riid[k], 0)) == FAIL ||
                    GRgetlutinfo(lid, &nc, &nt, &il, &ne) == FAIL) { printf("P fail\n"); break; }
                if (nc <= 0 || ne <= 0) { printf("P none %d %d %d %d\n", (int)nc, (int)nt, (int)il, (int)ne); break; }
                {
                    long n = (long)nc * ne * DFKNTsize(nt | DFNT_NATIVE);
                    unsigned char *b = (unsigned char *)malloc((size_t)n);
                    memset(b, 0xAA, (size_t)n);
                    if (GRreadlut(lid, b) == FAIL) printf("P fail\n");
                    else { printf("P ok %d %d %d %d", (int)nc, (int)nt, (int)il, (int)ne); print_bytes(b, n); printf("\n"); }
                    free(b);
                }
                break;
            }
            case 'E': {
                int ok;
                if (grid == FAIL) { printf("E fail\n"); break; }
                ok = end_session();
                if (!ok && getenv("DRIVE_GR_DEBUG")) HEprint(stderr, 0);
                if (!start_session()) ok = 0;
                printf("E %s\n", ok ? "ok" : "fail");
                break;
            }
            case 'O': { /* O k w h ncomp ctype n b..: old-style raster through DFR8addimage / DF24addimage */
                unsigned char *b;
                int ok = 1;
                intn rc = FAIL;
                for (i = 0; i < 6; i++) if (fscanf(f, "%ld", &a[i]) != 1) return 3;
                b = read_bytes(f, a[5]);
                k = (int)a[0];
                if (k < 0 || k >= NSLOT || used[k] || grid == FAIL || a[5] != a[1] * a[2] * a[3]) { printf("O fail\n"); free(b); break; }
                if (!end_session()) ok = 0;
                if (a[3] == 1) {
                    comp_info ci;
                    memset(&ci, 0, sizeof ci);
                    DFR8restart();
                    if (DFR8setcompress(a[4] == 1 ? COMP_RLE : COMP_NONE, &ci) != FAIL)
                        rc = DFR8addimage(path, b, (int32)a[1], (int32)a[2], (uint16)(a[4] == 1 ? COMP_RLE : COMP_NONE));
                }
                else if (a[3] == 3) {
                    DF24restart();
                    comp_info ci;
                    memset(&ci, 0, sizeof ci);
                    if (DF24setil(DFIL_PIXEL) != FAIL && DF24setcompress(COMP_NONE, &ci) != FAIL)
                        rc = DF24addimage(path, b, (int32)a[1], (int32)a[2]);
                }
                if (rc != FAIL) { used[k] = 1; legacy[k] = ++nlegacy; }
                if (!start_session()) ok = 0;
                printf("O %s\n", (rc != FAIL && ok) ? "ok" : "fail");
                free(b);
                break;
            }
            case 'U': { /* U n b..: DFCIrle then DFCIunrle on one row: decoded | encoded */
                unsigned char *b, *e, *o;
                int32 en;
                if (fscanf(f, "%ld", &a[0]) != 1) return 3;
                b = read_bytes(f, a[0]);
                e = (unsigned char *)malloc((size_t)(a[0] * 121 / 120 + 128 + 300));
                o = (unsigned char *)malloc(a[0] > 0 ? (size_t)a[0] : 1);
                memset(o, 0xAA, a[0] > 0 ? (size_t)a[0] : 1);
                en = DFCIrle(b, e, (int32)a[0]);
                DFCIunrle(e, o, (int32)a[0], 1);
                printf("U ok"); print_bytes(o, a[0]); printf(" |"); print_bytes(e, en); printf("\n");
                free(b); free(e); free(o);
                break;
            }
            case 'X': { /* X k c0 c1 o0 o1 n b.. (c0, c1: chunk lengths, known to the generator; not used here) */
                unsigned char *b;
                int32 org[2];
                intn  rc = FAIL;
                for (i = 0; i < 6; i++) if (fscanf(f, "%ld", &a[i]) != 1) return 3;
                b = read_bytes(f, a[5]);
                k = (int)a[0];
                org[0] = (int32)a[3]; org[1] = (int32)a[4];
                if (okslot(k) && pix_mem_size(k) > 0 && pix_mem_size(k) * a[1] * a[2] == a[5]) rc = GRwritechunk(riid[k], org, b);
                printf("X %s\n", rc == FAIL ? "fail" : "ok");
                free(b);
                break;
            }
            case 'Y': { /* Y k c0 c1 o0 o1 n */
                unsigned char *b;
                int32 org[2];
                intn  rc = FAIL;
                for (i = 0; i < 6; i++) if (fscanf(f, "%ld", &a[i]) != 1) return 3;
                k = (int)a[0];
                org[0] = (int32)a[3]; org[1] = (int32)a[4];
                b = (unsigned char *)malloc(a[5] > 0 ? (size_t)a[5] : 1);
                memset(b, 0xAA, a[5] > 0 ? (size_t)a[5] : 1);
                if (okslot(k) && pix_mem_size(k) > 0 && pix_mem_size(k) * a[1] * a[2] == a[5]) rc = GRreadchunk(riid[k], org, b);
                if (rc == FAIL) printf("Y fail\n");
                else { printf("Y ok"); print_bytes(b, a[5]); printf("\n"); }
                free(b);
                break;
            }
            case 'D': {
                ri_info_t *ri;
                if (fscanf(f, "%ld", &a[0]) != 1) return 3;
                k = (int)a[0];
                if (!okslot(k) || (ri = (ri_info_t *)HAatom_object(riid[k])) == NULL) { printf("D fail\n"); break; }
                if (ri->img_tag == DFTAG_NULL || ri->img_ref == DFREF_WILDCARD) { printf("D none\n"); break; }
                {
                    int32 len = Hlength(fid, ri->img_tag, ri->img_ref);
                    if (len <= 0) printf("D none\n");
                    else {
                        unsigned char *b = (unsigned char *)malloc((size_t)len);
                        memset(b, 0xAA, (size_t)len);
                        if (Hgetelement(fid, ri->img_tag, ri->img_ref, b) == FAIL) printf("D fail\n");
                        else { printf("D ok %d", (int)len); print_bytes(b, len); printf("\n"); }
                        free(b);
                    }
                }
                break;
            }
            case 'V': {
                unsigned char *b, *o;
                int32 dims[2];
                intn  rc;
                for (i = 0; i < 7; i++) if (fscanf(f, "%ld", &a[i]) != 1) return 3;
                b = read_bytes(f, a[6]);
                o = (unsigned char *)malloc(a[6] > 0 ? (size_t)a[6] : 1);
                memset(o, 0xAA, a[6] > 0 ? (size_t)a[6] : 1);
                dims[0] = (int32)a[2]; dims[1] = (int32)a[3];
                if (DFKNTsize((int32)a[5]) == FAIL ||
                    (long)a[2] * a[3] * a[4] * DFKNTsize(((int32)a[5] | DFNT_NATIVE) & (~DFNT_LITEND)) != a[6])
                    rc = FAIL;
                else
                    rc = GRIil_convert(b, (gr_interlace_t)a[0], o, (gr_interlace_t)a[1], dims, (int32)a[4], (int32)a[5]);
                if (rc == FAIL) printf("V fail\n");
                else { printf("V ok"); print_bytes(o, a[6]); printf("\n"); }
                free(b); free(o);
                break;
            }
            default:
                printf("? badop %s\n", op);
                return 3;
        }
    }
    close_all();
    remove(path);
    return 0;
}
