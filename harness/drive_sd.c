/* C03 harness: drives the SD hyperslab interface of the freshly built library through operation histories.
 *
 * Input (one token stream; every history is one dataset in one fresh file):
 *   H rank nt unlim d0..d(rank-1)        SDstart(create) + SDcreate (d0 = 0 when unlim); dataset 0 becomes current
 *   D rank nt unlim d0..d(rank-1)        SDcreate of a further dataset in the same file; it becomes current
 *   S k                                  make dataset k current (all following V/B/W/R/G address it)
 *   M mode                               SDsetfillmode(file, mode)           (0 = SD_FILL, 256 = SD_NOFILL)
 *   V hex                                SDsetfillvalue(element given as hex of its memory bytes)
 *   B n                                  SDsetblocksize
 *   W us s0.. t0.. c0.. n hex*n          SDwritedata (us = 0: stride NULL); n elements follow
 *   R us s0.. t0.. c0..                  SDreaddata  (buffer = prod max(c,0) elements, pre-set to 0xA5, guarded)
 *   G                                    SDgetinfo + SDgetfillvalue
 *   C                                    SDendaccess (all) + SDend + SDstart(DFACC_RDWR) + SDselect of every dataset
 *   O                                    like C, but the file is reopened with DFACC_READ (read-only session)
 *   E                                    end of history (SDendaccess + SDend)
 * Output: one line per input record:
 *   H ok|fail / D ok|fail / S ok / O ok|fail / M prev / V ret / B ret / W ret | transfers / R ret g<0|1> n hex.. | transfers /
 *   G ret rank nt d0.. ; fv ret hex / C ok|fail / E
 * transfers = the Hsetlength/Hwrite/Hread calls (l<len>, w<pos>:<len>, r<pos>:<len>) the library issued on the
 * dataset's data element (tag DFTAG_SD) during that call, observed by link-time interposition.
 * Never put SDreaddata(...) and the buffer it fills in one printf argument list.                          */
#include <stdio.h>
#include <stdlib.h>
#include <string.h>
#include <unistd.h>
#include "hdf.h"
#include "mfhdf.h"

#define MAXR 32
static int logging = 0;
static char tlog[1 << 16];
static size_t tlen = 0;

static void tadd(const char *fmt, long a, long b)
{
    if (tlen + 64 < sizeof tlog) tlen += (size_t)snprintf(tlog + tlen, 64, fmt, a, b);
}

static int is_data_aid(int32 aid)
{
    uint16 tag = 0, ref = 0;
    int16 special = 0;
    if (Hinquire(aid, NULL, &tag, &ref, NULL, NULL, NULL, NULL, &special) == FAIL) return 0;
    if (tag == DFTAG_SD) return 1;
    /* linked-block form of the element: only the user-level access (special != 0), not the library's own
       raw accesses to the special-element header that carry the same tag */
    return (tag & 0xbfff) == DFTAG_SD && special != 0;
}

int32 __real_Hwrite(int32 aid, int32 length, const void *data);
int32 __real_Hread(int32 aid, int32 length, void *data);
int32 __real_Hsetlength(int32 aid, int32 length);

int32 __wrap_Hwrite(int32 aid, int32 length, const void *data)
{
    if (logging && is_data_aid(aid)) tadd(" w%ld:%ld", (long)Htell(aid), (long)length);
    return __real_Hwrite(aid, length, data);
}
int32 __wrap_Hread(int32 aid, int32 length, void *data)
{
    if (logging && is_data_aid(aid)) tadd(" r%ld:%ld", (long)Htell(aid), (long)length);
    return __real_Hread(aid, length, data);
}
int32 __wrap_Hsetlength(int32 aid, int32 length)
{
    if (logging && is_data_aid(aid)) tadd(" l%ld", (long)length, 0);
    return __real_Hsetlength(aid, length);
}

static int hexval(int c) { return c <= '9' ? c - '0' : (c | 32) - 'a' + 10; }
static void unhex(const char *s, unsigned char *out, int w)
{
    for (int i = 0; i < w; i++) out[i] = (unsigned char)(hexval(s[2 * i]) * 16 + hexval(s[2 * i + 1]));
}
static void puthex(const unsigned char *p, int w)
{
    for (int i = 0; i < w; i++) printf("%02x", p[i]);
}

static int rdvec(FILE *f, int rank, int32 *v)
{
    for (int i = 0; i < rank; i++) { long x; if (fscanf(f, "%ld", &x) != 1) return 0; v[i] = (int32)x; }
    return 1;
}

int main(int argc, char **argv)
{
    FILE *f = argc > 1 ? fopen(argv[1], "r") : stdin;
    if (!f) return 2;
    char path[300], base[256];
    long hno = 0;
    snprintf(base, sizeof base, "/var/tmp/hdf4-verif/c03-%d.hdf", (int)getpid());
    if (argc > 2) snprintf(base, sizeof base, "%s", argv[2]);
    snprintf(path, sizeof path, "%s", base);
    char op[8], tok[64];
    int32 fid = FAIL, sds = FAIL;
    int rank = 0, w = 1;
    long nt = 0;
#define MAXDS 16
    int32 sdsv[MAXDS]; int rankv[MAXDS], wv[MAXDS]; int nds = 0, cur = 0;
    setvbuf(stdout, NULL, _IOFBF, 1 << 16);
    while (fscanf(f, "%7s", op) == 1) {
        if (op[0] == 'D') {
            long r, u; int32 dims[MAXR + 1]; char nm[16];
            if (fscanf(f, "%ld %ld %ld", &r, &nt, &u) != 3) return 2;
            if (!rdvec(f, (int)r, dims) || nds >= MAXDS) return 2;
            snprintf(nm, sizeof nm, "d%d", nds);
            sdsv[cur] = sds;
            sds = SDcreate(fid, nm, (int32)nt, (int32)r, dims);
            rank = (int)r;
            w = DFKNTsize((int32)nt | DFNT_NATIVE);
            if (w <= 0) w = 1;
            cur = nds++; sdsv[cur] = sds; rankv[cur] = rank; wv[cur] = w;
            printf("D %s\n", sds == FAIL ? "fail" : "ok");
        }
        else if (op[0] == 'S') {
            long k; if (fscanf(f, "%ld", &k) != 1 || k < 0 || k >= nds) return 2;
            sdsv[cur] = sds;
            cur = (int)k; sds = sdsv[cur]; rank = rankv[cur]; w = wv[cur];
            printf("S ok\n");
        }
        else if (op[0] == 'H') {
            long r, u; int32 dims[MAXR + 1];
            if (fscanf(f, "%ld %ld %ld", &r, &nt, &u) != 3) return 2;
            rank = (int)r;
            if (!rdvec(f, rank, dims)) return 2;
            /* a fresh file name per history: a file the library failed to close must not poison the next one */
            unlink(path);
            snprintf(path, sizeof path, "%s.%ld", base, hno++);
            unlink(path);
            fid = SDstart(path, DFACC_CREATE);
            sds = fid == FAIL ? FAIL : SDcreate(fid, "d", (int32)nt, rank, dims);
            w = DFKNTsize((int32)nt | DFNT_NATIVE);
            if (w <= 0) w = 1;
            nds = 1; cur = 0; sdsv[0] = sds; rankv[0] = rank; wv[0] = w;
            printf("H %s\n", sds == FAIL ? "fail" : "ok");
        }
        else if (op[0] == 'M') {
            long m; if (fscanf(f, "%ld", &m) != 1) return 2;
            printf("M %d\n", (int)SDsetfillmode(fid, (intn)m));
        }
        else if (op[0] == 'V') {
            unsigned char v[16];
            if (fscanf(f, "%63s", tok) != 1) return 2;
            unhex(tok, v, w);
            printf("V %d\n", (int)SDsetfillvalue(sds, v));
        }
        else if (op[0] == 'B') {
            long b; if (fscanf(f, "%ld", &b) != 1) return 2;
            printf("B %d\n", (int)SDsetblocksize(sds, (int32)b));
        }
        else if (op[0] == 'W' || op[0] == 'R') {
            long us, n = 0;
            int32 st[MAXR + 1], sd[MAXR + 1], ct[MAXR + 1];
            if (fscanf(f, "%ld", &us) != 1) return 2;
            if (!rdvec(f, rank, st) || !rdvec(f, rank, sd) || !rdvec(f, rank, ct)) return 2;
            if (op[0] == 'W') {
                if (fscanf(f, "%ld", &n) != 1) return 2;
            }
            else {
                n = 1;
                for (int i = 0; i < rank; i++) n *= ct[i] > 0 ? ct[i] : 0;
            }
            /* 4 guard elements after the n requested ones */
            size_t tot = (size_t)(n + 4) * (size_t)w;
            unsigned char *buf = (unsigned char *)malloc(tot);
            memset(buf, 0xA5, tot);
            if (op[0] == 'W')
                for (long i = 0; i < n; i++) { if (fscanf(f, "%63s", tok) != 1) return 2; unhex(tok, buf + i * w, w); }
            tlen = 0; tlog[0] = 0;
            logging = 1;
            intn rc = op[0] == 'W' ? SDwritedata(sds, st, us ? sd : NULL, ct, buf)
                                   : SDreaddata(sds, st, us ? sd : NULL, ct, buf);
            logging = 0;
            if (op[0] == 'W') printf("W %d |%s\n", (int)rc, tlog);
            else {
                int g = 1;
                for (size_t i = (size_t)n * w; i < tot; i++) if (buf[i] != 0xA5) g = 0;
                printf("R %d g%d %ld", (int)rc, g, n);
                for (long i = 0; i < n; i++) { printf(" "); puthex(buf + i * w, w); }
                printf(" |%s\n", tlog);
            }
            free(buf);
        }
        else if (op[0] == 'G') {
            char name[128]; int32 rk = -1, dims[MAXR + 1], t = -1, na = -1;
            unsigned char v[16];
            intn rc = SDgetinfo(sds, name, &rk, dims, &t, &na);
            printf("G %d %d %d", (int)rc, (int)rk, (int)t);
            for (int i = 0; rc != FAIL && i < rk && i < MAXR; i++) printf(" %d", (int)dims[i]);
            memset(v, 0, sizeof v);
            intn rf = SDgetfillvalue(sds, v);
            printf(" ; fv %d ", (int)rf);
            if (rf != FAIL) puthex(v, w); else printf("-");
            printf("\n");
        }
        else if (op[0] == 'C' || op[0] == 'O') {
            intn a = SUCCEED;
            sdsv[cur] = sds;
            for (int i = 0; i < nds; i++) if (SDendaccess(sdsv[i]) == FAIL) a = FAIL;
            intn b = SDend(fid);
            fid = SDstart(path, op[0] == 'C' ? DFACC_RDWR : DFACC_READ);
            for (int i = 0; i < nds; i++) {
                sdsv[i] = fid == FAIL ? FAIL : SDselect(fid, i);
                if (sdsv[i] == FAIL) a = FAIL;
            }
            sds = sdsv[cur];
            printf("%c %s\n", op[0], (a == FAIL || b == FAIL || sds == FAIL) ? "fail" : "ok");
        }
        else if (op[0] == 'E') {
            intn a = sds != FAIL ? SUCCEED : FAIL;
            sdsv[cur] = sds;
            for (int i = 0; i < nds; i++) if (sdsv[i] == FAIL || SDendaccess(sdsv[i]) == FAIL) a = FAIL;
            intn b = fid != FAIL ? SDend(fid) : FAIL;
            fid = sds = FAIL;
            unlink(path);
            printf("E %s\n", (a == FAIL || b == FAIL) ? "fail" : "ok");
        }
        else return 2;
        fflush(stdout);
    }
    unlink(path);
    return 0;
}
