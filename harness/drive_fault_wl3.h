/* C16 harness, third group of workloads (round 3): other entry points to the same data path -- rank-0 (scalar) data
 * sets, the netCDF-2 calls of mfhdf on an HDF file (single-datum, hyperslab, strided access, define mode) -- and
 * sessions that reopen an existing file for writing and only ADD to it (so that nothing later in the session fails by
 * itself when the open went wrong). */
#include "nc_priv.h"

static void wl_sd_scalar(const char *p)
{
    int32 sd = FAIL, s = FAIL;
    int32 d1[1] = {5}, st[1] = {0}, ed[1] = {5};
    float64 v = 2.718281828;
    int16   w = -1234;
    TV(sd, "SDstart", SDstart(p, DFACC_CREATE));
    TV(s, "SDcreate", SDcreate(sd, "scalar64", DFNT_FLOAT64, 0, d1));        /* a variable without dimensions */
    T("SDwritedata", SDwritedata(s, st, NULL, ed, &v));
    T("SDsetattr", SDsetattr(s, "note", DFNT_CHAR8, 4, "unit"));
    E(s, "SDendaccess", SDendaccess);
    TV(s, "SDcreate", SDcreate(sd, "vec", DFNT_INT16, 1, d1));
    T("SDwritedata", SDwritedata(s, st, NULL, ed, pat));
    E(s, "SDendaccess", SDendaccess);
    TV(s, "SDcreate", SDcreate(sd, "scalar16", DFNT_INT16, 0, d1));
    T("SDwritedata", SDwritedata(s, st, NULL, ed, &w));
    w = 77;
    T("SDwritedata", SDwritedata(s, st, NULL, ed, &w));                      /* overwrite */
    E(s, "SDendaccess", SDendaccess);
done:
    FIN(s, "SDendaccess", SDendaccess);
    FIN(sd, "SDend", SDend);
}
static void wl_sd_sread_body(const char *p)
{
    int32 sd = FAIL, s = FAIL, nds, nat, rank, dims[4], nt, na, st[1] = {0}, ed[1] = {1};
    char  name[80];
    unsigned char buf[64];
    TV(sd, "SDstart", SDstart(p, DFACC_READ));
    T("SDfileinfo", SDfileinfo(sd, &nds, &nat));
    for (int i = 0; i < nds && i < 4; i++) {
        TV(s, "SDselect", SDselect(sd, i));
        T("SDgetinfo", SDgetinfo(s, name, &rank, dims, &nt, &na));
        hdata(&rank, 4);
        memset(buf, 0, sizeof buf);
        ed[0] = rank ? dims[0] : 1;
        T("SDreaddata", SDreaddata(s, st, NULL, ed, buf));
        hdata(buf, sizeof buf);
        E(s, "SDendaccess", SDendaccess);
    }
done:
    FIN(s, "SDendaccess", SDendaccess);
    FIN(sd, "SDend", SDend);
}

/* netCDF-2 interface of mfhdf on an HDF file */
#define NCT(name, expr)       do { long _r = (long)(expr); rec(name, _r, _r != -1); if (_r == -1 && !keepgoing) goto done; } while (0)
#define NCTV(var, name, expr) do { (var) = (expr); rec(name, (long)(var), (var) != -1); if ((var) == -1 && !keepgoing) goto done; } while (0)
static void wl_nc_write(const char *p)
{
    int  cdf = -1, dx, dy, vs, v1, v2, dims[2];
    long c0[2] = {0, 0}, c1[2] = {1, 2}, st[2] = {0, 1}, cn[2] = {2, 3}, str[2] = {1, 2}, cs[2] = {3, 2};
    double d = 6.25;
    short  one = 321;
    int    opts = ncopts;
    ncopts = 0;                                              /* no exit(), no messages: errors are return values */
    NCTV(cdf, "nccreate", nccreate(p, NC_CLOBBER));
    NCTV(dx, "ncdimdef", ncdimdef(cdf, "x", 3L));
    NCTV(dy, "ncdimdef", ncdimdef(cdf, "y", 4L));
    dims[0] = dx; dims[1] = dy;
    NCTV(vs, "ncvardef", ncvardef(cdf, "s", NC_DOUBLE, 0, dims));
    NCTV(v1, "ncvardef", ncvardef(cdf, "a", NC_SHORT, 2, dims));
    NCTV(v2, "ncvardef", ncvardef(cdf, "b", NC_LONG, 1, dims));
    NCT("ncattput", ncattput(cdf, v1, "units", NC_CHAR, 2, "mm"));
    NCT("ncattput", ncattput(cdf, NC_GLOBAL, "title", NC_CHAR, 5, "c16nc"));
    NCT("ncendef", ncendef(cdf));
    NCT("ncvarput1", ncvarput1(cdf, vs, c0, &d));
    NCT("ncvarput", ncvarput(cdf, v1, c0, (long[]){3, 4}, pat));
    NCT("ncvarput1", ncvarput1(cdf, v1, c1, &one));
    NCT("ncvarput", ncvarput(cdf, v1, st, cn, pat + 100));
    NCT("ncvarputs", ncvarputs(cdf, v1, c0, cs, str, pat + 200));
    NCT("ncvarput", ncvarput(cdf, v2, c0, (long[]){3}, pat + 300));
done:
    if (cdf != -1) { long r = ncclose(cdf); rec("ncclose", r, r != -1); }
    ncopts = opts;
}
static void wl_nc_update_body(const char *p)
{
    int  cdf = -1, vs, v1;
    long c0[2] = {0, 0}, c1[2] = {2, 3};
    double d = -1.5;
    short  one = -9;
    int    opts = ncopts;
    ncopts = 0;
    NCTV(cdf, "ncopen", ncopen(p, NC_WRITE));
    NCTV(vs, "ncvarid", ncvarid(cdf, "s"));
    NCTV(v1, "ncvarid", ncvarid(cdf, "a"));
    NCT("ncvarput1", ncvarput1(cdf, vs, c0, &d));
    NCT("ncvarput1", ncvarput1(cdf, v1, c1, &one));
    NCT("ncattput", ncattput(cdf, v1, "units", NC_CHAR, 2, "cm"));
done:
    if (cdf != -1) { long r = ncclose(cdf); rec("ncclose", r, r != -1); }
    ncopts = opts;
}
static void wl_nc_read_body(const char *p)
{
    int  cdf = -1, vs, v1, v2, nd, na, dm[8];
    long c0[2] = {0, 0}, c1[2] = {1, 2}, cn[2] = {3, 4}, str[2] = {2, 3}, cs[2] = {2, 2}, len;
    nc_type ty;
    char    name[96];
    unsigned char buf[128];
    int    opts = ncopts;
    ncopts = 0;
    NCTV(cdf, "ncopen", ncopen(p, NC_NOWRITE));
    NCTV(vs, "ncvarid", ncvarid(cdf, "s"));
    NCTV(v1, "ncvarid", ncvarid(cdf, "a"));
    NCTV(v2, "ncvarid", ncvarid(cdf, "b"));
    memset(name, 0, sizeof name);
    NCT("ncvarinq", ncvarinq(cdf, v1, name, &ty, &nd, dm, &na)); hdata(name, 64); hdata(&nd, sizeof nd); hdata(&na, sizeof na);
    memset(name, 0, sizeof name);
    NCT("ncdiminq", ncdiminq(cdf, 1, name, &len)); hdata(name, 64); hdata(&len, sizeof len);
    memset(buf, 0, sizeof buf);
    NCT("ncvarget1", ncvarget1(cdf, vs, c0, buf)); hdata(buf, 8);
    memset(buf, 0, sizeof buf);
    NCT("ncvarget1", ncvarget1(cdf, v1, c1, buf)); hdata(buf, 2);
    memset(buf, 0, sizeof buf);
    NCT("ncvarget", ncvarget(cdf, v1, c0, cn, buf)); hdata(buf, 24);
    memset(buf, 0, sizeof buf);
    NCT("ncvargets", ncvargets(cdf, v1, c0, cs, str, buf)); hdata(buf, 8);
    memset(buf, 0, sizeof buf);
    NCT("ncvarget", ncvarget(cdf, v2, c0, (long[]){3}, buf)); hdata(buf, 12);
done:
    if (cdf != -1) { long r = ncclose(cdf); rec("ncclose", r, r != -1); }
    ncopts = opts;
}

/* reopen for writing and only add: nothing in these sessions depends on what is already in the file */
static void wl_h_append_body(const char *p)
{
    int32 fid = FAIL;
    TV(fid, "Hopen", Hopen(p, DFACC_RDWR, 0));
    TN("Hputelement", Hputelement(fid, 130, 1, pat + 10, 64), 64);
    TN("Hputelement", Hputelement(fid, 130, 2, pat + 90, 17), 17);
done:
    FIN(fid, "Hclose", Hclose);
}
static void wl_v_append_body(const char *p)
{
    int32 fid = FAIL, started = FAIL, r;
    TV(fid, "Hopen", Hopen(p, DFACC_WRITE, 0));
    TV(started, "Vstart", Vstart(fid) == FAIL ? FAIL : fid);
    TV(r, "VHstoredata", VHstoredata(fid, "z", pat + 33, 9, DFNT_INT16, "added", "c16a"));
done:
    FIN(started, "Vend", Vend);
    FIN(fid, "Hclose", Hclose);
}
static void wl_sd_append_body(const char *p)
{
    int32 sd = FAIL, s = FAIL, d1[1] = {6}, st[1] = {0};
    TV(sd, "SDstart", SDstart(p, DFACC_RDWR));
    TV(s, "SDcreate", SDcreate(sd, "added", DFNT_INT32, 1, d1));
    T("SDwritedata", SDwritedata(s, st, NULL, d1, pat + 60));
    E(s, "SDendaccess", SDendaccess);
done:
    FIN(s, "SDendaccess", SDendaccess);
    FIN(sd, "SDend", SDend);
}
static void wl_sd_sread(const char *p) { prep(wl_sd_scalar, p); wl_sd_sread_body(p); }
static void wl_nc_update(const char *p) { prep(wl_nc_write, p); wl_nc_update_body(p); }
static void wl_nc_read(const char *p) { prep(wl_nc_write, p); wl_nc_read_body(p); }
static void wl_h_append(const char *p) { prep(wl_h_put, p); wl_h_append_body(p); }
static void wl_v_append(const char *p) { prep(wl_v_write, p); wl_v_append_body(p); }
static void wl_sd_append(const char *p) { prep(wl_sd_write, p); wl_sd_append_body(p); }
