/* C02 harness: builds HDF files through the H, V/VS, SD, GR and AN interfaces of the freshly built library, closes
 * them, and then dumps -- through the library's own read calls -- the logical content of every element, every Vdata
 * header / Vgroup, SD / GR data, and the answers of the raw-location queries (HDgetdatainfo, VSgetdatainfo,
 * SDgetdatainfo, GRgetdatainfo) for info_count in {NULL arrays, 1, n-1, n, n+3} using exact-size heap arrays.
 * checks/C02.py compares those lines with what h4read (the extracted Coq format specification) recovers from the
 * bytes of the same files.
 *
 * usage: drive_fmt <workdir> <history-file>      (every history runs in its own child process, cwd = workdir)
 * output: "<hist> op <lineno> ok|fail [values]"  result of a building operation
 *         "<hist> F<slot> <canonical line>"      dump lines (E / VH / VG / DI / SD / SDDATA / GR / GRDATA / MEM)
 *         "<hist> crash <code>"                  the child died (sanitizer report = 97)
 *
 * building operations (F = file slot 0..3; file name <hist>_<F>.hdf; hex "-" = empty):
 *   hopen F ndds cache | hclose F | snap F G (Hsync + flush, copy the bytes on disk to slot G)
 *   put F tag ref hex | lb F tag ref blen nblk n hex.. | lbs F tag ref blen nblk n (pos hex).. | app F tag ref hex | ext F tag ref name off hex
 *   comp F tag ref coder p hex | chunk F tag ref nt nd d.. c.. coder p fillhex nw (o.. hex).. | chunkhint F tag ref nd n..
 *   dup F tag ref otag oref | del F tag ref | lbw F tag ref n (pos hex).. (rewrite/extend an existing element)
 *   vgdel F slot which delobj | dfsd F nt rank d.. 3 strings (3 strings per dim).. hex | sdselect i | sddimname j namehex |
 *   sddimattr j namehex nt cnt hex | sdann F idx type hex | grlut seed | grattr scope namehex nt cnt hex | dfpal F seed | defonly F tag ref |
 *   reserve F tag ref len hex | vgaddx F slot kind a b | vg .. x (second attach while changes are pending) | hclose F 1 (no PRE dump)
 *   chunkw F tag ref nd n (o.. hex).. | compw F tag ref hex   (rewrites: compressed data that grows becomes linked blocks)
 *   vs F slot il blk nf (namehex type order).. nrec hex | vsapp F slot nrec hex | vsattr F slot findex namehex nt cnt hex
 *   vg F slot namehex classhex nm (kind a b).. | vgattr F slot namehex nt cnt hex
 *   sdstart F | sdcreate namehex nt rank d.. | sdfill hex | sdchunk coder p c.. | sdcomp coder p | sdblk n |
 *   sdwrite s.. e.. hex | sdattr namehex nt cnt hex | sdendaccess | sdend
 *   grstart F | grcreate namehex ncomp nt w h | grcomp coder p | grchunk coder p cw ch | grwrite hex | grendaccess | grend
 *   an F type tag ref hex
 *   verify F
 */
#include <stdio.h>
#include <stdlib.h>
#include <string.h>
#include <unistd.h>
#include <sys/wait.h>
#include "hdf.h"
#include "hfile_priv.h"
#include "hchunks_priv.h"
#include "mfhdf.h"
#include "mfdatainfo.h"

#define NF 4
#define NSLOT 16
static int32 fid[NF];
static int   exists_[NF];
static int   notclosed[NF];   /* a close call on this file reported failure: the file is outside the property's domain */
static const char *self_exe;
static char  fname[NF][256];
static const char *hist = "?";
static int32 vsref[NF][NSLOT], vgref[NF][NSLOT];
static int32 sd_id = FAIL, sds_id = FAIL, sd_file = -1;
static int32 gr_id = FAIL, ri_id = FAIL, gr_fid = FAIL;
static int   gr_file = -1;
static int   hint_n = 0;
static struct { int f, tag, ref, nd, n[8]; } hints[32];

static char  *toks[4096];
static int    ntok, tp;
static long   argl(void) { return tp < ntok ? strtol(toks[tp++], NULL, 10) : 0; }
static char  *args(void) { return tp < ntok ? toks[tp++] : (char *)"-"; }
static unsigned char databuf[1 << 16];
static int unhex(const char *s, unsigned char *out)
{
    int n = 0;
    if (s[0] == '-') return 0;
    while (s[0] && s[1]) { unsigned v; sscanf(s, "%2x", &v); out[n++] = (unsigned char)v; s += 2; }
    return n;
}
static void phex(const unsigned char *b, long n)
{
    if (n <= 0) { printf(" -"); return; }
    printf(" ");
    for (long i = 0; i < n; i++) printf("%02x", b[i]);
}
static void phex0(const unsigned char *b, long n)
{
    if (n <= 0) { printf("-"); return; }
    for (long i = 0; i < n; i++) printf("%02x", b[i]);
}
static char *hexstr(const char *h, char *out) { int n = unhex(h, (unsigned char *)out); out[n] = 0; return out; }

static void coder_info(int coder, int p, comp_coder_t *ct, comp_info *ci)
{
    memset(ci, 0, sizeof *ci);
    switch (coder) {
        case 1: *ct = COMP_CODE_RLE; break;
        case 2: *ct = COMP_CODE_NBIT; ci->nbit.nt = DFNT_UINT8; ci->nbit.sign_ext = 0; ci->nbit.fill_one = 0;
                ci->nbit.start_bit = 7; ci->nbit.bit_len = p > 0 && p <= 8 ? p : 5; break;
        case 3: *ct = COMP_CODE_SKPHUFF; ci->skphuff.skp_size = p > 0 ? p : 1; break;
        case 4: *ct = COMP_CODE_DEFLATE; ci->deflate.level = p; break;
        default: *ct = COMP_CODE_NONE; break;
    }
}

static void close_all(void)
{
    if (sds_id != FAIL) { SDendaccess(sds_id); sds_id = FAIL; }
    if (sd_id != FAIL) { if (SDend(sd_id) == FAIL && sd_file >= 0) notclosed[sd_file] = 1; sd_id = FAIL; }
    if (ri_id != FAIL) { GRendaccess(ri_id); ri_id = FAIL; }
    if (gr_id != FAIL) { GRend(gr_id); gr_id = FAIL; }
    if (gr_fid != FAIL) { if (Hclose(gr_fid) == FAIL && gr_file >= 0) notclosed[gr_file] = 1; gr_fid = FAIL; }
    for (int i = 0; i < NF; i++) if (fid[i] != FAIL) { Vend(fid[i]); if (Hclose(fid[i]) == FAIL) notclosed[i] = 1; fid[i] = FAIL; }
}

/* ---------------------------------------------------------------- verification dump ------------- */
static int ntsize(int32 nt) { return DFKNTsize(nt | DFNT_NATIVE); }
static void to_file_order(unsigned char *b, long n, int w)
{
    if (w <= 1) return;
    for (long i = 0; i + w <= n; i += w)
        for (int k = 0; k < w / 2; k++) { unsigned char t = b[i + k]; b[i + k] = b[i + w - 1 - k]; b[i + w - 1 - k] = t; }
}

typedef int (*di_fn)(void *ctx, int32 *coord, unsigned count, int32 *off, int32 *len);

/* one raw-location query family: count only (NULL arrays), then exact-size arrays of 1, n-1, n, n+3 entries */
static void di_queries(int slot, const char *kind, long a, long b, const char *coordtxt, di_fn fn, void *ctx, int32 *coord)
{
    int n = fn(ctx, coord, 0, NULL, NULL);
    printf("%s F%d DI %s %ld %ld N %s = %d\n", hist, slot, kind, a, b, coordtxt, n);
    if (n < 0) return;
    long cand[4] = { 1, n - 1, n, n + 3 };
    for (int i = 0; i < 4; i++) {
        long c = cand[i];
        int dup = 0;
        for (int j = 0; j < i; j++) if (cand[j] == c) dup = 1;
        if (c <= 0 || dup) continue;
        int32 *off = malloc(c * sizeof(int32)), *len = malloc(c * sizeof(int32));   /* exact size: ASan red zones */
        for (long k = 0; k < c; k++) off[k] = len[k] = -7;
        int r = fn(ctx, coord, (unsigned)c, off, len);
        printf("%s F%d DI %s %ld %ld %ld %s = %d", hist, slot, kind, a, b, c, coordtxt, r);
        for (long k = 0; k < r && k < c; k++) printf(" %d:%d", (int)off[k], (int)len[k]);
        printf("\n");
        free(off); free(len);
    }
    fflush(stdout);
}

struct hctx { int32 f; uint16 tag, ref; };
static int di_h(void *c, int32 *coord, unsigned count, int32 *off, int32 *len)
{ struct hctx *h = c; return HDgetdatainfo(h->f, h->tag, h->ref, coord, 0, count, off, len); }
static int di_vs(void *c, int32 *coord, unsigned count, int32 *off, int32 *len)
{ return VSgetdatainfo(*(int32 *)c, 0, count, off, len); }
static int di_sd(void *c, int32 *coord, unsigned count, int32 *off, int32 *len)
{ return SDgetdatainfo(*(int32 *)c, coord, 0, count, off, len); }
static int di_gr(void *c, int32 *coord, unsigned count, int32 *off, int32 *len)
{ return GRgetdatainfo(*(int32 *)c, 0, count, off, len); }

/* all chunk coordinates of an nd-dimensional chunk grid */
static void each_chunk(int slot, const char *kind, long a, long b, int nd, const int *nch, di_fn fn, void *ctx)
{
    int32 c[8] = { 0 };
    long total = 1;
    for (int i = 0; i < nd; i++) total *= nch[i];
    for (long k = 0; k < total && k < 64; k++) {
        long r = k;
        char txt[128] = "";
        for (int i = nd - 1; i >= 0; i--) { c[i] = r % nch[i]; r /= nch[i]; }
        for (int i = 0; i < nd; i++) sprintf(txt + strlen(txt), "%s%d", i ? "," : "", (int)c[i]);
        di_queries(slot, kind, a, b, txt, fn, ctx, c);
    }
}

struct ddl { uint16 tag, ref; int sp; };
static struct ddl dl[4096];

/* every descriptor of an open file: logical content through Hread.  pfx "E" = read-back of the closed file,
   "PRE" = what the writing session itself reads just before it closes the file */
static int dump_elems(int32 f, int slot, const char *pfx)
{
    uint16 tag = 0, ref = 0;
    int32  off, len;
    int    ndd = 0;
    while (Hfind(f, DFTAG_WILDCARD, DFREF_WILDCARD, &tag, &ref, &off, &len, DF_FORWARD) != FAIL && ndd < 4096) {
        uint16 bt = BASETAG(tag);
        dl[ndd].tag = bt; dl[ndd].ref = ref; dl[ndd].sp = 0;
        if (off == INVALID_OFFSET && len == INVALID_LENGTH) { printf("%s F%d %s %d %d sp%d nodata\n", hist, slot, pfx, bt, ref, SPECIALTAG(tag) ? -1 : 0); ndd++; continue; }
        int32 aid = Hstartread(f, bt, ref);
        if (aid == FAIL) { printf("%s F%d %s %d %d sp? unreadable\n", hist, slot, pfx, bt, ref); ndd++; continue; }
        int32 elen = 0; int16 sp = 0;
        Hinquire(aid, NULL, NULL, NULL, &elen, NULL, NULL, NULL, &sp);
        dl[ndd].sp = sp;
        unsigned char *buf = malloc(elen > 0 ? elen : 1);
        int32 got = elen > 0 ? Hread(aid, elen, buf) : 0;
        Hendaccess(aid);
        if (got == FAIL) printf("%s F%d %s %d %d sp%d readfail %d\n", hist, slot, pfx, bt, ref, sp, (int)elen);
        else { printf("%s F%d %s %d %d sp%d %d", hist, slot, pfx, bt, ref, sp, (int)got); phex(buf, got); printf("\n"); }
        free(buf);
        ndd++;
    }
    fflush(stdout);
    return ndd;
}

static void dump_v(int32 f, int slot, const char *vhp, const char *vgp, int with_di);

static void verify(int slot)
{
    int32 f = Hopen(fname[slot], DFACC_READ, 0);
    if (f == FAIL) { printf("%s F%d OPENFAIL\n", hist, slot); return; }
    int ndd = dump_elems(f, slot, "E");
    /* ---- raw-location queries at the H level ---- */
    for (int i = 0; i < ndd; i++) {
        struct hctx h = { f, dl[i].tag, dl[i].ref };
        if (dl[i].sp == SPECIAL_CHUNKED) {
            for (int k = 0; k < hint_n; k++)
                if (hints[k].f == slot && hints[k].tag == dl[i].tag && hints[k].ref == dl[i].ref)
                    each_chunk(slot, "H", dl[i].tag, dl[i].ref, hints[k].nd, hints[k].n, di_h, &h);
        }
        else
            di_queries(slot, "H", dl[i].tag, dl[i].ref, "-", di_h, &h, NULL);
    }
    Vstart(f);
    dump_v(f, slot, "VH", "VG", 1);
    Vend(f);
    fflush(stdout);
    /* ---- raster images through the GR interface ---- */
    int32 gr = GRstart(f);
    if (gr != FAIL) {
        int32 nimg = 0, nattr = 0;
        GRfileinfo(gr, &nimg, &nattr);
        {   /* raw descriptors of the palettes: count only, then exact-size arrays of 1, n-1, n, n+3 entries */
            int n = GRgetpalinfo(gr, 0, NULL);
            printf("%s F%d DI PAL 0 0 N - = %d\n", hist, slot, n);
            long cand[4] = { 1, n - 1, n, n + 3 };
            for (int i = 0; n >= 0 && i < 4; i++) {
                long c = cand[i]; int dup = 0;
                for (int j = 0; j < i; j++) if (cand[j] == c) dup = 1;
                if (c <= 0 || dup) continue;
                hdf_ddinfo_t *pi = malloc(c * sizeof *pi);
                for (long k = 0; k < c; k++) { pi[k].tag = pi[k].ref = 0; pi[k].offset = pi[k].length = -7; }
                int rr = GRgetpalinfo(gr, (unsigned)c, pi);
                printf("%s F%d DI PAL 0 0 %ld - = %d", hist, slot, c, rr);
                for (long k = 0; k < rr && k < c; k++) printf(" %d/%d/%d/%d", pi[k].tag, pi[k].ref, (int)pi[k].offset, (int)pi[k].length);
                printf("\n");
                free(pi);
            }
            for (int a_ = 0; a_ < nattr; a_++) {
                char an_[256] = ""; int32 ant = 0, acnt = 0, o = -7, l = -7;
                if (GRattrinfo(gr, a_, an_, &ant, &acnt) == FAIL) continue;
                int rr = GRgetattdatainfo(gr, a_, &o, &l);
                printf("%s F%d DI GRATT 0 %d 1 ", hist, slot, a_); phex0((unsigned char *)an_, strlen(an_));
                printf(" = %d", rr);
                if (rr == 1) printf(" %d:%d", (int)o, (int)l);
                printf("\n");
            }
        }
        for (int i = 0; i < nimg; i++) {
            int32 ri = GRselect(gr, i);
            if (ri == FAIL) continue;
            char  name[256] = "";
            int32 ncomp = 0, nt = 0, il = 0, dims[2] = { 0, 0 }, na = 0;
            GRgetiminfo(ri, name, &ncomp, &nt, &il, dims, &na);
            int   rr = GRidtoref(ri);
            printf("%s F%d GR %d ncomp=%d nt=%d w=%d h=%d\n", hist, slot, rr, (int)ncomp, (int)nt, (int)dims[0], (int)dims[1]);
            for (int a_ = 0; a_ < na; a_++) {
                char an_[256] = ""; int32 ant = 0, acnt = 0, o = -7, l = -7;
                if (GRattrinfo(ri, a_, an_, &ant, &acnt) == FAIL) continue;
                int r2 = GRgetattdatainfo(ri, a_, &o, &l);
                printf("%s F%d DI GRATT %d %d 1 ", hist, slot, rr, a_); phex0((unsigned char *)an_, strlen(an_));
                printf(" = %d", r2);
                if (r2 == 1) printf(" %d:%d", (int)o, (int)l);
                printf("\n");
            }
            long nbytes = (long)ncomp * ntsize(nt) * dims[0] * dims[1];
            unsigned char *buf = calloc(nbytes > 0 ? nbytes : 1, 1);
            int32 st[2] = { 0, 0 }, sr[2] = { 1, 1 };
            if (GRreadimage(ri, st, sr, dims, buf) == FAIL) printf("%s F%d GRDATA %d readfail\n", hist, slot, rr);
            else { to_file_order(buf, nbytes, ntsize(nt)); printf("%s F%d GRDATA %d", hist, slot, rr); phex(buf, nbytes); printf("\n"); }
            free(buf);
            HDF_CHUNK_DEF cd; int32 fl = 0;
            if (GRgetchunkinfo(ri, &cd, &fl) != FAIL && fl != HDF_NONE) printf("%s F%d GRCHUNKED %d\n", hist, slot, rr);
            else di_queries(slot, "GR", rr, 0, "-", di_gr, &ri, NULL);
            GRendaccess(ri);
        }
        GRend(gr);
    }
    Hclose(f);
    fflush(stdout);
    /* ---- scientific data sets through the SD interface ---- */
    int32 sd = SDstart(fname[slot], DFACC_READ);
    if (sd != FAIL) {
        int32 nds = 0, nga = 0;
        SDfileinfo(sd, &nds, &nga);
        for (int a_ = 0; a_ < nga; a_++) {
            char an_[256] = ""; int32 ant = 0, acnt = 0, o = -7, l = -7;
            if (SDattrinfo(sd, a_, an_, &ant, &acnt) == FAIL) continue;
            int rr = SDgetattdatainfo(sd, a_, &o, &l);
            printf("%s F%d DI ATTF 0 %d 1 ", hist, slot, a_); phex0((unsigned char *)an_, strlen(an_));
            printf(" = %d", rr);
            if (rr == 1) printf(" %d:%d", (int)o, (int)l);
            printf("\n");
        }
        for (int t_ = 0; t_ < 2; t_++) {
            ann_type at = t_ == 0 ? AN_FILE_LABEL : AN_FILE_DESC;
            int n_ = SDgetanndatainfo(sd, at, 0, NULL, NULL);
                    printf("%s F%d DI ANNF %d 0" " N - = %d\n", hist, slot, t_, n_);
                    long cand_[4] = { 1, n_ - 1, n_, n_ + 3 };
                    for (int i_ = 0; n_ > 0 && i_ < 4; i_++) {
                        long c_ = cand_[i_]; int dup_ = 0;
                        for (int j_ = 0; j_ < i_; j_++) if (cand_[j_] == c_) dup_ = 1;
                        if (c_ <= 0 || dup_) continue;
                        int32 *o = malloc(c_ * sizeof(int32)), *l = malloc(c_ * sizeof(int32));
                        int rr = SDgetanndatainfo(sd, at, (unsigned)c_, o, l);
                        printf("%s F%d DI ANNF %d 0" " %ld - = %d", hist, slot, t_, c_, rr);
                        for (long k = 0; k < rr && k < c_; k++) printf(" %d:%d", (int)o[k], (int)l[k]);
                        printf("\n");
                        free(o); free(l);
                    }
        }
        for (int i = 0; i < nds; i++) {
            int32 s = SDselect(sd, i);
            if (s == FAIL) continue;
            char  name[256] = "";
            int32 rank = 0, dims[H4_MAX_VAR_DIMS], nt = 0, na = 0;
            SDgetinfo(s, name, &rank, dims, &nt, &na);
            int ndg = SDidtoref(s);
            if (SDiscoordvar(s)) { SDendaccess(s); continue; }
            printf("%s F%d SD %d rank=%d nt=%d dims=", hist, slot, ndg, (int)rank, (int)nt);
            long nel = 1;
            for (int k = 0; k < rank; k++) { printf("%s%d", k ? "," : "", (int)dims[k]); nel *= dims[k]; }
            printf("\n");
            if (rank > 0 && nel > 0) {
                long nbytes = nel * ntsize(nt);
                unsigned char *buf = calloc(nbytes, 1);
                int32 st[H4_MAX_VAR_DIMS] = { 0 };
                if (SDreaddata(s, st, NULL, dims, buf) == FAIL) printf("%s F%d SDDATA %d readfail\n", hist, slot, ndg);
                else { to_file_order(buf, nbytes, ntsize(nt)); printf("%s F%d SDDATA %d", hist, slot, ndg); phex(buf, nbytes); printf("\n"); }
                free(buf);
            }
            /* ---- locations of predefined (old-style) strings, attributes and annotations ---- */
            {
                static const char *lufname[3] = { "long_name", "units", "format" };
                static const int   luftag[3]  = { DFTAG_SDL, DFTAG_SDU, DFTAG_SDF };
                for (int k = 0; k < 3; k++) {
                    int32 o = -7, l = -7;
                    int   rr = SDgetoldattdatainfo(0, s, (char *)lufname[k], &o, &l);
                    printf("%s F%d DI OLD %d %d 1 - = %d", hist, slot, ndg, luftag[k], rr);
                    if (rr == 1) printf(" %d:%d", (int)o, (int)l);
                    printf("\n");
                    for (int j = 0; j < rank; j++) {
                        int32 d = SDgetdimid(s, j);
                        o = l = -7;
                        rr = d != FAIL ? SDgetoldattdatainfo(d, s, (char *)lufname[k], &o, &l) : -2;
                        printf("%s F%d DI OLD %d %d 1 %d = %d", hist, slot, ndg, luftag[k], j, rr);
                        if (rr == 1) printf(" %d:%d", (int)o, (int)l);
                        printf("\n");
                    }
                }
                for (int a_ = 0; a_ < na; a_++) {
                    char an_[256] = ""; int32 ant = 0, acnt = 0, o = -7, l = -7;
                    if (SDattrinfo(s, a_, an_, &ant, &acnt) == FAIL) continue;
                    int rr = SDgetattdatainfo(s, a_, &o, &l);
                    printf("%s F%d DI ATTS %d %d 1 ", hist, slot, ndg, a_); phex0((unsigned char *)an_, strlen(an_));
                    if (rr == DFE_NOVGREP) printf(" = novg"); else printf(" = %d", rr);
                    if (rr == 1) printf(" %d:%d", (int)o, (int)l);
                    printf("\n");
                }
                for (int j = 0; j < rank; j++) {
                    int32 d = SDgetdimid(s, j);
                    char  dn[256] = ""; int32 dsz = 0, dnt = 0, dna = 0;
                    if (d == FAIL || SDdiminfo(d, dn, &dsz, &dnt, &dna) == FAIL) continue;
                    for (int a_ = 0; a_ < dna; a_++) {
                        char an_[256] = ""; int32 ant = 0, acnt = 0, o = -7, l = -7;
                        if (SDattrinfo(d, a_, an_, &ant, &acnt) == FAIL) continue;
                        int rr = SDgetattdatainfo(d, a_, &o, &l);
                        printf("%s F%d DI ATTD %d %d 1 ", hist, slot, ndg, j * 1000 + a_);
                        phex0((unsigned char *)dn, strlen(dn)); printf(":"); phex0((unsigned char *)an_, strlen(an_));
                        if (rr == DFE_NOVGREP) printf(" = novg"); else printf(" = %d", rr);
                        if (rr == 1) printf(" %d:%d", (int)o, (int)l);
                        printf("\n");
                    }
                }
                for (int t_ = 0; t_ < 2; t_++) {
                    ann_type at = t_ == 0 ? AN_DATA_LABEL : AN_DATA_DESC;
                    int n_ = SDgetanndatainfo(s, at, 0, NULL, NULL);
                    printf("%s F%d DI ANNS %d %d" " N - = %d\n", hist, slot, ndg, t_ + 2, n_);
                    long cand_[4] = { 1, n_ - 1, n_, n_ + 3 };
                    for (int i_ = 0; n_ > 0 && i_ < 4; i_++) {
                        long c_ = cand_[i_]; int dup_ = 0;
                        for (int j_ = 0; j_ < i_; j_++) if (cand_[j_] == c_) dup_ = 1;
                        if (c_ <= 0 || dup_) continue;
                        int32 *o = malloc(c_ * sizeof(int32)), *l = malloc(c_ * sizeof(int32));
                        int rr = SDgetanndatainfo(s, at, (unsigned)c_, o, l);
                        printf("%s F%d DI ANNS %d %d" " %ld - = %d", hist, slot, ndg, t_ + 2, c_, rr);
                        for (long k = 0; k < rr && k < c_; k++) printf(" %d:%d", (int)o[k], (int)l[k]);
                        printf("\n");
                        free(o); free(l);
                    }
                }
            }
            HDF_CHUNK_DEF cd; int32 fl = 0;
            if (SDgetchunkinfo(s, &cd, &fl) != FAIL && fl != HDF_NONE) {
                int nch[8];
                for (int k = 0; k < rank && k < 8; k++) {
                    int32 cl = (fl & HDF_COMP) ? cd.comp.chunk_lengths[k] : cd.chunk_lengths[k];
                    nch[k] = cl > 0 ? (dims[k] + cl - 1) / cl : 1;
                }
                each_chunk(slot, "SD", ndg, 0, rank, nch, di_sd, &s);
            }
            else
                di_queries(slot, "SD", ndg, 0, "-", di_sd, &s, NULL);
            SDendaccess(s);
        }
        SDend(sd);
    }
    printf("%s F%d END\n", hist, slot);
    fflush(stdout);
}

/* Vdata headers and Vgroups through the V interface (Vstart done by the caller) */
static void dump_v(int32 f, int slot, const char *vhp, const char *vgp, int with_di)
{
    /* ---- Vdata headers and Vgroups through the V interface ---- */
    int32 r = -1;
    while ((r = VSgetid(f, r)) != FAIL) {
        int32 vs = VSattach(f, r, "r");
        if (vs == FAIL) { printf("%s F%d %s %d ! attachfail\n", hist, slot, vhp, (int)r); continue; }
        int32 nrec = 0, il = 0, vsize = 0;
        char  name[VSNAMELENMAX + 1] = "", cls[VSNAMELENMAX + 1] = "", fields[8192] = "";
        VSinquire(vs, &nrec, &il, fields, &vsize, name);
        VSgetclass(vs, cls);
        int nf = VFnfields(vs);
        long iv = 0;
        for (int i = 0; i < nf; i++) iv += VFfieldisize(vs, i);
        printf("%s F%d %s %d il=%d nv=%d iv=%ld name=", hist, slot, vhp, (int)r, (int)il, (int)nrec, iv);
        phex0((unsigned char *)name, strlen(name)); printf(" class="); phex0((unsigned char *)cls, strlen(cls));
        printf(" f=");
        if (nf <= 0) printf("-");
        for (int i = 0; i < nf; i++) {
            const char *fn_ = VFfieldname(vs, i);
            printf("%s%d:%d:%d:", i ? "," : "", (int)VFfieldtype(vs, i), (int)VFfieldisize(vs, i), (int)VFfieldorder(vs, i));
            for (size_t k = 0; k < strlen(fn_); k++) printf("%02x", (unsigned char)fn_[k]);
            if (!strlen(fn_)) printf("-");
        }
        printf(" na=%d\n", (int)VSnattrs(vs));
        if (with_di) {
            di_queries(slot, "VS", r, 0, "-", di_vs, &vs, NULL);
            for (int fi = -1; fi < nf; fi++) {          /* attributes of the vdata (-1) and of each field */
                int na_ = VSfnattrs(vs, fi);
                for (int a_ = 0; a_ < na_; a_++) {
                    int32 o = -7, l = -7;
                    int   rr = VSgetattdatainfo(vs, fi, a_, &o, &l);
                    printf("%s F%d DI VSATT %d %d 1 %d = %d", hist, slot, (int)r, fi, a_, rr);
                    if (rr == 1) printf(" %d:%d", (int)o, (int)l);
                    printf("\n");
                }
            }
        }
        VSdetach(vs);
    }
    r = -1;
    while ((r = Vgetid(f, r)) != FAIL) {
        int32 vg = Vattach(f, r, "r");
        if (vg == FAIL) { printf("%s F%d %s %d ! attachfail\n", hist, slot, vgp, (int)r); continue; }
        char  name[1024] = "", cls[1024] = "";
        int32 n = 0;
        Vinquire(vg, &n, NULL);      /* Vinquire copies a NULL name of an unnamed vgroup (C08's business): use Vgetname */
        Vgetname(vg, name);
        Vgetclass(vg, cls);
        printf("%s F%d %s %d name=", hist, slot, vgp, (int)r);
        phex0((unsigned char *)name, strlen(name)); printf(" class="); phex0((unsigned char *)cls, strlen(cls));
        printf(" m=");
        if (n <= 0) printf("-");
        int32 *tg = malloc((n + 1) * sizeof(int32)), *rf = malloc((n + 1) * sizeof(int32));
        int32 got = n > 0 ? Vgettagrefs(vg, tg, rf, n) : 0;
        for (int i = 0; i < got; i++) printf("%s%d:%d", i ? "," : "", (int)tg[i], (int)rf[i]);
        printf(" na=%d\n", (int)Vnattrs(vg));
        if (with_di)
            for (int a_ = 0; a_ < Vnattrs(vg); a_++) {
                int32 o = -7, l = -7;
                int   rr = Vgetattdatainfo(vg, a_, &o, &l);
                printf("%s F%d DI VGATT %d 0 1 %d = %d", hist, slot, (int)r, a_, rr);
                if (rr == 1) printf(" %d:%d", (int)o, (int)l);
                printf("\n");
            }
        free(tg); free(rf);
        Vdetach(vg);
    }
    fflush(stdout);
    fflush(stdout);
}

/* in-memory DD blocks of an open file (private structures): the R side of the DD-block serializer correspondence */
static void dump_mem(int slot)
{
    filerec_t *fr = HAatom_object(fid[slot]);
    if (!fr) return;
    for (ddblock_t *b = fr->ddhead; b; b = b->next) {
        printf("%s F%d MEM %d %d %d", hist, slot, (int)b->myoffset, (int)b->ndds, (int)b->nextoffset);
        for (int i = 0; i < b->ndds; i++)
            printf(" %d,%d,%d,%d", b->ddlist[i].tag, b->ddlist[i].ref, (int)b->ddlist[i].offset, (int)b->ddlist[i].length);
        printf("\n");
    }
}

static int copy_file(const char *a, const char *b)
{
    FILE *x = fopen(a, "rb"), *y = fopen(b, "wb");
    if (!x || !y) return -1;
    int c;
    while ((c = fgetc(x)) != EOF) fputc(c, y);
    fclose(x); fclose(y);
    return 0;
}

/* ---------------------------------------------------------------- building operations ----------- */
static void run_op(long ln)
{
    const char *op = args();
    int ok = 1;
    long v1 = 0; int have_v = 0;
#define F_OPEN(F) ((F) >= 0 && (F) < NF && fid[F] != FAIL)
    if (!strcmp(op, "hopen")) {
        int F = argl(), ndds = argl(), cache = argl();
        if (F < 0 || F >= NF || fid[F] != FAIL) ok = 0;
        else {
            fid[F] = Hopen(fname[F], exists_[F] ? DFACC_RDWR : DFACC_CREATE, (int16)ndds);
            ok = fid[F] != FAIL;
            if (ok) { exists_[F] = 1; Hcache(fid[F], cache); Vstart(fid[F]); }
        }
    }
    else if (!strcmp(op, "hclose")) {
        int F = argl(); int nopre = argl();   /* hclose F [1]: 1 = do not read the elements back before closing
                                                 (a read of reserved space makes the library extend the file) */
        if (!F_OPEN(F)) ok = 0;
        else { if (!nopre) { dump_elems(fid[F], F, "PRE"); dump_v(fid[F], F, "PREVH", "PREVG", 0); } else printf("%s F%d NOPRE\n", hist, F); dump_mem(F); Vend(fid[F]); ok = Hclose(fid[F]) != FAIL; fid[F] = FAIL; if (!ok) notclosed[F] = 1; }
    }
    else if (!strcmp(op, "snap")) {
        int F = argl(), G = argl();
        if (!F_OPEN(F) || G < 0 || G >= NF) ok = 0;
        else {
            filerec_t *fr = HAatom_object(fid[F]);
            dump_elems(fid[F], F, "PRE"); dump_v(fid[F], F, "PREVH", "PREVG", 0);
            ok = Hsync(fid[F]) != FAIL && fr && HI_FLUSH(fr->file) != FAIL;
            dump_mem(F);
            if (ok) { ok = copy_file(fname[F], fname[G]) == 0; exists_[G] = 1; }
        }
    }
    else if (!strcmp(op, "put")) {
        int F = argl(), tag = argl(), ref = argl(); int n = unhex(args(), databuf);
        ok = F_OPEN(F) && Hputelement(fid[F], tag, ref, databuf, n) != FAIL;
    }
    else if (!strcmp(op, "lb")) {
        int F = argl(), tag = argl(), ref = argl(), bl = argl(), nb = argl(), nw = argl();
        int32 aid = F_OPEN(F) ? HLcreate(fid[F], tag, ref, bl, nb) : FAIL;
        ok = aid != FAIL;
        for (int i = 0; i < nw && ok; i++) { int n = unhex(args(), databuf); if (n > 0) ok = Hwrite(aid, n, databuf) == n; }
        if (aid != FAIL) Hendaccess(aid);
    }
    else if (!strcmp(op, "lbs")) {      /* linked blocks written at positions: lbs F tag ref bl nb n (pos hex).. */
        int F = argl(), tag = argl(), ref = argl(), bl = argl(), nb = argl(), nw = argl();
        int32 aid = F_OPEN(F) ? HLcreate(fid[F], tag, ref, bl, nb) : FAIL;
        ok = aid != FAIL;
        for (int i = 0; i < nw && ok; i++) {
            int pos = argl(); int n = unhex(args(), databuf);
            ok = Hseek(aid, pos, DF_START) != FAIL && (n == 0 || Hwrite(aid, n, databuf) == n);
        }
        if (aid != FAIL) Hendaccess(aid);
    }
    else if (!strcmp(op, "lbw")) {      /* rewrite / extend an existing element at positions: lbw F tag ref n (pos hex).. */
        int F = argl(), tag = argl(), ref = argl(), nw = argl();
        int32 aid = F_OPEN(F) ? Hstartaccess(fid[F], tag, ref, DFACC_WRITE) : FAIL;
        ok = aid != FAIL;
        for (int i = 0; i < nw && ok; i++) {
            int pos = argl(); int n = unhex(args(), databuf);
            ok = Hseek(aid, pos, DF_START) != FAIL && (n == 0 || Hwrite(aid, n, databuf) == n);
        }
        if (aid != FAIL) Hendaccess(aid);
    }
    else if (!strcmp(op, "vgdel")) {    /* vgdel F slot which(0 first,1 middle,2 last) delobj */
        int F = argl(), slot = argl(), which = argl(), delobj = argl();
        int32 vg = F_OPEN(F) && vgref[F][slot] > 0 ? Vattach(fid[F], vgref[F][slot], "w") : FAIL;
        ok = vg != FAIL;
        int32 t = 0, r = 0;
        if (ok) {
            int32 n = Vntagrefs(vg);
            int idx = which == 0 ? 0 : which == 1 ? n / 2 : n - 1;
            ok = n > 0 && Vgettagref(vg, idx, &t, &r) != FAIL && Vdeletetagref(vg, t, r) != FAIL;
        }
        if (vg != FAIL) ok = (Vdetach(vg) != FAIL) && ok;
        if (ok && delobj) {
            if (t == DFTAG_VH) {    /* only while its data is a plain element (see below) */
                int32 aid = Hstartread(fid[F], DFTAG_VS, (uint16)r); int16 sp = 0;
                if (aid != FAIL) { Hinquire(aid, NULL, NULL, NULL, NULL, NULL, NULL, NULL, &sp); Hendaccess(aid); }
                if (sp == 0) VSdelete(fid[F], r);
            }
            else if (t == DFTAG_VG) Vdelete(fid[F], r);
            else {      /* a plain element only: Hdeldd of a special element leaves its blocks / tables behind by design */
                int32 aid = Hstartread(fid[F], (uint16)t, (uint16)r); int16 sp = 1;
                if (aid != FAIL) { Hinquire(aid, NULL, NULL, NULL, NULL, NULL, NULL, NULL, &sp); Hendaccess(aid); }
                if (aid != FAIL && sp == 0) Hdeldd(fid[F], (uint16)t, (uint16)r);
            }
        }
        v1 = t * 100000L + r; have_v = ok;
    }
    else if (!strcmp(op, "dfsd")) {     /* dfsd F nt rank d.. lab unit fmt (lab unit fmt per dim).. hex   (strings hex, "-" = none) */
        int F = argl(), nt = argl(), rank = argl(); int32 dims[8]; char a[3][256];
        for (int i = 0; i < rank && i < 8; i++) dims[i] = argl();
        ok = F >= 0 && F < NF && fid[F] == FAIL && DFSDclear() != FAIL && DFSDsetNT(nt) != FAIL && DFSDsetdims(rank, dims) != FAIL;
        for (int k = 0; k < 3; k++) hexstr(args(), a[k]);
        if (ok && (a[0][0] || a[1][0] || a[2][0])) ok = DFSDsetdatastrs(a[0], a[1], a[2], "") != FAIL;
        for (int i = 0; i < rank; i++) {
            for (int k = 0; k < 3; k++) hexstr(args(), a[k]);
            if (ok && (a[0][0] || a[1][0] || a[2][0])) ok = DFSDsetdimstrs(i + 1, a[0], a[1], a[2]) != FAIL;
        }
        int n = unhex(args(), databuf);
        if (ok) { to_file_order(databuf, n, ntsize(nt)); ok = DFSDadddata(fname[F], rank, dims, databuf) != FAIL; if (ok) exists_[F] = 1; }
    }
    else if (!strcmp(op, "sdselect")) {
        int i = argl();
        if (sds_id != FAIL) { SDendaccess(sds_id); sds_id = FAIL; }
        sds_id = sd_id != FAIL ? SDselect(sd_id, i) : FAIL;
        ok = sds_id != FAIL;
    }
    else if (!strcmp(op, "sddimname")) {
        int j = argl(); char nm[256]; hexstr(args(), nm);
        int32 d = sds_id != FAIL ? SDgetdimid(sds_id, j) : FAIL;
        ok = d != FAIL && SDsetdimname(d, nm) != FAIL;
    }
    else if (!strcmp(op, "sddimattr")) {
        int j = argl(); char nm[256]; hexstr(args(), nm); int nt = argl(), cnt = argl(); unhex(args(), databuf);
        int32 d = sds_id != FAIL ? SDgetdimid(sds_id, j) : FAIL;
        ok = d != FAIL && SDsetattr(d, nm, nt, cnt, databuf) != FAIL;
    }
    else if (!strcmp(op, "sdann")) {    /* sdann F idx type(2 label,3 desc; 0/1 file label/desc) hex : annotation on the idx-th data set's NDG */
        int F = argl(), idx = argl(), type = argl(); int n = unhex(args(), databuf);
        int ref = 0;
        ok = F >= 0 && F < NF && fid[F] == FAIL && sd_id == FAIL && exists_[F];
        if (ok && type >= 2) {
            int32 sd = SDstart(fname[F], DFACC_READ);
            int32 s_ = sd != FAIL ? SDselect(sd, idx) : FAIL;
            ref = s_ != FAIL ? SDidtoref(s_) : 0;
            if (s_ != FAIL) SDendaccess(s_);
            if (sd != FAIL) SDend(sd);
            ok = ref > 0;
        }
        if (ok) {
            int32 f = Hopen(fname[F], DFACC_RDWR, 0);
            int32 an = f != FAIL ? ANstart(f) : FAIL;
            int32 a = an == FAIL ? FAIL : (type <= 1 ? ANcreatef(an, type == 0 ? AN_FILE_LABEL : AN_FILE_DESC)
                                                     : ANcreate(an, DFTAG_NDG, (uint16)ref, type == 2 ? AN_DATA_LABEL : AN_DATA_DESC));
            ok = a != FAIL && ANwriteann(a, (char *)databuf, n) != FAIL;
            if (a != FAIL) ANendaccess(a);
            if (an != FAIL) ANend(an);
            if (f != FAIL && Hclose(f) == FAIL) { notclosed[F] = 1; ok = 0; }
        }
    }
    else if (!strcmp(op, "grlut")) {    /* palette of the current image: grlut seed */
        int seed = argl(); unsigned char pal[768];
        for (int i = 0; i < 768; i++) pal[i] = (unsigned char)(seed + i * 7);
        int32 lut = ri_id != FAIL ? GRgetlutid(ri_id, 0) : FAIL;
        ok = lut != FAIL && GRwritelut(lut, 3, DFNT_UINT8, MFGR_INTERLACE_PIXEL, 256, pal) != FAIL;
    }
    else if (!strcmp(op, "grattr")) {   /* grattr scope(0 file, 1 current image) namehex nt cnt hex */
        int scope = argl(); char nm[256]; hexstr(args(), nm); int nt = argl(), cnt = argl(); unhex(args(), databuf);
        int32 id = scope == 0 ? gr_id : ri_id;
        ok = id != FAIL && GRsetattr(id, nm, nt, cnt, databuf) != FAIL;
    }
    else if (!strcmp(op, "dfpal")) {    /* old-style palette (DFTAG_IP8 + DFTAG_LUT) appended to a closed file: dfpal F seed */
        int F = argl(), seed = argl(); unsigned char pal[768];
        for (int i = 0; i < 768; i++) pal[i] = (unsigned char)(seed * 3 + i);
        ok = F >= 0 && F < NF && fid[F] == FAIL && sd_id == FAIL && gr_id == FAIL && DFPaddpal(fname[F], pal) != FAIL;
        if (ok) exists_[F] = 1;
    }
    else if (!strcmp(op, "chunkw")) {   /* rewrite chunks of an existing chunked element: chunkw F tag ref nd n (o.. hex).. */
        int F = argl(), tag = argl(), ref = argl(), nd = argl(), nw = argl();
        int32 aid = F_OPEN(F) ? Hstartaccess(fid[F], tag, ref, DFACC_WRITE) : FAIL;
        ok = aid != FAIL;
        for (int w = 0; w < nw && ok; w++) {
            int32 org[8];
            for (int i = 0; i < nd && i < 8; i++) org[i] = argl();
            unhex(args(), databuf);
            ok = HMCwriteChunk(aid, org, databuf) != FAIL;
        }
        if (aid != FAIL) ok = (Hendaccess(aid) != FAIL) && ok;
    }
    else if (!strcmp(op, "compw")) {    /* rewrite a compressed element from its start: compw F tag ref hex */
        int F = argl(), tag = argl(), ref = argl(); int n = unhex(args(), databuf);
        int32 aid = F_OPEN(F) ? Hstartaccess(fid[F], tag, ref, DFACC_WRITE) : FAIL;
        ok = aid != FAIL && Hwrite(aid, n, databuf) == n;
        if (aid != FAIL) ok = (Hendaccess(aid) != FAIL) && ok;
    }
    else if (!strcmp(op, "reserve")) {  /* space reserved up front, written only in part: reserve F tag ref len hex */
        int F = argl(), tag = argl(), ref = argl(), len = argl(); int n = unhex(args(), databuf);
        int32 aid = F_OPEN(F) ? Hstartwrite(fid[F], tag, ref, len) : FAIL;
        ok = aid != FAIL && (n == 0 || Hwrite(aid, n, databuf) == n);
        if (aid != FAIL) ok = (Hendaccess(aid) != FAIL) && ok;
    }
    else if (!strcmp(op, "vgaddx")) {   /* vgaddx F slot kind a b: add a member to an existing vgroup; while the change is
                                           pending the vgroup is attached a second time (as a helper that lists members does) */
        int F = argl(), slot = argl(), kind = argl(), a = argl(), b = argl();
        int32 vg = F_OPEN(F) && vgref[F][slot] > 0 ? Vattach(fid[F], vgref[F][slot], "w") : FAIL;
        ok = vg != FAIL;
        if (ok) {
            if (kind == 0) ok = vsref[F][a] > 0 && Vaddtagref(vg, DFTAG_VH, vsref[F][a]) != FAIL;
            else if (kind == 3) { char nm[64]; snprintf(nm, sizeof nm, "renamed%d", a); ok = Vsetname(vg, nm) != FAIL; }
            else ok = Vaddtagref(vg, a, b) != FAIL;
        }
        if (ok) {
            int32 again = Vattach(fid[F], vgref[F][slot], b % 2 ? "w" : "r");
            if (again != FAIL) { (void)Vntagrefs(again); Vdetach(again); }
        }
        if (vg != FAIL) ok = (Vdetach(vg) != FAIL) && ok;
    }
    else if (!strcmp(op, "defonly")) {  /* an element that is defined but never gets data: defonly F tag ref */
        int F = argl(), tag = argl(), ref = argl();
        int32 aid = F_OPEN(F) ? Hstartaccess(fid[F], tag, ref, DFACC_WRITE) : FAIL;
        ok = aid != FAIL && Hendaccess(aid) != FAIL;
    }
    else if (!strcmp(op, "app")) {
        int F = argl(), tag = argl(), ref = argl(); int n = unhex(args(), databuf);
        int32 aid = F_OPEN(F) ? Hstartaccess(fid[F], tag, ref, DFACC_WRITE | DFACC_APPENDABLE) : FAIL;
        ok = aid != FAIL && Hseek(aid, 0, DF_END) != FAIL && Hwrite(aid, n, databuf) == n;
        if (aid != FAIL) Hendaccess(aid);
    }
    else if (!strcmp(op, "ext")) {
        int F = argl(), tag = argl(), ref = argl(); const char *nm = args(); int off = argl(); int n = unhex(args(), databuf);
        int32 aid = F_OPEN(F) ? HXcreate(fid[F], tag, ref, nm, off, 0) : FAIL;
        ok = aid != FAIL && (n == 0 || Hwrite(aid, n, databuf) == n);
        if (aid != FAIL) Hendaccess(aid);
    }
    else if (!strcmp(op, "comp")) {
        int F = argl(), tag = argl(), ref = argl(), coder = argl(), p = argl(); int n = unhex(args(), databuf);
        comp_coder_t ct; comp_info ci; model_info mi; memset(&mi, 0, sizeof mi);
        coder_info(coder, p, &ct, &ci);
        int32 aid = F_OPEN(F) ? HCcreate(fid[F], tag, ref, COMP_MODEL_STDIO, &mi, ct, &ci) : FAIL;
        ok = aid != FAIL && (n == 0 || Hwrite(aid, n, databuf) == n);
        if (aid != FAIL) Hendaccess(aid);
    }
    else if (!strcmp(op, "chunk")) {
        int F = argl(), tag = argl(), ref = argl(), nt = argl(), nd = argl();
        DIM_DEF dims[8]; HCHUNK_DEF cd; comp_info ci; model_info mi; comp_coder_t ct;
        memset(&cd, 0, sizeof cd); memset(&mi, 0, sizeof mi);
        long csz = 1;
        for (int i = 0; i < nd && i < 8; i++) dims[i].dim_length = argl();
        for (int i = 0; i < nd && i < 8; i++) { dims[i].chunk_length = argl(); dims[i].distrib_type = 1; csz *= dims[i].chunk_length; }
        int coder = argl(), p = argl();
        unsigned char fill[64]; int fl = unhex(args(), fill);
        coder_info(coder, p, &ct, &ci);
        cd.chunk_size = csz; cd.nt_size = nt; cd.num_dims = nd; cd.pdims = dims;
        cd.chunk_flag = coder ? SPECIAL_COMP : 0; cd.comp_type = ct; cd.model_type = COMP_MODEL_STDIO; cd.cinfo = &ci; cd.minfo = &mi;
        int32 aid = F_OPEN(F) ? HMCcreate(fid[F], tag, ref, 1, fl, fill, &cd) : FAIL;
        ok = aid != FAIL;
        int nw = argl();
        for (int w = 0; w < nw && ok; w++) {
            int32 org[8];
            for (int i = 0; i < nd; i++) org[i] = argl();
            int n = unhex(args(), databuf);
            if (n != csz * nt) { ok = 0; break; }
            ok = HMCwriteChunk(aid, org, databuf) != FAIL;
        }
        if (aid != FAIL) ok = (Hendaccess(aid) != FAIL) && ok;
    }
    else if (!strcmp(op, "chunkhint")) {
        if (hint_n < 32) {
            hints[hint_n].f = argl(); hints[hint_n].tag = argl(); hints[hint_n].ref = argl(); hints[hint_n].nd = argl();
            for (int i = 0; i < hints[hint_n].nd && i < 8; i++) hints[hint_n].n[i] = argl();
            hint_n++;
        }
    }
    else if (!strcmp(op, "dup")) {
        int F = argl(), tag = argl(), ref = argl(), ot = argl(), orf = argl();
        ok = F_OPEN(F) && Hdupdd(fid[F], tag, ref, ot, orf) != FAIL;
    }
    else if (!strcmp(op, "del")) {
        int F = argl(), tag = argl(), ref = argl();
        ok = F_OPEN(F) && Hdeldd(fid[F], tag, ref) != FAIL;
    }
    else if (!strcmp(op, "vs")) {
        int F = argl(), slot = argl(), il = argl(), blk = argl(), nf = argl();
        char flist[2048] = "", nm[256];
        int32 vs = F_OPEN(F) ? VSattach(fid[F], -1, "w") : FAIL;
        ok = vs != FAIL;
        for (int i = 0; i < nf; i++) {
            hexstr(args(), nm); int ty = argl(), ord = argl();
            if (ok) ok = VSfdefine(vs, nm, ty, ord) != FAIL;
            if (i) strcat(flist, ",");
            strcat(flist, nm);
        }
        hexstr(args(), nm); if (ok) ok = VSsetname(vs, nm) != FAIL;
        hexstr(args(), nm); if (ok) ok = VSsetclass(vs, nm) != FAIL;
        if (ok && nf > 0) ok = VSsetfields(vs, flist) != FAIL;
        if (ok) VSsetinterlace(vs, il);
        if (ok && blk > 0) { VSsetblocksize(vs, blk); VSsetnumblocks(vs, 3); }
        int nrec = argl(); int n = unhex(args(), databuf);
        if (ok && nrec > 0) ok = VSwrite(vs, databuf, nrec, FULL_INTERLACE) == nrec;
        (void)n;
        if (vs != FAIL) { if (slot >= 0 && slot < NSLOT) vsref[F][slot] = VSQueryref(vs); v1 = VSQueryref(vs); have_v = 1; ok = (VSdetach(vs) != FAIL) && ok; }
    }
    else if (!strcmp(op, "vsapp")) {
        int F = argl(), slot = argl(), nrec = argl(); unhex(args(), databuf);
        int32 vs = F_OPEN(F) && vsref[F][slot] > 0 ? VSattach(fid[F], vsref[F][slot], "w") : FAIL;
        ok = vs != FAIL;
        if (ok) {
            int32 n = 0, sz = 0; char fl[8192] = "";
            VSinquire(vs, &n, NULL, fl, &sz, NULL);
            ok = VSsetfields(vs, fl) != FAIL;
            if (ok && n > 0) { unsigned char *tmp = malloc(sz > 0 ? sz : 1); ok = VSseek(vs, n - 1) != FAIL && VSread(vs, tmp, 1, FULL_INTERLACE) == 1; free(tmp); }
            if (ok) ok = VSwrite(vs, databuf, nrec, FULL_INTERLACE) == nrec;
        }
        if (vs != FAIL) ok = (VSdetach(vs) != FAIL) && ok;
    }
    else if (!strcmp(op, "vsattr")) {
        int F = argl(), slot = argl(), fi = argl(); char nm[256]; hexstr(args(), nm); int nt = argl(), cnt = argl(); unhex(args(), databuf);
        int32 vs = F_OPEN(F) && vsref[F][slot] > 0 ? VSattach(fid[F], vsref[F][slot], "w") : FAIL;
        ok = vs != FAIL && VSsetattr(vs, fi, nm, nt, cnt, databuf) != FAIL;
        if (vs != FAIL) ok = (VSdetach(vs) != FAIL) && ok;
    }
    else if (!strcmp(op, "vg")) {
        int F = argl(), slot = argl(); char nm[1024], cl[1024]; hexstr(args(), nm); hexstr(args(), cl); int nm_ = argl();
        int32 vg = F_OPEN(F) ? Vattach(fid[F], -1, "w") : FAIL;
        ok = vg != FAIL;
        if (ok && nm[0]) ok = Vsetname(vg, nm) != FAIL;
        if (ok && cl[0]) ok = Vsetclass(vg, cl) != FAIL;
        for (int i = 0; i < nm_; i++) {
            int kind = argl(), a = argl(), b = argl();
            if (!ok) continue;
            if (kind == 0) ok = vsref[F][a] > 0 && Vaddtagref(vg, DFTAG_VH, vsref[F][a]) != FAIL;
            else if (kind == 1) ok = vgref[F][a] > 0 && Vaddtagref(vg, DFTAG_VG, vgref[F][a]) != FAIL;
            else ok = Vaddtagref(vg, a, b) != FAIL;
        }
        if (vg != FAIL && tp < ntok && !strcmp(toks[tp], "x")) {   /* attached once more while its record is still unwritten */
            int32 again = Vattach(fid[F], VQueryref(vg), "r");
            if (again != FAIL) { (void)Vntagrefs(again); Vdetach(again); }
        }
        if (vg != FAIL) { if (slot >= 0 && slot < NSLOT) vgref[F][slot] = VQueryref(vg); v1 = VQueryref(vg); have_v = 1; ok = (Vdetach(vg) != FAIL) && ok; }
    }
    else if (!strcmp(op, "vgattr")) {
        int F = argl(), slot = argl(); char nm[256]; hexstr(args(), nm); int nt = argl(), cnt = argl(); unhex(args(), databuf);
        int32 vg = F_OPEN(F) && vgref[F][slot] > 0 ? Vattach(fid[F], vgref[F][slot], "w") : FAIL;
        ok = vg != FAIL && Vsetattr(vg, nm, nt, cnt, databuf) != FAIL;
        if (vg != FAIL) ok = (Vdetach(vg) != FAIL) && ok;
    }
    else if (!strcmp(op, "sdstart")) {
        int F = argl();
        if (sd_id != FAIL || F < 0 || F >= NF || fid[F] != FAIL) ok = 0;
        else { sd_id = SDstart(fname[F], exists_[F] ? DFACC_RDWR : DFACC_CREATE); ok = sd_id != FAIL; if (ok) { exists_[F] = 1; sd_file = F; } }
    }
    else if (!strcmp(op, "sdcreate")) {
        char nm[256]; hexstr(args(), nm); int nt = argl(), rank = argl(); int32 dims[8];
        for (int i = 0; i < rank && i < 8; i++) dims[i] = argl();
        if (sds_id != FAIL) { SDendaccess(sds_id); sds_id = FAIL; }
        sds_id = sd_id != FAIL ? SDcreate(sd_id, nm, nt, rank, dims) : FAIL;
        ok = sds_id != FAIL;
    }
    else if (!strcmp(op, "sdfill")) { unhex(args(), databuf); ok = sds_id != FAIL && SDsetfillvalue(sds_id, databuf) != FAIL; }
    else if (!strcmp(op, "sdchunk")) {
        int coder = argl(), p = argl(); HDF_CHUNK_DEF cd; memset(&cd, 0, sizeof cd);
        int32 rank = 0, dims[8], nt, na; char nm[256];
        ok = sds_id != FAIL && SDgetinfo(sds_id, nm, &rank, dims, &nt, &na) != FAIL;
        comp_coder_t ct; comp_info ci; coder_info(coder, p, &ct, &ci);
        for (int i = 0; i < rank && i < 8; i++) { int32 c = argl(); cd.chunk_lengths[i] = c; cd.comp.chunk_lengths[i] = c; }
        if (coder) { cd.comp.comp_type = ct; cd.comp.model_type = COMP_MODEL_STDIO; cd.comp.cinfo = ci; }
        if (ok) ok = SDsetchunk(sds_id, cd, coder ? (HDF_CHUNK | HDF_COMP) : HDF_CHUNK) != FAIL;
    }
    else if (!strcmp(op, "sdcomp")) {
        int coder = argl(), p = argl(); comp_coder_t ct; comp_info ci; coder_info(coder, p, &ct, &ci);
        ok = sds_id != FAIL && SDsetcompress(sds_id, ct, &ci) != FAIL;
    }
    else if (!strcmp(op, "sdblk")) { int n = argl(); ok = sds_id != FAIL && SDsetblocksize(sds_id, n) != FAIL; }
    else if (!strcmp(op, "sdwrite")) {
        int32 rank = 0, dims[8], nt, na, st[8], ed[8]; char nm[256];
        ok = sds_id != FAIL && SDgetinfo(sds_id, nm, &rank, dims, &nt, &na) != FAIL;
        for (int i = 0; i < rank && i < 8; i++) st[i] = argl();
        for (int i = 0; i < rank && i < 8; i++) ed[i] = argl();
        int n = unhex(args(), databuf);
        if (ok) { to_file_order(databuf, n, ntsize(nt)); ok = SDwritedata(sds_id, st, NULL, ed, databuf) != FAIL; }
    }
    else if (!strcmp(op, "sdattr")) {
        char nm[256]; hexstr(args(), nm); int nt = argl(), cnt = argl(); unhex(args(), databuf);
        ok = (sds_id != FAIL ? SDsetattr(sds_id, nm, nt, cnt, databuf) : sd_id != FAIL ? SDsetattr(sd_id, nm, nt, cnt, databuf) : FAIL) != FAIL;
    }
    else if (!strcmp(op, "sdendaccess")) { ok = sds_id != FAIL && SDendaccess(sds_id) != FAIL; sds_id = FAIL; }
    else if (!strcmp(op, "sdend")) {
        if (sds_id != FAIL) { SDendaccess(sds_id); sds_id = FAIL; }
        ok = sd_id != FAIL && SDend(sd_id) != FAIL; sd_id = FAIL;
        if (!ok && sd_file >= 0) notclosed[sd_file] = 1;
    }
    else if (!strcmp(op, "grstart")) {
        int F = argl();
        if (gr_id != FAIL || F < 0 || F >= NF || fid[F] != FAIL) ok = 0;
        else {
            gr_fid = Hopen(fname[F], exists_[F] ? DFACC_RDWR : DFACC_CREATE, 0);
            gr_id = gr_fid != FAIL ? GRstart(gr_fid) : FAIL; ok = gr_id != FAIL; if (ok) exists_[F] = 1;
            gr_file = F;
        }
    }
    else if (!strcmp(op, "grcreate")) {
        char nm[256]; hexstr(args(), nm); int ncomp = argl(), nt = argl(); int32 dims[2]; dims[0] = argl(); dims[1] = argl();
        if (ri_id != FAIL) { GRendaccess(ri_id); ri_id = FAIL; }
        ri_id = gr_id != FAIL ? GRcreate(gr_id, nm, ncomp, nt, MFGR_INTERLACE_PIXEL, dims) : FAIL;
        ok = ri_id != FAIL;
    }
    else if (!strcmp(op, "grcomp")) {
        int coder = argl(), p = argl(); comp_coder_t ct; comp_info ci; coder_info(coder, p, &ct, &ci);
        ok = ri_id != FAIL && GRsetcompress(ri_id, ct, &ci) != FAIL;
    }
    else if (!strcmp(op, "grchunk")) {
        int coder = argl(), p = argl(); HDF_CHUNK_DEF cd; memset(&cd, 0, sizeof cd);
        comp_coder_t ct; comp_info ci; coder_info(coder, p, &ct, &ci);
        for (int i = 0; i < 2; i++) { int32 c = argl(); cd.chunk_lengths[i] = c; cd.comp.chunk_lengths[i] = c; }
        if (coder) { cd.comp.comp_type = ct; cd.comp.model_type = COMP_MODEL_STDIO; cd.comp.cinfo = ci; }
        ok = ri_id != FAIL && GRsetchunk(ri_id, cd, coder ? (HDF_CHUNK | HDF_COMP) : HDF_CHUNK) != FAIL;
    }
    else if (!strcmp(op, "grwrite")) {
        char nm[256]; int32 ncomp, nt, il, dims[2], na, st[2] = { 0, 0 };
        ok = ri_id != FAIL && GRgetiminfo(ri_id, nm, &ncomp, &nt, &il, dims, &na) != FAIL;
        int n = unhex(args(), databuf);
        if (ok) { to_file_order(databuf, n, ntsize(nt)); ok = GRwriteimage(ri_id, st, NULL, dims, databuf) != FAIL; }
    }
    else if (!strcmp(op, "grendaccess")) { ok = ri_id != FAIL && GRendaccess(ri_id) != FAIL; ri_id = FAIL; }
    else if (!strcmp(op, "grend")) {
        if (ri_id != FAIL) { GRendaccess(ri_id); ri_id = FAIL; }
        ok = gr_id != FAIL && GRend(gr_id) != FAIL; gr_id = FAIL;
        if (gr_fid != FAIL) { ok = (Hclose(gr_fid) != FAIL) && ok; gr_fid = FAIL; }
        if (!ok && gr_file >= 0) notclosed[gr_file] = 1;
    }
    else if (!strcmp(op, "an")) {
        int F = argl(), type = argl(), tag = argl(), ref = argl(); int n = unhex(args(), databuf);
        int32 an = F_OPEN(F) ? ANstart(fid[F]) : FAIL;
        int32 a = an == FAIL ? FAIL : (type <= 1 ? ANcreatef(an, type == 0 ? AN_FILE_LABEL : AN_FILE_DESC)
                                                 : ANcreate(an, tag, ref, type == 2 ? AN_DATA_LABEL : AN_DATA_DESC));
        ok = a != FAIL && ANwriteann(a, (char *)databuf, n) != FAIL;
        if (a != FAIL) ANendaccess(a);
        if (an != FAIL) ANend(an);
    }
    else if (!strcmp(op, "verify")) {
        int F = argl();
        close_all();
        if (F >= 0 && F < NF && notclosed[F]) { ok = 0; printf("%s F%d NOTCLOSED\n", hist, F); }
        else if (F >= 0 && F < NF && exists_[F] && access(fname[F], R_OK) == 0) {
            /* a fresh process: nothing of the building sessions' library state can leak into the read-back */
            char *av[300]; static char nb[300][16]; int na = 0, k = 0;
            av[na++] = (char *)self_exe; av[na++] = "--verify"; av[na++] = (char *)hist; av[na++] = fname[F];
            sprintf(nb[k], "%d", F); av[na++] = nb[k++];
            for (int i = 0; i < hint_n; i++) {
                if (hints[i].f != F) continue;
                int vals[3] = { hints[i].tag, hints[i].ref, hints[i].nd };
                for (int j = 0; j < 3; j++) { sprintf(nb[k], "%d", vals[j]); av[na++] = nb[k++]; }
                for (int j = 0; j < hints[i].nd; j++) { sprintf(nb[k], "%d", hints[i].n[j]); av[na++] = nb[k++]; }
            }
            av[na] = NULL;
            fflush(stdout);
            pid_t pid = fork();
            if (pid == 0) { execv(self_exe, av); _exit(96); }
            int st = 0;
            waitpid(pid, &st, 0);
            if (!(WIFEXITED(st) && WEXITSTATUS(st) == 0)) { printf("%s crash %d\n", hist, WIFEXITED(st) ? WEXITSTATUS(st) : 128 + WTERMSIG(st)); ok = 0; }
        }
        else { ok = 0; if (F >= 0 && F < NF) printf("%s F%d NOFILE\n", hist, F); }
    }
    else { printf("%s op %ld skip\n", hist, ln); return; }
    if (have_v) printf("%s op %ld %s %ld\n", hist, ln, ok ? "ok" : "fail", v1);
    else printf("%s op %ld %s\n", hist, ln, ok ? "ok" : "fail");
    fflush(stdout);
}

static void run_history(char **lines, long *lnos, long n)
{
    static char hname[128];
    for (int i = 0; i < NF; i++) { fid[i] = FAIL; exists_[i] = 0; notclosed[i] = 0; for (int k = 0; k < NSLOT; k++) vsref[i][k] = vgref[i][k] = 0; }
    for (long li = 0; li < n; li++) {
        char *line = lines[li];
        ntok = 0; tp = 0;
        for (char *t = strtok(line, " \t\r\n"); t && ntok < 4096; t = strtok(NULL, " \t\r\n")) toks[ntok++] = t;
        if (!ntok || toks[0][0] == '#') continue;
        if (!strcmp(toks[0], "history")) {
            snprintf(hname, sizeof hname, "%s", ntok > 1 ? toks[1] : "h");
            hist = hname;
            for (int i = 0; i < NF; i++) { snprintf(fname[i], sizeof fname[i], "%s_%d.hdf", hname, i); unlink(fname[i]); }
            continue;
        }
        run_op(lnos[li]);
    }
    close_all();
}

int main(int argc, char **argv)
{
    if (argc >= 5 && !strcmp(argv[1], "--verify")) {
        /* drive_fmt --verify <hist> <file> <slot> [tag ref nd n1..nd]...   (cwd = workdir) */
        static char hn[128];
        snprintf(hn, sizeof hn, "%s", argv[2]); hist = hn;
        int slot = atoi(argv[4]);
        snprintf(fname[slot], sizeof fname[slot], "%s", argv[3]);
        for (int i = 5; i + 2 < argc && hint_n < 32;) {
            hints[hint_n].f = slot; hints[hint_n].tag = atoi(argv[i]); hints[hint_n].ref = atoi(argv[i + 1]); hints[hint_n].nd = atoi(argv[i + 2]);
            i += 3;
            for (int j = 0; j < hints[hint_n].nd && j < 8 && i < argc; j++) hints[hint_n].n[j] = atoi(argv[i++]);
            hint_n++;
        }
        verify(slot);
        return 0;
    }
    if (argc < 3) return 2;
    static char exe_path[4096];
    if (argv[0][0] == '/') snprintf(exe_path, sizeof exe_path, "%s", argv[0]);
    else { if (!getcwd(exe_path, sizeof exe_path - 300)) return 2; strcat(exe_path, "/"); strcat(exe_path, argv[0]); }
    self_exe = exe_path;
    FILE *f = fopen(argv[2], "r");
    if (!f || chdir(argv[1]) != 0) return 2;
    static char buf[1 << 20];
    char **lines = NULL; long *lnos = NULL; long n = 0, cap = 0, ln = 0;
    while (fgets(buf, sizeof buf, f)) {
        ln++;
        if (n == cap) { cap = cap ? cap * 2 : 1024; lines = realloc(lines, cap * sizeof *lines); lnos = realloc(lnos, cap * sizeof *lnos); }
        lines[n] = strdup(buf); lnos[n] = ln; n++;
    }
    long i = 0;
    while (i < n) {
        long j = i + 1;
        while (j < n && strncmp(lines[j], "history", 7) != 0) j++;
        char hn[128] = "h";
        sscanf(lines[i], "history %127s", hn);
        fflush(stdout);
        pid_t pid = fork();
        if (pid == 0) { run_history(lines + i, lnos + i, j - i); fflush(stdout); _exit(0); }
        int st = 0;
        waitpid(pid, &st, 0);
        if (!(WIFEXITED(st) && WEXITSTATUS(st) == 0))
            printf("%s crash %d\n", hn, WIFEXITED(st) ? WEXITSTATUS(st) : 128 + WTERMSIG(st));
        i = j;
    }
    return 0;
}
