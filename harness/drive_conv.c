/* C06 harness: runs DFKconvert of the freshly built library on the cases of a file.
 * line: ntype acc n ss ds s d len b0 .. b(len-1)     (acc 1 = DFACC_READ, 2 = DFACC_WRITE)
 * out : R ok b0 .. | R fail                                                            */
#include <stdio.h>
#include <stdlib.h>
#include <string.h>
#include "hdf.h"

int main(int argc, char **argv)
{
    FILE *f = argc > 1 ? fopen(argv[1], "r") : stdin;
    if (!f) return 2;
    long nt, acc, n, ss, ds, s, d, len;
    while (fscanf(f, "%ld %ld %ld %ld %ld %ld %ld %ld", &nt, &acc, &n, &ss, &ds, &s, &d, &len) == 8) {
        unsigned char *buf = (unsigned char *)malloc(len > 0 ? (size_t)len : 1);
        for (long i = 0; i < len; i++) { long b; if (fscanf(f, "%ld", &b) != 1) return 2; buf[i] = (unsigned char)b; }
        /* DFKconvert ignores DFKsetNT's result; decide support by DFKsetNT first, as its callers do */
        int32 rc;
        /* Is the type supported at all?  (DFKconvert itself ignores DFKsetNT's result.) */
        if (DFKsetNT((int32)nt) == FAIL || nt == DFNT_CUSTOM) rc = FAIL;
        else {
            /* the conversion routines are global state that other interfaces set directly through DFKsetNT:
               select the routines of ANOTHER type first (the "decoy"), so that DFKconvert has to select its own */
            static const int32 decoys[] = {DFNT_FLOAT64, DFNT_INT16, DFNT_UINT8, DFNT_INT32, DFNT_LFLOAT64, DFNT_NINT16, DFNT_LUINT32};
            static unsigned long ncase;
            int32 decoy = decoys[(ncase++) % (sizeof decoys / sizeof decoys[0])];
            if (decoy != (int32)nt) DFKsetNT(decoy);
            rc = DFKconvert(buf + s, buf + d, (int32)nt, (int32)n, (int16)(acc == 1 ? DFACC_READ : DFACC_WRITE), (int32)ss, (int32)ds);
        }
        if (rc == FAIL) printf("R fail\n");
        else { printf("R ok"); for (long i = 0; i < len; i++) printf(" %d", buf[i]); printf("\n"); }
        free(buf);
    }
    return 0;
}
