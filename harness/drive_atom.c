/* C13 harness (a): drives the atom table of the freshly built library state-for-state.
 * atom.c is #included so that the static cache arrays and group table can be dumped after every call;
 * the definitions of this translation unit replace atom.o of libhdf.a at link time.
 *
 * input lines:  N | I g hs | D g | R g obj | L id | X id | S g key | G id | W g n
 *               an operand is a literal or @k (= result of op k of the current history)
 *               W g n: register/remove n times, then register object 7 once more (thorough-tier wrap run)
 * output:       N  /  R <result> | <state dump>      (same dump format as extract/atom_main.ml)
 * every history (N ... N) runs in a forked child so that the static state starts fresh.                        */
#include <stdio.h>
#include <stdlib.h>
#include <string.h>
#include <stdint.h>
#include <unistd.h>
#include <sys/wait.h>
#include "atom.c"

#define MAXOPS 4096
static long res[MAXOPS];
static int  nres;

static long operand(const char *t)
{
    if (t[0] == '@') {
        int k = atoi(t + 1);
        return k < nres ? res[k] : -1;
    }
    return atol(t);
}

static int cmp_obj(const void *obj, const void *key) { return obj == key; }

static void dump(void)
{
    printf("c");
    for (int i = 0; i < ATOM_CACHE_SIZE; i++)
        printf(" %ld:%ld", (long)atom_id_cache[i], (long)(intptr_t)atom_obj_cache[i]);
    printf(" |");
    int first = 1;
    for (int g = 0; g < (int)MAXGROUP; g++) {
        atom_group_t *gp = atom_group_list[g];
        if (gp == NULL) continue;
        printf("%sg%d=%u,%u,%u,%u{", first ? " " : " ", g, gp->count, gp->hash_size, gp->atoms, gp->nextid);
        first = 0;
        int fb = 1;
        if (gp->atom_list != NULL && gp->count > 0)
            for (unsigned u = 0; u < gp->hash_size; u++) {
                atom_info_t *a = gp->atom_list[u];
                if (a == NULL) continue;
                printf("%s%u:", fb ? "" : ";", u);
                fb = 0;
                for (int k = 0; a != NULL; a = a->next, k++)
                    printf("%s%ld=%ld", k ? "," : "", (long)a->id, (long)(intptr_t)a->obj_ptr);
            }
        printf("}");
    }
    if (first) printf(" ");
    printf("\n");
}

static void run_history(char **lines, int n)
{
    nres = 0;
    for (int i = 0; i < n; i++) {
        char op[8], a[64] = "", b[64] = "";
        int  k = sscanf(lines[i], "%7s %63s %63s", op, a, b);
        long r = -999;
        if (k < 2) { printf("R badline\n"); continue; }
        switch (op[0]) {
            case 'I': r = HAinit_group((group_t)operand(a), (unsigned)operand(b)); break;
            case 'D': r = HAdestroy_group((group_t)operand(a)); break;
            case 'R': r = HAregister_atom((group_t)operand(a), (void *)(intptr_t)operand(b)); break;
            case 'L': r = (long)(intptr_t)HAatom_object((atom_t)operand(a)); break;
            case 'X': r = (long)(intptr_t)HAremove_atom((atom_t)operand(a)); break;
            case 'S': r = (long)(intptr_t)HAsearch_atom((group_t)operand(a), cmp_obj, (void *)(intptr_t)operand(b)); break;
            case 'G': r = HAatom_group((atom_t)operand(a)); break;
            case 'W': {
                group_t g = (group_t)operand(a);
                long    n2 = operand(b);
                for (long j = 0; j < n2; j++) {
                    atom_t t = HAregister_atom(g, (void *)(intptr_t)5);
                    if (HAremove_atom(t) == NULL) { r = -2; break; }
                }
                if (r != -2) r = HAregister_atom(g, (void *)(intptr_t)7);
                break;
            }
            default: printf("R badline\n"); continue;
        }
        if (nres < MAXOPS) res[nres++] = r;
        printf("R %ld | ", r);
        if (op[0] == 'W') printf("(no dump)\n"); else dump();
    }
    fflush(stdout);
}

int main(int argc, char **argv)
{
    FILE *f = argc > 1 ? fopen(argv[1], "r") : stdin;
    if (!f) return 2;
    /* read the whole input first: a child that dies through exit() would otherwise rewind the shared file offset */
    static char *all[400000];
    int          nall = 0;
    char         buf[256];
    while (fgets(buf, sizeof buf, f) != NULL && nall < 400000) all[nall++] = strdup(buf);
    fclose(f);
    static char *lines[MAXOPS];
    int          n = 0, started = 0;
    for (int ai = 0; ai <= nall; ai++) {
        const char *b = ai < nall ? all[ai] : NULL;
        if (b == NULL || (b[0] == 'N' && (b[1] == '\n' || b[1] == 0))) {
            if (started) {
                fflush(stdout);
                pid_t pid = fork();
                if (pid == 0) { alarm(120); run_history(lines, n); _exit(0); }
                int st = 0;
                waitpid(pid, &st, 0);
                if (!(WIFEXITED(st) && WEXITSTATUS(st) == 0))
                    printf("CRASH status=%d\n", WIFEXITED(st) ? WEXITSTATUS(st) : 1000 + WTERMSIG(st));
            }
            n = 0;
            if (b != NULL) { printf("N\n"); started = 1; }
            continue;
        }
        if (b[0] == '\n' || b[0] == '#') continue;
        if (n < MAXOPS) lines[n++] = all[ai];
    }
    fflush(stdout);
    return 0;
}
