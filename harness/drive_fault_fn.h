/* C16 harness, function level (included by drive_fault.c when built with -DC16_FN, which also #includes the
 * library's hfile.c so that the static functions HIsync / HIextend_file can be called directly).
 *
 * job line:  fn <scenario> <function> <arg> <mode> <k>
 *   scenario  how the real file record is prepared (fault injection off):
 *             plain   created, ndds 4, 3 elements (caching is the library default)
 *             nocache the same with Hcache(fid, FALSE): DD blocks are written through, nothing is dirty at close
 *             cache   created, ndds 4, Hcache on, 5 elements (several dirty DD blocks, dirty end of file)
 *             cache16 created, ndds 16, Hcache on, 2 elements
 *             reopen  written and closed before; reopened RDWR with Hcache on, 1 more element
 *             read    written and closed before; reopened READ, one element read
 *             rdwr    written and closed before; reopened RDWR, one element read (last operation = read)
 *             ncfull / cfull   ndds 4, all four descriptors used, DD caching off / on (the next descriptor needs a new block)
 *             ncfull2 / cfull2 the same with two full DD blocks
 *             attached an access record is still attached (Hclose must refuse)
 *             two     opened twice (reference count 2)
 *             twoatt  opened twice, an access record attached through the id being closed (Hclose must refuse)
 *   function  HPseek <off> | HPseekcur 0 | HP_write <n> | HP_read <n> | HIextend_file 0 | HTPsync 0 | HIsync 0 |
 *             Hsync 0 | Hclose 0 | HTInew_dd_block 0 | HPgetdiskblock <size> | HTIupdate_dd <index in first block>
 * output:     <lineno> fn sc=.. f=.. arg=.. mode=.. k=.. pre=<cur_off>,<last_op>,<end_off>,<cache>,<dirty_dd>,<dirty_end>,<refcount>,<attach>,<vmod>,<open>,<writable>,<own_aid>
 *                      blocks=<off>:<dirty>:<ndds>/... status=<..> ret=<0|-1> trace=<one letter per device call, upper case = failed>
 */
static void fn_body(const char *path, void *argp)
{
    char **a = argp;     /* scenario, function, arg */
    const char *sc = a[0], *fn = a[1];
    long arg = atol(a[2]);
    int32 fid = FAIL, fid2 = FAIL, aid = FAIL;
    unsigned char buf[256];
    armed = 0; recording = 0;
    int ndds = !strcmp(sc, "cache16") ? 16 : 4;
    int nocache = !strcmp(sc, "nocache") || !strcmp(sc, "ncfull") || !strcmp(sc, "ncfull2");
    if (!strcmp(sc, "reopen") || !strcmp(sc, "read") || !strcmp(sc, "rdwr")) {
        fid = Hopen(path, DFACC_CREATE, 4);
        Hputelement(fid, 100, 1, pat, 40);
        Hputelement(fid, 100, 2, pat + 40, 60);
        Hclose(fid);
        fid = Hopen(path, !strcmp(sc, "read") ? DFACC_READ : DFACC_RDWR, 0);
        if (!strcmp(sc, "read") || !strcmp(sc, "rdwr")) Hgetelement(fid, 100, 2, buf);
        else { Hcache(fid, TRUE); Hputelement(fid, 101, 1, pat, 30); }
    }
    else {
        fid = Hopen(path, DFACC_CREATE, (int16)ndds);
        Hcache(fid, nocache ? FALSE : TRUE);
        Hputelement(fid, 100, 1, pat, 40);
        Hputelement(fid, 100, 2, pat + 40, 60);
        if (strcmp(sc, "cache16")) Hputelement(fid, 100, 3, pat + 100, 10);
        if (!strcmp(sc, "ncfull2") || !strcmp(sc, "cfull2"))        /* a second, full DD block */
            for (int i = 4; i < 8; i++) Hputelement(fid, 100, (uint16)i, pat, 7);
        if (!strcmp(sc, "cache")) { Hputelement(fid, 100, 4, pat, 70); Hputelement(fid, 100, 5, pat, 5); }
        if (!strcmp(sc, "attached")) aid = Hstartread(fid, 100, 1);
        if (!strcmp(sc, "two") || !strcmp(sc, "twoatt")) fid2 = Hopen(path, DFACC_RDWR, 0);
        if (!strcmp(sc, "twoatt")) aid = Hstartread(fid, 100, 1);
    }
    if (fid == FAIL) { snprintf(RES->pre, sizeof RES->pre, "prep-failed"); return; }
    filerec_t *fr = HAatom_object(fid);
    if (!strcmp(fn, "HP_read")) HPseek(fr, 0);
    /* the abstract record the model starts from */
    int own = fr->attach > 0 && HAsearch_atom(AIDGROUP, HIcompare_accrec_fileid, &fid) != NULL;
    int n = snprintf(RES->pre, sizeof RES->pre, "pre=%ld,%d,%ld,%d,%d,%d,%d,%d,%d,%d,%d,%d blocks=", (long)fr->f_cur_off,
                     (int)fr->last_op, (long)fr->f_end_off, fr->cache ? 1 : 0, (fr->dirty & DDLIST_DIRTY) ? 1 : 0,
                     (fr->dirty & FILE_END_DIRTY) ? 1 : 0, (int)fr->refcount, (int)fr->attach,
                     fr->version.modified ? 1 : 0, fr->file != NULL, (fr->access & DFACC_WRITE) ? 1 : 0, own);
    for (ddblock_t *b = fr->ddhead; b != NULL && n < (int)sizeof RES->pre - 40; b = b->next)
        n += snprintf(RES->pre + n, sizeof RES->pre - n, "%s%ld:%d:%d", b == fr->ddhead ? "" : "/", (long)b->myoffset,
                      b->dirty ? 1 : 0, (int)b->ndds);
    armed = 1;
    int r = -2;
    if (!strcmp(fn, "HPseek")) r = HPseek(fr, (int32)arg);
    else if (!strcmp(fn, "HPseekcur")) r = HPseek(fr, fr->f_cur_off);
    else if (!strcmp(fn, "HP_write")) r = HP_write(fr, pat, (int32)arg);
    else if (!strcmp(fn, "HP_read")) r = HP_read(fr, buf, (int32)arg);
    else if (!strcmp(fn, "HIextend_file")) r = HIextend_file(fr);
    else if (!strcmp(fn, "HTPsync")) r = HTPsync(fr);
    else if (!strcmp(fn, "HIsync")) r = HIsync(fr);
    else if (!strcmp(fn, "Hsync")) r = Hsync(fid);
    else if (!strcmp(fn, "Hclose")) r = Hclose(fid);
    else if (!strcmp(fn, "HTInew_dd_block")) r = HTInew_dd_block(fr);
    else if (!strcmp(fn, "HPgetdiskblock")) r = HPgetdiskblock(fr, (int32)arg, TRUE) == FAIL ? FAIL : SUCCEED;
    else if (!strcmp(fn, "HTIupdate_dd")) r = HTIupdate_dd(fr, &fr->ddhead->ddlist[arg]);
    armed = 0;
    snprintf(RES->post, sizeof RES->post, "ret=%d", r);
    /* whatever the function left behind must still be torn down safely (fault injection is off again) */
    if (strcmp(fn, "Hclose") != 0) {
        if (aid != FAIL) Hendaccess(aid);
        if (fid2 != FAIL) Hclose(fid2);
        Hclose(fid);
    }
    (void)fid2; (void)aid;
}

static void fn_job(const char *dir, long ln, const char *line)
{
    char sc[32], fn[32], arg[32], md[8];
    long k = -1;
    if (sscanf(line, "fn %31s %31s %31s %7s %ld", sc, fn, arg, md, &k) < 5) { printf("%ld fn bad-job\n", ln); return; }
    char *a[3] = {sc, fn, arg};
    struct outcome o;
    run_child(dir, fn_body, a, k, md[0], 0, &o);
    printf("%ld fn sc=%s f=%s arg=%s mode=%s k=%ld %s status=%s %s trace=%s\n", ln, sc, fn, arg, md, k,
           o.res.pre[0] ? o.res.pre : "pre=?", o.status,
           o.res.post[0] ? o.res.post : "ret=?", o.res.ncalls ? o.res.kinds : "-");
    free(o.img.b);
}
