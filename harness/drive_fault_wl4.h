/* C16 harness, fourth group of workloads (round 4):
 *  - inquiry / read calls issued on an object that has been WRITTEN in the same session and is still open (dirty chunk
 *    cache, compressed data not yet flushed, vdata header not yet written): the inquiry itself may have to flush;
 *  - two file ids on one file (state shared through the file record): read-only id first, then a second id with write
 *    access (Hopen's reopen branch), and the first id used afterwards. */
static void wl_sd_wrinq(const char *p)
{
    int32 sd = FAIL, s = FAIL, flags, csz, osz, n, nt, na, rank, dims[4], bs;
    int   empty;
    int32 dm[2] = {8, 8}, st[2] = {0, 0}, ed[2] = {8, 8}, org[2] = {1, 1}, off[8], len[8];
    HDF_CHUNK_DEF cd, cq;
    comp_coder_t  ct;
    comp_info     ci;
    char  name[80];
    unsigned char buf[600];
    TV(sd, "SDstart", SDstart(p, DFACC_CREATE));
    for (int pass = 0; pass < 3; pass++) {
        TV(s, "SDcreate", SDcreate(sd, pass == 0 ? "chunked" : pass == 1 ? "chunkz" : "rle", DFNT_INT32, 2, dm));
        memset(&cd, 0, sizeof cd); memset(&ci, 0, sizeof ci);
        if (pass == 0) { cd.chunk_lengths[0] = 4; cd.chunk_lengths[1] = 4; T("SDsetchunk", SDsetchunk(s, cd, HDF_CHUNK)); }
        else if (pass == 1) {
            cd.comp.chunk_lengths[0] = 4; cd.comp.chunk_lengths[1] = 4; cd.comp.comp_type = COMP_CODE_DEFLATE;
            cd.comp.cinfo.deflate.level = 3;
            T("SDsetchunk", SDsetchunk(s, cd, HDF_CHUNK | HDF_COMP));
        }
        else T("SDsetcompress", SDsetcompress(s, COMP_CODE_RLE, &ci));
        T("SDwritedata", SDwritedata(s, st, NULL, ed, pat + 64 * pass));
        if (pass < 2) T("SDwritechunk", SDwritechunk(s, org, pat + 900));
        /* the data set is still open and dirty: now ask about it */
        memset(&cq, 0, sizeof cq);
        T("SDgetchunkinfo", SDgetchunkinfo(s, &cq, &flags)); hdata(&flags, 4);
        T("SDgetinfo", SDgetinfo(s, name, &rank, dims, &nt, &na)); hdata(dims, 8);
        T("SDcheckempty", SDcheckempty(s, &empty)); hdata(&empty, sizeof empty);
        memset(&ci, 0, sizeof ci);
        T("SDgetcompinfo", SDgetcompinfo(s, &ct, &ci)); hdata(&ct, sizeof ct);
        T("SDgetdatasize", SDgetdatasize(s, &csz, &osz)); hdata(&osz, 4);
        if (pass == 2) { TV(n, "SDgetdatainfo", SDgetdatainfo(s, NULL, 0, 8, off, len)); hdata(&n, 4); }
        if (OPT("SDgetblocksize", SDgetblocksize(s, &bs))) hdata(&bs, 4);
        memset(buf, 0, sizeof buf);
        T("SDreaddata", SDreaddata(s, st, NULL, ed, buf)); hdata(buf, 256);
        T("SDsetattr", SDsetattr(s, "after", DFNT_INT32, 1, &flags));
        T("SDwritedata", SDwritedata(s, st, NULL, ed, pat + 300 + pass));       /* and write again */
        T("SDgetchunkinfo", SDgetchunkinfo(s, &cq, &flags));
        E(s, "SDendaccess", SDendaccess);
    }
done:
    FIN(s, "SDendaccess", SDendaccess);
    FIN(sd, "SDend", SDend);
}
static void wl_gr_wrinq(const char *p)
{
    int32 fid = FAIL, gr = FAIL, ri = FAIL, flags, n, nc, nt, il, dims[2], na, off[8], len[8];
    int32 dm[2] = {6, 6}, st[2] = {0, 0}, org[2] = {1, 0};
    HDF_CHUNK_DEF cd, cq;
    comp_coder_t  ct;
    comp_info     ci;
    char  name[80];
    unsigned char buf[400];
    TV(fid, "Hopen", Hopen(p, DFACC_CREATE, 0));
    TV(gr, "GRstart", GRstart(fid));
    for (int pass = 0; pass < 2; pass++) {
        TV(ri, "GRcreate", GRcreate(gr, pass ? "z" : "c", 1, DFNT_UINT8, MFGR_INTERLACE_PIXEL, dm));
        memset(&cd, 0, sizeof cd); memset(&ci, 0, sizeof ci);
        if (pass == 0) { cd.chunk_lengths[0] = 3; cd.chunk_lengths[1] = 3; T("GRsetchunk", GRsetchunk(ri, cd, HDF_CHUNK)); }
        else { ci.deflate.level = 2; T("GRsetcompress", GRsetcompress(ri, COMP_CODE_DEFLATE, &ci)); }
        T("GRwriteimage", GRwriteimage(ri, st, NULL, dm, pat + 40 * pass));
        if (pass == 0) T("GRwritechunk", GRwritechunk(ri, org, pat + 500));
        memset(&cq, 0, sizeof cq);
        T("GRgetchunkinfo", GRgetchunkinfo(ri, &cq, &flags)); hdata(&flags, 4);
        memset(&ci, 0, sizeof ci);
        T("GRgetcompinfo", GRgetcompinfo(ri, &ct, &ci)); hdata(&ct, sizeof ct);
        T("GRgetiminfo", GRgetiminfo(ri, name, &nc, &nt, &il, dims, &na)); hdata(dims, 8);
        if (pass == 1) { TV(n, "GRgetdatainfo", GRgetdatainfo(ri, 0, 8, off, len)); hdata(&n, 4); }
        memset(buf, 0, sizeof buf);
        T("GRreadimage", GRreadimage(ri, st, NULL, dm, buf)); hdata(buf, 36);
        T("GRsetattr", GRsetattr(ri, "after", DFNT_INT32, 1, &flags));
        T("GRwriteimage", GRwriteimage(ri, st, NULL, dm, pat + 700 + pass));
        E(ri, "GRendaccess", GRendaccess);
    }
done:
    FIN(ri, "GRendaccess", GRendaccess);
    FIN(gr, "GRend", GRend);
    FIN(fid, "Hclose", Hclose);
}
static void wl_v_wrinq(const char *p)
{
    int32 fid = FAIL, vs = FAIL, vg = FAIL, started = FAIL, n, il, sz, off[8], len[8], iv[2] = {5, 6}, bs, nb;
    char  name[80], fields[120];
    unsigned char buf[400];
    TV(fid, "Hopen", Hopen(p, DFACC_CREATE, 0));
    TV(started, "Vstart", Vstart(fid) == FAIL ? FAIL : fid);
    TV(vs, "VSattach", VSattach(fid, -1, "w"));
    T("VSsetname", VSsetname(vs, "live"));
    T("VSfdefine", VSfdefine(vs, "p", DFNT_INT16, 2));
    T("VSsetfields", VSsetfields(vs, "p"));
    TN("VSwrite", VSwrite(vs, pat, 12, FULL_INTERLACE), 12);
    T("VSsetattr", VSsetattr(vs, _HDF_VDATA, "a", DFNT_INT32, 2, iv));
    memset(name, 0, sizeof name); memset(fields, 0, sizeof fields);
    T("VSinquire", VSinquire(vs, &n, &il, fields, &sz, name)); hdata(&n, 4); hdata(fields, 64);
    TN("VSseek", VSseek(vs, 3), 3);
    memset(buf, 0, sizeof buf);
    TN("VSread", VSread(vs, buf, 5, FULL_INTERLACE), 5); hdata(buf, 20);
    T("VSgetattr", VSgetattr(vs, _HDF_VDATA, 0, buf)); hdata(buf, 8);
    TV(n, "VSgetdatainfo", VSgetdatainfo(vs, 0, 8, off, len)); hdata(&n, 4);
    if (OPT("VSgetblockinfo", VSgetblockinfo(vs, &bs, &nb))) hdata(&bs, 4);
    TN("VSseek", VSseek(vs, 12), 12);
    TN("VSwrite", VSwrite(vs, pat + 99, 4, FULL_INTERLACE), 4);
    TV(vg, "Vattach", Vattach(fid, -1, "w"));
    T("Vsetname", Vsetname(vg, "g"));
    T("Vinsert", Vinsert(vg, vs));
    T("Vsetattr", Vsetattr(vg, "ga", DFNT_INT32, 2, iv));
    T("Vinquire", Vinquire(vg, &n, name)); hdata(&n, 4);
    T("Vgetattr", Vgetattr(vg, 0, buf)); hdata(buf, 8);
    E(vg, "Vdetach", Vdetach);
    E(vs, "VSdetach", VSdetach);
done:
    FIN(vg, "Vdetach", Vdetach);
    FIN(vs, "VSdetach", VSdetach);
    FIN(started, "Vend", Vend);
    FIN(fid, "Hclose", Hclose);
}

/* two ids on one file: read-only first, then write access, then the first id again */
static void wl_h_two_body(const char *p)
{
    int32 f1 = FAIL, f2 = FAIL, a1 = FAIL;
    unsigned char buf[300];
    TV(f1, "Hopen", Hopen(p, DFACC_READ, 0));
    TN("Hgetelement", Hgetelement(f1, 100, 1, buf), 40); hdata(buf, 40);
    TV(a1, "Hstartread", Hstartread(f1, 101, 2));
    TN("Hread", Hread(a1, 50, buf), 50); hdata(buf, 50);
    TV(f2, "Hopen", Hopen(p, DFACC_WRITE, 0));                    /* the shared record gets a read/write stream */
    TN("Hputelement", Hputelement(f2, 140, 1, pat + 20, 31), 31);
    TN("Hread", Hread(a1, 60, buf), 60); hdata(buf, 60);          /* first id, after the switch */
    TN("Hgetelement", Hgetelement(f1, 100, 2, buf), 60); hdata(buf, 60);
    TN("Hgetelement", Hgetelement(f1, 140, 1, buf), 31); hdata(buf, 31);
    E(a1, "Hendaccess", Hendaccess);
    E(f2, "Hclose", Hclose);
    TN("Hgetelement", Hgetelement(f1, 101, 1, buf), 10); hdata(buf, 10);
done:
    FIN(a1, "Hendaccess", Hendaccess);
    FIN(f2, "Hclose", Hclose);
    FIN(f1, "Hclose", Hclose);
}
static void wl_sd_two_body(const char *p)
{
    int32 s1 = FAIL, s2 = FAIL, d1 = FAIL, d2 = FAIL, st[2] = {0, 0}, ed[2] = {4, 5}, e2[2] = {2, 2};
    unsigned char buf[200];
    TV(s1, "SDstart", SDstart(p, DFACC_READ));
    TV(d1, "SDselect", SDselect(s1, 0));
    memset(buf, 0, sizeof buf);
    T("SDreaddata", SDreaddata(d1, st, NULL, ed, buf)); hdata(buf, 80);
    TV(s2, "SDstart", SDstart(p, DFACC_RDWR));
    TV(d2, "SDselect", SDselect(s2, 0));
    T("SDwritedata", SDwritedata(d2, st, NULL, e2, pat + 77));
    memset(buf, 0, sizeof buf);
    T("SDreaddata", SDreaddata(d1, st, NULL, ed, buf)); hdata(buf, 80);          /* first id again */
    E(d2, "SDendaccess", SDendaccess);
    E(s2, "SDend", SDend);
    memset(buf, 0, sizeof buf);
    T("SDreadattr", SDreadattr(d1, 0, buf)); hdata(buf, 8);
    E(d1, "SDendaccess", SDendaccess);
done:
    FIN(d2, "SDendaccess", SDendaccess);
    FIN(d1, "SDendaccess", SDendaccess);
    FIN(s2, "SDend", SDend);
    FIN(s1, "SDend", SDend);
}
static void wl_v_two_body(const char *p)
{
    int32 f1 = FAIL, f2 = FAIL, k1 = FAIL, k2 = FAIL, vs = FAIL, r;
    unsigned char buf[300];
    TV(f1, "Hopen", Hopen(p, DFACC_READ, 0));
    TV(k1, "Vstart", Vstart(f1) == FAIL ? FAIL : f1);
    TV(r, "VSfind", VSfind(f1, "table") == 0 ? FAIL : VSfind(f1, "table"));
    TV(vs, "VSattach", VSattach(f1, r, "r"));
    T("VSsetfields", VSsetfields(vs, "a,b"));
    TN("VSread", VSread(vs, buf, 5, FULL_INTERLACE), 5); hdata(buf, 60);
    TV(f2, "Hopen", Hopen(p, DFACC_WRITE, 0));
    TV(k2, "Vstart", Vstart(f2) == FAIL ? FAIL : f2);
    TV(r, "VHstoredata", VHstoredata(f2, "q", pat + 5, 7, DFNT_UINT8, "second", "c16two"));
    TN("VSread", VSread(vs, buf, 5, FULL_INTERLACE), 5); hdata(buf, 60);
    E(vs, "VSdetach", VSdetach);
    E(k2, "Vend", Vend);
    E(f2, "Hclose", Hclose);
done:
    FIN(vs, "VSdetach", VSdetach);
    FIN(k2, "Vend", Vend);
    FIN(f2, "Hclose", Hclose);
    FIN(k1, "Vend", Vend);
    FIN(f1, "Hclose", Hclose);
}
static void wl_h_two(const char *p) { prep(wl_h_put, p); wl_h_two_body(p); }
static void wl_sd_two(const char *p) { prep(wl_sd_write, p); wl_sd_two_body(p); }
static void wl_v_two(const char *p) { prep(wl_v_write, p); wl_v_two_body(p); }
