/* C04 harness: runs write/read histories through the SD and GR interfaces of the freshly built library
 * under one storage configuration per record.
 *   usage: drive_layout <history file> <work dir>
 * record (see extract/layout_main.ml for the grammar):
 *   hist <id> <api 0=SD 1=GR> <rank> <d0..> <nt> <hasfill> <fill>
 *        hasfill: bit 0 = set the fill value; bits 1-2 = number of other attributes set BEFORE it, bits 3-4 = number set
 *        after it (before the layout-selection call): the dataset's other metadata must not matter;
 *        bit 5 = SDsetfillmode(SD_NOFILL) for the whole session(s); bit 6 = the layout is selected in a LATER session
 *        than the one that created the dataset (SDend + SDstart in between)
 *   cfg <kind> <cache> <coder> <p1> <p2> <p3> <p4> <c0..>
 *     kind 0 contiguous | 1 chunked | 2 compressed | 3 chunked+compressed | 4 n-bit | 5 external file (p1 = offset)
 *          6 unlimited first dimension forced into linked blocks (p1 = SDsetblocksize) | 7 chunked+n-bit
 *     cache: initial SDsetchunkcache/GRsetchunkcache value (0 = leave default); coder = COMP_CODE_*,
 *     p1 = skphuff skip size / deflate level; n-bit: p1 start_bit p2 bit_len p3 sign_ext p4 fill_one
 *   w/r/wc/rc/reopen/cache ... end
 * For GR the dims are [ydim xdim ncomp]; slabs are [y x 0]/[sy sx 1]/[ey ex ncomp]; chunk lengths [c0 c1 ncomp]
 * where c0/c1 are GRsetchunk's chunk_lengths[0]/[1].
 * Output: "H <id>", one line per op, "I special=<code>" (informational), "E".
 * Only values and SUCCEED/FAIL are printed: the property's observables. */
#include <stdio.h>
#include <stdlib.h>
#include <string.h>
#include <unistd.h>
#include "hdf.h"
#include "mfhdf.h"
#include "hfile_priv.h"

#define MAXR 8
static long rank, dims[MAXR], nt, hasfill, fillv, api, npre, npost, nofill, latelayout;
static long kind, cache0, coder, p1, p2, p3, p4, cl[MAXR];
static char fname[1024], ename[1024];
static int32 sd = FAIL, sds = FAIL, dummy = FAIL, fid = FAIL, gr = FAIL, ri = FAIL;
static int  dead = 0; /* a layout-selection call failed: nothing more is run for this record */

static int ntsize(long t)
{
    switch (t & 0xfff) {
        case DFNT_INT8: case DFNT_UINT8: case DFNT_CHAR8: case DFNT_UCHAR8: return 1;
        case DFNT_INT16: case DFNT_UINT16: return 2;
        case DFNT_INT32: case DFNT_UINT32: case DFNT_FLOAT32: return 4;
        case DFNT_FLOAT64: return 8;
    }
    return 4;
}
static void put(void *buf, long i, long long v)
{
    switch (nt & 0xfff) {
        case DFNT_INT8: case DFNT_CHAR8: ((int8 *)buf)[i] = (int8)v; break;
        case DFNT_UINT8: case DFNT_UCHAR8: ((uint8 *)buf)[i] = (uint8)v; break;
        case DFNT_INT16: ((int16 *)buf)[i] = (int16)v; break;
        case DFNT_UINT16: ((uint16 *)buf)[i] = (uint16)v; break;
        case DFNT_INT32: ((int32 *)buf)[i] = (int32)v; break;
        case DFNT_UINT32: ((uint32 *)buf)[i] = (uint32)v; break;
        case DFNT_FLOAT32: ((float32 *)buf)[i] = (float32)v; break;
        case DFNT_FLOAT64: ((float64 *)buf)[i] = (float64)v; break;
    }
}
static long long get(const void *buf, long i)
{
    switch (nt & 0xfff) {
        case DFNT_INT8: case DFNT_CHAR8: return ((const int8 *)buf)[i];
        case DFNT_UINT8: case DFNT_UCHAR8: return ((const uint8 *)buf)[i];
        case DFNT_INT16: return ((const int16 *)buf)[i];
        case DFNT_UINT16: return ((const uint16 *)buf)[i];
        case DFNT_INT32: return ((const int32 *)buf)[i];
        case DFNT_UINT32: return ((const uint32 *)buf)[i];
        case DFNT_FLOAT32: return (long long)((const float32 *)buf)[i];
        case DFNT_FLOAT64: return (long long)((const float64 *)buf)[i];
    }
    return 0;
}

static void set_cinfo(comp_info *ci)
{
    memset(ci, 0, sizeof(*ci));
    if (coder == COMP_CODE_SKPHUFF) ci->skphuff.skp_size = (intn)p1;
    if (coder == COMP_CODE_DEFLATE) ci->deflate.level = (intn)p1;
}

static int chunked(void) { return kind == 1 || kind == 3 || kind == 7; }

/* ---- external files: foreign content in front of the data ------------------ */
/* An external element at offset p1 shares its file with whatever occupies bytes [0,p1): the harness puts p1 guard
 * bytes there before the layout call and checks at the end that they are untouched and that the data really sits at
 * byte p1 (the offset is the user's description of THEIR file). */
static unsigned char guard_byte(long i) { return (unsigned char)(0xA5 ^ (i * 7 + 3)); }
static void ext_guard_write(void)
{
    FILE *g = fopen(ename, "wb");
    long  i;
    if (!g) return;
    for (i = 0; i < p1; i++) fputc(guard_byte(i), g);
    fclose(g);
}
/* expect: file representation of the whole dataset (or NULL), nbytes long */
static void ext_guard_check(const unsigned char *expect, long nbytes)
{
    FILE *g = fopen(ename, "rb");
    long  i;
    if (!g) { if (p1 > 0) printf("X external file vanished\n"); return; }
    for (i = 0; i < p1; i++) {
        int c = fgetc(g);
        if (c != (int)guard_byte(i)) { printf("X external file: foreign byte %ld in front of the data (offset %ld) clobbered\n", i, p1); fclose(g); return; }
    }
    if (expect) {
        for (i = 0; i < nbytes; i++) {
            int c = fgetc(g);
            if (c != (int)expect[i]) { printf("X external file: data byte %ld is not at offset %ld + %ld\n", i, p1, i); break; }
        }
    }
    fclose(g);
}
/* whole dataset as the API reads it now, converted to its file representation */
static unsigned char *ext_expected(long *nbytes)
{
    int32 s0[MAXR], e0[MAXR];
    long  n = 1, i;
    void *buf;
    unsigned char *out;
    intn  rc;
    for (i = 0; i < rank; i++) { s0[i] = 0; e0[i] = (int32)dims[i]; n *= dims[i]; }
    buf = calloc((size_t)n + 1, 8);
    if (api == 0) rc = SDreaddata(sds, s0, NULL, e0, buf);
    else {
        int32 gs[2] = {0, 0}, ge[2];
        ge[0] = (int32)dims[1]; ge[1] = (int32)dims[0];
        rc = (p3 > 0) ? FAIL : GRreadimage(ri, gs, NULL, ge, buf);
    }
    if (rc == FAIL) { free(buf); return NULL; }
    out = (unsigned char *)calloc((size_t)n + 1, 8);
    if (DFKconvert(buf, out, (int32)nt, (int32)n, DFACC_WRITE, 0, 0) == FAIL) { free(buf); free(out); return NULL; }
    free(buf);
    *nbytes = n * ntsize(nt);
    return out;
}

/* other attributes of the dataset / image: k-th of them, various types and lengths */
static int other_attr(long k)
{
    static const char *names[] = {"units", "long_name", "valid_range", "scale", "zz_last", "aaa_first"};
    char    txt[] = "metres per fortnight";
    int32   iv[2] = {-5, 77};
    float64 dv    = 2.5;
    const char *nm = names[k % 6];
    if (k % 3 == 0) return api == 0 ? SDsetattr(sds, nm, DFNT_CHAR8, (int32)strlen(txt), txt) : GRsetattr(ri, nm, DFNT_CHAR8, (int32)strlen(txt), txt);
    if (k % 3 == 1) return api == 0 ? SDsetattr(sds, nm, DFNT_INT32, 2, iv) : GRsetattr(ri, nm, DFNT_INT32, 2, iv);
    return api == 0 ? SDsetattr(sds, nm, DFNT_FLOAT64, 1, &dv) : GRsetattr(ri, nm, DFNT_FLOAT64, 1, &dv);
}
static int other_attrs(long from, long n)
{
    long k;
    for (k = 0; k < n; k++)
        if (other_attr(from + k) == FAIL) { dead = 1; printf("X setting another attribute failed\n"); return FAIL; }
    return SUCCEED;
}

/* ---- SD ---------------------------------------------------------------- */
static void sd_open_new(void)
{
    int32 d32[MAXR];
    long  i;
    unlink(fname);
    unlink(ename);
    sd = SDstart(fname, DFACC_CREATE);
    if (sd == FAIL) { dead = 1; printf("X SDstart failed\n"); return; }
    for (i = 0; i < rank; i++) d32[i] = (int32)dims[i];
    if (kind == 6) d32[0] = SD_UNLIMITED;
    sds = SDcreate(sd, "data", (int32)nt, (int32)rank, d32);
    if (sds == FAIL) { dead = 1; printf("X SDcreate failed\n"); return; }
    if (other_attrs(0, npre) == FAIL) return;
    if (hasfill) {
        char fv[8];
        put(fv, 0, fillv);
        if (SDsetfillvalue(sds, fv) == FAIL) { dead = 1; printf("X SDsetfillvalue failed\n"); return; }
    }
    if (other_attrs(3, npost) == FAIL) return;
    if (nofill && SDsetfillmode(sd, SD_NOFILL) == FAIL) { dead = 1; printf("X SDsetfillmode failed\n"); return; }
    if (latelayout && kind != 6) {
        /* the dataset is created in one session, its layout selected in the next */
        if (SDendaccess(sds) == FAIL || SDend(sd) == FAIL) { dead = 1; printf("X closing the creating session failed\n"); return; }
        sd  = SDstart(fname, DFACC_RDWR);
        sds = sd == FAIL ? FAIL : SDselect(sd, SDnametoindex(sd, "data"));
        if (sd == FAIL || sds == FAIL) { dead = 1; printf("X reopening for the layout call failed\n"); return; }
        if (nofill && SDsetfillmode(sd, SD_NOFILL) == FAIL) { dead = 1; printf("X SDsetfillmode failed\n"); return; }
    }
    if (chunked()) {
        HDF_CHUNK_DEF cd;
        int32         flags = HDF_CHUNK;
        memset(&cd, 0, sizeof(cd));
        if (kind == 1)
            for (i = 0; i < rank; i++) cd.chunk_lengths[i] = (int32)cl[i];
        else if (kind == 3) {
            for (i = 0; i < rank; i++) cd.comp.chunk_lengths[i] = (int32)cl[i];
            cd.comp.comp_type = (int32)coder;
            set_cinfo(&cd.comp.cinfo);
            flags = HDF_CHUNK | HDF_COMP;
        }
        else {
            for (i = 0; i < rank; i++) cd.nbit.chunk_lengths[i] = (int32)cl[i];
            cd.nbit.start_bit = (intn)p1; cd.nbit.bit_len = (intn)p2; cd.nbit.sign_ext = (intn)p3; cd.nbit.fill_one = (intn)p4;
            flags = HDF_CHUNK | HDF_NBIT;
        }
        if (SDsetchunk(sds, cd, flags) == FAIL) { dead = 1; printf("X SDsetchunk failed\n"); return; }
        if (cache0 > 0 && SDsetchunkcache(sds, (int32)cache0, 0) == FAIL) { dead = 1; printf("X SDsetchunkcache failed\n"); return; }
    }
    else if (kind == 2) {
        comp_info ci;
        set_cinfo(&ci);
        if (SDsetcompress(sds, (comp_coder_t)coder, &ci) == FAIL) { dead = 1; printf("X SDsetcompress failed\n"); return; }
    }
    else if (kind == 4) {
        if (SDsetnbitdataset(sds, (intn)p1, (intn)p2, (intn)p3, (intn)p4) == FAIL) { dead = 1; printf("X SDsetnbitdataset failed\n"); return; }
    }
    else if (kind == 5) {
        ext_guard_write();
        if (SDsetexternalfile(sds, ename, (int32)p1) == FAIL) { dead = 1; printf("X SDsetexternalfile failed\n"); return; }
    }
    else if (kind == 6) {
        /* an unlimited dataset whose records are forced into linked blocks: a second unlimited dataset is
           appended to in between, so the first one cannot grow in place.  Only fill values are written here,
           so the logical history is unchanged: afterwards all dims[0] records exist and read as fill. */
        int32 start[MAXR], edge[MAXR];
        long  n = 1, k;
        void *buf;
        if (SDsetblocksize(sds, (int32)p1) == FAIL) { dead = 1; printf("X SDsetblocksize failed\n"); return; }
        dummy = SDcreate(sd, "dummy", (int32)nt, (int32)rank, d32);
        for (i = 1; i < rank; i++) n *= dims[i];
        buf = malloc((size_t)(n * 8));
        for (k = 0; k < n; k++) put(buf, k, fillv);
        for (i = 0; i < rank; i++) { start[i] = 0; edge[i] = (int32)dims[i]; }
        edge[0] = 1;
        if (SDwritedata(sds, start, NULL, edge, buf) == FAIL || SDwritedata(dummy, start, NULL, edge, buf) == FAIL) dead = 1;
        for (k = 1; k < dims[0] && !dead; k++) {
            start[0] = (int32)k;
            if (SDwritedata(sds, start, NULL, edge, buf) == FAIL) dead = 1;
            if (k % 2 == 1 && SDwritedata(dummy, start, NULL, edge, buf) == FAIL) dead = 1;
        }
        free(buf);
        if (dead) printf("X unlimited set-up failed\n");
    }
}

static void sd_reopen(void)
{
    int ok = 1;
    if (sds != FAIL && SDendaccess(sds) == FAIL) ok = 0;
    if (dummy != FAIL && SDendaccess(dummy) == FAIL) ok = 0;
    dummy = FAIL;
    if (sd != FAIL && SDend(sd) == FAIL) ok = 0;
    sd  = SDstart(fname, DFACC_RDWR);
    sds = sd == FAIL ? FAIL : SDselect(sd, SDnametoindex(sd, "data"));
    if (sd == FAIL || sds == FAIL) ok = 0;
    if (ok && nofill && SDsetfillmode(sd, SD_NOFILL) == FAIL) ok = 0;
    printf("reopen %s\n", ok ? "ok" : "fail");
    if (!ok) dead = 1;
}

static void sd_close(void)
{
    if (sds != FAIL) SDendaccess(sds);
    if (dummy != FAIL) SDendaccess(dummy);
    if (sd != FAIL) SDend(sd);
    sd = sds = dummy = FAIL;
}

static void sd_special(void)
{
    /* informational: which special-element kind the data element really is */
    int32 f = Hopen(fname, DFACC_READ, 0);
    int   code = -1;
    if (f != FAIL) {
        int32 aid = Hstartread(f, DFTAG_SD, DFREF_WILDCARD);
        if (aid != FAIL) {
            int16 sp = 0;
            if (Hinquire(aid, NULL, NULL, NULL, NULL, NULL, NULL, NULL, &sp) != FAIL) code = sp;
            Hendaccess(aid);
        }
        Hclose(f);
    }
    printf("I special=%d\n", code);
}

/* ---- GR ---------------------------------------------------------------- */
/* interlace of user buffers (GR only): p2 = interlace the image is created with (what GRwriteimage/GRwritechunk expect),
 * p3 = interlace requested for reading with GRreqimageil (-1: never requested, i.e. pixel).  Histories carry values in
 * pixel order; the harness lays them out / collects them as the library documents (W pixels per line, H lines):
 *   pixel [p][k]   line [y][k][x]   component [k][p]        with p = y*W + x                                  */
static long il_off(long il, long W, long H, long nc, long p, long k)
{
    if (il == MFGR_INTERLACE_LINE) return (p / W) * (nc * W) + k * W + (p % W);
    if (il == MFGR_INTERLACE_COMPONENT) return k * W * H + p;
    return p * nc + k;
}
static void *relayout(const void *src, long il, long W, long H, long nc, int to_il)
{
    long  n = W * H, p, k;
    void *dst = calloc((size_t)(n * nc + 1), 8);
    for (p = 0; p < n; p++)
        for (k = 0; k < nc; k++) {
            long a = p * nc + k, b = il_off(il, W, H, nc, p, k);
            if (to_il) put(dst, b, get(src, a)); else put(dst, a, get(src, b));
        }
    return dst;
}
static long read_il(void) { return p3 < 0 ? MFGR_INTERLACE_PIXEL : p3; }
/* the interlace GRwriteimage/GRwritechunk expect is the one GRgetiminfo reports for the image (the creation interlace
 * in the creating session; what the file records after a reopen) */
static long write_il(void)
{
    int32 nc, t, il = MFGR_INTERLACE_PIXEL, d[2], na;
    char  nm[H4_MAX_GR_NAME + 1];
    if (GRgetiminfo(ri, nm, &nc, &t, &il, d, &na) == FAIL) return p2;
    return il;
}

static void gr_open_new(void)
{
    int32 d2[2];
    unlink(fname);
    unlink(ename);
    fid = Hopen(fname, DFACC_CREATE, 0);
    if (fid == FAIL) { dead = 1; printf("X Hopen failed\n"); return; }
    gr = GRstart(fid);
    d2[0] = (int32)dims[1]; /* xdim */
    d2[1] = (int32)dims[0]; /* ydim */
    ri = GRcreate(gr, "image", (int32)dims[2], (int32)nt, (int32)p2, d2);
    if (ri == FAIL) { dead = 1; printf("X GRcreate failed\n"); return; }
    if (p3 >= 0 && GRreqimageil(ri, (intn)p3) == FAIL) { dead = 1; printf("X GRreqimageil failed\n"); return; }
    if (other_attrs(0, npre) == FAIL) return;
    if (hasfill) {
        char fv[64];
        long c;
        for (c = 0; c < dims[2]; c++) put(fv, c, fillv);
        if (GRsetattr(ri, FILL_ATTR, (int32)nt, (int32)dims[2], fv) == FAIL) { dead = 1; printf("X GRsetattr failed\n"); return; }
    }
    if (other_attrs(3, npost) == FAIL) return;
    if (chunked()) {
        HDF_CHUNK_DEF cd;
        int32         flags = HDF_CHUNK;
        memset(&cd, 0, sizeof(cd));
        if (kind == 1) { cd.chunk_lengths[0] = (int32)cl[0]; cd.chunk_lengths[1] = (int32)cl[1]; }
        else {
            cd.comp.chunk_lengths[0] = (int32)cl[0]; cd.comp.chunk_lengths[1] = (int32)cl[1];
            cd.comp.comp_type = (int32)coder;
            set_cinfo(&cd.comp.cinfo);
            flags = HDF_CHUNK | HDF_COMP;
        }
        if (GRsetchunk(ri, cd, flags) == FAIL) { dead = 1; printf("X GRsetchunk failed\n"); return; }
        if (cache0 > 0 && GRsetchunkcache(ri, (int32)cache0, 0) == FAIL) { dead = 1; printf("X GRsetchunkcache failed\n"); return; }
    }
    else if (kind == 2) {
        comp_info ci;
        set_cinfo(&ci);
        if (GRsetcompress(ri, (comp_coder_t)coder, &ci) == FAIL) { dead = 1; printf("X GRsetcompress failed\n"); return; }
    }
    else if (kind == 5) {
        ext_guard_write();
        if (GRsetexternalfile(ri, ename, (int32)p1) == FAIL) { dead = 1; printf("X GRsetexternalfile failed\n"); return; }
    }
}

static void gr_reopen(void)
{
    int ok = 1;
    if (ri != FAIL && GRendaccess(ri) == FAIL) ok = 0;
    if (gr != FAIL && GRend(gr) == FAIL) ok = 0;
    if (fid != FAIL && Hclose(fid) == FAIL) ok = 0;
    fid = Hopen(fname, DFACC_RDWR, 0);
    gr  = fid == FAIL ? FAIL : GRstart(fid);
    ri  = gr == FAIL ? FAIL : GRselect(gr, 0);
    if (ri == FAIL) ok = 0;
    if (ok && p3 >= 0 && GRreqimageil(ri, (intn)p3) == FAIL) ok = 0;
    printf("reopen %s\n", ok ? "ok" : "fail");
    if (!ok) dead = 1;
}

static void gr_close(void)
{
    if (ri != FAIL) GRendaccess(ri);
    if (gr != FAIL) GRend(gr);
    if (fid != FAIL) Hclose(fid);
    ri = gr = fid = FAIL;
}

/* ---- ops --------------------------------------------------------------- */
static long rd(FILE *f)
{
    long v;
    if (fscanf(f, "%ld", &v) != 1) { fprintf(stderr, "bad input\n"); exit(2); }
    return v;
}

static void print_vals(const char *name, const void *buf, long n)
{
    long i;
    printf("%s", name);
    for (i = 0; i < n; i++) printf(" %lld", get(buf, i));
    printf("\n");
}

/* in-extent part of a chunk buffer, row-major over the clipped region; cdims = extent in the chunk layer's view */
static void print_chunk(const void *buf, const long *cdims, const long *origin)
{
    long idx[MAXR], e[MAXR], i, n = 1;
    for (i = 0; i < rank; i++) {
        e[i] = cdims[i] - origin[i] * cl[i];
        if (e[i] > cl[i]) e[i] = cl[i];
        if (e[i] < 0) e[i] = 0;
        n *= e[i];
        idx[i] = 0;
    }
    printf("rc");
    while (n-- > 0) {
        long off = 0;
        for (i = 0; i < rank; i++) off = off * cl[i] + idx[i];
        printf(" %lld", get(buf, off));
        for (i = rank - 1; i >= 0; i--) {
            if (++idx[i] < e[i]) break;
            idx[i] = 0;
        }
    }
    printf("\n");
}

int main(int argc, char **argv)
{
    FILE *f;
    char  kw[32];
    long  i;
    if (argc < 3) return 2;
    f = fopen(argv[1], "r");
    if (!f) return 2;
    snprintf(fname, sizeof fname, "%s/c04-%d.hdf", argv[2], (int)getpid());
    snprintf(ename, sizeof ename, "%s/c04-%d.ext", argv[2], (int)getpid());
    setvbuf(stdout, NULL, _IOLBF, 0);
    while (fscanf(f, "%31s", kw) == 1) {
        if (!strcmp(kw, "hist")) {
            char id[64];
            if (fscanf(f, "%63s", id) != 1) return 2;
            api = rd(f); rank = rd(f);
            if (rank < 1 || rank > MAXR) return 2;
            for (i = 0; i < rank; i++) dims[i] = rd(f);
            nt = rd(f); hasfill = rd(f); fillv = rd(f);
            npre = (hasfill >> 1) & 3; npost = (hasfill >> 3) & 3;
            nofill = (hasfill >> 5) & 1; latelayout = (hasfill >> 6) & 1; hasfill &= 1;
            dead = 0;
            alarm(30); /* a record that does not finish in 30 s is a hang: SIGALRM ends the run at this record */
            printf("H %s\n", id);
        }
        else if (!strcmp(kw, "cfg")) {
            kind = rd(f); cache0 = rd(f); coder = rd(f); p1 = rd(f); p2 = rd(f); p3 = rd(f); p4 = rd(f);
            for (i = 0; i < rank; i++) cl[i] = rd(f);
            if (api == 0) sd_open_new(); else gr_open_new();
        }
        else if (!strcmp(kw, "w") || !strcmp(kw, "r")) {
            int32 s[MAXR], t[MAXR], e[MAXR];
            long  n = 1, nv = 0;
            int   isw = kw[0] == 'w', bad = 0;
            void *buf;
            for (i = 0; i < rank; i++) s[i] = (int32)rd(f);
            for (i = 0; i < rank; i++) t[i] = (int32)rd(f);
            for (i = 0; i < rank; i++) { e[i] = (int32)rd(f); if (e[i] < 0 || n * e[i] > 100000000) bad = 1; else n *= e[i]; }
            if (isw) nv = rd(f);
            buf = calloc((size_t)((isw && nv > n ? nv : n) + 1), 8);
            if (isw) for (i = 0; i < nv; i++) put(buf, i, rd(f));
            if (dead) { free(buf); continue; }
            if (isw && nv != n) bad = 1;
            if (bad) printf("%s fail\n", kw);
            else if (api == 0) {
                intn rc = isw ? SDwritedata(sds, s, t, e, buf) : SDreaddata(sds, s, t, e, buf);
                if (rc == FAIL) {
                    printf("%s fail\n", kw);
                    /* a refused write to a non-chunked compressed element ends the record (see checks/C04.py) */
                    if (isw && kind == 2) dead = 1;
                }
                else if (isw) printf("w ok\n");
                else print_vals("r", buf, n);
            }
            else {
                int32 gs[2], gt[2], ge[2];
                intn  rc;
                gs[0] = s[1]; gs[1] = s[0]; gt[0] = t[1]; gt[1] = t[0]; ge[0] = e[1]; ge[1] = e[0];
                if (s[2] != 0 || t[2] != 1 || e[2] != dims[2]) rc = FAIL;
                else if (isw) {
                    void *ub = relayout(buf, write_il(), e[1], e[0], dims[2], 1);
                    rc = GRwriteimage(ri, gs, gt, ge, ub);
                    free(ub);
                }
                else rc = GRreadimage(ri, gs, gt, ge, buf);
                if (rc == FAIL && isw && kind == 2) dead = 1;
                if (rc == FAIL) printf("%s fail\n", kw);
                else if (isw) printf("w ok\n");
                else {
                    void *pb = relayout(buf, read_il(), e[1], e[0], dims[2], 0);
                    print_vals("r", pb, n);
                    free(pb);
                }
            }
            free(buf);
        }
        else if (!strcmp(kw, "wc") || !strcmp(kw, "rc")) {
            int32 o[MAXR];
            long  ol[MAXR], cd[MAXR], n = 1, nv = 0;
            int   isw = kw[0] == 'w';
            void *buf;
            for (i = 0; i < rank; i++) { ol[i] = rd(f); o[i] = (int32)ol[i]; }
            for (i = 0; i < rank; i++) n *= (cl[i] > 0 ? cl[i] : 1);
            if (isw) nv = rd(f);
            buf = calloc((size_t)((isw && nv > n ? nv : n) + 1), 8);
            if (isw) for (i = 0; i < nv; i++) put(buf, i, rd(f));
            if (dead) { free(buf); continue; }
            for (i = 0; i < rank; i++) cd[i] = dims[i];
            if (api == 1) { cd[0] = dims[1]; cd[1] = dims[0]; }
            if (isw && nv != n) printf("wc fail\n");
            else {
                intn rc;
                if (api == 0) rc = isw ? SDwritechunk(sds, o, buf) : SDreadchunk(sds, o, buf);
                else if (isw) {
                    /* the chunk's pixels in chunk order, laid out in the creation interlace (W = chunk_lengths[0]) */
                    void *ub = relayout(buf, write_il(), cl[0], cl[1], dims[2], 1);
                    rc = GRwritechunk(ri, o, ub);
                    free(ub);
                }
                else rc = GRreadchunk(ri, o, buf);
                if (rc == FAIL) printf("%s fail\n", kw);
                else if (isw) printf("wc ok\n");
                else if (api == 1) {
                    void *pb = relayout(buf, read_il(), cl[0], cl[1], dims[2], 0);
                    print_chunk(pb, cd, ol);
                    free(pb);
                }
                else print_chunk(buf, cd, ol);
            }
            free(buf);
        }
        else if (!strcmp(kw, "reopen")) {
            if (dead) continue;
            if (api == 0) sd_reopen(); else gr_reopen();
        }
        else if (!strcmp(kw, "cache")) {
            long n = rd(f);
            intn rc;
            if (dead) continue;
            rc = api == 0 ? SDsetchunkcache(sds, (int32)n, 0) : GRsetchunkcache(ri, (int32)n, 0);
            printf("cache %s\n", rc == FAIL ? "fail" : "ok");
        }
        else if (!strcmp(kw, "hr")) {
            /* byte-stream access to the data element through up to three access ids opened at the same time on one
               file id; requests (aid, element position or -1 = no seek, element count) */
            long  k = rd(f), j, tot = 0, got = 0, sz = ntsize(nt);
            long  ra[64], rp[64], rn[64];
            int32 hf, aid[3] = {FAIL, FAIL, FAIL}, ref = 0;
            int   okr = 1;
            unsigned char *raw;
            void *vals;
            if (k > 64) return 2;
            for (j = 0; j < k; j++) { ra[j] = rd(f); rp[j] = rd(f); rn[j] = rd(f); tot += rn[j] > 0 ? rn[j] : 0; }
            if (dead) continue;
            if (api == 0) sd_close(); else gr_close();
            raw  = (unsigned char *)calloc((size_t)tot + 1, 8);
            vals = calloc((size_t)tot + 1, 8);
            hf   = Hopen(fname, DFACC_READ, 0);
            if (hf == FAIL) okr = 0;
            else {
                uint16 tg = api == 0 ? DFTAG_SD : DFTAG_RI;
                int32  a0 = Hstartread(hf, tg, DFREF_WILDCARD);
                if (a0 == FAIL && api == 1) { tg = DFTAG_CI; a0 = Hstartread(hf, tg, DFREF_WILDCARD); }
                if (a0 == FAIL) okr = 0;
                else {
                    uint16 rf = 0;
                    Hinquire(a0, NULL, NULL, &rf, NULL, NULL, NULL, NULL, NULL);
                    ref = rf;
                    Hendaccess(a0);
                    for (j = 0; j < 3 && okr; j++)
                        if ((aid[j] = Hstartread(hf, tg, (uint16)ref)) == FAIL) okr = 0;
                }
                for (j = 0; j < k && okr; j++) {
                    if (ra[j] < 0 || ra[j] > 2 || rn[j] < 0) { okr = 0; break; }
                    if (rp[j] >= 0 && Hseek(aid[ra[j]], (int32)(rp[j] * sz), DF_START) == FAIL) { okr = 0; break; }
                    if (rn[j] > 0 && Hread(aid[ra[j]], (int32)(rn[j] * sz), raw + got * sz) != (int32)(rn[j] * sz)) { okr = 0; break; }
                    got += rn[j];
                }
                for (j = 0; j < 3; j++) if (aid[j] != FAIL) Hendaccess(aid[j]);
                Hclose(hf);
            }
            if (okr && tot > 0 && DFKconvert(raw, vals, (int32)nt, (int32)tot, DFACC_READ, 0, 0) == FAIL) okr = 0;
            if (!okr) printf("hr fail\n"); else print_vals("hr", vals, tot);
            free(raw); free(vals);
            /* back to the API level */
            if (api == 0) {
                sd  = SDstart(fname, DFACC_RDWR);
                sds = sd == FAIL ? FAIL : SDselect(sd, SDnametoindex(sd, "data"));
                if (sd == FAIL || sds == FAIL) { dead = 1; printf("X reopen after hr failed\n"); }
                else if (nofill) SDsetfillmode(sd, SD_NOFILL);
            }
            else {
                fid = Hopen(fname, DFACC_RDWR, 0);
                gr  = fid == FAIL ? FAIL : GRstart(fid);
                ri  = gr == FAIL ? FAIL : GRselect(gr, 0);
                if (ri == FAIL) { dead = 1; printf("X reopen after hr failed\n"); }
                else if (p3 >= 0) GRreqimageil(ri, (intn)p3);
            }
        }
        else if (!strcmp(kw, "end")) {
            unsigned char *expect = NULL;
            long           enb = 0;
            if (kind == 5 && !dead) expect = ext_expected(&enb);
            if (api == 0) { sd_close(); sd_special(); } else gr_close();
            if (kind == 5 && !dead) ext_guard_check(expect, enb);
            free(expect);
            printf("E\n");
            unlink(fname);
            unlink(ename);
        }
        else { fprintf(stderr, "unknown keyword %s\n", kw); return 2; }
    }
    return 0;
}
