/* C12 harness: drives the tag/ref directory of the freshly built library through its public
 * observables on one history file, and (for the model tie) dumps the in-memory DD table.
 *
 * usage: drive_dd <history> <scratch.hdf>
 * One operation per line ('#' lines ignored); "$" as a ref means "the last reference number handed out
 * by newref/tagnewref".  Every operation is echoed *resolved* followed by "=> result", so the output
 * is itself the input of the model/spec driver (extract/dd_main.ml).
 *
 *   open N | reopen | cache B | sync
 *   put T R L | dup NT NR OT OR | del T R | reuse T R | fill T lo hi OT OR (bulk Hdupdd, library only)
 *   newref | tagnewref T | number T | exist T R | check T R | length T R
 *   findall T R D      (D 1 forward, 2 backward: iterate Hfind from the start until FAIL)
 *   dump               (DD table slot by slot, private header only)
 *   aopen T R | awrite T R L | aend | tryclose   (access elements kept open across operations; Hclose that may be refused)
 *   eof                (file_rec->f_end_off and the block/element extents it has to cover)
 */
#include <stdio.h>
#include <stdlib.h>
#include <string.h>
#include "hdf.h"
#include "hfile_priv.h"

static int32 fid = FAIL;
static int32 aids[64];
static int   naids = 0;

static void end_all_aids(void)
{
    while (naids > 0) Hendaccess(aids[--naids]);
}
static const char *path;
static long lastref = 0;

static long argref(const char *s) { return strcmp(s, "$") == 0 ? lastref : atol(s); }

static void do_findall(long t, long r, long d)
{
    uint16 ft = 0, fr = 0;
    int32  off, len;
    long   n = 0;
    printf("findall %ld %ld %ld =>", t, r, d);
    while (Hfind(fid, (uint16)t, (uint16)r, &ft, &fr, &off, &len, (int)d) != FAIL) {
        printf(" %u/%u/%ld", (unsigned)ft, (unsigned)fr, (long)len);
        if (++n > 70000 || (t != 0 && r != 0)) { /* exact search does not advance */
            if (n > 70000) printf(" LOOP");
            break;
        }
    }
    printf("\n");
}

static void do_dump(void)
{
    filerec_t *fr = HAatom_object(fid);
    ddblock_t *b;
    if (fr == NULL) { printf("dump => fail\n"); return; }
    printf("dump => maxref %u :", (unsigned)fr->maxref);
    for (b = fr->ddhead; b != NULL; b = b->next) {
        int i;
        printf(" [%d]", (int)b->ndds);
        for (i = 0; i < b->ndds; i++) {
            dd_t *d = &b->ddlist[i];
            if (d->tag == DFTAG_NULL) printf(" -");
            else printf(" %u/%u/%ld", (unsigned)d->tag, (unsigned)d->ref, (long)d->length);
        }
    }
    printf("\n");
}

int main(int argc, char **argv)
{
    char line[512], op[32], a[4][32];
    static uint8 buf[1 << 16];
    FILE *f;
    if (argc < 3) return 2;
    f = fopen(argv[1], "r");
    path = argv[2];
    if (!f) return 2;
    for (size_t i = 0; i < sizeof buf; i++) buf[i] = (uint8)(i * 7 + 1);
    while (fgets(line, sizeof line, f)) {
        int n;
        if (line[0] == '#' || line[0] == '\n') continue;
        a[0][0] = a[1][0] = a[2][0] = a[3][0] = 0;
        n = sscanf(line, "%31s %31s %31s %31s %31s", op, a[0], a[1], a[2], a[3]);
        if (n < 1) continue;
        if (!strcmp(op, "open")) {
            end_all_aids();
            if (fid != FAIL) Hclose(fid);
            remove(path);
            fid = Hopen(path, DFACC_CREATE, (int16)atol(a[0]));
            printf("open %ld => %s\n", atol(a[0]), fid == FAIL ? "fail" : "ok");
        }
        else if (!strcmp(op, "aopen")) { /* Hstartread, access element left open */
            long t = atol(a[0]), r = argref(a[1]);
            int32 aid = naids < 64 ? Hstartread(fid, (uint16)t, (uint16)r) : FAIL;
            if (aid != FAIL) aids[naids++] = aid;
            printf("aopen %ld %ld => %s\n", t, r, aid == FAIL ? "fail" : "ok");
        }
        else if (!strcmp(op, "awrite")) { /* Hstartwrite + Hwrite, access element left open (directory effect of put) */
            long t = atol(a[0]), r = argref(a[1]), l = atol(a[2]);
            int32 aid = (naids < 64 && l >= 1 && l <= (long)sizeof buf) ? Hstartwrite(fid, (uint16)t, (uint16)r, (int32)l) : FAIL;
            if (aid != FAIL && Hwrite(aid, (int32)l, buf) == FAIL) { Hendaccess(aid); aid = FAIL; }
            if (aid != FAIL) aids[naids++] = aid;
            printf("awrite %ld %ld %ld => %s\n", t, r, l, aid == FAIL ? "fail" : "ok");
        }
        else if (!strcmp(op, "aend")) { /* Hendaccess of every open access element */
            int bad = 0;
            while (naids > 0) if (Hendaccess(aids[--naids]) == FAIL) bad = 1;
            printf("aend => %s\n", bad ? "fail" : "ok");
        }
        else if (!strcmp(op, "tryclose")) { /* Hclose; when it is accepted the file is reopened by path */
            if (Hclose(fid) == FAIL) printf("tryclose => refused\n");
            else {
                fid = Hopen(path, DFACC_RDWR, 0);
                printf("tryclose => %s\n", fid == FAIL ? "fail" : "ok");
            }
        }
        else if (!strcmp(op, "reopen")) {
            int rc;
            end_all_aids();
            rc = Hclose(fid);
            fid = Hopen(path, DFACC_RDWR, 0);
            printf("reopen => %s\n", (rc == FAIL || fid == FAIL) ? "fail" : "ok");
        }
        else if (!strcmp(op, "cache"))
            printf("cache %ld => %s\n", atol(a[0]), Hcache(fid, (int)atol(a[0])) == FAIL ? "fail" : "ok");
        else if (!strcmp(op, "sync"))
            printf("sync => %s\n", Hsync(fid) == FAIL ? "fail" : "ok");
        else if (!strcmp(op, "put")) {
            long t = atol(a[0]), r = argref(a[1]), l = atol(a[2]);
            int32 rc = (l < 1 || l > (long)sizeof buf) ? FAIL : Hputelement(fid, (uint16)t, (uint16)r, buf, (int32)l);
            printf("put %ld %ld %ld => %s\n", t, r, l, rc == FAIL ? "fail" : "ok");
        }
        else if (!strcmp(op, "dup")) {
            long nt = atol(a[0]), nr = argref(a[1]), ot = atol(a[2]), orf = argref(a[3]);
            int rc = Hdupdd(fid, (uint16)nt, (uint16)nr, (uint16)ot, (uint16)orf);
            printf("dup %ld %ld %ld %ld => %s\n", nt, nr, ot, orf, rc == FAIL ? "fail" : "ok");
        }
        else if (!strcmp(op, "del")) {
            long t = atol(a[0]), r = argref(a[1]);
            printf("del %ld %ld => %s\n", t, r, Hdeldd(fid, (uint16)t, (uint16)r) == FAIL ? "fail" : "ok");
        }
        else if (!strcmp(op, "reuse")) {
            long t = atol(a[0]), r = argref(a[1]);
            printf("reuse %ld %ld => %s\n", t, r, HDreuse_tagref(fid, (uint16)t, (uint16)r) == FAIL ? "fail" : "ok");
        }
        else if (!strcmp(op, "fill")) { /* fill T lo hi OT OR: Hdupdd(T, r, OT, OR) for r = lo..hi (bulk; harness-only) */
            long t = atol(a[0]), lo = atol(a[1]), hi = atol(a[2]), nok = 0, r;
            char ot[32], orf[32];
            sscanf(line, "%*s %*s %*s %*s %31s %31s", ot, orf);
            for (r = lo; r <= hi; r++)
                if (Hdupdd(fid, (uint16)t, (uint16)r, (uint16)atol(ot), (uint16)atol(orf)) != FAIL) nok++;
            printf("fill %ld %ld %ld %s %s => %ld\n", t, lo, hi, ot, orf, nok);
        }
        else if (!strcmp(op, "newref")) {
            lastref = (long)Hnewref(fid);
            printf("newref => %ld\n", lastref);
        }
        else if (!strcmp(op, "tagnewref")) {
            long t = atol(a[0]);
            lastref = (long)Htagnewref(fid, (uint16)t);
            printf("tagnewref %ld => %ld\n", t, lastref);
        }
        else if (!strcmp(op, "number")) {
            long t = atol(a[0]);
            printf("number %ld => %ld\n", t, (long)Hnumber(fid, (uint16)t));
        }
        else if (!strcmp(op, "exist")) {
            long t = atol(a[0]), r = argref(a[1]);
            printf("exist %ld %ld => %d\n", t, r, Hexist(fid, (uint16)t, (uint16)r) == FAIL ? 0 : 1);
        }
        else if (!strcmp(op, "check")) {
            long t = atol(a[0]), r = argref(a[1]);
            printf("check %ld %ld => %d\n", t, r, HDcheck_tagref(fid, (uint16)t, (uint16)r));
        }
        else if (!strcmp(op, "length")) {
            long t = atol(a[0]), r = argref(a[1]);
            printf("length %ld %ld => %ld\n", t, r, (long)Hlength(fid, (uint16)t, (uint16)r));
        }
        else if (!strcmp(op, "findall"))
            do_findall(atol(a[0]), argref(a[1]), atol(a[2]));
        else if (!strcmp(op, "dump"))
            do_dump();
        else if (!strcmp(op, "eof")) { /* end of file as the library believes it, with the layout it must cover */
            filerec_t *fr = HAatom_object(fid);
            ddblock_t *b;
            if (fr == NULL) { printf("eof => fail\n"); }
            else {
                printf("eof => %ld", (long)fr->f_end_off);
                for (b = fr->ddhead; b != NULL; b = b->next) {
                    int i;
                    printf(" | %ld:%d", (long)b->myoffset, (int)b->ndds);
                    for (i = 0; i < b->ndds; i++)
                        printf(" %ld+%ld", (long)b->ddlist[i].offset, (long)b->ddlist[i].length);
                }
                printf("\n");
            }
        }
        else
            printf("badop %s => fail\n", op);
        fflush(stdout);
    }
    end_all_aids();
    if (fid != FAIL) Hclose(fid);
    remove(path);
    return 0;
}
