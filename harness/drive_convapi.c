/* C06 harness, API level: "the file representation has exactly the byte order the type designates ... and data
 * stored under one flavour reads back as the same values through any API".
 * line: api nt n len b0 .. b(len-1)      (len = n * size of one value in memory; bytes = the values as they lie in memory)
 *   api 1 = SD  : rank-1 dataset of n values              (SDcreate/SDwritedata, SDgetdatainfo, SDreaddata)
 *   api 2 = VS  : n records of one field of order 1       (VSfdefine/VSwrite, VSgetdatainfo, VSread)
 *   api 3 = VS  : 1 record of one field of order n
 *   api 4 = GR  : n x 1 image with one component          (GRcreate/GRwriteimage, GRgetdatainfo, GRreadimage)
 *   api 5 = SD  : written in two halves with SDwritedata(start), read back with a stride-1 SDreaddata in one piece
 *   api 6 = DFSD write (DFSDsetNT / DFSDadddata), read back through SD (SDselect 0 / SDreaddata) -- another interface
 *   api 7 = SD write, read back through DFSD (DFSDgetdims / DFSDgetdata)
 * out : R ok <raw file bytes> | <values read back through the api> | <values read through the second reader or ->
 *       R reject <where>      (the interface does not take this number type at creation)
 *       R fail <where>        (it took the type and failed later)
 * The file is closed and reopened between writing and reading.  The second reader is Hread on the data element
 * followed by DFKconvert (the "any API" part: raw element + public conversion routine).                               */
#include <stdio.h>
#include <stdlib.h>
#include <string.h>
#include "hdf.h"
#include "mfhdf.h"

static const char *path;

static void hex(const unsigned char *p, long n)
{
    for (long i = 0; i < n; i++) printf(" %d", p[i]);
}

/* raw bytes of the file at [off, off+len) */
static int rawread(int32 off, int32 len, unsigned char *out)
{
    FILE *f = fopen(path, "rb");
    if (!f) return -1;
    if (fseek(f, (long)off, SEEK_SET) != 0) { fclose(f); return -1; }
    size_t got = fread(out, 1, (size_t)len, f);
    fclose(f);
    return got == (size_t)len ? 0 : -1;
}

/* offset and length of the file's only DFTAG_SD element (plain element) */
static int find_sd(int32 *off, int32 *len)
{
    int32  fid = Hopen(path, DFACC_READ, 0);
    uint16 t = 0, r = 0;
    int    rc;
    if (fid == FAIL) return -1;
    rc = Hfind(fid, DFTAG_SD, DFREF_WILDCARD, &t, &r, off, len, DF_FORWARD);
    Hclose(fid);
    return rc == FAIL ? -1 : 0;
}

int main(int argc, char **argv)
{
    if (argc < 3) return 2;
    FILE *f = fopen(argv[2], "r");   /* drive_convapi <scratch .hdf> <cases> */
    path = argv[1];
    if (!f) return 2;
    long api, nt, n, len;
    while (fscanf(f, "%ld %ld %ld %ld", &api, &nt, &n, &len) == 4) {
        unsigned char *mem  = (unsigned char *)calloc((size_t)len + 8, 1);
        unsigned char *raw  = (unsigned char *)calloc((size_t)len + 8, 1);
        unsigned char *back = (unsigned char *)calloc((size_t)len + 8, 1);
        unsigned char *two  = (unsigned char *)calloc((size_t)len + 8, 1);
        for (long i = 0; i < len; i++) { long b; if (fscanf(f, "%ld", &b) != 1) return 2; mem[i] = (unsigned char)b; }
        const char *where = NULL; int reject = 0;
        int32 off = -1, dlen = -1;
        /* the single-file interfaces (DFSD) remember the last file by NAME: every case gets a file name of its own */
        static char pathbuf[4096];
        static long caseno;
        const char *base = argv[1];
        if (path != base) remove(path);
        snprintf(pathbuf, sizeof pathbuf, "%s.%ld", base, caseno++ % 7);
        path = pathbuf;
        remove(path);
        if (api == 1 || api == 5) {
            int32 sd = SDstart(path, DFACC_CREATE), dims[1] = {(int32)n}, start[1] = {0}, edge[1] = {(int32)n};
            int32 sds = sd == FAIL ? FAIL : SDcreate(sd, "d", (int32)nt, 1, dims);
            if (sds == FAIL) { reject = 1; where = "SDcreate"; if (sd != FAIL) SDend(sd); goto done; }
            if (api == 5 && n >= 2) {
                int32 h = (int32)(n / 2), w = (int32)(len / n);
                int32 s2[1] = {h}, e1[1] = {h}, e2[1] = {(int32)n - h};
                if (SDwritedata(sds, s2, NULL, e2, mem + (size_t)h * w) == FAIL) where = "SDwritedata(2nd half)";
                else if (SDwritedata(sds, start, NULL, e1, mem) == FAIL) where = "SDwritedata(1st half)";
            } else if (SDwritedata(sds, start, NULL, edge, mem) == FAIL) where = "SDwritedata";
            SDendaccess(sds);
            if (SDend(sd) == FAIL && !where) where = "SDend";
            if (where) goto done;
            sd = SDstart(path, DFACC_READ);
            sds = sd == FAIL ? FAIL : SDselect(sd, 0);
            if (sds == FAIL) { where = "SDselect"; goto done; }
            int32 rank, rdims[H4_MAX_VAR_DIMS], rnt, nattr; char nm[256];
            if (SDgetinfo(sds, nm, &rank, rdims, &rnt, &nattr) == FAIL || rank != 1 || rdims[0] != (int32)n)
                where = "SDgetinfo(shape changed)";
            else if (SDgetdatainfo(sds, NULL, 0, 1, &off, &dlen) != 1) where = "SDgetdatainfo";
            else if (SDreaddata(sds, start, NULL, edge, back) == FAIL) where = "SDreaddata";
            SDendaccess(sds); SDend(sd);
        } else if (api == 2 || api == 3) {
            int32 fid = Hopen(path, DFACC_CREATE, 0);
            if (fid == FAIL) { where = "Hopen"; goto done; }
            Vstart(fid);
            int32 vs = VSattach(fid, -1, "w");
            int32 order = api == 2 ? 1 : (int32)n, nrec = api == 2 ? (int32)n : 1;
            if (VSfdefine(vs, "f", (int32)nt, order) == FAIL) { reject = 1; where = "VSfdefine"; VSdetach(vs); Vend(fid); Hclose(fid); goto done; }
            if (VSsetfields(vs, "f") == FAIL) where = "VSsetfields";
            else if (VSwrite(vs, mem, nrec, FULL_INTERLACE) != nrec) where = "VSwrite";
            int32 ref = VSQueryref(vs);
            VSdetach(vs); Vend(fid);
            if (Hclose(fid) == FAIL && !where) where = "Hclose";
            if (where) goto done;
            fid = Hopen(path, DFACC_READ, 0); Vstart(fid);
            vs = VSattach(fid, ref, "r");
            if (vs == FAIL) where = "VSattach(r)";
            else {
                if (VFfieldorder(vs, 0) != order) where = "VFfieldorder(order changed)";
                else if (VSgetdatainfo(vs, 0, 1, &off, &dlen) != 1) where = "VSgetdatainfo";
                else if (VSsetfields(vs, "f") == FAIL) where = "VSsetfields(r)";
                else if (VSread(vs, back, nrec, FULL_INTERLACE) != nrec) where = "VSread";
                VSdetach(vs);
            }
            Vend(fid); Hclose(fid);
        } else if (api == 4) {
            int32 fid = Hopen(path, DFACC_CREATE, 0);
            if (fid == FAIL) { where = "Hopen"; goto done; }
            int32 gr = GRstart(fid), dims[2] = {(int32)n, 1}, start[2] = {0, 0};
            int32 ri = GRcreate(gr, "i", 1, (int32)nt, MFGR_INTERLACE_PIXEL, dims);
            if (ri == FAIL) { reject = 1; where = "GRcreate"; GRend(gr); Hclose(fid); goto done; }
            if (GRwriteimage(ri, start, NULL, dims, mem) == FAIL) where = "GRwriteimage";
            GRendaccess(ri);
            if (GRend(gr) == FAIL && !where) where = "GRend";
            if (Hclose(fid) == FAIL && !where) where = "Hclose";
            if (where) goto done;
            fid = Hopen(path, DFACC_READ, 0); gr = GRstart(fid);
            ri = GRselect(gr, 0);
            if (ri == FAIL) where = "GRselect";
            else {
                int32 nc, rnt, il, rd[2], na; char nm[256];
                if (GRgetiminfo(ri, nm, &nc, &rnt, &il, rd, &na) == FAIL || nc != 1 || rd[0] != (int32)n || rd[1] != 1)
                    where = "GRgetiminfo(shape changed)";
                else if (GRgetdatainfo(ri, 0, 1, &off, &dlen) != 1) where = "GRgetdatainfo";
                else if (GRreadimage(ri, start, NULL, dims, back) == FAIL) where = "GRreadimage";
                GRendaccess(ri);
            }
            GRend(gr); Hclose(fid);
        } else if (api == 6) {
            int32 dims[1] = {(int32)n}, start[1] = {0}, edge[1] = {(int32)n};
            DFSDclear();
            if (DFSDsetdims(1, dims) == FAIL) { where = "DFSDsetdims"; goto done; }
            if (DFSDsetNT((int32)nt) == FAIL) { reject = 1; where = "DFSDsetNT"; goto done; }
            if (DFSDadddata(path, 1, dims, mem) == FAIL) { where = "DFSDadddata"; goto done; }
            int32 sd = SDstart(path, DFACC_READ), sds = FAIL, nds = 0, nat = 0;
            if (sd != FAIL && SDfileinfo(sd, &nds, &nat) != FAIL)
                for (int32 k = 0; k < nds; k++) { /* the data set, not a dimension's coordinate variable */
                    sds = SDselect(sd, k);
                    if (sds != FAIL && !SDiscoordvar(sds)) break;
                    if (sds != FAIL) SDendaccess(sds);
                    sds = FAIL;
                }
            if (sds == FAIL) { where = "SDselect(file written by DFSD)"; if (sd != FAIL) SDend(sd); goto done; }
            if (SDreaddata(sds, start, NULL, edge, back) == FAIL) where = "SDreaddata(file written by DFSD)";
            SDendaccess(sds); SDend(sd);
            if (!where && find_sd(&off, &dlen) != 0) where = "Hfind(DFTAG_SD)";
        } else if (api == 7) {
            int32 sd = SDstart(path, DFACC_CREATE), dims[1] = {(int32)n}, start[1] = {0}, edge[1] = {(int32)n};
            int32 sds = sd == FAIL ? FAIL : SDcreate(sd, "d", (int32)nt, 1, dims);
            if (sds == FAIL) { reject = 1; where = "SDcreate"; if (sd != FAIL) SDend(sd); goto done; }
            if (SDwritedata(sds, start, NULL, edge, mem) == FAIL) where = "SDwritedata";
            SDendaccess(sds);
            if (SDend(sd) == FAIL && !where) where = "SDend";
            if (where) goto done;
            if (find_sd(&off, &dlen) != 0) { where = "Hfind(DFTAG_SD)"; goto done; }
            int rank = 0; int32 rdims[8];
            DFSDrestart();
            if (DFSDgetdims(path, &rank, rdims, 8) == FAIL || rank != 1 || rdims[0] != (int32)n) where = "DFSDgetdims(file written by SD)";
            else if (DFSDgetdata(path, 1, rdims, back) == FAIL) where = "DFSDgetdata(file written by SD)";
        } else { where = "unknown api"; }
        if (!where) {
            if (dlen != (int32)len) where = "data element length differs from n * size";
            else if (rawread(off, dlen, raw) != 0) where = "raw read of the file";
            /* second reader: the public conversion routine on the raw element */
            else if (DFKconvert(raw, two, (int32)nt, (int32)n, DFACC_READ, 0, 0) == FAIL) where = "DFKconvert(raw)";
        }
    done:
        if (where) printf("R %s %s\n", reject ? "reject" : "fail", where);
        else { printf("R ok"); hex(raw, len); printf(" |"); hex(back, len); printf(" |"); hex(two, len); printf("\n"); }
        fflush(stdout);
        free(mem); free(raw); free(back); free(two);
    }
    remove(path);
    return 0;
}
