/* C05 harness: drives the freshly built library through compressed elements (HCcreate / Hwrite / Hseek /
 * Hread / Hendaccess / reopen / HCPgetdatasize), bit-granular elements (Hbitwrite / Hbitread / Hbitseek) and
 * the compression-header encoder/decoder, on the cases of a file.  One case per input line, one output line.
 *
 *   E coder p1 p2 p3 p4 p5 nops op...     compressed element created with HCcreate (coder = COMP_CODE_*;
 *                                         nbit: nt sign_ext fill_one start_bit bit_len; skphuff: skp_size;
 *                                         deflate: level)
 *   I hdrlen h.. rawlen r.. nops op...    element injected at format level: the special-element record and the
 *                                         DFTAG_COMPRESSED stream are written as plain elements, then ops run
 *       ops:  W n b1..bn | S off (DF_START) | SC off (DF_CURRENT) | SE off (DF_END) | T (Htell) | Q (Hinquire
 *             length,position) | R n | E | OR | OW | C | Z | X
 *   B nops op...                          bit element:  w count value | r count | s byte bit | e fill | or | ow
 *   BI n b1..bn nops op...                bit element whose n bytes are stored with Hputelement first (any length,
 *                                         e.g. a short last 4096-byte block), then ops (or | r | s | e | x)
 *   H coder p1 p2 p3 p4 p5                HCPquery_encode_header + HCPencode_header + HCPdecode_header
 *   D n b1..bn                            HCPdecode_header on given bytes
 *
 * Output: "R res|res|..." with res = n<k> (count / SUCCEED), f (FAIL), b<hex> (bytes read), z<comp>,<orig>,
 * x<hdrhex>,<rawhex>, v<value> (bits read; short reads as v<value>/<got>).                                   */
#include <stdio.h>
#include <stdlib.h>
#include <string.h>
#include "hdf_priv.h"
#include "hfile_priv.h"
#include "hcomp_priv.h"
#include "hbitio_priv.h"

#define TAG 1000
#define REF 1
#define RAWREF 7

static const char *path;
static char       *out;
static size_t      olen, ocap;

static void
emit(const char *s)
{
    size_t n = strlen(s);
    if (olen + n + 2 > ocap) {
        ocap = (olen + n + 2) * 2;
        out  = (char *)realloc(out, ocap);
    }
    memcpy(out + olen, s, n + 1);
    olen += n;
}
static void
emit_sep(void)
{
    if (olen > 0)
        emit("|");
}
static void
emit_n(long v)
{
    char t[64];
    emit_sep();
    if (v < 0)
        emit("f");
    else {
        snprintf(t, sizeof t, "n%ld", v);
        emit(t);
    }
}
static void
emit_hex(const unsigned char *b, long n)
{
    static const char hx[] = "0123456789abcdef";
    char             *t    = (char *)malloc((size_t)n * 2 + 1);
    for (long i = 0; i < n; i++) {
        t[2 * i]     = hx[b[i] >> 4];
        t[2 * i + 1] = hx[b[i] & 15];
    }
    t[2 * n] = 0;
    emit(t);
    free(t);
}

static long
rdl(FILE *f)
{
    long v;
    if (fscanf(f, "%ld", &v) != 1) {
        fprintf(stderr, "drive_comp: malformed input\n");
        exit(3);
    }
    return v;
}
static void
rdtok(FILE *f, char *t)
{
    if (fscanf(f, "%15s", t) != 1) {
        fprintf(stderr, "drive_comp: malformed input\n");
        exit(3);
    }
}

static void
set_cinfo(long coder, const long *p, comp_info *ci)
{
    memset(ci, 0, sizeof *ci);
    switch (coder) {
        case COMP_CODE_NBIT:
            ci->nbit.nt        = (int32)p[0];
            ci->nbit.sign_ext  = (int)p[1];
            ci->nbit.fill_one  = (int)p[2];
            ci->nbit.start_bit = (int)p[3];
            ci->nbit.bit_len   = (int)p[4];
            break;
        case COMP_CODE_SKPHUFF:
            ci->skphuff.skp_size = (int)p[0];
            break;
        case COMP_CODE_DEFLATE:
            ci->deflate.level = (int)p[0];
            break;
        default:
            break;
    }
}

/* dump the special-element record and the raw compressed stream */
static void
dump_raw(int32 fid)
{
    filerec_t *frec = (filerec_t *)HAatom_object(fid);
    atom_t     ddid;
    uint8     *drec = NULL;
    int32      dlen;
    emit_sep();
    if (frec == NULL || (ddid = HTPselect(frec, TAG, REF)) == FAIL) {
        emit("f");
        return;
    }
    if (HTPis_special(ddid) != TRUE || (dlen = HPread_drec(fid, ddid, &drec)) <= 0) {
        HTPendaccess(ddid);
        emit("f");
        return;
    }
    HTPendaccess(ddid);
    emit("x");
    emit_hex(drec, dlen);
    emit(",");
    if (dlen >= 10) {
        uint16 cref = (uint16)((drec[8] << 8) | drec[9]);
        int32  rl   = Hlength(fid, DFTAG_COMPRESSED, cref);
        if (rl > 0) {
            unsigned char *rb = (unsigned char *)malloc((size_t)rl);
            if (Hgetelement(fid, DFTAG_COMPRESSED, cref, rb) == rl)
                emit_hex(rb, rl);
            else
                emit("!");
            free(rb);
        }
        else if (rl < 0)
            emit("-");
    }
    free(drec);
}

static void
run_ops(FILE *f, int32 *pfid, int32 aid)
{
    long nops = rdl(f);
    char t[16];
    for (long k = 0; k < nops; k++) {
        rdtok(f, t);
        if (!strcmp(t, "W")) {
            long           n = rdl(f);
            unsigned char *b = (unsigned char *)malloc(n > 0 ? (size_t)n : 1);
            for (long i = 0; i < n; i++)
                b[i] = (unsigned char)rdl(f);
            emit_n(aid == FAIL ? -1 : Hwrite(aid, (int32)n, b));
            free(b);
        }
        else if (!strcmp(t, "S") || !strcmp(t, "SC") || !strcmp(t, "SE")) {
            long off    = rdl(f);
            int  origin = t[1] == 0 ? DF_START : (t[1] == 'C' ? DF_CURRENT : DF_END);
            emit_n(aid == FAIL ? -1 : Hseek(aid, (int32)off, origin));
        }
        else if (!strcmp(t, "T")) {
            emit_n(aid == FAIL ? -1 : Htell(aid));
        }
        else if (!strcmp(t, "Q")) {
            int32 len = -7, posn = -7;
            char  u[64];
            emit_sep();
            if (aid == FAIL || Hinquire(aid, NULL, NULL, NULL, &len, NULL, &posn, NULL, NULL) == FAIL)
                emit("f");
            else {
                snprintf(u, sizeof u, "q%d,%d", (int)len, (int)posn);
                emit(u);
            }
        }
        else if (!strcmp(t, "R")) {
            long           n   = rdl(f);
            long           cap = n > 0 ? n : (1 << 22);
            unsigned char *b   = (unsigned char *)malloc((size_t)cap);
            int32          got = aid == FAIL ? FAIL : Hread(aid, (int32)n, b);
            if (got < 0)
                emit_n(-1);
            else {
                emit_sep();
                emit("b");
                emit_hex(b, got);
            }
            free(b);
        }
        else if (!strcmp(t, "E")) {
            emit_n(aid == FAIL ? -1 : Hendaccess(aid));
            aid = FAIL;
        }
        else if (!strcmp(t, "OR") || !strcmp(t, "OW")) {
            if (aid != FAIL)
                Hendaccess(aid);
            aid = t[1] == 'R' ? Hstartread(*pfid, TAG, REF) : Hstartwrite(*pfid, TAG, REF, 0);
            emit_n(aid == FAIL ? -1 : 0);
        }
        else if (!strcmp(t, "C")) {
            if (aid != FAIL)
                Hendaccess(aid);
            aid = FAIL;
            if (Hclose(*pfid) == FAIL) {
                emit_n(-1);
                *pfid = FAIL;
            }
            else {
                *pfid = Hopen(path, DFACC_RDWR, 0);
                emit_n(*pfid == FAIL ? -1 : 0);
            }
        }
        else if (!strcmp(t, "Z")) {
            int32 cs = -7, os = -7;
            char  u[64];
            emit_sep();
            if (HCPgetdatasize(*pfid, TAG, REF, &cs, &os) == FAIL)
                emit("f");
            else {
                snprintf(u, sizeof u, "z%d,%d", (int)cs, (int)os);
                emit(u);
            }
        }
        else if (!strcmp(t, "X")) {
            dump_raw(*pfid);
        }
        else {
            fprintf(stderr, "drive_comp: unknown op %s\n", t);
            exit(3);
        }
    }
    if (aid != FAIL)
        Hendaccess(aid);
}

static void
case_element(FILE *f)
{
    long      coder = rdl(f), p[5];
    comp_info ci;
    model_info mi;
    int32     fid, aid;
    for (int i = 0; i < 5; i++)
        p[i] = rdl(f);
    set_cinfo(coder, p, &ci);
    memset(&mi, 0, sizeof mi);
    fid = Hopen(path, DFACC_CREATE, 0);
    if (fid == FAIL) {
        fprintf(stderr, "drive_comp: cannot create %s\n", path);
        exit(3);
    }
    aid = HCcreate(fid, TAG, REF, COMP_MODEL_STDIO, &mi, (comp_coder_t)coder, &ci);
    emit_n(aid == FAIL ? -1 : 0);
    run_ops(f, &fid, aid);
    if (fid != FAIL)
        Hclose(fid);
}

static void
case_inject(FILE *f)
{
    long           hl = rdl(f);
    unsigned char *h  = (unsigned char *)malloc(hl > 0 ? (size_t)hl : 1);
    for (long i = 0; i < hl; i++)
        h[i] = (unsigned char)rdl(f);
    long           rl = rdl(f);
    unsigned char *r  = (unsigned char *)malloc(rl > 0 ? (size_t)rl : 1);
    for (long i = 0; i < rl; i++)
        r[i] = (unsigned char)rdl(f);
    int32 fid = Hopen(path, DFACC_CREATE, 0);
    if (fid == FAIL)
        exit(3);
    /* the compressed stream first, then the description record under the special tag */
    int32 a = rl > 0 ? Hputelement(fid, DFTAG_COMPRESSED, RAWREF, r, (int32)rl) : 0;
    int32 b = Hputelement(fid, MKSPECIALTAG(TAG), REF, h, (int32)hl);
    emit_n((a == FAIL || b == FAIL) ? -1 : 0);
    /* reopen so that the element is found the way a reader finds it */
    Hclose(fid);
    fid = Hopen(path, DFACC_RDWR, 0);
    run_ops(f, &fid, FAIL);
    if (fid != FAIL)
        Hclose(fid);
    free(h);
    free(r);
}

static void
case_bits(FILE *f, int inject)
{
    long  nops;
    char  t[16];
    int32 fid = Hopen(path, DFACC_CREATE, 0), bid;
    if (fid == FAIL)
        exit(3);
    if (inject) {
        long           n = rdl(f);
        unsigned char *b = (unsigned char *)malloc(n > 0 ? (size_t)n : 1);
        for (long i = 0; i < n; i++)
            b[i] = (unsigned char)rdl(f);
        emit_n(Hputelement(fid, TAG, REF, b, (int32)n) == FAIL ? -1 : 0);
        free(b);
        bid = FAIL;
    }
    else {
        bid = Hstartbitwrite(fid, TAG, REF, 0);
        if (bid != FAIL)
            Hbitappendable(bid);
        emit_n(bid == FAIL ? -1 : 0);
    }
    nops = rdl(f);
    for (long k = 0; k < nops; k++) {
        rdtok(f, t);
        if (!strcmp(t, "w")) {
            long c = rdl(f), v = rdl(f);
            emit_n(bid == FAIL ? -1 : Hbitwrite(bid, (int)c, (uint32)v));
        }
        else if (!strcmp(t, "r")) {
            long   c   = rdl(f);
            uint32 v   = 0;
            int    got = bid == FAIL ? FAIL : Hbitread(bid, (int)c, &v);
            char   u[64];
            if (got == FAIL)
                emit_n(-1);
            else {
                emit_sep();
                if (got == c)
                    snprintf(u, sizeof u, "v%lu", (unsigned long)v);
                else
                    snprintf(u, sizeof u, "v%lu/%d", (unsigned long)v, got);
                emit(u);
            }
        }
        else if (!strcmp(t, "s")) {
            long by = rdl(f), bi = rdl(f);
            emit_n(bid == FAIL ? -1 : Hbitseek(bid, (int32)by, (int)bi));
        }
        else if (!strcmp(t, "e")) {
            long fl = rdl(f);
            emit_n(bid == FAIL ? -1 : Hendbitaccess(bid, (int)fl));
            bid = FAIL;
        }
        else if (!strcmp(t, "or") || !strcmp(t, "ow")) {
            if (bid != FAIL)
                Hendbitaccess(bid, 0);
            if (t[1] == 'r')
                bid = Hstartbitread(fid, TAG, REF);
            else {
                int32 l = Hlength(fid, TAG, REF);
                bid     = Hstartbitwrite(fid, TAG, REF, l < 0 ? 0 : l);
                if (bid != FAIL)
                    Hbitappendable(bid);
            }
            emit_n(bid == FAIL ? -1 : 0);
        }
        else if (!strcmp(t, "x")) { /* raw bytes of the element */
            int32 l = Hlength(fid, TAG, REF);
            emit_sep();
            emit("x,");
            if (l > 0) {
                unsigned char *rb = (unsigned char *)malloc((size_t)l);
                if (Hgetelement(fid, TAG, REF, rb) == l)
                    emit_hex(rb, l);
                free(rb);
            }
        }
        else {
            fprintf(stderr, "drive_comp: unknown bit op %s\n", t);
            exit(3);
        }
    }
    if (bid != FAIL)
        Hendbitaccess(bid, 0);
    Hclose(fid);
}

static void
show_cinfo(comp_coder_t ct, comp_model_t mt, const comp_info *ci)
{
    char u[160];
    long p[5] = {0, 0, 0, 0, 0};
    switch (ct) {
        case COMP_CODE_NBIT:
            p[0] = ci->nbit.nt;
            p[1] = ci->nbit.sign_ext;
            p[2] = ci->nbit.fill_one;
            p[3] = ci->nbit.start_bit;
            p[4] = ci->nbit.bit_len;
            break;
        case COMP_CODE_SKPHUFF:
            p[0] = ci->skphuff.skp_size;
            break;
        case COMP_CODE_DEFLATE:
            p[0] = ci->deflate.level;
            break;
        default:
            break;
    }
    snprintf(u, sizeof u, "d%d,%d,%ld,%ld,%ld,%ld,%ld", (int)mt, (int)ct, p[0], p[1], p[2], p[3], p[4]);
    emit_sep();
    emit(u);
}

static void
case_header(FILE *f)
{
    long          coder = rdl(f), p[5];
    comp_info     ci, co;
    model_info    mi, mo;
    unsigned char buf[64];
    comp_model_t  mt;
    comp_coder_t  ct;
    for (int i = 0; i < 5; i++)
        p[i] = rdl(f);
    set_cinfo(coder, p, &ci);
    memset(&mi, 0, sizeof mi);
    memset(buf, 0xEE, sizeof buf);
    int32 len = HCPquery_encode_header(COMP_MODEL_STDIO, &mi, (comp_coder_t)coder, &ci);
    emit_n(len);
    if (len < 0 || len > 60)
        return;
    if (HCPencode_header(buf, COMP_MODEL_STDIO, &mi, (comp_coder_t)coder, &ci) == FAIL) {
        emit_n(-1);
        return;
    }
    emit_sep();
    emit("b");
    emit_hex(buf, len);
    memset(&co, 0, sizeof co);
    if (HCPdecode_header(buf, &mt, &mo, &ct, &co) == FAIL)
        emit_n(-1);
    else
        show_cinfo(ct, mt, &co);
}

static void
case_decode(FILE *f)
{
    long          n = rdl(f);
    unsigned char buf[128];
    comp_info     co;
    model_info    mo;
    comp_model_t  mt;
    comp_coder_t  ct;
    memset(buf, 0, sizeof buf);
    for (long i = 0; i < n; i++) {
        long v = rdl(f);
        if (i < 100)
            buf[i] = (unsigned char)v;
    }
    memset(&co, 0, sizeof co);
    if (HCPdecode_header(buf, &mt, &mo, &ct, &co) == FAIL)
        emit_n(-1);
    else
        show_cinfo(ct, mt, &co);
}

int
main(int argc, char **argv)
{
    /* usage: drive_comp <scratch hdf file> <case file> */
    FILE *f = argc > 2 ? fopen(argv[2], "r") : NULL;
    char  k[16];
    if (!f)
        return 2;
    path = argv[1];
    while (fscanf(f, "%15s", k) == 1) {
        olen = 0;
        if (out)
            out[0] = 0;
        if (!strcmp(k, "E"))
            case_element(f);
        else if (!strcmp(k, "I"))
            case_inject(f);
        else if (!strcmp(k, "B"))
            case_bits(f, 0);
        else if (!strcmp(k, "BI"))
            case_bits(f, 1);
        else if (!strcmp(k, "H"))
            case_header(f);
        else if (!strcmp(k, "D"))
            case_decode(f);
        else {
            fprintf(stderr, "drive_comp: unknown case kind %s\n", k);
            return 3;
        }
        printf("R %s\n", out ? out : "");
        fflush(stdout);
    }
    remove(path);
    return 0;
}
