/* C11 harness: runs annotation histories (multi-file AN interface and single-file DFAN interface) against the
 * freshly built library.      usage: drive_an <workdir> <history-file>
 * A history file holds several histories separated by lines "history <name>"; each history runs in its own
 * child process on a fresh file that contains the data objects 700/1 700/2 700/3 700/5 701/1 701/2.
 * One output line per input line: "<lineno> ok v.. [hex ..]" | "<lineno> fail" | "<lineno> crash <code>".
 * Annotation identifiers never appear in the output: an identifier is shown as the tag/ref ANid2tagref gives.
 * Every buffer handed to the library is heap memory of exactly the advertised size, pre-filled with 0xEE.
 *
 *   names A B C                the (up to 3) files of this history, created in the work directory (the child's cwd,
 *                              so that one name can be a prefix/suffix of another); default: one file an<n>.hdf
 *   file N                     every following operation works on file N (own session, own slots)       -> ok
 *   start                      Hopen(RDWR) + ANstart                                   -> ok
 *   end                        ANend + Hclose + DFANclear; all slots forgotten          -> ok
 *   create S type ttag tref    ANcreate -> slot S                                      -> ok tag ref | fail
 *   createf S type             ANcreatef -> slot S                                     -> ok tag ref | fail
 *   write S hex                ANwriteann                                              -> ok | fail
 *   read S maxlen              ANreadann into maxlen bytes                             -> ok hex(maxlen bytes) | fail
 *   len S                      ANannlen                                                -> ok len | fail
 *   select S type idx          ANselect -> slot S                                      -> ok tag ref | fail
 *   selectall type             ANfileinfo count n, ANselect 0..n-1                     -> ok n ref.. | fail
 *   fileinfo                   ANfileinfo                                              -> ok nfl nfd ndl ndd | fail
 *   numann type ttag tref      ANnumann                                                -> ok n | fail
 *   annlist type ttag tref     ANannlist (array sized by ANnumann)                     -> ok n ref.. | fail
 *   tagref2id S tag ref        ANtagref2id -> slot S                                   -> ok | fail
 *   id2tagref S                ANid2tagref                                             -> ok tag ref | fail
 *   gettagref type idx         ANget_tagref, then ANid2tagref(ANselect(idx))          -> ok tag ref tag2 ref2 | fail
 *   dffidlen F / dffdslen F    Hopen, DFANgetfidlen / DFANgetfdslen(isfirst F), DFANlastref, Hclose -> ok len ref | fail
 *   dffid F maxlen / dffds ..  Hopen, DFANgetfid / DFANgetfds(buffer maxlen, isfirst F), DFANlastref -> ok n ref hex | fail
 *   endaccess S                ANendaccess                                             -> ok | fail
 *   ids                        over all live slots: ids <-> tag/ref one-to-one, ANtagref2id(ANid2tagref(id)) = id
 *                                                                                      -> ok <#distinct ids> | bad ..
 *   atype2tag t / tag2atype g  ANatype2tag / ANtag2atype                               -> ok v
 *   key t r / cmp i j / codec v   AN_CREATE_KEY+AN_KEY2TYPE+AN_KEY2REF / ANIanncmp / UINT16ENCODE+UINT16DECODE
 *   dfputlabel ttag tref hex   DFANputlabel, DFANlastref                               -> ok ref | fail
 *   dfputdesc ttag tref hex    DFANputdesc, DFANlastref                                -> ok ref | fail
 *   dfgetlabel ttag tref maxlen / dfgetdesc ..   DFANgetlabel / DFANgetdesc            -> ok hex(maxlen bytes) | fail
 *   dfgetlablen ttag tref / dfgetdesclen ..      DFANgetlablen / DFANgetdesclen        -> ok len | fail
 *   dfaddfid hex / dfaddfds hex   Hopen, DFANaddfid / DFANaddfds, DFANlastref, Hclose  -> ok ref | fail
 *   dfgetfids / dfgetfdss      Hopen, loop DFANgetfidlen+DFANgetfid(isfirst) .., Hclose -> ok n hex.. | fail
 *   dflablist tag maxlen [listsize startpos]   DFANlablist (default listsize 8, startpos 1)  -> ok n ref.. hex.. | fail
 *   restart                    ANend + ANstart on the same open file id (+ DFANclear)  -> ok | fail
 */
#include <stdio.h>
#include <stdlib.h>
#include <string.h>
#include <unistd.h>
#include <sys/wait.h>
#include "hdf.h"
#include "hdf_priv.h"
#include "mfan_priv.h"
extern int ANIanncmp(void *i, void *j, int value);

#define NS 64
#define NFILES 3
static int32 fids[NFILES], anids[NFILES];
static int32 idtab[NFILES][NS];
static char  fnames[NFILES][300];
static int   nfiles = 1, cur = 0, files_made = 0;
#define fid   (fids[cur])
#define anid  (anids[cur])
#define ids   (idtab[cur])
#define fname (fnames[cur])

static void make_files(void)
{
    static const int obj[6][2] = {{700, 1}, {700, 2}, {700, 3}, {700, 5}, {701, 1}, {701, 2}};
    if (files_made) return;
    files_made = 1;
    for (int k = 0; k < nfiles; k++) {   /* the data objects DFANlablist looks for */
        unlink(fnames[k]);
        int32 f = Hopen(fnames[k], DFACC_CREATE, 0);
        for (int i = 0; i < 6; i++) Hputelement(f, (uint16)obj[i][0], (uint16)obj[i][1], (const uint8 *)"obj", 3);
        Hclose(f);
    }
}

static int unhex(const char *s, unsigned char *out)
{
    int n = 0;
    if (s[0] == '-' || s[0] == 0) return 0;
    while (s[0] && s[1]) { unsigned v; sscanf(s, "%2x", &v); out[n++] = (unsigned char)v; s += 2; }
    return n;
}
static void phex(const unsigned char *b, long n)
{
    if (n <= 0) { printf(" -"); return; }
    printf(" ");
    for (long i = 0; i < n; i++) printf("%02x", b[i]);
}
static unsigned char *fresh(long n)
{
    unsigned char *b = malloc(n > 0 ? n : 1);
    memset(b, 0xEE, n > 0 ? n : 1);
    return b;
}
static int slot_ok(long s) { return s >= 0 && s < NS; }
static void ptagref(int32 id)
{
    uint16 t = 0, r = 0;
    if (id == FAIL) { printf(" fail\n"); return; }
    if (ANid2tagref(id, &t, &r) == FAIL) printf(" ok -1 -1\n"); else printf(" ok %d %d\n", (int)t, (int)r);
}
static int32 refof(int32 id)
{
    uint16 t = 0, r = 0;
    if (ANid2tagref(id, &t, &r) == FAIL) return -1;
    return r;
}

static void run_history(const char *dir, long hno, char **lines, long *lnos, long nlines)
{
    static char line[400000], op[64], hex[390000];
    static unsigned char data[200000];
    if (chdir(dir) != 0) _exit(3);
    for (int k = 0; k < NFILES; k++) { fids[k] = anids[k] = FAIL; for (int i = 0; i < NS; i++) idtab[k][i] = FAIL; }
    nfiles = 1; cur = 0; files_made = 0;
    snprintf(fnames[0], sizeof fnames[0], "an%ld.hdf", hno);
    for (long li = 0; li < nlines; li++) {
        long ln = lnos[li];
        strncpy(line, lines[li], sizeof line - 1);
        long a = 0, b = 0, c = 0, d = 0;
        hex[0] = 0;
        if (sscanf(line, "%63s", op) != 1 || op[0] == '#') { printf("%ld skip\n", ln); continue; }
        if (!strcmp(op, "history")) { printf("%ld history\n", ln); fflush(stdout); continue; }
        if (!strcmp(op, "names")) {
            char n0[100] = "", n1[100] = "", n2[100] = "";
            int k = sscanf(line, "%*s %99s %99s %99s", n0, n1, n2);
            if (k >= 1 && !files_made) {
                nfiles = k;
                strcpy(fnames[0], n0); strcpy(fnames[1], n1); strcpy(fnames[2], n2);
            }
            printf("%ld skip\n", ln); continue;
        }
        make_files();
        printf("%ld", ln);
        if (!strcmp(op, "file")) {
            sscanf(line, "%*s %ld", &a);
            if (a >= 0 && a < nfiles) { cur = (int)a; printf(" ok\n"); } else printf(" fail\n");
            fflush(stdout); continue;
        }
        if (!strcmp(op, "start")) {
            int ok = 0;
            if (fid == FAIL) {
                fid = Hopen(fname, DFACC_RDWR, 0);
                if (fid != FAIL) { anid = ANstart(fid); ok = anid != FAIL; }
            }
            printf(ok ? " ok\n" : " fail\n");
        }
        else if (!strcmp(op, "restart")) {      /* ANend, then ANstart on the same open file id */
            int ok = 0;
            if (fid != FAIL) {
                ok = ANend(anid) != FAIL;
                DFANclear();
                for (int i = 0; i < NS; i++) ids[i] = FAIL;
                anid = ANstart(fid);
                if (anid == FAIL) ok = 0;
            }
            printf(ok ? " ok\n" : " fail\n");
        }
        else if (!strcmp(op, "end")) {
            int ok = 0;
            if (fid != FAIL) {
                ok = ANend(anid) != FAIL;
                if (Hclose(fid) == FAIL) ok = 0;
                fid = anid = FAIL;
                DFANclear();
                for (int i = 0; i < NS; i++) ids[i] = FAIL;
            }
            printf(ok ? " ok\n" : " fail\n");
        }
        else if (!strcmp(op, "create")) {
            sscanf(line, "%*s %ld %ld %ld %ld", &a, &b, &c, &d);
            if (!slot_ok(a)) { printf(" fail\n"); continue; }
            ids[a] = ANcreate(anid, (uint16)c, (uint16)d, (ann_type)b);
            ptagref(ids[a]);
        }
        else if (!strcmp(op, "createf")) {
            sscanf(line, "%*s %ld %ld", &a, &b);
            if (!slot_ok(a)) { printf(" fail\n"); continue; }
            ids[a] = ANcreatef(anid, (ann_type)b);
            ptagref(ids[a]);
        }
        else if (!strcmp(op, "write")) {
            sscanf(line, "%*s %ld %389999s", &a, hex);
            int n = unhex(hex, data);
            unsigned char *buf = malloc(n > 0 ? n : 1);
            memcpy(buf, data, n);
            int32 r = slot_ok(a) ? ANwriteann(ids[a], (const char *)buf, n) : FAIL;
            free(buf);
            printf(r == FAIL ? " fail\n" : " ok\n");
        }
        else if (!strcmp(op, "read")) {
            sscanf(line, "%*s %ld %ld", &a, &b);
            unsigned char *buf = fresh(b);
            int32 r = slot_ok(a) ? ANreadann(ids[a], (char *)buf, (int32)b) : FAIL;
            if (r == FAIL) printf(" fail\n"); else { printf(" ok"); phex(buf, b); printf("\n"); }
            free(buf);
        }
        else if (!strcmp(op, "len")) {
            sscanf(line, "%*s %ld", &a);
            int32 r = slot_ok(a) ? ANannlen(ids[a]) : FAIL;
            if (r == FAIL) printf(" fail\n"); else printf(" ok %d\n", (int)r);
        }
        else if (!strcmp(op, "select")) {
            sscanf(line, "%*s %ld %ld %ld", &a, &b, &c);
            if (!slot_ok(a)) { printf(" fail\n"); continue; }
            ids[a] = ANselect(anid, (int32)c, (ann_type)b);
            ptagref(ids[a]);
        }
        else if (!strcmp(op, "selectall")) {
            sscanf(line, "%*s %ld", &a);
            int32 n[4] = {0, 0, 0, 0};
            if (ANfileinfo(anid, &n[2], &n[3], &n[0], &n[1]) == FAIL || a < 0 || a > 3) { printf(" fail\n"); continue; }
            printf(" ok %d", (int)n[a]);
            for (int32 i = 0; i < n[a]; i++) { int32 id = ANselect(anid, i, (ann_type)a); printf(" %d", id == FAIL ? -1 : (int)refof(id)); }
            printf("\n");
        }
        else if (!strcmp(op, "fileinfo")) {
            int32 n[4] = {0, 0, 0, 0};
            if (ANfileinfo(anid, &n[0], &n[1], &n[2], &n[3]) == FAIL) printf(" fail\n");
            else printf(" ok %d %d %d %d\n", (int)n[0], (int)n[1], (int)n[2], (int)n[3]);
        }
        else if (!strcmp(op, "numann")) {
            sscanf(line, "%*s %ld %ld %ld", &a, &b, &c);
            int r = ANnumann(anid, (ann_type)a, (uint16)b, (uint16)c);
            if (r == FAIL) printf(" fail\n"); else printf(" ok %d\n", r);
        }
        else if (!strcmp(op, "annlist")) {
            sscanf(line, "%*s %ld %ld %ld", &a, &b, &c);
            int n = ANnumann(anid, (ann_type)a, (uint16)b, (uint16)c);
            if (n == FAIL) { printf(" fail\n"); continue; }
            int32 *lst = malloc((n > 0 ? n : 1) * sizeof(int32));
            int m = ANannlist(anid, (ann_type)a, (uint16)b, (uint16)c, lst);
            if (m == FAIL) printf(" fail\n");
            else { printf(" ok %d", m); for (int i = 0; i < m && i < n; i++) printf(" %d", (int)refof(lst[i])); printf("\n"); }
            free(lst);
        }
        else if (!strcmp(op, "tagref2id")) {
            sscanf(line, "%*s %ld %ld %ld", &a, &b, &c);
            if (!slot_ok(a)) { printf(" fail\n"); continue; }
            ids[a] = ANtagref2id(anid, (uint16)b, (uint16)c);
            printf(ids[a] == FAIL ? " fail\n" : " ok\n");
        }
        else if (!strcmp(op, "id2tagref")) {
            sscanf(line, "%*s %ld", &a);
            uint16 t = 0, r = 0;
            if (!slot_ok(a) || ANid2tagref(ids[a], &t, &r) == FAIL) printf(" fail\n"); else printf(" ok %d %d\n", (int)t, (int)r);
        }
        else if (!strcmp(op, "gettagref")) {
            sscanf(line, "%*s %ld %ld", &a, &b);
            uint16 t = 0, r = 0;
            if (ANget_tagref(anid, (int32)b, (ann_type)a, &t, &r) == FAIL) printf(" fail\n");
            else {   /* and what ANid2tagref(ANselect(index)) says about the same annotation */
                uint16 t2 = 0, r2 = 0;
                int32 id = ANselect(anid, (int32)b, (ann_type)a);
                if (id == FAIL || ANid2tagref(id, &t2, &r2) == FAIL) printf(" ok %d %d -1 -1\n", (int)t, (int)r);
                else printf(" ok %d %d %d %d\n", (int)t, (int)r, (int)t2, (int)r2);
            }
        }
        else if (!strcmp(op, "dffidlen") || !strcmp(op, "dffdslen")) {     /* one length call of the enumeration */
            sscanf(line, "%*s %ld", &a);
            int32 f = Hopen(fname, DFACC_READ, 0);
            if (f == FAIL) { printf(" fail\n"); continue; }
            int32 l = !strcmp(op, "dffidlen") ? DFANgetfidlen(f, (int)a) : DFANgetfdslen(f, (int)a);
            int lr = DFANlastref();
            Hclose(f);
            if (l < 0) printf(" fail\n"); else printf(" ok %d %d\n", (int)l, lr);
        }
        else if (!strcmp(op, "dffid") || !strcmp(op, "dffds")) {           /* one read call of the enumeration */
            sscanf(line, "%*s %ld %ld", &a, &b);
            int32 f = Hopen(fname, DFACC_READ, 0);
            if (f == FAIL) { printf(" fail\n"); continue; }
            unsigned char *buf = fresh(b);
            int32 g = !strcmp(op, "dffid") ? DFANgetfid(f, (char *)buf, (int32)b, (int)a) : DFANgetfds(f, (char *)buf, (int32)b, (int)a);
            int lr = DFANlastref();
            Hclose(f);
            if (g < 0) printf(" fail\n"); else { printf(" ok %d %d", (int)g, lr); phex(buf, b); printf("\n"); }
            free(buf);
        }
        else if (!strcmp(op, "endaccess")) {
            sscanf(line, "%*s %ld", &a);
            printf(slot_ok(a) && ANendaccess(ids[a]) != FAIL ? " ok\n" : " fail\n");
        }
        else if (!strcmp(op, "ids")) {
            int32 seen[NS]; uint16 st[NS], sr[NS]; int n = 0; char bad[200] = "";
            for (int i = 0; i < NS; i++) {
                if (ids[i] == FAIL) continue;
                int k; for (k = 0; k < n && seen[k] != ids[i]; k++) ;
                if (k < n) continue;
                uint16 t = 0, r = 0;
                if (ANid2tagref(ids[i], &t, &r) == FAIL) { snprintf(bad, sizeof bad, "id-in-slot-%d-has-no-tagref", i); continue; }
                for (k = 0; k < n; k++) if (st[k] == t && sr[k] == r) snprintf(bad, sizeof bad, "two-ids-share-%d/%d", (int)t, (int)r);
                if (ANtagref2id(anid, t, r) != ids[i]) snprintf(bad, sizeof bad, "tagref2id-of-%d/%d-is-another-id", (int)t, (int)r);
                seen[n] = ids[i]; st[n] = t; sr[n] = r; n++;
            }
            if (bad[0]) printf(" bad %s\n", bad); else printf(" ok %d\n", n);
        }
        else if (!strcmp(op, "key")) {          /* AN_CREATE_KEY / AN_KEY2TYPE / AN_KEY2REF on (type, ref) */
            sscanf(line, "%*s %ld %ld", &a, &b);
            int32 t = (int32)a; uint16 r = (uint16)b;
            int32 k = AN_CREATE_KEY(t, r);
            printf(" ok %d %d %d\n", (int)k, (int)AN_KEY2TYPE(k), (int)AN_KEY2REF(k));
        }
        else if (!strcmp(op, "cmp")) {          /* ANIanncmp */
            sscanf(line, "%*s %ld %ld", &a, &b);
            int32 x = (int32)a, y = (int32)b;
            printf(" ok %d\n", ANIanncmp(&x, &y, 0));
        }
        else if (!strcmp(op, "codec")) {        /* UINT16ENCODE then UINT16DECODE */
            sscanf(line, "%*s %ld", &a);
            uint8 bb[2], *p = bb; uint16 v = (uint16)a, w = 0;
            UINT16ENCODE(p, v);
            p = bb;
            UINT16DECODE(p, w);
            printf(" ok %d %d %d\n", (int)bb[0], (int)bb[1], (int)w);
        }
        else if (!strcmp(op, "atype2tag")) { sscanf(line, "%*s %ld", &a); printf(" ok %d\n", (int)ANatype2tag((ann_type)a)); }
        else if (!strcmp(op, "tag2atype")) { sscanf(line, "%*s %ld", &a); printf(" ok %d\n", (int)ANtag2atype((uint16)a)); }
        else if (!strcmp(op, "dfputlabel") || !strcmp(op, "dfputdesc")) {
            sscanf(line, "%*s %ld %ld %389999s", &a, &b, hex);
            int n = unhex(hex, data);
            unsigned char *buf = malloc(n + 1);
            memcpy(buf, data, n); buf[n] = 0;
            int r = !strcmp(op, "dfputlabel") ? DFANputlabel(fname, (uint16)a, (uint16)b, (char *)buf)
                                              : DFANputdesc(fname, (uint16)a, (uint16)b, (char *)buf, n);
            free(buf);
            if (r == FAIL) printf(" fail\n"); else { int lr = DFANlastref(); printf(" ok %d\n", lr); }
        }
        else if (!strcmp(op, "dfgetlabel") || !strcmp(op, "dfgetdesc")) {
            sscanf(line, "%*s %ld %ld %ld", &a, &b, &c);
            unsigned char *buf = fresh(c);
            int r = !strcmp(op, "dfgetlabel") ? DFANgetlabel(fname, (uint16)a, (uint16)b, (char *)buf, (int32)c)
                                              : DFANgetdesc(fname, (uint16)a, (uint16)b, (char *)buf, (int32)c);
            if (r == FAIL) printf(" fail\n"); else { printf(" ok"); phex(buf, c); printf("\n"); }
            free(buf);
        }
        else if (!strcmp(op, "dfgetlablen") || !strcmp(op, "dfgetdesclen")) {
            sscanf(line, "%*s %ld %ld", &a, &b);
            int32 r = !strcmp(op, "dfgetlablen") ? DFANgetlablen(fname, (uint16)a, (uint16)b) : DFANgetdesclen(fname, (uint16)a, (uint16)b);
            if (r == FAIL) printf(" fail\n"); else printf(" ok %d\n", (int)r);
        }
        else if (!strcmp(op, "dfaddfid") || !strcmp(op, "dfaddfds")) {
            sscanf(line, "%*s %389999s", hex);
            int n = unhex(hex, data);
            unsigned char *buf = malloc(n + 1);
            memcpy(buf, data, n); buf[n] = 0;
            int32 f = Hopen(fname, DFACC_RDWR, 0);
            int r = f == FAIL ? FAIL : (!strcmp(op, "dfaddfid") ? DFANaddfid(f, (char *)buf) : DFANaddfds(f, (char *)buf, n));
            int lr = DFANlastref();
            if (f != FAIL && Hclose(f) == FAIL) r = FAIL;
            free(buf);
            if (r == FAIL) printf(" fail\n"); else printf(" ok %d\n", lr);
        }
        else if (!strcmp(op, "dfgetfids") || !strcmp(op, "dfgetfdss")) {
            int lab = !strcmp(op, "dfgetfids");
            int32 f = Hopen(fname, DFACC_READ, 0);
            if (f == FAIL) { printf(" fail\n"); continue; }
            static char out[390000]; long o = 0; int n = 0, first = 1, bad = 0;
            out[0] = 0;
            for (; n < 400; n++) {
                int32 l = lab ? DFANgetfidlen(f, first) : DFANgetfdslen(f, first);
                if (l < 0) break;
                unsigned char *buf = fresh(l + 1);
                int32 g = lab ? DFANgetfid(f, (char *)buf, l + 1, first) : DFANgetfds(f, (char *)buf, l + 1, first);
                if (g < 0) { bad = 1; free(buf); break; }
                if (buf[g] != 0) bad = 2;
                o += sprintf(out + o, " ");
                if (g == 0) o += sprintf(out + o, "-");
                for (int32 i = 0; i < g && o < 380000; i++) o += sprintf(out + o, "%02x", buf[i]);
                free(buf);
                first = 0;
            }
            Hclose(f);
            if (bad) printf(" bad %d\n", bad); else printf(" ok %d%s\n", n, out);
        }
        else if (!strcmp(op, "dflablist")) {
            long ls = 8, sp = 1;
            sscanf(line, "%*s %ld %ld %ld %ld", &a, &b, &ls, &sp);
            int listsize = (int)ls;
            uint16 *refl = (uint16 *)fresh(listsize * sizeof(uint16));
            unsigned char *labs = fresh(listsize * b);
            int n = DFANlablist(fname, (uint16)a, refl, (char *)labs, listsize, (int)b, (int)sp);
            if (n == FAIL) printf(" fail\n");
            else {
                printf(" ok %d", n);
                for (int i = 0; i < n && i < listsize; i++) printf(" %d", (int)refl[i]);
                for (int i = 0; i < n && i < listsize; i++) { long k = 0; while (k < b && labs[i * b + k]) k++; phex(labs + i * b, k); }
                printf("\n");
            }
            free(refl); free(labs);
        }
        else printf(" skip\n");
        fflush(stdout);
    }
    for (cur = 0; cur < nfiles; cur++) { if (fid != FAIL) { ANend(anid); Hclose(fid); } unlink(fname); }
}

int main(int argc, char **argv)
{
    if (argc < 3) return 2;
    const char *dir = argv[1];
    FILE *f = fopen(argv[2], "r");
    if (!f) return 2;
    static char buf[400000];
    char **lines = NULL; long *lnos = NULL; long n = 0, cap = 0, ln = 0;
    while (fgets(buf, sizeof buf, f)) {
        ln++;
        if (n == cap) { cap = cap ? cap * 2 : 1024; lines = realloc(lines, cap * sizeof *lines); lnos = realloc(lnos, cap * sizeof *lnos); }
        lines[n] = strdup(buf); lnos[n] = ln; n++;
    }
    long i = 0, hno = 0;
    while (i < n) {
        long j = i + 1;
        while (j < n && strncmp(lines[j], "history", 7) != 0) j++;
        fflush(stdout);
        pid_t pid = fork();
        if (pid == 0) { run_history(dir, hno, lines + i, lnos + i, j - i); fflush(stdout); _exit(0); }
        int st = 0;
        waitpid(pid, &st, 0);
        if (!(WIFEXITED(st) && WEXITSTATUS(st) == 0)) {
            int code = WIFEXITED(st) ? WEXITSTATUS(st) : 128 + WTERMSIG(st);
            printf("%ld crash %d\n", lnos[j - 1], code);
        }
        i = j; hno++;
    }
    return 0;
}
