/* C17 harness: crash images of append-only sessions.
 * usage: drive_crash <workdir> <sessions-file>
 *
 * A sessions file holds several sessions:
 *     session <name>
 *     base <ndds>            -- ops that pre-populate a fresh file (closed cleanly afterwards)
 *     <op> ...
 *     go                     -- ops of the observed append-only session (write log recorded)
 *     <op> ...
 *     end
 * ops:
 *     put T R HEX                 Hputelement
 *     sw T R LEN HEX              Hstartwrite(LEN) + Hwrite(HEX) + Hendaccess
 *     app T R [HEX ..]            Hstartaccess(new, appendable) + one Hwrite per HEX + Hendaccess
 *                                 (no HEX: a descriptor with invalid offset/length, no data at all)
 *     hl T R BLEN NBLK HEX        HLcreate + Hwrite + Hendaccess (linked-block element)
 *     vs NAME CLASS NREC SEED     new Vdata (fields a:int32, b:uint8[3]) with NREC records
 *     vg NAME CLASS K SEED        new Vgroup with K tag/ref members
 *     sds NAME NT D0[xD1..] SEED  SDcreate + SDwritedata (+ one attribute) + SDendaccess
 *     gr NAME W H NCOMP SEED      GRcreate + GRwriteimage + GRendaccess
 *     an KIND T R HEX             ANcreate/ANcreatef + ANwriteann + ANendaccess (KIND 0 dl,1 dd,2 fl,3 fd)
 *     putn T HEX                  Hputelement(T, Hnewref(), HEX): the library chooses the reference number
 *     get T R                     Hgetelement of an existing element (reads while the session appends)
 *     cp T R GT GR                copy: Hstartwrite(T, R, length of GT/GR) reserves the space, THEN Hgetelement(GT, GR)
 *                                 reads the old element, then Hwrite + Hendaccess
 *     vg2 NAMEA NAMEB CLASS SEED  two new Vgroups attached A, B and detached B, A (descriptors not in ref order)
 *     rw T R HEX                  rewrite the record of an EXISTING element the way Vdetach / VSdetach do:
 *                                 HDreuse_tagref(T, R) + Hputelement(T, R, HEX)
 *     vsattr I SEED               attach the (I mod n)-th EXISTING Vdata for writing, VSsetattr (header grows), detach
 *     mode M                      (first op of a session) the file is opened with access mode M (3 = DFACC_RDWR default,
 *                                 7 = DFACC_ALL "open, create if it does not exist", 2 = DFACC_WRITE)
 *     dupx T R OT OR              Hdupdd(T, R, OT, OR) where T/R is ALREADY in use: must be refused and leave no trace
 *     dup T R OT OR               Hdupdd with a free new name: a second descriptor for the data of OT/OR
 *     vgattr I NAME NT SEED       attach the (I mod n)-th existing Vgroup for writing, Vsetattr(NAME, NT, 1 value), detach
 *     gr NAME W H NCOMP SEED [NT [PAL]]   optional number type and a 256-entry palette
 *     del T R                     Hdeldd of an existing element (sessions of the first sentence only)
 *     sdsnd NAME NT D0[xD1..]     SDcreate + SDendaccess, no data written (metadata-only session)
 *     sdgattr NAME SEED           SDsetattr on the file: a new global attribute
 *     sdsu NAME NT D1 NREC SEED   new SDS with an unlimited first dimension (x D1), NREC records written
 *     dfsd D0[xD1] SEED           (base only, must come first) DFSDadddata: the file is created by the DFSD interface
 *     vgadd I K SEED              attach the (I mod n)-th EXISTING Vgroup for writing, add K tag/ref members, detach
 *                                 (its record is rewritten: new space through descriptor reuse)
 *     sync                        Hsync
 *
 * The HDF stream's writes are intercepted with -Wl,--wrap=fwrite,--wrap=fputc,--wrap=fseek (stream identified by
 * device/inode) and logged in order as (offset, bytes); --wrap=HTPsync marks where a flush begins.
 * For every prefix of the log the file image (old bytes + first k writes) is materialised and, in a child
 * process, opened with the library; every PRE-EXISTING object (identified by keys taken from the old file) is
 * read back through H, V (and SD/GR/AN when the old file has such objects).
 *
 * Output (per session):
 *   S <name>
 *   E <f_end_off the library computes for the old file> <old physical size>
 *   old <hex image of the old file>
 *   def <id> <text>          (dump lines are interned; ids are per run)
 *   R0 <rc> <ids of the reference dump of the old file>
 *   W <k> <offset> <flushno> <hex>        (k-th write, flushno 0 = outside a flush)
 *   final <1|0>              (old image + all writes == file on disk after the session)
 *   P <k> <rc> <ids>         (dump of the image after the first k writes; rc 0 ok, else exit code/128+signal)
 *   X                        (end of session)
 */
#define _GNU_SOURCE
#include <stdio.h>
#include <stdlib.h>
#include <string.h>
#include <unistd.h>
#include <sys/stat.h>
#include <sys/wait.h>
#include "hdf.h"
#include "hfile_priv.h"
#include "mfhdf.h"

/* ------------------------------------------------------------------ write log (wraps) */
static int    logging;
static FILE  *log_fp;
static dev_t  t_dev;
static ino_t  t_ino;
static int    in_flush, flush_no, flush_seen_in_op;

size_t __real_fwrite(const void *p, size_t sz, size_t n, FILE *f);
int    __real_fputc(int c, FILE *f);
int    __real_fseek(FILE *f, long off, int whence);
int    __real_HTPsync(filerec_t *file_rec);

static int is_target(FILE *f)
{
    struct stat st;
    int fd;
    if (!logging || f == log_fp || f == stdout || f == stderr) return 0;
    fd = fileno(f);
    if (fd < 0 || fstat(fd, &st) != 0) return 0;
    return st.st_dev == t_dev && st.st_ino == t_ino;
}
static void log_write(FILE *f, const unsigned char *b, size_t n)
{
    long off = ftell(f);
    size_t i;
    fprintf(log_fp, "%ld %d ", off, in_flush ? flush_no : 0);
    if (n == 0) fprintf(log_fp, "-");
    for (i = 0; i < n; i++) fprintf(log_fp, "%02x", b[i]);
    fprintf(log_fp, "\n");
}
size_t __wrap_fwrite(const void *p, size_t sz, size_t n, FILE *f)
{
    if (is_target(f)) log_write(f, (const unsigned char *)p, sz * n);
    return __real_fwrite(p, sz, n, f);
}
int __wrap_fputc(int c, FILE *f)
{
    if (is_target(f)) { unsigned char b = (unsigned char)c; log_write(f, &b, 1); }
    return __real_fputc(c, f);
}
int __wrap_fseek(FILE *f, long off, int whence) { return __real_fseek(f, off, whence); }
int __wrap_HTPsync(filerec_t *file_rec)
{
    if (logging && !flush_seen_in_op) { flush_seen_in_op = 1; flush_no++; in_flush = 1; }
    return __real_HTPsync(file_rec);
}

/* ------------------------------------------------------------------ helpers */
static int unhex(const char *s, unsigned char *out)
{
    int n = 0;
    if (!s || s[0] == '-') return 0;
    while (s[0] && s[1]) { unsigned v; sscanf(s, "%2x", &v); out[n++] = (unsigned char)v; s += 2; }
    return n;
}
static unsigned rnd_state;
static unsigned rnd(void) { rnd_state = rnd_state * 1103515245u + 12345u; return (rnd_state >> 16) & 0x7fff; }

static char *hexs(const unsigned char *b, long n)
{
    char *s = malloc(2 * (n > 0 ? n : 0) + 2);
    long i;
    if (n <= 0) { strcpy(s, "-"); return s; }
    for (i = 0; i < n; i++) sprintf(s + 2 * i, "%02x", b[i]);
    return s;
}

/* ------------------------------------------------------------------ the op interpreter */
typedef struct { int32 fid, sd, gr, an; int vstarted; const char *path; } sess_t;

static int open_mode = DFACC_RDWR;
static int need_h(sess_t *s, int create, int ndds)
{
    if (s->fid != FAIL) return 0;
    s->fid = Hopen(s->path, create ? DFACC_CREATE : open_mode, (int16)ndds);
    if (s->fid == FAIL) return -1;
    if (Vstart(s->fid) == FAIL) return -1;
    s->vstarted = 1;
    return 0;
}

static int do_op(sess_t *s, char *line)
{
    char *tok[64];
    int   nt = 0;
    static unsigned char buf[1 << 16];
    char *p = strtok(line, " \t\r\n");
    while (p && nt < 64) { tok[nt++] = p; p = strtok(NULL, " \t\r\n"); }
    if (nt == 0) return 0;
    in_flush = 0; flush_seen_in_op = 0;
    if (!strcmp(tok[0], "put") && nt >= 4) {
        int n = unhex(tok[3], buf);
        if (need_h(s, 0, 0)) return -1;
        return Hputelement(s->fid, (uint16)atoi(tok[1]), (uint16)atoi(tok[2]), buf, n) == FAIL ? -1 : 0;
    }
    if (!strcmp(tok[0], "putn") && nt >= 3) {
        int n = unhex(tok[2], buf);
        uint16 ref;
        if (need_h(s, 0, 0)) return -1;
        ref = Hnewref(s->fid);
        if (ref == 0) return -1;
        return Hputelement(s->fid, (uint16)atoi(tok[1]), ref, buf, n) == FAIL ? -1 : 0;
    }
    if (!strcmp(tok[0], "get") && nt >= 3) {
        int32 len;
        if (need_h(s, 0, 0)) return -1;
        len = Hlength(s->fid, (uint16)atoi(tok[1]), (uint16)atoi(tok[2]));
        if (len == FAIL || len > (int32)sizeof buf) return -1;
        return Hgetelement(s->fid, (uint16)atoi(tok[1]), (uint16)atoi(tok[2]), buf) == FAIL ? -1 : 0;
    }
    if (!strcmp(tok[0], "cp") && nt >= 5) {
        int32 len, aid; int rc = 0;
        if (need_h(s, 0, 0)) return -1;
        len = Hlength(s->fid, (uint16)atoi(tok[3]), (uint16)atoi(tok[4]));
        if (len == FAIL || len > (int32)sizeof buf) return -1;
        aid = Hstartwrite(s->fid, (uint16)atoi(tok[1]), (uint16)atoi(tok[2]), len);
        if (aid == FAIL) return -1;
        if (Hgetelement(s->fid, (uint16)atoi(tok[3]), (uint16)atoi(tok[4]), buf) == FAIL) rc = -1;
        if (len > 0 && Hwrite(aid, len, buf) != len) rc = -1;
        if (Hendaccess(aid) == FAIL) rc = -1;
        return rc;
    }
    if (!strcmp(tok[0], "vg2") && nt >= 5) {
        int32 a, b; int rc = 0;
        if (need_h(s, 0, 0)) return -1;
        rnd_state = (unsigned)atoi(tok[4]);
        a = Vattach(s->fid, -1, "w");
        b = Vattach(s->fid, -1, "w");
        if (a == FAIL || b == FAIL) return -1;
        if (Vsetname(a, tok[1]) == FAIL || Vsetclass(a, tok[3]) == FAIL) rc = -1;
        if (Vsetname(b, tok[2]) == FAIL || Vsetclass(b, tok[3]) == FAIL) rc = -1;
        if (Vaddtagref(a, 700 + (int32)(rnd() % 5), 1 + (int32)(rnd() % 50)) == FAIL) rc = -1;
        if (Vaddtagref(b, 700 + (int32)(rnd() % 5), 1 + (int32)(rnd() % 50)) == FAIL) rc = -1;
        if (Vdetach(b) == FAIL) rc = -1;
        if (Vdetach(a) == FAIL) rc = -1;
        return rc;
    }
    if (!strcmp(tok[0], "mode") && nt >= 2) { open_mode = atoi(tok[1]); return need_h(s, 0, 0); }
    if ((!strcmp(tok[0], "dupx") || !strcmp(tok[0], "dup")) && nt >= 5) {
        int r;
        if (need_h(s, 0, 0)) return -1;
        r = Hdupdd(s->fid, (uint16)atoi(tok[1]), (uint16)atoi(tok[2]), (uint16)atoi(tok[3]), (uint16)atoi(tok[4]));
        if (!strcmp(tok[0], "dupx")) return r == FAIL ? 0 : -1;   /* the refusal is the expected result */
        return r == FAIL ? -1 : 0;
    }
    if (!strcmp(tok[0], "vgattr") && nt >= 5) {
        int32 vg, ref = -1, refs[256]; int n = 0, rc = 0;
        int32 ntp = atoi(tok[3]);
        union { float32 f; int32 i; int16 h; uint8 b[8]; } v;
        if (need_h(s, 0, 0)) return -1;
        rnd_state = (unsigned)atoi(tok[4]);
        memset(&v, 0, sizeof v);
        if (ntp == DFNT_FLOAT32) v.f = (float32)(rnd() % 1000) / 4.0f; else v.i = (int32)rnd();
        while (n < 256 && (ref = Vgetid(s->fid, ref)) != FAIL) refs[n++] = ref;
        if (n == 0) return 0;
        vg = Vattach(s->fid, refs[atoi(tok[1]) % n], "w");
        if (vg == FAIL) return -1;
        if (Vsetattr(vg, tok[2], ntp, 1, &v) == FAIL) rc = -1;
        if (Vdetach(vg) == FAIL) rc = -1;
        return rc;
    }
    if (!strcmp(tok[0], "rw") && nt >= 4) {
        int n = unhex(tok[3], buf);
        if (need_h(s, 0, 0)) return -1;
        if (HDreuse_tagref(s->fid, (uint16)atoi(tok[1]), (uint16)atoi(tok[2])) == FAIL) return -1;
        return Hputelement(s->fid, (uint16)atoi(tok[1]), (uint16)atoi(tok[2]), buf, n) == FAIL ? -1 : 0;
    }
    if (!strcmp(tok[0], "vsattr") && nt >= 3) {
        int32 vs, ref = -1, refs[256], v; int n = 0, rc = 0;
        if (need_h(s, 0, 0)) return -1;
        rnd_state = (unsigned)atoi(tok[2]); v = (int32)rnd();
        while (n < 256 && (ref = VSgetid(s->fid, ref)) != FAIL) refs[n++] = ref;
        if (n == 0) return 0;
        vs = VSattach(s->fid, refs[atoi(tok[1]) % n], "w");
        if (vs == FAIL) return -1;
        if (VSsetattr(vs, _HDF_VDATA, "crashattr", DFNT_INT32, 1, &v) == FAIL) rc = -1;
        if (VSdetach(vs) == FAIL) rc = -1;
        return rc;
    }
    if (!strcmp(tok[0], "del") && nt >= 3) {
        if (need_h(s, 0, 0)) return -1;
        return Hdeldd(s->fid, (uint16)atoi(tok[1]), (uint16)atoi(tok[2])) == FAIL ? -1 : 0;
    }
    if (!strcmp(tok[0], "dfsd")) return 0; /* handled before the file is opened */
    if (!strcmp(tok[0], "sdsnd") && nt >= 4) {
        int32 dims[8], sdsid; int rank = 0;
        char *d = tok[3];
        if (s->sd == FAIL) { s->sd = SDstart(s->path, DFACC_RDWR); if (s->sd == FAIL) return -1; }
        while (*d && rank < 8) { dims[rank] = (int32)strtol(d, &d, 10); rank++; if (*d == 'x') d++; }
        sdsid = SDcreate(s->sd, tok[1], atoi(tok[2]), rank, dims);
        if (sdsid == FAIL) return -1;
        return SDendaccess(sdsid) == FAIL ? -1 : 0;
    }
    if (!strcmp(tok[0], "sdgattr") && nt >= 3) {
        int32 v;
        if (s->sd == FAIL) { s->sd = SDstart(s->path, DFACC_RDWR); if (s->sd == FAIL) return -1; }
        rnd_state = (unsigned)atoi(tok[2]); v = (int32)rnd();
        return SDsetattr(s->sd, tok[1], DFNT_INT32, 1, &v) == FAIL ? -1 : 0;
    }
    if (!strcmp(tok[0], "sdsu") && nt >= 6) {
        int32 dims[2], start[2] = {0, 0}, edges[2], sdsid; int i, rc = 0; long n;
        int32 ntp = atoi(tok[2]);
        if (s->sd == FAIL) { s->sd = SDstart(s->path, DFACC_RDWR); if (s->sd == FAIL) return -1; }
        dims[0] = SD_UNLIMITED; dims[1] = atoi(tok[3]);
        edges[0] = atoi(tok[4]); edges[1] = dims[1];
        rnd_state = (unsigned)atoi(tok[5]);
        sdsid = SDcreate(s->sd, tok[1], ntp, 2, dims);
        if (sdsid == FAIL) return -1;
        n = (long)edges[0] * edges[1] * DFKNTsize(ntp);
        for (i = 0; i < n && i < (long)sizeof buf; i++) buf[i] = (unsigned char)rnd();
        if (edges[0] > 0 && SDwritedata(sdsid, start, NULL, edges, buf) == FAIL) rc = -1;
        if (SDendaccess(sdsid) == FAIL) rc = -1;
        return rc;
    }
    if (!strcmp(tok[0], "sw") && nt >= 5) {
        int32 aid; int n = unhex(tok[4], buf); int rc = 0;
        if (need_h(s, 0, 0)) return -1;
        aid = Hstartwrite(s->fid, (uint16)atoi(tok[1]), (uint16)atoi(tok[2]), atoi(tok[3]));
        if (aid == FAIL) return -1;
        if (n > 0 && Hwrite(aid, n, buf) != n) rc = -1;
        if (Hendaccess(aid) == FAIL) rc = -1;
        return rc;
    }
    if (!strcmp(tok[0], "app") && nt >= 3) {
        int32 aid; int i, rc = 0;
        if (need_h(s, 0, 0)) return -1;
        aid = Hstartaccess(s->fid, (uint16)atoi(tok[1]), (uint16)atoi(tok[2]), DFACC_RDWR | DFACC_APPENDABLE);
        if (aid == FAIL) return -1;
        for (i = 3; i < nt; i++) { int n = unhex(tok[i], buf); if (n > 0 && Hwrite(aid, n, buf) != n) rc = -1; }
        if (Hendaccess(aid) == FAIL) rc = -1;
        return rc;
    }
    if (!strcmp(tok[0], "hl") && nt >= 6) {
        int32 aid; int n = unhex(tok[5], buf); int rc = 0;
        if (need_h(s, 0, 0)) return -1;
        aid = HLcreate(s->fid, (uint16)atoi(tok[1]), (uint16)atoi(tok[2]), atoi(tok[3]), atoi(tok[4]));
        if (aid == FAIL) return -1;
        if (n > 0 && Hwrite(aid, n, buf) != n) rc = -1;
        if (Hendaccess(aid) == FAIL) rc = -1;
        return rc;
    }
    if (!strcmp(tok[0], "vs") && nt >= 5) {
        int32 vs; int nrec = atoi(tok[3]); int i, rc = 0;
        unsigned char *rec;
        if (need_h(s, 0, 0)) return -1;
        rnd_state = (unsigned)atoi(tok[4]);
        vs = VSattach(s->fid, -1, "w");
        if (vs == FAIL) return -1;
        if (VSsetname(vs, tok[1]) == FAIL || VSsetclass(vs, tok[2]) == FAIL) rc = -1;
        if (VSfdefine(vs, "a", DFNT_INT32, 1) == FAIL || VSfdefine(vs, "b", DFNT_UINT8, 3) == FAIL) rc = -1;
        if (VSsetfields(vs, "a,b") == FAIL) rc = -1;
        rec = malloc(7 * (nrec > 0 ? nrec : 1));
        for (i = 0; i < 7 * nrec; i++) rec[i] = (unsigned char)rnd();
        if (nrec > 0 && VSwrite(vs, rec, nrec, FULL_INTERLACE) != nrec) rc = -1;
        free(rec);
        if (VSdetach(vs) == FAIL) rc = -1;
        return rc;
    }
    if (!strcmp(tok[0], "vg") && nt >= 5) {
        int32 vg; int k = atoi(tok[3]); int i, rc = 0;
        if (need_h(s, 0, 0)) return -1;
        rnd_state = (unsigned)atoi(tok[4]);
        vg = Vattach(s->fid, -1, "w");
        if (vg == FAIL) return -1;
        if (Vsetname(vg, tok[1]) == FAIL || Vsetclass(vg, tok[2]) == FAIL) rc = -1;
        for (i = 0; i < k; i++)
            if (Vaddtagref(vg, 700 + (int32)(rnd() % 5), 1 + (int32)(rnd() % 50)) == FAIL) rc = -1;
        if (Vdetach(vg) == FAIL) rc = -1;
        return rc;
    }
    if (!strcmp(tok[0], "vgadd") && nt >= 4) {
        int32 vg, ref = -1, refs[256]; int n = 0, k = atoi(tok[2]), i, rc = 0;
        if (need_h(s, 0, 0)) return -1;
        rnd_state = (unsigned)atoi(tok[3]);
        while (n < 256 && (ref = Vgetid(s->fid, ref)) != FAIL) refs[n++] = ref;
        if (n == 0) return 0;
        vg = Vattach(s->fid, refs[atoi(tok[1]) % n], "w");
        if (vg == FAIL) return -1;
        for (i = 0; i < k; i++)
            if (Vaddtagref(vg, 710 + (int32)(rnd() % 5), 1 + (int32)(rnd() % 50)) == FAIL) rc = -1;
        if (Vdetach(vg) == FAIL) rc = -1;
        return rc;
    }
    if (!strcmp(tok[0], "sds") && nt >= 5) {
        int32 dims[8], start[8], sdsid; int rank = 0, i, rc = 0; long n = 1;
        int32 ntp = atoi(tok[2]);
        char *d = tok[3];
        if (s->sd == FAIL) { s->sd = SDstart(s->path, DFACC_RDWR); if (s->sd == FAIL) return -1; }
        while (*d && rank < 8) { dims[rank] = (int32)strtol(d, &d, 10); start[rank] = 0; rank++; if (*d == 'x') d++; }
        for (i = 0; i < rank; i++) n *= dims[i];
        rnd_state = (unsigned)atoi(tok[4]);
        sdsid = SDcreate(s->sd, tok[1], ntp, rank, dims);
        if (sdsid == FAIL) return -1;
        n *= DFKNTsize(ntp);
        for (i = 0; i < n && i < (long)sizeof buf; i++) buf[i] = (unsigned char)rnd();
        if (SDwritedata(sdsid, start, NULL, dims, buf) == FAIL) rc = -1;
        if (rnd() & 1) { int32 v = (int32)rnd(); if (SDsetattr(sdsid, "att", DFNT_INT32, 1, &v) == FAIL) rc = -1; }
        if (SDendaccess(sdsid) == FAIL) rc = -1;
        return rc;
    }
    if (!strcmp(tok[0], "gr") && nt >= 6) {
        int32 dims[2], start[2] = {0, 0}, ri; int ncomp = atoi(tok[4]); int i, rc = 0; long n;
        if (need_h(s, 0, 0)) return -1;
        if (s->gr == FAIL) { s->gr = GRstart(s->fid); if (s->gr == FAIL) return -1; }
        dims[0] = atoi(tok[2]); dims[1] = atoi(tok[3]);
        rnd_state = (unsigned)atoi(tok[5]);
        ri = GRcreate(s->gr, tok[1], ncomp, nt >= 7 ? atoi(tok[6]) : DFNT_UINT8, MFGR_INTERLACE_PIXEL, dims);
        if (ri == FAIL) return -1;
        n = (long)dims[0] * dims[1] * ncomp * DFKNTsize(nt >= 7 ? atoi(tok[6]) : DFNT_UINT8);
        for (i = 0; i < n && i < (long)sizeof buf; i++) buf[i] = (unsigned char)rnd();
        if (GRwriteimage(ri, start, NULL, dims, buf) == FAIL) rc = -1;
        if (nt >= 8 && atoi(tok[7])) {   /* a palette of its own (it has a number-type element too) */
            static uint8 pal[768]; int32 lut = GRgetlutid(ri, 0);
            for (i = 0; i < 768; i++) pal[i] = (uint8)rnd();
            if (lut == FAIL || GRwritelut(lut, 3, DFNT_UINT8, MFGR_INTERLACE_PIXEL, 256, pal) == FAIL) rc = -1;
        }
        if (GRendaccess(ri) == FAIL) rc = -1;
        return rc;
    }
    if (!strcmp(tok[0], "an") && nt >= 5) {
        int kind = atoi(tok[1]); int32 ann; int n = unhex(tok[4], buf); int rc = 0;
        ann_type at = kind == 0 ? AN_DATA_LABEL : kind == 1 ? AN_DATA_DESC : kind == 2 ? AN_FILE_LABEL : AN_FILE_DESC;
        if (need_h(s, 0, 0)) return -1;
        if (s->an == FAIL) { s->an = ANstart(s->fid); if (s->an == FAIL) return -1; }
        ann = kind < 2 ? ANcreate(s->an, (uint16)atoi(tok[2]), (uint16)atoi(tok[3]), at) : ANcreatef(s->an, at);
        if (ann == FAIL) return -1;
        if (ANwriteann(ann, (char *)buf, n) == FAIL) rc = -1;
        if (ANendaccess(ann) == FAIL) rc = -1;
        return rc;
    }
    if (!strcmp(tok[0], "sync")) {
        if (need_h(s, 0, 0)) return -1;
        return Hsync(s->fid) == FAIL ? -1 : 0;
    }
    return -2;
}

static int end_session(sess_t *s)
{
    int rc = 0;
    in_flush = 0; flush_seen_in_op = 0;
    if (s->sd != FAIL && SDend(s->sd) == FAIL) rc = -1;
    in_flush = 0; flush_seen_in_op = 0;
    if (s->gr != FAIL && GRend(s->gr) == FAIL) rc = -1;
    in_flush = 0; flush_seen_in_op = 0;
    if (s->an != FAIL && ANend(s->an) == FAIL) rc = -1;
    in_flush = 0; flush_seen_in_op = 0;
    if (s->fid != FAIL) {
        if (s->vstarted && Vend(s->fid) == FAIL) rc = -1;
        in_flush = 0; flush_seen_in_op = 0;
        if (Hclose(s->fid) == FAIL) rc = -1;
    }
    in_flush = 0;
    return rc;
}

/* ------------------------------------------------------------------ dump of pre-existing objects */
/* keys: lines "H tag ref", "VS ref", "VG ref", "SD n nglob", "GR n", "AN nfl nfd ndl ndd" */
static void make_keys(const char *path, FILE *out)
{
    int32 fid = Hopen(path, DFACC_READ, 0);
    uint16 ft = 0, fr = 0; int32 off, len;
    int32 ref;
    int has_sd = 0, has_gr = 0, has_an = 0;
    if (fid == FAIL) { fprintf(out, "FAILOPEN\n"); return; }
    /* every descriptor: first call of Hfind starts at the head when *find_tag == 0 && *find_ref == 0 */
    while (Hfind(fid, DFTAG_WILDCARD, DFREF_WILDCARD, &ft, &fr, &off, &len, DF_FORWARD) == SUCCEED) {
        uint16 bt = BASETAG(ft);
        if (ft == DFTAG_NULL || ft == DFTAG_FREE) continue;
        fprintf(out, "H %u %u\n", (unsigned)bt, (unsigned)fr);
        if (bt == DFTAG_NDG || bt == DFTAG_SDG) has_sd = 1;
        if (bt == DFTAG_RIG || bt == DFTAG_RI8 || bt == DFTAG_RI) has_gr = 1;
        if (bt == DFTAG_FID || bt == DFTAG_FD || bt == DFTAG_DIL || bt == DFTAG_DIA) has_an = 1;
    }
    Vstart(fid);
    ref = -1;
    while ((ref = VSgetid(fid, ref)) != FAIL) fprintf(out, "VS %d\n", (int)ref);
    ref = -1;
    while ((ref = Vgetid(fid, ref)) != FAIL) {
        char cls[512] = "";
        int32 vg = Vattach(fid, ref, "r");
        fprintf(out, "VG %d\n", (int)ref);
        if (vg != FAIL) {
            Vgetclass(vg, cls);
            if (!strcmp(cls, "CDF0.0")) has_sd = 1;
            if (!strcmp(cls, "RIG0.0")) has_gr = 1;
            Vdetach(vg);
        }
    }
    if (has_gr) {
        int32 gr = GRstart(fid), n = 0, na = 0;
        if (gr != FAIL) { GRfileinfo(gr, &n, &na); fprintf(out, "GR %d\n", (int)n); GRend(gr); }
    }
    if (has_an) {
        int32 an = ANstart(fid), a = 0, b = 0, c = 0, d = 0;
        if (an != FAIL) { ANfileinfo(an, &a, &b, &c, &d); fprintf(out, "AN %d %d %d %d\n", (int)a, (int)b, (int)c, (int)d); ANend(an); }
    }
    Vend(fid);
    Hclose(fid);
    if (has_sd) {
        int32 sd = SDstart(path, DFACC_READ), n = 0, na = 0;
        if (sd != FAIL) { SDfileinfo(sd, &n, &na); fprintf(out, "SD %d %d\n", (int)n, (int)na); SDend(sd); }
    }
}

static void dump_by_keys(const char *path, const char *keyfile, FILE *out)
{
    FILE *kf = fopen(keyfile, "r");
    char line[256];
    int32 fid = Hopen(path, DFACC_READ, 0);
    int vstarted = 0;
    if (fid == FAIL) { fprintf(out, "open fail\n"); fclose(kf); return; }
    fprintf(out, "open ok\n");
    while (fgets(line, sizeof line, kf)) {
        int a = 0, b = 0, c = 0, d = 0;
        if (sscanf(line, "H %d %d", &a, &b) == 2) {
            int32 len = Hlength(fid, (uint16)a, (uint16)b);
            if (len == FAIL) fprintf(out, "H %d %d nolength\n", a, b);
            else {
                unsigned char *m = malloc(len > 0 ? len : 1);
                int32 got = len > 0 ? Hgetelement(fid, (uint16)a, (uint16)b, m) : 0;
                char *h = hexs(m, got);
                fprintf(out, "H %d %d %d %d %s\n", a, b, (int)len, (int)got, h);
                free(h); free(m);
            }
        }
        else if (sscanf(line, "VS %d", &a) == 1) {
            int32 vs, n = 0, il = 0, sz = 0;
            char fields[4096] = "", name[512] = "", cls[512] = "";
            if (!vstarted) { Vstart(fid); vstarted = 1; }
            vs = VSattach(fid, a, "r");
            if (vs == FAIL) { fprintf(out, "VS %d noattach\n", a); continue; }
            if (VSinquire(vs, &n, &il, fields, &sz, name) == FAIL) fprintf(out, "VS %d noinquire\n", a);
            else {
                unsigned char *m = malloc((size_t)(n > 0 ? n : 1) * (sz > 0 ? sz : 1));
                int32 got = 0;
                char *h;
                VSgetclass(vs, cls);
                if (n > 0 && fields[0] && VSsetfields(vs, fields) != FAIL) got = VSread(vs, m, n, FULL_INTERLACE);
                h = hexs(m, got > 0 ? (long)got * sz : 0);
                fprintf(out, "VS %d [%s] [%s] %d %d %d [%s] %d %s\n", a, name, cls, (int)n, (int)il, (int)sz, fields, (int)got, h);
                free(h); free(m);
            }
            VSdetach(vs);
        }
        else if (sscanf(line, "VG %d", &a) == 1) {
            int32 vg, n, i;
            char name[512] = "", cls[512] = "";
            if (!vstarted) { Vstart(fid); vstarted = 1; }
            vg = Vattach(fid, a, "r");
            if (vg == FAIL) { fprintf(out, "VG %d noattach\n", a); continue; }
            Vgetname(vg, name); Vgetclass(vg, cls);
            n = Vntagrefs(vg);
            fprintf(out, "VG %d [%s] [%s] %d", a, name, cls, (int)n);
            for (i = 0; i < n; i++) { int32 t = 0, r = 0; Vgettagref(vg, i, &t, &r); fprintf(out, " %d/%d", (int)t, (int)r); }
            fprintf(out, "\n");
            Vdetach(vg);
        }
        else if (sscanf(line, "GR %d", &a) == 1) {
            int32 gr, n = 0, na = 0, i;
            if (!vstarted) { Vstart(fid); vstarted = 1; }
            gr = GRstart(fid);
            if (gr == FAIL) { fprintf(out, "GR nostart\n"); continue; }
            GRfileinfo(gr, &n, &na);
            fprintf(out, "GRinfo atleast %d\n", n >= a ? a : (int)n);
            for (i = 0; i < a; i++) {
                int32 ri = GRselect(gr, i), nc = 0, ntp = 0, il = 0, dims[2] = {0, 0}, nat = 0, start[2] = {0, 0};
                char name[512] = "";
                if (ri == FAIL) { fprintf(out, "GR %d noselect\n", (int)i); continue; }
                if (GRgetiminfo(ri, name, &nc, &ntp, &il, dims, &nat) == FAIL) fprintf(out, "GR %d noinfo\n", (int)i);
                else {
                    long sz = (long)dims[0] * dims[1] * nc * DFKNTsize(ntp);
                    unsigned char *m = calloc(sz > 0 ? sz : 1, 1);
                    int rc = GRreadimage(ri, start, NULL, dims, m);
                    char *h = hexs(m, rc == FAIL ? 0 : sz);
                    fprintf(out, "GR %d [%s] %d %d %d %dx%d %d %d %s\n", (int)i, name, (int)nc, (int)ntp, (int)il, (int)dims[0], (int)dims[1], (int)nat, rc, h);
                    free(h); free(m);
                }
                GRendaccess(ri);
            }
            GRend(gr);
        }
        else if (sscanf(line, "AN %d %d %d %d", &a, &b, &c, &d) == 4) {
            int32 an, cnt[4], i, k;
            ann_type ty[4] = {AN_FILE_LABEL, AN_FILE_DESC, AN_DATA_LABEL, AN_DATA_DESC};
            cnt[0] = a; cnt[1] = b; cnt[2] = c; cnt[3] = d;
            if (!vstarted) { Vstart(fid); vstarted = 1; }
            an = ANstart(fid);
            if (an == FAIL) { fprintf(out, "AN nostart\n"); continue; }
            for (k = 0; k < 4; k++)
                for (i = 0; i < cnt[k]; i++) {
                    int32 ann = ANselect(an, i, ty[k]), len;
                    uint16 t = 0, r = 0;
                    if (ann == FAIL) { fprintf(out, "AN %d %d noselect\n", (int)k, (int)i); continue; }
                    len = ANannlen(ann);
                    ANid2tagref(ann, &t, &r);
                    if (len == FAIL) fprintf(out, "AN %d %d nolen\n", (int)k, (int)i);
                    else {
                        char *m = calloc(len + 2, 1);
                        int rc = ANreadann(ann, m, len + 1);
                        char *h = hexs((unsigned char *)m, rc == FAIL ? 0 : len);
                        fprintf(out, "AN %d %d %u/%u %d %d %s\n", (int)k, (int)i, (unsigned)t, (unsigned)r, (int)len, rc, h);
                        free(h); free(m);
                    }
                    ANendaccess(ann);
                }
            ANend(an);
        }
    }
    if (vstarted) Vend(fid);
    Hclose(fid);
    /* SD last, through its own open */
    rewind(kf);
    while (fgets(line, sizeof line, kf)) {
        int a = 0, b = 0;
        if (sscanf(line, "SD %d %d", &a, &b) == 2) {
            int32 sd = SDstart(path, DFACC_READ), n = 0, na = 0, i, j;
            if (sd == FAIL) { fprintf(out, "SD nostart\n"); continue; }
            SDfileinfo(sd, &n, &na);
            fprintf(out, "SDinfo atleast %d\n", n >= a ? a : (int)n);
            for (i = 0; i < a; i++) {
                int32 id = SDselect(sd, i), rank = 0, dims[H4_MAX_VAR_DIMS], ntp = 0, nat = 0, start[H4_MAX_VAR_DIMS];
                char name[512] = "";
                if (id == FAIL) { fprintf(out, "SD %d noselect\n", (int)i); continue; }
                if (SDgetinfo(id, name, &rank, dims, &ntp, &nat) == FAIL) fprintf(out, "SD %d noinfo\n", (int)i);
                else {
                    long sz = DFKNTsize(ntp);
                    unsigned char *m;
                    char *h;
                    int rc;
                    fprintf(out, "SD %d [%s] %d %d %d", (int)i, name, (int)rank, (int)ntp, (int)nat);
                    for (j = 0; j < rank; j++) { fprintf(out, " %d", (int)dims[j]); sz *= dims[j]; start[j] = 0; }
                    m = calloc(sz > 0 ? sz : 1, 1);
                    rc = sz > 0 ? SDreaddata(id, start, NULL, dims, m) : 0;
                    h = hexs(m, rc == FAIL ? 0 : sz);
                    fprintf(out, " %d %s\n", rc, h);
                    free(h); free(m);
                    for (j = 0; j < nat; j++) {
                        char an_[512] = ""; int32 at = 0, cnt = 0;
                        if (SDattrinfo(id, j, an_, &at, &cnt) != FAIL) {
                            unsigned char *v = calloc((size_t)cnt * DFKNTsize(at) + 1, 1);
                            SDreadattr(id, j, v);
                            h = hexs(v, (long)cnt * DFKNTsize(at));
                            fprintf(out, "SDA %d %d [%s] %d %d %s\n", (int)i, (int)j, an_, (int)at, (int)cnt, h);
                            free(h); free(v);
                        }
                    }
                }
                SDendaccess(id);
            }
            SDend(sd);
        }
    }
    fclose(kf);
}

/* ------------------------------------------------------------------ line interning */
static char **tab; static long ntab, captab;
static long intern(const char *s)
{
    long i;
    for (i = 0; i < ntab; i++) if (!strcmp(tab[i], s)) return i;
    if (ntab == captab) { captab = captab ? 2 * captab : 256; tab = realloc(tab, captab * sizeof *tab); }
    tab[ntab] = strdup(s);
    printf("def %ld %s\n", ntab, s);
    return ntab++;
}
static void print_dump_file(const char *tag, long k, int rc, const char *file)
{
    FILE *f = fopen(file, "r");
    static char line[1 << 20];
    long ids[4096]; int n = 0, i;
    while (f && fgets(line, sizeof line, f)) {
        size_t l = strlen(line);
        while (l && (line[l - 1] == '\n' || line[l - 1] == '\r')) line[--l] = 0;
        if (n < 4096) ids[n++] = intern(line);
    }
    if (f) fclose(f);
    if (k >= 0) printf("%s %ld %d", tag, k, rc); else printf("%s %d", tag, rc);
    for (i = 0; i < n; i++) printf(" %ld", ids[i]);
    printf("\n");
}

static int child_status(int st) { return WIFEXITED(st) ? WEXITSTATUS(st) : 128 + WTERMSIG(st); }

/* ------------------------------------------------------------------ one session */
typedef struct { long off; int flush; unsigned char *b; long n; } went_t;

static void run_session(const char *dir, const char *name, char **base, int nbase, int ndds, char **ops, int nops)
{
    char path[600], img[600], keys[600], dump[600], logp[600];
    pid_t pid; int st, i;
    struct stat sb;
    unsigned char *old, *cur; long oldn, curn, capn;
    went_t *w = NULL; long nw = 0, capw = 0;
    FILE *f;
    snprintf(path, sizeof path, "%s/%s.hdf", dir, name);
    snprintf(img, sizeof img, "%s/%s.img.hdf", dir, name);
    snprintf(keys, sizeof keys, "%s/%s.keys", dir, name);
    snprintf(dump, sizeof dump, "%s/%s.dump", dir, name);
    snprintf(logp, sizeof logp, "%s/%s.log", dir, name);
    unlink(path);
    printf("S %s\n", name);
    /* 1. base file */
    fflush(stdout);
    if ((pid = fork()) == 0) {
        sess_t s = {FAIL, FAIL, FAIL, FAIL, 0, path};
        int rc = 0, made = 0;
        for (i = 0; i < nbase; i++)
            if (!strncmp(base[i], "dfsd ", 5)) {   /* the file is created by the DFSD interface */
                int32 dims[4]; int rank = 0, k; long n = 1; static float32 fdata[4096];
                char *l = strdup(base[i]), *d = strtok(l + 5, " \t\r\n"), *sd = strtok(NULL, " \t\r\n");
                while (d && *d && rank < 4) { dims[rank] = (int32)strtol(d, &d, 10); rank++; if (*d == 'x') d++; }
                for (k = 0; k < rank; k++) n *= dims[k];
                rnd_state = sd ? (unsigned)atoi(sd) : 1u;
                for (k = 0; k < n && k < 4096; k++) fdata[k] = (float32)(rnd() % 1000) / 8.0f;
                if (DFSDsetNT(DFNT_FLOAT32) == FAIL || DFSDsetdims(rank, dims) == FAIL) rc = 4;
                for (k = 0; k < rank; k++) {   /* with dimension scales (an SD session cannot extend a DFSD file without) */
                    static float32 sc[4096]; int j;
                    for (j = 0; j < dims[k] && j < 4096; j++) sc[j] = (float32)(j + 1);
                    if (DFSDsetdimscale(k + 1, dims[k], sc) == FAIL) rc = 4;
                }
                if (DFSDadddata(path, rank, dims, fdata) == FAIL) rc = 4;
                made = 1; free(l);
            }
        if (need_h(&s, made ? 0 : 1, ndds)) _exit(3);
        for (i = 0; i < nbase; i++) { char *l = strdup(base[i]); int r = do_op(&s, l); if (r) { fprintf(stderr, "opfail base (%d): %s", r, base[i]); rc = 4; } free(l); }
        if (end_session(&s)) rc = 5;
        _exit(rc);
    }
    waitpid(pid, &st, 0);
    if (child_status(st) != 0) { printf("basefail %d\nX\n", child_status(st)); return; }
    /* 2. old image, keys, reference dump, library's idea of the old end */
    stat(path, &sb);
    oldn = sb.st_size;
    old = malloc(oldn + 1);
    f = fopen(path, "rb"); if (fread(old, 1, oldn, f) != (size_t)oldn) { printf("basefail read\nX\n"); return; } fclose(f);
    fflush(stdout);
    if ((pid = fork()) == 0) {
        int32 fid = Hopen(path, DFACC_READ, 0);
        filerec_t *fr = fid == FAIL ? NULL : HAatom_object(fid);
        FILE *kf;
        printf("E %ld %ld\n", fr ? (long)fr->f_end_off : -1L, oldn);
        if (fid != FAIL) Hclose(fid);
        kf = fopen(keys, "w"); make_keys(path, kf); fclose(kf);
        fflush(stdout);
        _exit(0);
    }
    waitpid(pid, &st, 0);
    { char *h = hexs(old, oldn); printf("old %s\n", h); free(h); }
    fflush(stdout);
    if ((pid = fork()) == 0) { FILE *o = fopen(dump, "w"); dump_by_keys(path, keys, o); fclose(o); _exit(0); }
    waitpid(pid, &st, 0);
    print_dump_file("R0", -1, child_status(st), dump);
    /* 3. the observed session */
    fflush(stdout);
    if ((pid = fork()) == 0) {
        sess_t s = {FAIL, FAIL, FAIL, FAIL, 0, path};
        int rc = 0;
        t_dev = sb.st_dev; t_ino = sb.st_ino;
        log_fp = fopen(logp, "w");
        logging = 1;
        for (i = 0; i < nops; i++) { char *l = strdup(ops[i]); int r = do_op(&s, l); if (r) { fprintf(stderr, "opfail go (%d): %s", r, ops[i]); rc = 4; } free(l); }
        if (end_session(&s)) rc = 5;
        logging = 0;
        fclose(log_fp);
        _exit(rc);
    }
    waitpid(pid, &st, 0);
    printf("session %d\n", child_status(st));
    /* 4. read the log */
    f = fopen(logp, "r");
    {
        static char line[1 << 18];
        while (f && fgets(line, sizeof line, f)) {
            long off; int fl; char *h;
            char *sp1 = strchr(line, ' '), *sp2 = sp1 ? strchr(sp1 + 1, ' ') : NULL;
            if (!sp2) continue;
            off = atol(line); fl = atoi(sp1 + 1); h = sp2 + 1;
            h[strcspn(h, "\r\n")] = 0;
            if (nw == capw) { capw = capw ? 2 * capw : 64; w = realloc(w, capw * sizeof *w); }
            w[nw].off = off; w[nw].flush = fl;
            w[nw].b = malloc(strlen(h) / 2 + 1);
            w[nw].n = unhex(h, w[nw].b);
            printf("W %ld %ld %d %s\n", nw, off, fl, h);
            nw++;
        }
        if (f) fclose(f);
    }
    /* 5. every prefix */
    capn = oldn + 16; cur = malloc(capn); memcpy(cur, old, oldn); curn = oldn;
    for (i = 0; i <= nw; i++) {
        if (i > 0) {
            went_t *e = &w[i - 1];
            long end = e->off + e->n;
            if (end > capn) { capn = 2 * end + 16; cur = realloc(cur, capn); }
            if (e->off > curn) memset(cur + curn, 0, e->off - curn);
            memcpy(cur + e->off, e->b, e->n);
            if (end > curn) curn = end;
        }
        f = fopen(img, "wb"); fwrite(cur, 1, curn, f); fclose(f);
        fflush(stdout);
        if ((pid = fork()) == 0) { FILE *o = fopen(dump, "w"); dump_by_keys(img, keys, o); fclose(o); _exit(0); }
        waitpid(pid, &st, 0);
        print_dump_file("P", i, child_status(st), dump);
    }
    /* 6. is the log complete?  (image after all writes == file on disk) */
    {
        int same = 0;
        if (stat(path, &sb) == 0 && sb.st_size == curn) {
            unsigned char *now = malloc(curn + 1);
            f = fopen(path, "rb");
            if (f && fread(now, 1, curn, f) == (size_t)curn && memcmp(now, cur, curn) == 0) same = 1;
            if (f) fclose(f);
            free(now);
        }
        printf("final %d %ld\n", same, curn);
    }
    printf("X\n");
    unlink(path); unlink(img); unlink(keys); unlink(dump); unlink(logp);
    for (i = 0; i < nw; i++) free(w[i].b);
    free(w); free(old); free(cur);
}

int main(int argc, char **argv)
{
    static char buf[1 << 18];
    char **lines = NULL; long n = 0, cap = 0, i;
    FILE *f;
    if (argc < 3) return 2;
    f = fopen(argv[2], "r");
    if (!f) return 2;
    while (fgets(buf, sizeof buf, f)) {
        if (n == cap) { cap = cap ? 2 * cap : 1024; lines = realloc(lines, cap * sizeof *lines); }
        lines[n++] = strdup(buf);
    }
    fclose(f);
    i = 0;
    while (i < n) {
        char name[256]; int ndds = 16;
        long b0, b1, o0, o1;
        if (sscanf(lines[i], "session %200s", name) != 1) { i++; continue; }
        i++;
        if (i < n && sscanf(lines[i], "base %d", &ndds) == 1) i++;
        b0 = i;
        while (i < n && strncmp(lines[i], "go", 2) != 0 && strncmp(lines[i], "end", 3) != 0) i++;
        b1 = i;
        if (i < n && !strncmp(lines[i], "go", 2)) i++;
        o0 = i;
        while (i < n && strncmp(lines[i], "end", 3) != 0 && strncmp(lines[i], "session", 7) != 0) i++;
        o1 = i;
        if (i < n && !strncmp(lines[i], "end", 3)) i++;
        /* each session in its own process: fresh library state, interning table kept by the parent of the dumps */
        run_session(argv[1], name, lines + b0, (int)(b1 - b0), ndds, lines + o0, (int)(o1 - o0));
        fflush(stdout);
    }
    return 0;
}
