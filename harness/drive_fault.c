/* C16 harness: fault injection under the library's stdio calls.
 *
 * usage: drive_fault <workdir> <jobfile>
 * Each job line:   <workload> <mode> <k> <variant> [<k2>]        (k2: a second single fault at stdio call k2)
 *   mode   n = no fault, s = single fault at stdio call k, t = sticky (call k and every later call fail)
 *   k      0-based index of the stdio call (counted from the moment the workload proper starts; preparation of
 *          input files for read/update workloads runs before with injection off)
 *   variant bit 0: 0 = failing fread/fwrite transfer nothing, errno EIO; 1 = they transfer a strict prefix, errno ENOSPC
 *           bit 1 (2): DD caching switched off for all files (Hcache(CACHE_ALL_FILES, FALSE)): DD blocks are written through
 *           bit 2 (4): the program ignores failures: every remaining call is still issued (with whatever ids it has)
 * or               fn <scenario> <function> <mode> <k>      (function-level run for the R-vs-M correspondence, see below)
 *
 * Linked with -Wl,--wrap=fopen,fread,fwrite,fseek,ftell,fflush,fclose.  Fault semantics of the interposer (the
 * same as the device of coq/FaultModel.v): a failing fwrite writes nothing (variant 1: a strict prefix) and returns
 * a short count; a failing fflush / fclose discards what stdio still buffers (__fpurge) and returns EOF, fclose
 * still releases the stream; a failing fseek leaves the position and returns -1; a failing fread returns a short
 * count; a failing fopen returns NULL; a failing ftell returns -1.
 *
 * Every job runs in its own child process (fresh library state; crash / sanitizer / hang containment).  A job that is
 * still running after JOB_LIMIT_S seconds is killed and reported with status=timeout; after MAX_HUNG such jobs the
 * remaining jobs of the file are not run ("<lineno> skipped-after-hangs <job>").
 * One output line per job:
 *   <lineno> wl=<w> mode=<m> k=<k> var=<v> status=<ok|exit:N|asan|ubsan|sig:N|timeout> ncalls=<n> nfaults=<n>
 *            fkind=<stdio kind of the first failed call or -> rets=<name:rc:ok,...> allok=<0|1>
 *            same=<0|1> firstdiff=<offset|-1> size=<bytes> datasame=<0|1> nondet=<0|1>
 *            where=<library functions on the stack at the first fault, innermost first> kinds=<one letter per call>
 * `same` compares the bytes of the resulting file with those of the fault-free run of the same workload (done
 * first, twice, in the same invocation: nondet=1 if those two differ); `datasame` compares a hash of all data the
 * workload's read calls delivered.
 */
#define _GNU_SOURCE
#include <stdio.h>
#include <stdio_ext.h>
#include <stdlib.h>
#include <string.h>
#include <unistd.h>
#include <errno.h>
#include <ctype.h>
#include <fcntl.h>
#include <signal.h>
#include <sys/mman.h>
#include <sys/stat.h>
#include <sys/wait.h>
#ifdef C16_FN
#include "hfile.c"      /* the library's own source (-I<repo>/hdf/src): gives access to its static functions */
#include "hfiledd.c"
#endif
#include "hdf.h"
#include "hfile_priv.h"
#include "mfhdf.h"

/* ------------------------------------------------------------------------------------------------ */
/* shared result area (parent <-> child)                                                             */
#define MAXCALLS 20000
#define MAXRETS 400
struct ret { char name[28]; long rc; int ok; };
struct result {
    long ncalls, nfaults;
    char kinds[MAXCALLS + 1];
    int  nrets;
    struct ret rets[MAXRETS];
    unsigned long long datahash;
    int  finished;
    void *pcs[24];        /* return addresses at the first injected fault (symbolized by the parent when needed) */
    int   npcs;
    /* function-level runs */
    char pre[600], post[300];
};
static struct result *RES;

/* ------------------------------------------------------------------------------------------------ */
/* the interposer                                                                                     */
static int  armed;
static long fail_at = -1, fail_at2 = -1;     /* fail_at2: an optional second, independent single fault */
static int  sticky, variant;

FILE  *__real_fopen(const char *, const char *);
size_t __real_fread(void *, size_t, size_t, FILE *);
size_t __real_fwrite(const void *, size_t, size_t, FILE *);
int    __real_fseek(FILE *, long, int);
long   __real_ftell(FILE *);
int    __real_fflush(FILE *);
int    __real_fclose(FILE *);

void __sanitizer_print_stack_trace(void);
void __sanitizer_symbolize_pc(void *pc, const char *fmt, char *out, size_t size);
#include <execinfo.h>
/* names of the library functions on the stack (diagnostic only: used to tell a recorded known finding from any other
   violation; never compared between runs) */
static void where_am_i(void) { RES->npcs = backtrace(RES->pcs, 24); }
static void where_names(const struct result *r, char *out, size_t size)
{
    int len = 0;
    out[0] = 0;
    for (int i = 2; i < r->npcs && len < (int)size - 48; i++) {
        char nm[128] = "";
        __sanitizer_symbolize_pc(r->pcs[i], "%f", nm, sizeof nm);
        if (!nm[0] || !strncmp(nm, "__wrap_", 7) || !strncmp(nm, "__interceptor", 13) || !strcmp(nm, "tick")) continue;
        if (!strncmp(nm, "wl_", 3) || !strcmp(nm, "main") || !strcmp(nm, "run_child") || !strcmp(nm, "fn_body")) break;
        len += snprintf(out + len, size - len, "%s%s", len ? "<" : "", nm);
    }
}
static int tick(char kind)
{
    if (!armed) return 0;
    long i  = RES->ncalls++;
    int  f  = (fail_at >= 0 && (i == fail_at || (sticky && i > fail_at))) || (fail_at2 >= 0 && i == fail_at2);
    if (i < MAXCALLS) RES->kinds[i] = f ? (char)toupper(kind) : kind;
    if (f) {
        RES->nfaults++;
        if (RES->nfaults == 1) where_am_i();
        if (getenv("C16_TRACE") && RES->nfaults == 1) __sanitizer_print_stack_trace();   /* where the fault hits */
        errno = variant ? ENOSPC : EIO;
    }
    return f;
}
static int tracked(FILE *f) { return f != stdout && f != stderr && f != stdin && f != NULL; }

FILE *__wrap_fopen(const char *p, const char *m)
{
    if (tick('o')) return NULL;
    return __real_fopen(p, m);
}
size_t __wrap_fread(void *b, size_t sz, size_t n, FILE *f)
{
    if (tracked(f) && tick('r')) {
        if (variant && sz * n > 1) return __real_fread(b, 1, (sz * n) / 2, f) / (sz ? sz : 1);
        return 0;
    }
    return __real_fread(b, sz, n, f);
}
size_t __wrap_fwrite(const void *b, size_t sz, size_t n, FILE *f)
{
    if (tracked(f) && tick('w')) {
        if (variant && sz * n > 1) return __real_fwrite(b, 1, (sz * n) / 2, f) / (sz ? sz : 1);
        return 0;
    }
    return __real_fwrite(b, sz, n, f);
}
int __wrap_fseek(FILE *f, long off, int wh)
{
    if (tracked(f) && tick('s')) return -1;
    return __real_fseek(f, off, wh);
}
long __wrap_ftell(FILE *f)
{
    if (tracked(f) && tick('t')) return -1;
    return __real_ftell(f);
}
int __wrap_fflush(FILE *f)
{
    if (tracked(f) && tick('f')) { __fpurge(f); return EOF; }
    return __real_fflush(f);
}
int __wrap_fclose(FILE *f)
{
    if (tracked(f) && tick('c')) { __fpurge(f); __real_fclose(f); return EOF; }
    return __real_fclose(f);
}

/* ------------------------------------------------------------------------------------------------ */
/* recording of API results                                                                           */
static int recording;
static int keepgoing;     /* variant bit 4: the program ignores failures and issues every remaining call */
static void rec(const char *name, long rc, int ok)
{
    if (!recording) return;
    int i = RES->nrets;
    if (i >= MAXRETS) return;
    strncpy(RES->rets[i].name, name, sizeof RES->rets[i].name - 1);
    RES->rets[i].rc = rc;
    RES->rets[i].ok = ok;
    RES->nrets = i + 1;
}
static int opt_rec(const char *name, long rc) { rec(name, rc, rc != FAIL ? 1 : 2); return rc != FAIL; }
static void hdata(const void *p, long n)
{
    if (!recording) return;
    const unsigned char *b = p;
    unsigned long long h = RES->datahash ? RES->datahash : 1469598103934665603ULL;
    for (long i = 0; i < n; i++) { h ^= b[i]; h *= 1099511628211ULL; }
    h ^= (unsigned long long)n; h *= 1099511628211ULL;
    RES->datahash = h;
}
/* T: a call whose failure value is FAIL; on failure skip to the clean-up part of the workload, as a careful
   program would.  TV: keep the returned id.  TN: a call that must deliver exactly n.  E: release an id. */
#define T(name, expr)        do { long _r = (long)(expr); rec(name, _r, _r != FAIL); if (_r == FAIL && !keepgoing) goto done; } while (0)
#define TV(var, name, expr)  do { (var) = (expr); rec(name, (long)(var), (var) != FAIL); if ((var) == FAIL && !keepgoing) goto done; } while (0)
#define TN(name, expr, n)    do { long _r = (long)(expr); rec(name, _r, _r == (long)(n)); if (_r != (long)(n) && !keepgoing) goto done; } while (0)
#define E(var, name, fn)     do { if ((var) != FAIL) { long _r = (long)fn(var); rec(name, _r, _r != FAIL); (var) = FAIL; if (_r == FAIL && !keepgoing) goto done; } } while (0)
/* OPT: a call that may legitimately return FAIL in the fault-free run too (e.g. "no fill value set", "not found"):
   recorded with flag 2 when it fails; the parent counts it as a visible failure unless the fault-free run failed at
   the same place.  Evaluates to true when the call delivered a value. */
#define OPT(name, expr)      (opt_rec(name, (long)(expr)))
#define FIN(var, name, fn)   do { if ((var) != FAIL) { long _r = (long)fn(var); rec(name, _r, _r != FAIL); (var) = FAIL; } } while (0)

static unsigned char pat[4096];
static void fillpat(void) { for (int i = 0; i < (int)sizeof pat; i++) pat[i] = (unsigned char)(i * 7 + (i >> 5) + 1); }

/* ------------------------------------------------------------------------------------------------ */
/* workloads: H level                                                                                 */
static void wl_h_put_g(const char *p, int cache, int ndds)
{
    int32 fid = FAIL, aid = FAIL;
    TV(fid, "Hopen", Hopen(p, DFACC_CREATE, (int16)ndds));
    if (cache) T("Hcache", Hcache(fid, TRUE));
    TN("Hputelement", Hputelement(fid, 100, 1, pat, 40), 40);
    TN("Hputelement", Hputelement(fid, 100, 2, pat + 40, 60), 60);
    TN("Hputelement", Hputelement(fid, 101, 1, pat + 100, 10), 10);
    TN("Hputelement", Hputelement(fid, 101, 2, pat + 110, 200), 200);
    TV(aid, "Hstartwrite", Hstartwrite(fid, 102, 1, 50));
    TN("Hwrite", Hwrite(aid, 50, pat + 300), 50);
    T("Hseek", Hseek(aid, 10, DF_START));
    TN("Hwrite", Hwrite(aid, 20, pat + 400), 20);
    E(aid, "Hendaccess", Hendaccess);
    TN("Hputelement", Hputelement(fid, 103, 1, pat + 500, 33), 33);
done:
    FIN(aid, "Hendaccess", Hendaccess);
    FIN(fid, "Hclose", Hclose);
}
static void wl_h_put(const char *p) { wl_h_put_g(p, 0, 4); }
static void wl_h_putc(const char *p) { wl_h_put_g(p, 1, 4); }
static void wl_h_put16(const char *p) { wl_h_put_g(p, 1, 16); }

static void wl_h_linked_g(const char *p, int cache)
{
    int32 fid = FAIL, aid = FAIL;
    TV(fid, "Hopen", Hopen(p, DFACC_CREATE, 5));
    if (cache) T("Hcache", Hcache(fid, TRUE));
    TV(aid, "HLcreate", HLcreate(fid, 103, 1, 16, 2));
    TN("Hwrite", Hwrite(aid, 100, pat), 100);
    T("Hseek", Hseek(aid, 10, DF_START));
    TN("Hwrite", Hwrite(aid, 20, pat + 200), 20);
    E(aid, "Hendaccess", Hendaccess);
    TV(aid, "Hstartwrite", Hstartwrite(fid, 104, 1, 10));
    TN("Hwrite", Hwrite(aid, 10, pat + 300), 10);
    E(aid, "Hendaccess", Hendaccess);
    TN("Hputelement", Hputelement(fid, 105, 1, pat + 320, 25), 25);
    /* appending to an element that is not at the end of the file promotes it to linked blocks */
    TV(aid, "Hstartaccess", Hstartaccess(fid, 104, 1, DFACC_WRITE | DFACC_APPENDABLE));
    T("Hseek", Hseek(aid, 0, DF_END));
    TN("Hwrite", Hwrite(aid, 30, pat + 350), 30);
    E(aid, "Hendaccess", Hendaccess);
done:
    FIN(aid, "Hendaccess", Hendaccess);
    FIN(fid, "Hclose", Hclose);
}
static void wl_h_linked(const char *p) { wl_h_linked_g(p, 0); }
static void wl_h_linkedc(const char *p) { wl_h_linked_g(p, 1); }

static void wl_h_update_body(const char *p)
{
    int32 fid = FAIL;
    TV(fid, "Hopen", Hopen(p, DFACC_RDWR, 0));
    TN("Hputelement", Hputelement(fid, 100, 1, pat + 1000, 40), 40);
    TN("Hputelement", Hputelement(fid, 110, 1, pat + 1100, 25), 25);
    T("Hdeldd", Hdeldd(fid, 101, 1));
    TN("Hputelement", Hputelement(fid, 111, 7, pat + 1200, 90), 90);
done:
    FIN(fid, "Hclose", Hclose);
}
static void wl_h_read_body(const char *p)
{
    int32 fid = FAIL, aid = FAIL;
    unsigned char buf[400];
    TV(fid, "Hopen", Hopen(p, DFACC_READ, 0));
    TN("Hlength", Hlength(fid, 105, 1), 25);
    TN("Hgetelement", Hgetelement(fid, 105, 1, buf), 25);
    hdata(buf, 25);
    TV(aid, "Hstartread", Hstartread(fid, 103, 1));
    TN("Hread", Hread(aid, 40, buf), 40);
    hdata(buf, 40);
    T("Hseek", Hseek(aid, 5, DF_START));
    TN("Hread", Hread(aid, 0, buf), 95);
    hdata(buf, 95);
    E(aid, "Hendaccess", Hendaccess);
    TV(aid, "Hstartread", Hstartread(fid, 104, 1));
    TN("Hread", Hread(aid, 0, buf), 40);
    hdata(buf, 40);
    E(aid, "Hendaccess", Hendaccess);
done:
    FIN(aid, "Hendaccess", Hendaccess);
    FIN(fid, "Hclose", Hclose);
}

/* ------------------------------------------------------------------------------------------------ */
/* workloads: Vdata / Vgroup                                                                          */
static void wl_v_write(const char *p)
{
    int32 fid = FAIL, vs = FAIL, vg = FAIL, started = FAIL, vsref = 0;
    int32 attr[2] = {7, -9};
    TV(fid, "Hopen", Hopen(p, DFACC_CREATE, 0));
    TV(started, "Vstart", Vstart(fid) == FAIL ? FAIL : fid);
    TV(vs, "VSattach", VSattach(fid, -1, "w"));
    T("VSsetname", VSsetname(vs, "table"));
    T("VSsetclass", VSsetclass(vs, "c16"));
    T("VSfdefine", VSfdefine(vs, "a", DFNT_INT32, 1));
    T("VSfdefine", VSfdefine(vs, "b", DFNT_FLOAT32, 2));
    T("VSsetfields", VSsetfields(vs, "a,b"));
    TN("VSwrite", VSwrite(vs, pat, 20, FULL_INTERLACE), 20);
    T("VSsetattr", VSsetattr(vs, _HDF_VDATA, "att", DFNT_INT32, 2, attr));
    vsref = VSQueryref(vs);
    E(vs, "VSdetach", VSdetach);
    TV(vg, "Vattach", Vattach(fid, -1, "w"));
    T("Vsetname", Vsetname(vg, "group"));
    T("Vsetclass", Vsetclass(vg, "c16g"));
    T("Vaddtagref", Vaddtagref(vg, DFTAG_VH, vsref));
    T("Vaddtagref", Vaddtagref(vg, 100, 1));
    T("Vaddtagref", Vaddtagref(vg, 100, 2));
    T("Vsetattr", Vsetattr(vg, "gatt", DFNT_INT32, 2, attr));
    E(vg, "Vdetach", Vdetach);
done:
    FIN(vs, "VSdetach", VSdetach);
    FIN(vg, "Vdetach", Vdetach);
    FIN(started, "Vend", Vend);
    FIN(fid, "Hclose", Hclose);
}
static void wl_v_update_body(const char *p)
{
    int32 fid = FAIL, vs = FAIL, vg = FAIL, started = FAIL, r;
    TV(fid, "Hopen", Hopen(p, DFACC_RDWR, 0));
    TV(started, "Vstart", Vstart(fid) == FAIL ? FAIL : fid);
    TV(r, "VSfind", VSfind(fid, "table") == 0 ? FAIL : VSfind(fid, "table"));
    TV(vs, "VSattach", VSattach(fid, r, "w"));
    T("VSsetfields", VSsetfields(vs, "a,b"));
    TN("VSseek", VSseek(vs, 19), 19);
    TN("VSwrite", VSwrite(vs, pat + 900, 6, FULL_INTERLACE), 6);
    E(vs, "VSdetach", VSdetach);
    TV(r, "Vfind", Vfind(fid, "group") == 0 ? FAIL : Vfind(fid, "group"));
    TV(vg, "Vattach", Vattach(fid, r, "w"));
    T("Vaddtagref", Vaddtagref(vg, 101, 1));
    T("Vsetname", Vsetname(vg, "group-renamed"));
    E(vg, "Vdetach", Vdetach);
done:
    FIN(vs, "VSdetach", VSdetach);
    FIN(vg, "Vdetach", Vdetach);
    FIN(started, "Vend", Vend);
    FIN(fid, "Hclose", Hclose);
}
static void wl_v_read_body(const char *p)
{
    int32 fid = FAIL, vs = FAIL, vg = FAIL, started = FAIL, r, n;
    int32 tags[8], refs[8], attr[2];
    unsigned char buf[400];
    TV(fid, "Hopen", Hopen(p, DFACC_READ, 0));
    TV(started, "Vstart", Vstart(fid) == FAIL ? FAIL : fid);
    TV(r, "VSfind", VSfind(fid, "table") == 0 ? FAIL : VSfind(fid, "table"));
    TV(vs, "VSattach", VSattach(fid, r, "r"));
    TN("VSelts", VSelts(vs), 20);
    T("VSsetfields", VSsetfields(vs, "a,b"));
    TN("VSread", VSread(vs, buf, 20, FULL_INTERLACE), 20);
    hdata(buf, 240);
    T("VSgetattr", VSgetattr(vs, _HDF_VDATA, 0, attr));
    hdata(attr, 8);
    E(vs, "VSdetach", VSdetach);
    TV(r, "Vfind", Vfind(fid, "group") == 0 ? FAIL : Vfind(fid, "group"));
    TV(vg, "Vattach", Vattach(fid, r, "r"));
    TV(n, "Vntagrefs", Vntagrefs(vg));
    TN("Vgettagrefs", Vgettagrefs(vg, tags, refs, 8), n);
    hdata(tags, n * 4);
    hdata(refs, n * 4);
    T("Vgetattr", Vgetattr(vg, 0, attr));
    hdata(attr, 8);
    E(vg, "Vdetach", Vdetach);
done:
    FIN(vs, "VSdetach", VSdetach);
    FIN(vg, "Vdetach", Vdetach);
    FIN(started, "Vend", Vend);
    FIN(fid, "Hclose", Hclose);
}

/* ------------------------------------------------------------------------------------------------ */
/* workloads: SD                                                                                      */
static void wl_sd_write(const char *p)
{
    int32 sd = FAIL, s = FAIL, dim;
    int32 dims[2] = {4, 5}, st[2] = {0, 0}, ed[2] = {4, 5};
    int32 udims[1] = {SD_UNLIMITED}, ust[1] = {0}, ued[1] = {3};
    int32 scale[4] = {10, 20, 30, 40};
    float f3[3] = {1.5f, -2.25f, 1e10f};
    TV(sd, "SDstart", SDstart(p, DFACC_CREATE));
    TV(s, "SDcreate", SDcreate(sd, "a", DFNT_INT32, 2, dims));
    T("SDwritedata", SDwritedata(s, st, NULL, ed, pat));
    T("SDsetattr", SDsetattr(s, "units", DFNT_CHAR8, 5, "metre"));
    TV(dim, "SDgetdimid", SDgetdimid(s, 0));
    T("SDsetdimname", SDsetdimname(dim, "rows"));
    T("SDsetdimscale", SDsetdimscale(dim, 4, DFNT_INT32, scale));
    E(s, "SDendaccess", SDendaccess);
    TV(s, "SDcreate", SDcreate(sd, "b", DFNT_FLOAT32, 1, udims));
    T("SDwritedata", SDwritedata(s, ust, NULL, ued, f3));
    E(s, "SDendaccess", SDendaccess);
    T("SDsetattr", SDsetattr(sd, "title", DFNT_CHAR8, 9, "c16 write"));
done:
    FIN(s, "SDendaccess", SDendaccess);
    FIN(sd, "SDend", SDend);
}
static void wl_sd_chunk(const char *p)
{
    int32 sd = FAIL, s = FAIL;
    int32 dims[2] = {6, 7}, st[2] = {0, 0}, ed[2] = {6, 7}, org[2] = {1, 0};
    HDF_CHUNK_DEF cd;
    comp_info     ci;
    TV(sd, "SDstart", SDstart(p, DFACC_CREATE));
    /* chunked, cache of one chunk */
    TV(s, "SDcreate", SDcreate(sd, "c", DFNT_INT16, 2, dims));
    memset(&cd, 0, sizeof cd);
    cd.chunk_lengths[0] = 2; cd.chunk_lengths[1] = 3;
    T("SDsetchunk", SDsetchunk(s, cd, HDF_CHUNK));
    T("SDsetchunkcache", SDsetchunkcache(s, 1, 0));
    T("SDwritedata", SDwritedata(s, st, NULL, ed, pat));
    E(s, "SDendaccess", SDendaccess);
    /* chunked + deflate */
    TV(s, "SDcreate", SDcreate(sd, "d", DFNT_INT16, 2, dims));
    memset(&cd, 0, sizeof cd);
    cd.comp.chunk_lengths[0] = 3; cd.comp.chunk_lengths[1] = 4;
    cd.comp.comp_type = COMP_CODE_DEFLATE; cd.comp.cinfo.deflate.level = 6;
    T("SDsetchunk", SDsetchunk(s, cd, HDF_CHUNK | HDF_COMP));
    T("SDwritechunk", SDwritechunk(s, org, pat + 64));
    T("SDwritedata", SDwritedata(s, st, NULL, ed, pat + 128));
    E(s, "SDendaccess", SDendaccess);
    /* contiguous + RLE */
    TV(s, "SDcreate", SDcreate(sd, "e", DFNT_UINT8, 2, dims));
    memset(&ci, 0, sizeof ci);
    T("SDsetcompress", SDsetcompress(s, COMP_CODE_RLE, &ci));
    T("SDwritedata", SDwritedata(s, st, NULL, ed, pat + 256));
    E(s, "SDendaccess", SDendaccess);
    /* contiguous + deflate */
    TV(s, "SDcreate", SDcreate(sd, "f", DFNT_UINT8, 2, dims));
    memset(&ci, 0, sizeof ci); ci.deflate.level = 1;
    T("SDsetcompress", SDsetcompress(s, COMP_CODE_DEFLATE, &ci));
    T("SDwritedata", SDwritedata(s, st, NULL, ed, pat + 512));
    E(s, "SDendaccess", SDendaccess);
done:
    FIN(s, "SDendaccess", SDendaccess);
    FIN(sd, "SDend", SDend);
}
static void wl_sd_update_body(const char *p)
{
    int32 sd = FAIL, s = FAIL, idx;
    int32 st[2] = {1, 2}, ed[2] = {2, 3}, ust[1] = {3}, ued[1] = {2};
    float f2[2] = {3.5f, 4.5f};
    TV(sd, "SDstart", SDstart(p, DFACC_RDWR));
    TV(s, "SDselect", SDselect(sd, 0));
    T("SDwritedata", SDwritedata(s, st, NULL, ed, pat + 700));
    T("SDsetattr", SDsetattr(s, "valid", DFNT_INT32, 2, pat + 800));
    E(s, "SDendaccess", SDendaccess);
    TV(idx, "SDnametoindex", SDnametoindex(sd, "b"));
    TV(s, "SDselect", SDselect(sd, idx));
    T("SDwritedata", SDwritedata(s, ust, NULL, ued, f2));
    E(s, "SDendaccess", SDendaccess);
done:
    FIN(s, "SDendaccess", SDendaccess);
    FIN(sd, "SDend", SDend);
}
static void wl_sd_read_body(const char *p)
{
    int32 sd = FAIL, s = FAIL, nds, nat, rank, dims[4], nt, na;
    char  name[80];
    unsigned char buf[600];
    int32 st[2] = {0, 0};
    TV(sd, "SDstart", SDstart(p, DFACC_READ));
    T("SDfileinfo", SDfileinfo(sd, &nds, &nat));
    hdata(&nds, 4); hdata(&nat, 4);
    for (int i = 0; i < nds && i < 6; i++) {
        TV(s, "SDselect", SDselect(sd, i));
        T("SDgetinfo", SDgetinfo(s, name, &rank, dims, &nt, &na));
        hdata(dims, rank * 4);
        memset(buf, 0, sizeof buf);
        T("SDreaddata", SDreaddata(s, st, NULL, dims, buf));
        hdata(buf, sizeof buf);
        if (na > 0) {
            memset(buf, 0, 64);
            T("SDreadattr", SDreadattr(s, 0, buf));
            hdata(buf, 64);
        }
        E(s, "SDendaccess", SDendaccess);
    }
done:
    FIN(s, "SDendaccess", SDendaccess);
    FIN(sd, "SDend", SDend);
}

/* ------------------------------------------------------------------------------------------------ */
/* workloads: GR                                                                                      */
static void wl_gr_write(const char *p)
{
    int32 fid = FAIL, gr = FAIL, ri = FAIL, pal;
    int32 dims[2] = {5, 4}, st[2] = {0, 0};
    comp_info ci;
    TV(fid, "Hopen", Hopen(p, DFACC_CREATE, 0));
    TV(gr, "GRstart", GRstart(fid));
    TV(ri, "GRcreate", GRcreate(gr, "img", 3, DFNT_UINT8, MFGR_INTERLACE_PIXEL, dims));
    T("GRwriteimage", GRwriteimage(ri, st, NULL, dims, pat));
    T("GRsetattr", GRsetattr(ri, "iatt", DFNT_INT16, 3, pat + 100));
    TV(pal, "GRgetlutid", GRgetlutid(ri, 0));
    T("GRwritelut", GRwritelut(pal, 3, DFNT_UINT8, MFGR_INTERLACE_PIXEL, 256, pat + 200));
    E(ri, "GRendaccess", GRendaccess);
    TV(ri, "GRcreate", GRcreate(gr, "zimg", 1, DFNT_UINT16, MFGR_INTERLACE_PIXEL, dims));
    memset(&ci, 0, sizeof ci); ci.deflate.level = 6;
    T("GRsetcompress", GRsetcompress(ri, COMP_CODE_DEFLATE, &ci));
    T("GRwriteimage", GRwriteimage(ri, st, NULL, dims, pat + 1000));
    E(ri, "GRendaccess", GRendaccess);
    T("GRsetattr", GRsetattr(gr, "fatt", DFNT_CHAR8, 4, "file"));
done:
    FIN(ri, "GRendaccess", GRendaccess);
    FIN(gr, "GRend", GRend);
    FIN(fid, "Hclose", Hclose);
}
static void wl_gr_read_body(const char *p)
{
    int32 fid = FAIL, gr = FAIL, ri = FAIL, pal, nimg, nat, nc, nt, il, dims[2], na, st[2] = {0, 0};
    char  name[80];
    unsigned char buf[1024];
    TV(fid, "Hopen", Hopen(p, DFACC_READ, 0));
    TV(gr, "GRstart", GRstart(fid));
    T("GRfileinfo", GRfileinfo(gr, &nimg, &nat));
    hdata(&nimg, 4); hdata(&nat, 4);
    for (int i = 0; i < nimg && i < 4; i++) {
        TV(ri, "GRselect", GRselect(gr, i));
        T("GRgetiminfo", GRgetiminfo(ri, name, &nc, &nt, &il, dims, &na));
        hdata(dims, 8);
        memset(buf, 0, sizeof buf);
        T("GRreadimage", GRreadimage(ri, st, NULL, dims, buf));
        hdata(buf, 200);
        if (na > 0) { memset(buf, 0, 64); T("GRgetattr", GRgetattr(ri, 0, buf)); hdata(buf, 64); }
        if (i == 0) {
            TV(pal, "GRgetlutid", GRgetlutid(ri, 0));
            memset(buf, 0, sizeof buf);
            T("GRreadlut", GRreadlut(pal, buf));
            hdata(buf, 768);
        }
        E(ri, "GRendaccess", GRendaccess);
    }
done:
    FIN(ri, "GRendaccess", GRendaccess);
    FIN(gr, "GRend", GRend);
    FIN(fid, "Hclose", Hclose);
}

/* ------------------------------------------------------------------------------------------------ */
/* workloads: AN                                                                                      */
static void wl_an_write(const char *p)
{
    int32 fid = FAIL, an = FAIL, a = FAIL;
    TV(fid, "Hopen", Hopen(p, DFACC_CREATE, 0));
    TN("Hputelement", Hputelement(fid, 100, 1, pat, 12), 12);
    TV(an, "ANstart", ANstart(fid));
    TV(a, "ANcreatef", ANcreatef(an, AN_FILE_LABEL));
    T("ANwriteann", ANwriteann(a, "file label one", 14));
    E(a, "ANendaccess", ANendaccess);
    TV(a, "ANcreatef", ANcreatef(an, AN_FILE_DESC));
    T("ANwriteann", ANwriteann(a, "a longer file description, c16", 30));
    E(a, "ANendaccess", ANendaccess);
    TV(a, "ANcreate", ANcreate(an, 100, 1, AN_DATA_LABEL));
    T("ANwriteann", ANwriteann(a, "label of 100/1", 14));
    E(a, "ANendaccess", ANendaccess);
    TV(a, "ANcreate", ANcreate(an, 100, 1, AN_DATA_DESC));
    T("ANwriteann", ANwriteann(a, "description of element 100/1", 28));
    E(a, "ANendaccess", ANendaccess);
done:
    FIN(a, "ANendaccess", ANendaccess);
    FIN(an, "ANend", ANend);
    FIN(fid, "Hclose", Hclose);
}
static void wl_an_read_body(const char *p)
{
    int32 fid = FAIL, an = FAIL, a = FAIL, n[4], len;
    char  buf[200];
    ann_type ty[4] = {AN_FILE_LABEL, AN_FILE_DESC, AN_DATA_LABEL, AN_DATA_DESC};
    TV(fid, "Hopen", Hopen(p, DFACC_READ, 0));
    TV(an, "ANstart", ANstart(fid));
    T("ANfileinfo", ANfileinfo(an, &n[0], &n[1], &n[2], &n[3]));
    hdata(n, 16);
    for (int i = 0; i < 4; i++) {
        if (n[i] < 1) continue;
        TV(a, "ANselect", ANselect(an, 0, ty[i]));
        TV(len, "ANannlen", ANannlen(a));
        memset(buf, 0, sizeof buf);
        T("ANreadann", ANreadann(a, buf, 199));
        hdata(buf, 200);
        E(a, "ANendaccess", ANendaccess);
    }
done:
    FIN(a, "ANendaccess", ANendaccess);
    FIN(an, "ANend", ANend);
    FIN(fid, "Hclose", Hclose);
}

/* ------------------------------------------------------------------------------------------------ */
/* read / update workloads: the input file is prepared first, with injection and recording off        */
static void prep(void (*w)(const char *), const char *p)
{
    int a = armed, r = recording;
    armed = 0; recording = 0;
    w(p);
    armed = a; recording = r;
}
static void wl_h_update(const char *p) { prep(wl_h_put, p); wl_h_update_body(p); }
static void wl_h_updatec(const char *p) { prep(wl_h_putc, p); wl_h_update_body(p); }
static void wl_h_read(const char *p) { prep(wl_h_linked, p); wl_h_read_body(p); }
static void wl_v_update(const char *p) { prep(wl_v_write, p); wl_v_update_body(p); }
static void wl_v_read(const char *p) { prep(wl_v_write, p); wl_v_read_body(p); }
static void wl_sd_update(const char *p) { prep(wl_sd_write, p); wl_sd_update_body(p); }
static void wl_sd_read(const char *p) { prep(wl_sd_write, p); wl_sd_read_body(p); }
static void wl_sd_cread(const char *p) { prep(wl_sd_chunk, p); wl_sd_read_body(p); }
static void wl_gr_read(const char *p) { prep(wl_gr_write, p); wl_gr_read_body(p); }
static void wl_an_read(const char *p) { prep(wl_an_write, p); wl_an_read_body(p); }

#include "drive_fault_wl2.h"
#include "drive_fault_wl3.h"
#include "drive_fault_wl4.h"

static struct { const char *name; void (*fn)(const char *); } WL[] = {
    {"h_put", wl_h_put}, {"h_putc", wl_h_putc}, {"h_put16", wl_h_put16}, {"h_linked", wl_h_linked},
    {"h_linkedc", wl_h_linkedc}, {"h_update", wl_h_update}, {"h_updatec", wl_h_updatec}, {"h_read", wl_h_read},
    {"v_write", wl_v_write}, {"v_update", wl_v_update}, {"v_read", wl_v_read},
    {"sd_write", wl_sd_write}, {"sd_chunk", wl_sd_chunk}, {"sd_update", wl_sd_update}, {"sd_read", wl_sd_read},
    {"sd_cread", wl_sd_cread}, {"gr_write", wl_gr_write}, {"gr_read", wl_gr_read},
    {"an_write", wl_an_write}, {"an_read", wl_an_read},
    {"sd_dims", wl_sd_dims}, {"sd_inq", wl_sd_inq}, {"sd_cinq", wl_sd_cinq}, {"h_special", wl_h_special},
    {"h_inq", wl_h_inq}, {"v_attr", wl_v_attr}, {"v_inq", wl_v_inq}, {"v_inq1", wl_v_inq1},
    {"gr_more", wl_gr_more}, {"gr_inq", wl_gr_inq}, {"gr_inq1", wl_gr_inq1},
    {"sd_scalar", wl_sd_scalar}, {"sd_sread", wl_sd_sread}, {"nc_write", wl_nc_write}, {"nc_update", wl_nc_update},
    {"nc_read", wl_nc_read}, {"h_append", wl_h_append}, {"v_append", wl_v_append}, {"sd_append", wl_sd_append},
    {"sd_wrinq", wl_sd_wrinq}, {"gr_wrinq", wl_gr_wrinq}, {"v_wrinq", wl_v_wrinq}, {"h_two", wl_h_two},
    {"sd_two", wl_sd_two}, {"v_two", wl_v_two},
};
#define NWL ((int)(sizeof WL / sizeof WL[0]))

/* ------------------------------------------------------------------------------------------------ */
struct image { unsigned char *b; long n; };
static struct image slurp(const char *p)
{
    struct image im = {NULL, -1};
    int fd = open(p, O_RDONLY);
    if (fd < 0) return im;
    struct stat sb;
    fstat(fd, &sb);
    im.n = sb.st_size;
    im.b = malloc(im.n + 1);
    long got = 0;
    while (got < im.n) { long r = read(fd, im.b + got, im.n - got); if (r <= 0) break; got += r; }
    close(fd);
    return im;
}
static long imgdiff(struct image a, struct image b)
{
    if (a.n < 0 && b.n < 0) return -1;
    if (a.n < 0 || b.n < 0) return 0;
    long m = a.n < b.n ? a.n : b.n;
    for (long i = 0; i < m; i++) if (a.b[i] != b.b[i]) return i;
    return a.n == b.n ? -1 : m;
}

struct outcome { char status[32]; struct image img; struct result res; };

#define JOB_LIMIT_S 3
#define MAX_HUNG 3               /* after this many hung jobs the rest of the job file is skipped (reported as such) */
static int nhung;
static long job_k2 = -1;
static void run_child(const char *dir, void (*body)(const char *, void *), void *arg, long k, int md, int var,
                      struct outcome *o)
{
    char path[600];
    snprintf(path, sizeof path, "%s/w.hdf", dir);
    unlink(path);
    memset(RES, 0, sizeof *RES);
    __real_fflush(stdout);
    pid_t pid = getenv("C16_NOFORK") && k != -1 ? 0 : fork();   /* C16_NOFORK: debugging aid (gdb) */
    if (pid == 0) {
        alarm(JOB_LIMIT_S);      /* a fault-free job takes milliseconds: a job still running after this is a hang */
        fail_at = (md == 'n') ? -1 : k;
        fail_at2 = (md == 'n') ? -1 : job_k2;
        sticky = md == 't';
        variant = var & 1;
        keepgoing = (var & 4) != 0;
        if (var & 2) Hcache(CACHE_ALL_FILES, FALSE);     /* write-through DD blocks for every file */
        body(path, arg);
        RES->finished = 1;
        armed = 0;
        exit(0);     /* runs the library's atexit shutdown (HPend), as in a real program */
    }
    int st = 0;
    waitpid(pid, &st, 0);
    if (WIFEXITED(st)) {
        int c = WEXITSTATUS(st);
        if (c == 0 && RES->finished) strcpy(o->status, "ok");
        else if (c == 97) strcpy(o->status, "asan");
        else if (c == 98) strcpy(o->status, "ubsan");
        else snprintf(o->status, sizeof o->status, "exit:%d", c);
    }
    else if (WIFSIGNALED(st) && WTERMSIG(st) == SIGALRM) { strcpy(o->status, "timeout"); nhung++; }
    else snprintf(o->status, sizeof o->status, "sig:%d", WIFSIGNALED(st) ? WTERMSIG(st) : -1);
    o->res = *RES;
    o->img = slurp(path);
}

static void wl_body(const char *path, void *arg)
{
    void (*fn)(const char *) = (void (*)(const char *))arg;
    armed = 1; recording = 1;
    fn(path);
}

#ifdef C16_FN
#include "drive_fault_fn.h"
#endif

static struct { int have; struct outcome o; int nondet; } BASE2[NWL][2];     /* [workload][DD caching off] */

int main(int argc, char **argv)
{
    if (argc < 3) return 2;
    const char *dir = argv[1];
    FILE *jf = __real_fopen(argv[2], "r");
    if (!jf) return 2;
    RES = mmap(NULL, sizeof *RES, PROT_READ | PROT_WRITE, MAP_SHARED | MAP_ANONYMOUS, -1, 0);
    fillpat();
    char line[512], wl[64], md[8];
    long ln = 0, njobs = 0;
    static char jobs[20000][96];     /* read everything first: a child's exit() would move the shared file offset */
    while (njobs < 20000 && fgets(jobs[njobs], sizeof jobs[0], jf)) njobs++;
    __real_fclose(jf);
    for (long ji = 0; ji < njobs; ji++) {
        strcpy(line, jobs[ji]);
        ln++;
        long k = -1; int var = 0;
        if (line[0] == '#' || sscanf(line, "%63s", wl) != 1) continue;
        if (nhung >= MAX_HUNG) { printf("%ld skipped-after-hangs %s", ln, line); continue; }
#ifdef C16_FN
        if (!strcmp(wl, "fn")) { fn_job(dir, ln, line); continue; }
#endif
        job_k2 = -1;
        if (sscanf(line, "%63s %7s %ld %d %ld", wl, md, &k, &var, &job_k2) < 2) continue;
        int w = -1;
        for (int i = 0; i < NWL; i++) if (!strcmp(WL[i].name, wl)) w = i;
        if (w < 0) { printf("%ld unknown-workload %s\n", ln, wl); continue; }
        int nc = (var & 2) != 0;
#define BASE_ BASE2[w][nc]
        if (!BASE_.have) {
            struct outcome b2;
            run_child(dir, wl_body, (void *)WL[w].fn, -1, 'n', var & 2, &BASE_.o);
            run_child(dir, wl_body, (void *)WL[w].fn, -1, 'n', var & 2, &b2);
            BASE_.nondet = imgdiff(BASE_.o.img, b2.img) != -1 || BASE_.o.res.datahash != b2.res.datahash;
            free(b2.img.b);
            BASE_.have = 1;
        }
        struct outcome o, *b = &BASE_.o;
        if (md[0] == 'n') o = *b;
        else run_child(dir, wl_body, (void *)WL[w].fn, k, md[0], var, &o);
        int allok = 1;
        char fk = '-';
        for (long i = 0; i < o.res.ncalls && i < MAXCALLS; i++) if (isupper((unsigned char)o.res.kinds[i])) { fk = (char)tolower(o.res.kinds[i]); break; }
        printf("%ld wl=%s mode=%s k=%ld k2=%ld var=%d status=%s ncalls=%ld nfaults=%ld fkind=%c rets=", ln, wl, md, k, job_k2,
               var, o.status, o.res.ncalls, o.res.nfaults, fk);
        for (int i = 0; i < o.res.nrets; i++) {
            int ok = o.res.rets[i].ok;
            if (ok == 2)     /* optional call failed: fine iff the fault-free run fails at the same place */
                ok = i < b->res.nrets && b->res.rets[i].ok == 2 && !strcmp(b->res.rets[i].name, o.res.rets[i].name);
            printf("%s%s:%ld:%d", i ? "," : "", o.res.rets[i].name, o.res.rets[i].rc, ok);
            if (!ok) allok = 0;
        }
        long fd = imgdiff(b->img, o.img);
        char where[400] = "";
        int  datasame = o.res.datahash == b->res.datahash;
        if (strcmp(o.status, "ok") != 0 || (allok && (fd != -1 || !datasame)) || getenv("C16_WHERE"))
            where_names(&o.res, where, sizeof where);      /* only for runs that will be reported */
        printf(" allok=%d same=%d firstdiff=%ld size=%ld datasame=%d nondet=%d where=%s kinds=%s\n", allok, fd == -1, fd,
               o.img.n, datasame, BASE_.nondet, where[0] ? where : "-", md[0] == 'n' ? o.res.kinds : "-");
        if (md[0] != 'n') free(o.img.b);
    }
    return 0;
}
