/* C14 harness: read-only access never alters a file; write requests through it are refused.
 *
 * usage: drive_ro <workdir> <history-file>
 * The history file holds several histories separated by lines "history <name>"; each history runs in its own
 * child process inside a fresh directory <workdir>/h<k> (all file names in a history are relative to it).
 * Every line is one API call (or a harness directive); one output line per input line:
 *     <lineno> <ok|fail|na> w=<bytes>,<calls>,<creates>  [values]
 * ok/fail = the library call's return class, na = not executed (the handle slot it needs is not valid),
 * w = bytes handed to fwrite/fputc on any stream other than stdout/stderr during the call, the number of such
 * calls, and the number of fopen() calls with a creating/truncating mode ("w..", "a..") during the call --
 * observed by link-time interposition (-Wl,--wrap=fwrite,--wrap=fputc,--wrap=fopen).
 * Directives:  snapshot  (SHA-256 of every file in the directory is recorded)
 *              check     (prints "same" or the list of changed / created / removed files)
 *              dump F    (canonical dump of everything readable in file F through read-only handles; prints its hash)
 *              closeall  (release every handle, innermost first)
 *              rmfile N / chmodro N   (remove a file / make it read-only: external-file scenarios)
 * File slots F: "f<F>.hdf"; external files "x<N>.dat".
 * The op list is in the big if-chain of run_op(); slots: fid[4], aid[8], vg[8], vs[8], sd[2], sds[8], gr[2], ri[8],
 * an[2], ann[8], bit[4].
 */
#include <stdio.h>
#include <stdlib.h>
#include <string.h>
#include <stdint.h>
#include <unistd.h>
#include <dirent.h>
#include <sys/stat.h>
#include <sys/wait.h>
#include "hdf.h"
#include "mfhdf.h"
#include "hfile_priv.h"
#include "hchunks_priv.h"

/* ---------------------------------------------------------------- interposition ------------------------- */
static long w_bytes, w_calls, w_creates;
size_t __real_fwrite(const void *p, size_t sz, size_t n, FILE *f);
int    __real_fputc(int c, FILE *f);
FILE  *__real_fopen(const char *path, const char *mode);
size_t __wrap_fwrite(const void *p, size_t sz, size_t n, FILE *f)
{
    if (f != stdout && f != stderr) { w_bytes += (long)(sz * n); w_calls++; }
    return __real_fwrite(p, sz, n, f);
}
int __wrap_fputc(int c, FILE *f)
{
    if (f != stdout && f != stderr) { w_bytes++; w_calls++; }
    return __real_fputc(c, f);
}
FILE *__wrap_fopen(const char *path, const char *mode)
{
    if (mode && (mode[0] == 'w' || mode[0] == 'a')) w_creates++;
    return __real_fopen(path, mode);
}

/* ---------------------------------------------------------------- SHA-256 ------------------------------- */
typedef struct { uint32_t h[8]; uint8_t buf[64]; uint64_t len; int n; } sha_t;
static const uint32_t K[64] = {
    0x428a2f98,0x71374491,0xb5c0fbcf,0xe9b5dba5,0x3956c25b,0x59f111f1,0x923f82a4,0xab1c5ed5,0xd807aa98,0x12835b01,0x243185be,0x550c7dc3,0x72be5d74,0x80deb1fe,0x9bdc06a7,0xc19bf174,
    0xe49b69c1,0xefbe4786,0x0fc19dc6,0x240ca1cc,0x2de92c6f,0x4a7484aa,0x5cb0a9dc,0x76f988da,0x983e5152,0xa831c66d,0xb00327c8,0xbf597fc7,0xc6e00bf3,0xd5a79147,0x06ca6351,0x14292967,
    0x27b70a85,0x2e1b2138,0x4d2c6dfc,0x53380d13,0x650a7354,0x766a0abb,0x81c2c92e,0x92722c85,0xa2bfe8a1,0xa81a664b,0xc24b8b70,0xc76c51a3,0xd192e819,0xd6990624,0xf40e3585,0x106aa070,
    0x19a4c116,0x1e376c08,0x2748774c,0x34b0bcb5,0x391c0cb3,0x4ed8aa4a,0x5b9cca4f,0x682e6ff3,0x748f82ee,0x78a5636f,0x84c87814,0x8cc70208,0x90befffa,0xa4506ceb,0xbef9a3f7,0xc67178f2};
#define ROR(x, n) (((x) >> (n)) | ((x) << (32 - (n))))
static void sha_block(sha_t *s, const uint8_t *p)
{
    uint32_t w[64], a, b, c, d, e, f, g, h;
    for (int i = 0; i < 16; i++) w[i] = (uint32_t)p[4 * i] << 24 | (uint32_t)p[4 * i + 1] << 16 | (uint32_t)p[4 * i + 2] << 8 | p[4 * i + 3];
    for (int i = 16; i < 64; i++) {
        uint32_t s0 = ROR(w[i - 15], 7) ^ ROR(w[i - 15], 18) ^ (w[i - 15] >> 3);
        uint32_t s1 = ROR(w[i - 2], 17) ^ ROR(w[i - 2], 19) ^ (w[i - 2] >> 10);
        w[i] = w[i - 16] + s0 + w[i - 7] + s1;
    }
    a = s->h[0]; b = s->h[1]; c = s->h[2]; d = s->h[3]; e = s->h[4]; f = s->h[5]; g = s->h[6]; h = s->h[7];
    for (int i = 0; i < 64; i++) {
        uint32_t t1 = h + (ROR(e, 6) ^ ROR(e, 11) ^ ROR(e, 25)) + ((e & f) ^ (~e & g)) + K[i] + w[i];
        uint32_t t2 = (ROR(a, 2) ^ ROR(a, 13) ^ ROR(a, 22)) + ((a & b) ^ (a & c) ^ (b & c));
        h = g; g = f; f = e; e = d + t1; d = c; c = b; b = a; a = t1 + t2;
    }
    s->h[0] += a; s->h[1] += b; s->h[2] += c; s->h[3] += d; s->h[4] += e; s->h[5] += f; s->h[6] += g; s->h[7] += h;
}
static void sha_init(sha_t *s)
{
    static const uint32_t h0[8] = {0x6a09e667,0xbb67ae85,0x3c6ef372,0xa54ff53a,0x510e527f,0x9b05688c,0x1f83d9ab,0x5be0cd19};
    memcpy(s->h, h0, sizeof h0); s->len = 0; s->n = 0;
}
static void sha_add(sha_t *s, const void *data, size_t n)
{
    const uint8_t *p = data;
    s->len += n;
    while (n--) { s->buf[s->n++] = *p++; if (s->n == 64) { sha_block(s, s->buf); s->n = 0; } }
}
static void sha_hex(sha_t *s, char *out)
{
    uint64_t bits = s->len * 8;
    uint8_t pad = 0x80, z = 0, lb[8];
    sha_add(s, &pad, 1);
    while (s->n != 56) sha_add(s, &z, 1);
    for (int i = 0; i < 8; i++) lb[i] = (uint8_t)(bits >> (56 - 8 * i));
    sha_add(s, lb, 8);
    for (int i = 0; i < 8; i++) sprintf(out + 8 * i, "%08x", s->h[i]);
}
static int sha_file(const char *path, char *out)
{
    FILE *f = __real_fopen(path, "rb");
    if (!f) return -1;
    sha_t s; sha_init(&s);
    static uint8_t b[65536]; size_t n;
    while ((n = fread(b, 1, sizeof b, f)) > 0) sha_add(&s, b, n);
    fclose(f);
    sha_hex(&s, out);
    return 0;
}

/* ---------------------------------------------------------------- snapshot of the directory ------------- */
#define MAXSNAP 64
static struct { char name[64]; char sha[65]; long size; } snap[MAXSNAP];
static int nsnap;
static int cmpname(const void *a, const void *b) { return strcmp((const char *)a, (const char *)b); }
static int list_dir(char names[][64])
{
    DIR *d = opendir(".");
    int n = 0;
    struct dirent *e;
    while (d && (e = readdir(d)) && n < MAXSNAP)
        if (e->d_name[0] != '.') { strncpy(names[n], e->d_name, 63); names[n][63] = 0; n++; }
    if (d) closedir(d);
    qsort(names, (size_t)n, 64, cmpname);
    return n;
}
static void do_snapshot(void)
{
    static char names[MAXSNAP][64];
    nsnap = list_dir(names);
    for (int i = 0; i < nsnap; i++) {
        struct stat st;
        strcpy(snap[i].name, names[i]);
        sha_file(names[i], snap[i].sha);
        snap[i].size = stat(names[i], &st) == 0 ? (long)st.st_size : -1;
    }
    printf(" %d", nsnap);
    for (int i = 0; i < nsnap; i++) printf(" %s:%ld", snap[i].name, snap[i].size);
}
static void do_check(void)
{
    static char names[MAXSNAP][64];
    int n = list_dir(names), bad = 0;
    char sha[65];
    for (int i = 0; i < nsnap; i++) {
        int found = 0;
        for (int j = 0; j < n; j++) if (!strcmp(names[j], snap[i].name)) found = 1;
        if (!found) { printf(" removed:%s", snap[i].name); bad++; continue; }
        sha_file(snap[i].name, sha);
        if (strcmp(sha, snap[i].sha)) { printf(" changed:%s", snap[i].name); bad++; }
    }
    for (int j = 0; j < n; j++) {
        int found = 0;
        for (int i = 0; i < nsnap; i++) if (!strcmp(names[j], snap[i].name)) found = 1;
        if (!found) { printf(" created:%s", names[j]); bad++; }
    }
    if (!bad) printf(" same");
}

/* ---------------------------------------------------------------- slots --------------------------------- */
#define NF 4
#define NA 8
static int32 fid[NF], vstarted[NF], aid[NA], vg[NA], vs[NA], sd[2], sds[NA], gr[2], ri[NA], an[2], ann[NA], bit[4];
static int   vgf[NA], vsf[NA];
static void  init_slots(void)
{
    for (int i = 0; i < NF; i++) { fid[i] = FAIL; vstarted[i] = 0; }
    for (int i = 0; i < NA; i++) aid[i] = vg[i] = vs[i] = sds[i] = ri[i] = ann[i] = FAIL;
    for (int i = 0; i < 2; i++) sd[i] = gr[i] = an[i] = FAIL;
    for (int i = 0; i < 4; i++) bit[i] = FAIL;
}
static int closeall_failed;   /* some Hclose / SDend did not succeed: handles may still be open */
static void closeall(void)
{
    closeall_failed = 0;
    for (int i = 0; i < 4; i++) if (bit[i] != FAIL) { Hendbitaccess(bit[i], 0); bit[i] = FAIL; }
    for (int i = 0; i < NA; i++) {
        if (aid[i] != FAIL) { Hendaccess(aid[i]); aid[i] = FAIL; }
        if (vs[i] != FAIL) { VSdetach(vs[i]); vs[i] = FAIL; }
        if (vg[i] != FAIL) { Vdetach(vg[i]); vg[i] = FAIL; }
        if (sds[i] != FAIL) { SDendaccess(sds[i]); sds[i] = FAIL; }
        if (ri[i] != FAIL) { GRendaccess(ri[i]); ri[i] = FAIL; }
        if (ann[i] != FAIL) { ANendaccess(ann[i]); ann[i] = FAIL; }
    }
    for (int i = 0; i < 2; i++) {
        if (sd[i] != FAIL) { if (SDend(sd[i]) == FAIL) closeall_failed = 1; sd[i] = FAIL; }
        if (gr[i] != FAIL) { GRend(gr[i]); gr[i] = FAIL; }
        if (an[i] != FAIL) { ANend(an[i]); an[i] = FAIL; }
    }
    for (int i = 0; i < NF; i++) {
        if (fid[i] != FAIL) { if (vstarted[i]) Vend(fid[i]); vstarted[i] = 0; if (Hclose(fid[i]) == FAIL) closeall_failed = 1; fid[i] = FAIL; }
    }
}
static const char *fname(long f) { static char b[4][32]; static int k; k = (k + 1) & 3; snprintf(b[k], 32, "f%ld.hdf", f); return b[k]; }
static const char *xname(long f) { static char b[4][32]; static int k; k = (k + 1) & 3; snprintf(b[k], 32, "x%ld.dat", f); return b[k]; }

static void fill(void *p, long n, long seed)
{
    uint8_t *b = p;
    for (long i = 0; i < n; i++) b[i] = (uint8_t)(seed * 31 + i * 7 + (i >> 3) + 1);
}
static uint32_t quick(const void *p, long n)
{
    const uint8_t *b = p; uint32_t h = 2166136261u;
    for (long i = 0; i < n; i++) { h ^= b[i]; h *= 16777619u; }
    return h;
}
static int ntsize(int32 nt) { int s = DFKNTsize(nt); return s > 0 ? s : 1; }
static const int32 NTS[] = {DFNT_UINT8, DFNT_INT16, DFNT_INT32, DFNT_FLOAT32, DFNT_INT8, DFNT_FLOAT64, DFNT_CHAR8, DFNT_UINT16};
#define NT(k) NTS[((k) % 8 + 8) % 8]

/* ---------------------------------------------------------------- canonical dump ------------------------ */
/* the dump is a set of records (one per stored object / attribute / dimension); a record may be spread over several
   DL() pieces and ends with a newline; each complete record is reduced to a 32-bit hash */
static uint32_t dl_hashes[8192], dl_vhashes[8192];
static int      dl_n, dl_vn;
static int      dl_view;   /* the record being built belongs to the interface-level VIEW (datasets, images, annotations, attributes,
                              user elements / vdatas / vgroups), not to the library's own bookkeeping objects */
static char     dl_cur[4096];
static int      dl_len;
static void dl_add(const char *piece, int n)
{
    for (int i = 0; i < n; i++) {
        if (piece[i] == '\n') {
            uint32_t h = 2166136261u;
            for (int k = 0; k < dl_len; k++) { h ^= (uint8_t)dl_cur[k]; h *= 16777619u; }
            if (dl_n < 8192) dl_hashes[dl_n++] = h;
            if (dl_view && dl_vn < 8192) dl_vhashes[dl_vn++] = h;
            dl_len = 0;
        }
        else if (dl_len < (int)sizeof dl_cur) dl_cur[dl_len++] = piece[i];
    }
}
static int internal_class(const char *cl)
{
    static const char *pfx[] = {"Attr0.0", "DimVal0.", "Var0.0", "Dim0.0", "UDim0.0", "CDF0.0", "RI0.0", "RIG0.0", "RIATTR0.0", "_HDF_", "SDSVar", "CoordVar", NULL};
    for (int i = 0; pfx[i]; i++) if (!strncmp(cl, pfx[i], strlen(pfx[i]))) return 1;
    return 0;
}
static void dump_file(const char *path, sha_t *S)
{
    char line[512];
#define DL(...) do { int n_ = snprintf(line, sizeof line, __VA_ARGS__); dl_add(line, n_); if (getenv("DRIVE_RO_VERBOSE")) fputs(line, stderr); } while (0)
    static uint8_t buf[1 << 20];
    /* H level: every (tag,ref) and its logical content (special elements read through their access layer) */
    int32 f = Hopen(path, DFACC_READ, 0);
    if (f == FAIL) { DL("H open-fail\n"); return; }
    {
        uint16 tag = 0, ref = 0; int32 off = 0, len = 0;
        while (Hfind(f, DFTAG_WILDCARD, DFREF_WILDCARD, &tag, &ref, &off, &len, DF_FORWARD) != FAIL) {
            if (tag == DFTAG_VERSION) continue;
            uint16 bt = SPECIALTAG(tag) ? BASETAG(tag) : tag;
            int32 a = Hstartread(f, bt, ref);
            int32 n = -2, ll = -1;
            if (a != FAIL) {
                Hinquire(a, NULL, NULL, NULL, &ll, NULL, NULL, NULL, NULL);
                if (ll >= 0 && ll <= (int32)sizeof buf) n = ll > 0 ? Hread(a, ll, buf) : 0;
                Hendaccess(a);
            }
            dl_view = bt >= 1000 && bt != DFTAG_VH && bt != DFTAG_VS && bt != DFTAG_VG;
            DL("H %u %u len=%ld n=%ld h=%08x\n", (unsigned)bt, (unsigned)ref, (long)ll, (long)n, n > 0 ? quick(buf, n) : 0);
            dl_view = 0;
        }
    }
    /* Vdata / Vgroup level */
    if (Vstart(f) != FAIL) {
        int32 r = -1;
        while ((r = VSgetid(f, r)) != FAIL) {
            int32 v = VSattach(f, r, "r");
            if (v == FAIL) { DL("VS %ld attach-fail\n", (long)r); continue; }
            int32 n = 0, il = 0, sz = 0; char flds[1024] = "", nm[256] = "", cl[256] = "";
            VSinquire(v, &n, &il, flds, &sz, nm);
            VSgetclass(v, cl);
            dl_view = !internal_class(cl);
            DL("VS %ld n=%ld il=%ld sz=%ld name=%s class=%s fields=%s nattr=%ld\n", (long)r, (long)n, (long)il, (long)sz, nm, cl, flds, (long)VSnattrs(v));
            if (n > 0 && sz > 0 && (long)n * sz <= (long)sizeof buf && flds[0] && VSsetfields(v, flds) != FAIL) {
                int32 got = VSread(v, buf, n, FULL_INTERLACE);
                DL("VS %ld read=%ld h=%08x\n", (long)r, (long)got, got > 0 ? quick(buf, (long)got * sz) : 0);
            }
            VSdetach(v);
            dl_view = 0;
        }
        r = -1;
        while ((r = Vgetid(f, r)) != FAIL) {
            int32 g = Vattach(f, r, "r");
            if (g == FAIL) { DL("VG %ld attach-fail\n", (long)r); continue; }
            char nm[256] = "", cl[256] = ""; int32 n = 0;
            Vinquire(g, &n, nm); Vgetclass(g, cl);
            dl_view = !internal_class(cl);
            DL("VG %ld n=%ld name=%s class=%s nattr=%ld:", (long)r, (long)n, nm, cl, (long)Vnattrs(g));
            for (int32 i = 0; i < n && i < 64; i++) { int32 t = 0, rr = 0; Vgettagref(g, i, &t, &rr); DL(" %ld/%ld", (long)t, (long)rr); }
            DL("\n");
            dl_view = 0;
            Vdetach(g);
        }
        Vend(f);
    }
    /* annotations */
    dl_view = 1;
    {
        int32 a = ANstart(f);
        if (a != FAIL) {
            int32 nfl = 0, nfd = 0, nol = 0, nod = 0;
            ANfileinfo(a, &nfl, &nfd, &nol, &nod);
            DL("AN %ld %ld %ld %ld\n", (long)nfl, (long)nfd, (long)nol, (long)nod);
            int32 cnt[4] = {nol, nod, nfl, nfd};
            for (int t = 0; t < 4; t++)
                for (int32 i = 0; i < cnt[t]; i++) {
                    int32 id = ANselect(a, i, (ann_type)t);
                    int32 l = id != FAIL ? ANannlen(id) : -1;
                    int32 rc = -1;
                    if (l >= 0 && l < (int32)sizeof buf - 1) rc = ANreadann(id, (char *)buf, l + 1);
                    DL("AN %d %ld len=%ld rc=%ld h=%08x\n", t, (long)i, (long)l, (long)rc, rc != FAIL && l > 0 ? quick(buf, l) : 0);
                    if (id != FAIL) ANendaccess(id);
                }
            ANend(a);
        }
    }
    /* GR level */
    {
        int32 g = GRstart(f);
        if (g != FAIL) {
            int32 nimg = 0, nat = 0;
            GRfileinfo(g, &nimg, &nat);
            DL("GR %ld %ld\n", (long)nimg, (long)nat);
            for (int32 i = 0; i < nimg; i++) {
                int32 r = GRselect(g, i);
                char nm[256] = ""; int32 nc = 0, nt = 0, il = 0, dm[2] = {0, 0}, na = 0;
                if (r == FAIL) { DL("RI %ld select-fail\n", (long)i); continue; }
                GRgetiminfo(r, nm, &nc, &nt, &il, dm, &na);
                long sz = (long)nc * ntsize(nt) * dm[0] * dm[1];
                int32 rc = -2;
                if (sz > 0 && sz <= (long)sizeof buf) { int32 st[2] = {0, 0}; rc = GRreadimage(r, st, NULL, dm, buf); }
                DL("RI %ld %s nc=%ld nt=%ld il=%ld %ldx%ld na=%ld rc=%ld h=%08x\n", (long)i, nm, (long)nc, (long)nt, (long)il, (long)dm[0], (long)dm[1], (long)na, (long)rc, rc == SUCCEED ? quick(buf, sz) : 0);
                for (int32 k = 0; k < na; k++) {
                    char an_[256] = ""; int32 t = 0, c = 0;
                    if (GRattrinfo(r, k, an_, &t, &c) != FAIL && (long)c * ntsize(t) < (long)sizeof buf) {
                        int32 rr = GRgetattr(r, k, buf);
                        DL("RIattr %ld %s %ld %ld rc=%ld h=%08x\n", (long)k, an_, (long)t, (long)c, (long)rr, rr != FAIL ? quick(buf, (long)c * ntsize(t)) : 0);
                    }
                }
                GRendaccess(r);
            }
            GRend(g);
        }
    }
    dl_view = 0;
    Hclose(f);
    dl_view = 1;
    /* SD level */
    {
        int32 s = SDstart(path, DFACC_READ);
        if (s == FAIL) { DL("SD start-fail\n"); dl_view = 0; return; }
        int32 nds = 0, nat = 0;
        SDfileinfo(s, &nds, &nat);
        DL("SD %ld %ld\n", (long)nds, (long)nat);
        for (int32 k = 0; k < nat; k++) {
            char an_[256] = ""; int32 t = 0, c = 0;
            if (SDattrinfo(s, k, an_, &t, &c) != FAIL && (long)c * ntsize(t) < (long)sizeof buf) {
                int32 rr = SDreadattr(s, k, buf);
                DL("SDattr %ld %s %ld %ld rc=%ld h=%08x\n", (long)k, an_, (long)t, (long)c, (long)rr, rr != FAIL ? quick(buf, (long)c * ntsize(t)) : 0);
            }
        }
        for (int32 i = 0; i < nds; i++) {
            int32 d = SDselect(s, i);
            char nm[256] = ""; int32 rank = 0, dims[H4_MAX_VAR_DIMS], nt = 0, na = 0;
            if (d == FAIL) { DL("SDS %ld select-fail\n", (long)i); continue; }
            SDgetinfo(d, nm, &rank, dims, &nt, &na);
            long ne = 1;
            int32 st[H4_MAX_VAR_DIMS];
            for (int k = 0; k < rank; k++) { ne *= dims[k]; st[k] = 0; }
            int32 rc = -2;
            if (ne > 0 && ne * ntsize(nt) <= (long)sizeof buf) rc = SDreaddata(d, st, NULL, dims, buf);
            DL("SDS %ld %s rank=%ld nt=%ld na=%ld ne=%ld rc=%ld h=%08x\n", (long)i, nm, (long)rank, (long)nt, (long)na, ne, (long)rc, rc == SUCCEED ? quick(buf, ne * ntsize(nt)) : 0);
            for (int32 k = 0; k < na; k++) {
                char an_[256] = ""; int32 t = 0, c = 0;
                if (SDattrinfo(d, k, an_, &t, &c) != FAIL && (long)c * ntsize(t) < (long)sizeof buf) {
                    int32 rr = SDreadattr(d, k, buf);
                    DL("SDSattr %ld %s %ld %ld rc=%ld h=%08x\n", (long)k, an_, (long)t, (long)c, (long)rr, rr != FAIL ? quick(buf, (long)c * ntsize(t)) : 0);
                }
            }
            for (int k = 0; k < rank; k++) {
                int32 di = SDgetdimid(d, k);
                char dn[256] = ""; int32 sz = 0, dt = 0, dna = 0;
                if (di != FAIL && SDdiminfo(di, dn, &sz, &dt, &dna) != FAIL) {
                    DL("DIM %d %s %ld %ld %ld", k, dn, (long)sz, (long)dt, (long)dna);
                    if (dt != 0 && (long)(sz ? sz : dims[0]) * ntsize(dt) < (long)sizeof buf && SDgetdimscale(di, buf) != FAIL)
                        DL(" scale=%08x", quick(buf, (long)(sz ? sz : dims[0]) * ntsize(dt)));
                    DL("\n");
                }
            }
            SDendaccess(d);
        }
        SDend(s);
    }
    dl_view = 0;
#undef DL
}

/* ---------------------------------------------------------------- one operation ------------------------- */
#define MAXT 24
static char *T[MAXT];
static int   nt_;
#define I(k) ((k) < nt_ ? atol(T[k]) : 0)
#define S_(k) ((k) < nt_ ? T[k] : "")
#define OP(n) else if (!strcmp(op, n))
#define SLOT(arr, k, lim) ((k) >= 0 && (k) < (lim) && arr[k] != FAIL)
#define NEED(c) if (!(c)) { rc = -1; goto out; }
static uint8_t big[1 << 20];
static char    extra[8192];

static int sds_geom(int32 id, int32 *rank, int32 *dims, int32 *nt, long *ne)
{
    char nm[256]; int32 na;
    if (SDgetinfo(id, nm, rank, dims, nt, &na) == FAIL) return 0;
    *ne = 1;
    for (int k = 0; k < *rank; k++) *ne *= (dims[k] > 0 ? dims[k] : 1);
    return 1;
}

/* " empty=1" when the dataset holds no data yet (diagnostic for known-finding signatures only) */
static const char *empty_mark(int32 id) { int e = 0; return (SDcheckempty(id, &e) != FAIL && e) ? " empty=1" : ""; }

static int run_op(const char *op)
{
    int rc = -1;    /* 1 ok, 0 fail, -1 na */
    extra[0] = 0;
    if (0) {}
    /* ---------------- H layer ---------------- */
    OP("hopen") { long f = I(1); NEED(f >= 0 && f < NF && fid[f] == FAIL); fid[f] = Hopen(fname(nt_ > 4 ? I(4) : f), (int)I(2), (int16)I(3)); rc = fid[f] != FAIL; }
    OP("hclose") { long f = I(1); NEED(SLOT(fid, f, NF)); if (vstarted[f]) { Vend(fid[f]); vstarted[f] = 0; } rc = Hclose(fid[f]) != FAIL; if (rc) fid[f] = FAIL; }
    OP("vstart") { long f = I(1); NEED(SLOT(fid, f, NF) && !vstarted[f]); rc = Vstart(fid[f]) != FAIL; if (rc) vstarted[f] = 1; }
    OP("vend") { long f = I(1); NEED(SLOT(fid, f, NF) && vstarted[f]); rc = Vend(fid[f]) != FAIL; vstarted[f] = 0; }
    OP("startaccess") { long a = I(1), f = I(2); NEED(a >= 0 && a < NA && aid[a] == FAIL && SLOT(fid, f, NF)); aid[a] = Hstartaccess(fid[f], (uint16)I(3), (uint16)I(4), (uint32)I(5)); rc = aid[a] != FAIL; }
    OP("startread") { long a = I(1), f = I(2); NEED(a >= 0 && a < NA && aid[a] == FAIL && SLOT(fid, f, NF)); aid[a] = Hstartread(fid[f], (uint16)I(3), (uint16)I(4)); rc = aid[a] != FAIL; }
    OP("startwrite") { long a = I(1), f = I(2); NEED(a >= 0 && a < NA && aid[a] == FAIL && SLOT(fid, f, NF)); aid[a] = Hstartwrite(fid[f], (uint16)I(3), (uint16)I(4), (int32)I(5)); rc = aid[a] != FAIL; }
    OP("read") { long a = I(1), n = I(2); NEED(SLOT(aid, a, NA) && n >= 0 && n < (long)sizeof big); int32 len = 0; Hinquire(aid[a], NULL, NULL, NULL, &len, NULL, NULL, NULL, NULL); NEED(len >= 0 && len < (long)sizeof big); int32 r = Hread(aid[a], (int32)n, big); rc = r != FAIL; sprintf(extra, " n=%ld", (long)r); }
    OP("write") { long a = I(1), n = I(2); NEED(SLOT(aid, a, NA) && n > 0 && n < (long)sizeof big); fill(big, n, I(3)); rc = Hwrite(aid[a], (int32)n, big) != FAIL; }
    OP("seek") { long a = I(1); NEED(SLOT(aid, a, NA)); rc = Hseek(aid[a], (int32)I(2), (int)I(3)) != FAIL; }
    OP("tell") { long a = I(1); NEED(SLOT(aid, a, NA)); int32 p = Htell(aid[a]); rc = p != FAIL; sprintf(extra, " pos=%ld", (long)p); }
    OP("inquire") { long a = I(1); NEED(SLOT(aid, a, NA)); uint16 tg, rf; int32 ln, of, ps; int16 ac, sp; rc = Hinquire(aid[a], NULL, &tg, &rf, &ln, &of, &ps, &ac, &sp) != FAIL; if (rc) sprintf(extra, " %u/%u len=%ld acc=%d sp=%d", tg, rf, (long)ln, ac, sp); }
    OP("trunc") { long a = I(1); NEED(SLOT(aid, a, NA)); rc = Htrunc(aid[a], (int32)I(2)) != FAIL; }
    OP("setlength") { long a = I(1); NEED(SLOT(aid, a, NA)); rc = Hsetlength(aid[a], (int32)I(2)) != FAIL; }
    OP("appendable") { long a = I(1); NEED(SLOT(aid, a, NA)); rc = Happendable(aid[a]) != FAIL; }
    OP("setaccesstype") { long a = I(1); NEED(SLOT(aid, a, NA)); rc = Hsetaccesstype(aid[a], DFACC_SERIAL) != FAIL; }
    OP("endaccess") { long a = I(1); NEED(SLOT(aid, a, NA)); rc = Hendaccess(aid[a]) != FAIL; aid[a] = FAIL; }
    OP("putelement") { long f = I(1), n = I(4); NEED(SLOT(fid, f, NF) && n > 0 && n < (long)sizeof big); fill(big, n, I(5)); rc = Hputelement(fid[f], (uint16)I(2), (uint16)I(3), big, (int32)n) != FAIL; }
    OP("getelement") { long f = I(1); NEED(SLOT(fid, f, NF)); int32 l = Hlength(fid[f], (uint16)I(2), (uint16)I(3)); if (l == FAIL || l > (int32)sizeof big) rc = 0; else { int32 r = Hgetelement(fid[f], (uint16)I(2), (uint16)I(3), big); rc = r != FAIL; sprintf(extra, " n=%ld", (long)r); } }
    OP("length") { long f = I(1); NEED(SLOT(fid, f, NF)); int32 l = Hlength(fid[f], (uint16)I(2), (uint16)I(3)); rc = l != FAIL; sprintf(extra, " len=%ld", (long)l); }
    OP("exist") { long f = I(1); NEED(SLOT(fid, f, NF)); rc = Hexist(fid[f], (uint16)I(2), (uint16)I(3)) != FAIL; }
    OP("number") { long f = I(1); NEED(SLOT(fid, f, NF)); int32 n = Hnumber(fid[f], (uint16)I(2)); rc = n != FAIL; sprintf(extra, " n=%ld", (long)n); }
    OP("newref") { long f = I(1); NEED(SLOT(fid, f, NF)); rc = Hnewref(fid[f]) != 0; }
    OP("dupdd") { long f = I(1); NEED(SLOT(fid, f, NF)); rc = Hdupdd(fid[f], (uint16)I(2), (uint16)I(3), (uint16)I(4), (uint16)I(5)) != FAIL; }
    OP("deldd") { long f = I(1); NEED(SLOT(fid, f, NF)); rc = Hdeldd(fid[f], (uint16)I(2), (uint16)I(3)) != FAIL; }
    OP("reuse") { long f = I(1); NEED(SLOT(fid, f, NF)); rc = HDreuse_tagref(fid[f], (uint16)I(2), (uint16)I(3)) != FAIL; }
    OP("hlcreate") { long a = I(1), f = I(2); NEED(a >= 0 && a < NA && aid[a] == FAIL && SLOT(fid, f, NF)); aid[a] = HLcreate(fid[f], (uint16)I(3), (uint16)I(4), (int32)I(5), (int32)I(6)); rc = aid[a] != FAIL; }
    OP("hlconvert") { long a = I(1); NEED(SLOT(aid, a, NA)); rc = HLconvert(aid[a], (int32)I(2), (int32)I(3)) != FAIL; }
    OP("hxcreate") { long a = I(1), f = I(2); NEED(a >= 0 && a < NA && aid[a] == FAIL && SLOT(fid, f, NF)); aid[a] = HXcreate(fid[f], (uint16)I(3), (uint16)I(4), xname(I(5)), (int32)I(6), (int32)I(7)); rc = aid[a] != FAIL; }
    OP("hccreate") {
        long a = I(1), f = I(2); NEED(a >= 0 && a < NA && aid[a] == FAIL && SLOT(fid, f, NF));
        comp_info ci; model_info mi; memset(&ci, 0, sizeof ci); memset(&mi, 0, sizeof mi);
        comp_coder_t ct = I(5) == 1 ? COMP_CODE_RLE : I(5) == 2 ? COMP_CODE_SKPHUFF : I(5) == 3 ? COMP_CODE_DEFLATE : COMP_CODE_NONE;
        if (ct == COMP_CODE_SKPHUFF) ci.skphuff.skp_size = 2;
        if (ct == COMP_CODE_DEFLATE) ci.deflate.level = 6;
        aid[a] = HCcreate(fid[f], (uint16)I(3), (uint16)I(4), COMP_MODEL_STDIO, &mi, ct, &ci); rc = aid[a] != FAIL;
    }
    OP("hmccreate") {
        long a = I(1), f = I(2); NEED(a >= 0 && a < NA && aid[a] == FAIL && SLOT(fid, f, NF));
        HCHUNK_DEF c; DIM_DEF dm[1]; uint8 fv = 0x33; memset(&c, 0, sizeof c);
        c.num_dims = 1; c.chunk_size = (int32)I(6); c.nt_size = 1; c.chunk_flag = 0; c.comp_type = COMP_CODE_NONE; c.model_type = COMP_MODEL_STDIO; c.pdims = dm;
        dm[0].dim_length = (int32)I(5); dm[0].chunk_length = (int32)I(6); dm[0].distrib_type = 1;
        aid[a] = HMCcreate(fid[f], (uint16)I(3), (uint16)I(4), 1, 1, &fv, &c); rc = aid[a] != FAIL;
    }
    OP("hsync") { long f = I(1); NEED(SLOT(fid, f, NF)); rc = Hsync(fid[f]) != FAIL; }
    OP("hcache") { long f = I(1); NEED(SLOT(fid, f, NF)); rc = Hcache(fid[f], (int)I(2)) != FAIL; }
    OP("fileversion") { long f = I(1); NEED(SLOT(fid, f, NF)); uint32 a_, b_, c_; char s[LIBVSTR_LEN + 1]; rc = Hgetfileversion(fid[f], &a_, &b_, &c_, s) != FAIL; sprintf(extra, " %u.%u.%u", a_, b_, c_); }
    OP("fidinquire") { long f = I(1); NEED(SLOT(fid, f, NF)); char *nm; int ac, at; rc = Hfidinquire(fid[f], &nm, &ac, &at) != FAIL; sprintf(extra, " acc=%d attach=%d", ac, at); }
    OP("startbitread") { long b = I(1), f = I(2); NEED(b >= 0 && b < 4 && bit[b] == FAIL && SLOT(fid, f, NF)); bit[b] = Hstartbitread(fid[f], (uint16)I(3), (uint16)I(4)); rc = bit[b] != FAIL; }
    OP("startbitwrite") { long b = I(1), f = I(2); NEED(b >= 0 && b < 4 && bit[b] == FAIL && SLOT(fid, f, NF)); bit[b] = Hstartbitwrite(fid[f], (uint16)I(3), (uint16)I(4), (int32)I(5)); rc = bit[b] != FAIL; }
    OP("bitread") { long b = I(1); NEED(SLOT(bit, b, 4)); uint32 v = 0; rc = Hbitread(bit[b], (int)I(2), &v) != FAIL; }
    OP("bitwrite") { long b = I(1); NEED(SLOT(bit, b, 4)); rc = Hbitwrite(bit[b], (int)I(2), (uint32)I(3)) != FAIL; }
    OP("endbit") { long b = I(1); NEED(SLOT(bit, b, 4)); rc = Hendbitaccess(bit[b], 0) != FAIL; bit[b] = FAIL; }
    /* ---------------- Vgroup ---------------- */
    OP("vattach") { long g = I(1), f = I(2); NEED(g >= 0 && g < NA && vg[g] == FAIL && SLOT(fid, f, NF) && vstarted[f]); vg[g] = Vattach(fid[f], (int32)I(3), S_(4)); vgf[g] = (int)f; rc = vg[g] != FAIL; }
    OP("vattachn") { long g = I(1), f = I(2); NEED(g >= 0 && g < NA && vg[g] == FAIL && SLOT(fid, f, NF) && vstarted[f]); int32 r = Vfind(fid[f], S_(3)); NEED(r > 0); vg[g] = Vattach(fid[f], r, S_(4)); vgf[g] = (int)f; rc = vg[g] != FAIL; sprintf(extra, " ref=%ld", (long)r); }
    OP("vdeleten") { long f = I(1); NEED(SLOT(fid, f, NF) && vstarted[f]); int32 r = Vfind(fid[f], S_(2)); NEED(r > 0); rc = Vdelete(fid[f], r) != FAIL; sprintf(extra, " ref=%ld", (long)r); }
    OP("vdetach") { long g = I(1); NEED(SLOT(vg, g, NA)); rc = Vdetach(vg[g]) != FAIL; vg[g] = FAIL; }
    OP("vsetname") { long g = I(1); NEED(SLOT(vg, g, NA)); rc = Vsetname(vg[g], S_(2)) != FAIL; }
    OP("vsetclass") { long g = I(1); NEED(SLOT(vg, g, NA)); rc = Vsetclass(vg[g], S_(2)) != FAIL; }
    OP("vaddtagref") { long g = I(1); NEED(SLOT(vg, g, NA)); rc = Vaddtagref(vg[g], (int32)I(2), (int32)I(3)) != FAIL; }
    OP("vinsertvs") { long g = I(1), s = I(2); NEED(SLOT(vg, g, NA) && SLOT(vs, s, NA)); rc = Vinsert(vg[g], vs[s]) != FAIL; }
    OP("vinsertvg") { long g = I(1), s = I(2); NEED(SLOT(vg, g, NA) && SLOT(vg, s, NA) && s != g); rc = Vinsert(vg[g], vg[s]) != FAIL; }
    OP("vdeletetagref") { long g = I(1); NEED(SLOT(vg, g, NA)); rc = Vdeletetagref(vg[g], (int32)I(2), (int32)I(3)) != FAIL; }
    OP("vdelete") { long f = I(1); NEED(SLOT(fid, f, NF) && vstarted[f]); rc = Vdelete(fid[f], (int32)I(2)) != FAIL; }
    OP("vsetattr") { long g = I(1), n = I(4); NEED(SLOT(vg, g, NA) && n > 0 && n < 4096); fill(big, n * 8, I(5)); rc = Vsetattr(vg[g], S_(2), NT(I(3)), (int32)n, big) != FAIL; }
    OP("vgetattr") { long g = I(1); NEED(SLOT(vg, g, NA)); char nm[256]; int32 t, c, sz; if (Vattrinfo(vg[g], (int)I(2), nm, &t, &c, &sz) == FAIL || sz > (int32)sizeof big) rc = 0; else rc = Vgetattr(vg[g], (int)I(2), big) != FAIL; }
    OP("vinfo") { long g = I(1); NEED(SLOT(vg, g, NA)); char nm[256] = "", cl[256] = ""; int32 n = 0; rc = Vinquire(vg[g], &n, nm) != FAIL; Vgetclass(vg[g], cl); int32 tg[64], rf[64]; int32 k_ = Vgettagrefs(vg[g], tg, rf, 64); uint32_t mh = 0; for (int32 q = 0; q < k_ && q < 64; q++) mh = mh * 31 + (uint32_t)tg[q] * 65599u + (uint32_t)rf[q]; sprintf(extra, " n=%ld nattr=%ld ref=%ld name=%.40s class=%.40s members=%08x", (long)n, (long)Vnattrs(vg[g]), (long)VQueryref(vg[g]), nm, cl, mh); }
    OP("vgetid") { long f = I(1); NEED(SLOT(fid, f, NF) && vstarted[f]); int32 r = Vgetid(fid[f], (int32)I(2)); rc = r != FAIL; sprintf(extra, " ref=%ld", (long)r); }
    OP("vfind") { long f = I(1); NEED(SLOT(fid, f, NF) && vstarted[f]); int32 r = Vfind(fid[f], S_(2)); rc = r != 0; sprintf(extra, " ref=%ld", (long)r); }
    OP("vlone") { long f = I(1); NEED(SLOT(fid, f, NF) && vstarted[f]); int32 r[64]; int32 n = Vlone(fid[f], r, 64); rc = n != FAIL; sprintf(extra, " n=%ld", (long)n); }
    /* ---------------- Vdata ---------------- */
    OP("vsattach") { long s = I(1), f = I(2); NEED(s >= 0 && s < NA && vs[s] == FAIL && SLOT(fid, f, NF) && vstarted[f]); vs[s] = VSattach(fid[f], (int32)I(3), S_(4)); vsf[s] = (int)f; rc = vs[s] != FAIL; }
    OP("vsattachn") { long s = I(1), f = I(2); NEED(s >= 0 && s < NA && vs[s] == FAIL && SLOT(fid, f, NF) && vstarted[f]); int32 r = VSfind(fid[f], S_(3)); NEED(r > 0); vs[s] = VSattach(fid[f], r, S_(4)); vsf[s] = (int)f; rc = vs[s] != FAIL; sprintf(extra, " ref=%ld", (long)r); }
    OP("vsdeleten") { long f = I(1); NEED(SLOT(fid, f, NF) && vstarted[f]); int32 r = VSfind(fid[f], S_(2)); NEED(r > 0); rc = VSdelete(fid[f], r) != FAIL; sprintf(extra, " ref=%ld", (long)r); }
    OP("vsdetach") { long s = I(1); NEED(SLOT(vs, s, NA)); rc = VSdetach(vs[s]) != FAIL; vs[s] = FAIL; }
    OP("vsfdefine") { long s = I(1); NEED(SLOT(vs, s, NA)); rc = VSfdefine(vs[s], S_(2), NT(I(3)), (int32)I(4)) != FAIL; }
    /* VSsetfields has two roles: on a vdata that has fields it SELECTS fields (read / write lists); on a vdata without
       fields and records it DEFINES the record layout (a creation).  The harness tells them apart by the object's state */
    OP("vssetfields") { long s = I(1); NEED(SLOT(vs, s, NA)); NEED(VFnfields(vs[s]) > 0 || VSelts(vs[s]) > 0); rc = VSsetfields(vs[s], S_(2)) != FAIL; }
    OP("vsdefinefields") { long s = I(1); NEED(SLOT(vs, s, NA)); NEED(VFnfields(vs[s]) <= 0 && VSelts(vs[s]) <= 0); rc = VSsetfields(vs[s], S_(2)) != FAIL; }
    OP("vswrite") { long s = I(1), n = I(2); NEED(SLOT(vs, s, NA) && n > 0 && n < 2000); fill(big, n * 256, I(3)); rc = VSwrite(vs[s], big, (int32)n, FULL_INTERLACE) != FAIL; }
    OP("vsread") { long s = I(1), n = I(2); NEED(SLOT(vs, s, NA) && n > 0 && n < 2000); int32 r = VSread(vs[s], big, (int32)n, FULL_INTERLACE); rc = r != FAIL; sprintf(extra, " n=%ld", (long)r); }
    OP("vsseek") { long s = I(1); NEED(SLOT(vs, s, NA)); rc = VSseek(vs[s], (int32)I(2)) != FAIL; }
    OP("vssetname") { long s = I(1); NEED(SLOT(vs, s, NA)); rc = VSsetname(vs[s], S_(2)) != FAIL; }
    OP("vssetclass") { long s = I(1); NEED(SLOT(vs, s, NA)); rc = VSsetclass(vs[s], S_(2)) != FAIL; }
    OP("vssetattr") { long s = I(1), n = I(5); NEED(SLOT(vs, s, NA) && n > 0 && n < 4096); fill(big, n * 8, I(6)); rc = VSsetattr(vs[s], (int32)I(2), S_(3), NT(I(4)), (int32)n, big) != FAIL; }
    OP("vsgetattr") { long s = I(1); NEED(SLOT(vs, s, NA)); char nm[256]; int32 t, c, sz; if (VSattrinfo(vs[s], (int32)I(2), (int)I(3), nm, &t, &c, &sz) == FAIL || sz > (int32)sizeof big) rc = 0; else rc = VSgetattr(vs[s], (int32)I(2), (int)I(3), big) != FAIL; }
    OP("vsdelete") { long f = I(1); NEED(SLOT(fid, f, NF) && vstarted[f]); rc = VSdelete(fid[f], (int32)I(2)) != FAIL; }
    OP("vsinfo") { long s = I(1); NEED(SLOT(vs, s, NA)); int32 n = 0, il = 0, sz = 0; char fl[2048] = "", nm[256] = ""; rc = VSinquire(vs[s], &n, &il, fl, &sz, nm) != FAIL; char cl[256] = ""; VSgetclass(vs[s], cl); sprintf(extra, " n=%ld sz=%ld nattr=%ld elts=%ld ref=%ld nf=%ld il=%ld name=%.40s class=%.40s fields=%.200s", (long)n, (long)sz, (long)VSnattrs(vs[s]), (long)VSelts(vs[s]), (long)VSQueryref(vs[s]), (long)VFnfields(vs[s]), (long)il, nm, cl, fl); }
    OP("vsfind") { long f = I(1); NEED(SLOT(fid, f, NF) && vstarted[f]); int32 r = VSfind(fid[f], S_(2)); rc = r != 0; sprintf(extra, " ref=%ld", (long)r); }
    OP("vsgetid") { long f = I(1); NEED(SLOT(fid, f, NF) && vstarted[f]); int32 r = VSgetid(fid[f], (int32)I(2)); rc = r != FAIL; sprintf(extra, " ref=%ld", (long)r); }
    OP("vslone") { long f = I(1); NEED(SLOT(fid, f, NF) && vstarted[f]); int32 r[64]; int32 n = VSlone(fid[f], r, 64); rc = n != FAIL; sprintf(extra, " n=%ld", (long)n); }
    OP("vssetinterlace") { long s = I(1); NEED(SLOT(vs, s, NA)); rc = VSsetinterlace(vs[s], (int32)I(2)) != FAIL; }
    OP("vssetblocksize") { long s = I(1); NEED(SLOT(vs, s, NA)); rc = VSsetblocksize(vs[s], (int32)I(2)) != FAIL; }
    OP("vssetnumblocks") { long s = I(1); NEED(SLOT(vs, s, NA)); rc = VSsetnumblocks(vs[s], (int32)I(2)) != FAIL; }
    OP("vsappendable") { long s = I(1); NEED(SLOT(vs, s, NA)); rc = VSappendable(vs[s], (int32)I(2)) != FAIL; }
    OP("vssetexternalfile") { long s = I(1); NEED(SLOT(vs, s, NA)); rc = VSsetexternalfile(vs[s], xname(I(2)), (int32)I(3)) != FAIL; }
    OP("vhstoredata") { long f = I(1), n = I(2); NEED(SLOT(fid, f, NF) && vstarted[f] && n > 0 && n < 2000); fill(big, n * 4, I(3)); int32 r = VHstoredata(fid[f], "v", big, (int32)n, DFNT_INT32, S_(4), S_(5)); rc = r != FAIL; sprintf(extra, " ref=%ld", (long)r); }
    OP("vhmakegroup") { long f = I(1); NEED(SLOT(fid, f, NF) && vstarted[f]); int32 tg[2] = {(int32)I(2), (int32)I(4)}, rf[2] = {(int32)I(3), (int32)I(5)}; int32 r = VHmakegroup(fid[f], tg, rf, 2, S_(6), S_(7)); rc = r != FAIL; sprintf(extra, " ref=%ld", (long)r); }
    /* ---------------- SD ---------------- */
    OP("sdstart") { long i = I(1); NEED(i >= 0 && i < 2 && sd[i] == FAIL); sd[i] = SDstart(fname(I(2)), (int32)I(3)); rc = sd[i] != FAIL; }
    OP("sdend") { long i = I(1); NEED(SLOT(sd, i, 2)); for (int k = 0; k < NA; k++) if (sds[k] != FAIL && (sds[k] >> 20 & 0xfff) == (sd[i] >> 20 & 0xfff)) { SDendaccess(sds[k]); sds[k] = FAIL; } rc = SDend(sd[i]) != FAIL; sd[i] = FAIL; }
    OP("sdcreate") { long d = I(1), i = I(2); int32 rank = (int32)I(5); NEED(d >= 0 && d < NA && sds[d] == FAIL && SLOT(sd, i, 2) && rank >= 0 && rank <= 4); int32 dims[4]; for (int k = 0; k < rank; k++) dims[k] = (int32)I(6 + k); sds[d] = SDcreate(sd[i], S_(3), NT(I(4)), rank, dims); rc = sds[d] != FAIL; }
    OP("sdselect") { long d = I(1), i = I(2); NEED(d >= 0 && d < NA && sds[d] == FAIL && SLOT(sd, i, 2)); sds[d] = SDselect(sd[i], (int32)I(3)); rc = sds[d] != FAIL; }
    OP("sdendaccess") { long d = I(1); NEED(SLOT(sds, d, NA)); rc = SDendaccess(sds[d]) != FAIL; sds[d] = FAIL; }
    OP("sdwritedata") {
        long d = I(1); NEED(SLOT(sds, d, NA)); int32 rank, dims[H4_MAX_VAR_DIMS], nt; long ne;
        NEED(sds_geom(sds[d], &rank, dims, &nt, &ne)); int32 st[H4_MAX_VAR_DIMS], ct[H4_MAX_VAR_DIMS];
        ne = 1; for (int k = 0; k < rank; k++) { st[k] = 0; ct[k] = dims[k]; } if (rank > 0 && I(3) > 0) { st[0] = (int32)I(4); ct[0] = (int32)I(3); }
        for (int k = 0; k < rank; k++) ne *= ct[k]; NEED(ne > 0 && ne * ntsize(nt) < (long)sizeof big);
        fill(big, ne * ntsize(nt), I(2)); rc = SDwritedata(sds[d], st, NULL, ct, big) != FAIL;
    }
    OP("sdwritedim") {   /* SDwritedata through a DIMENSION id (writes the dimension's coordinate variable) */
        long d = I(1); NEED(SLOT(sds, d, NA)); int32 di = SDgetdimid(sds[d], (int)I(2)); NEED(di != FAIL);
        char nm[256]; int32 sz = 0, t = 0, na = 0; NEED(SDdiminfo(di, nm, &sz, &t, &na) != FAIL); if (sz <= 0) sz = 1;
        int32 st[1] = {0}, ct[1] = {sz}; fill(big, (long)sz * 8, I(3)); rc = SDwritedata(di, st, NULL, ct, big) != FAIL;
    }
    OP("sdreaddata") {
        long d = I(1); NEED(SLOT(sds, d, NA)); int32 rank, dims[H4_MAX_VAR_DIMS], nt; long ne;
        NEED(sds_geom(sds[d], &rank, dims, &nt, &ne)); int32 st[H4_MAX_VAR_DIMS];
        ne = 1; for (int k = 0; k < rank; k++) { st[k] = 0; ne *= dims[k]; } NEED(ne > 0 && ne * ntsize(nt) < (long)sizeof big);
        const char *em = empty_mark(sds[d]); rc = SDreaddata(sds[d], st, NULL, dims, big) != FAIL; if (rc) sprintf(extra, " h=%08x%s", quick(big, ne * ntsize(nt)), em);
    }
    OP("sdreadrec") {   /* SDreaddata of a window [start, start+count) along the FIRST dimension (may reach beyond the dataset's own end) */
        long d = I(1); NEED(SLOT(sds, d, NA)); int32 rank, dims[H4_MAX_VAR_DIMS], nt; long ne;
        NEED(sds_geom(sds[d], &rank, dims, &nt, &ne) && rank >= 1 && I(3) > 0 && I(2) >= 0); int32 st[H4_MAX_VAR_DIMS], ct[H4_MAX_VAR_DIMS];
        ne = 1; for (int k = 0; k < rank; k++) { st[k] = 0; ct[k] = dims[k] > 0 ? dims[k] : 1; } st[0] = (int32)I(2); ct[0] = (int32)I(3);
        for (int k = 0; k < rank; k++) ne *= ct[k]; NEED(ne > 0 && ne * ntsize(nt) < (long)sizeof big);
        const char *em = empty_mark(sds[d]); rc = SDreaddata(sds[d], st, NULL, ct, big) != FAIL; if (rc) strcpy(extra, em);
    }
    OP("sdsetattr") {   /* sdsetattr kind(0 file,1 sds,2 dim) slot dimidx name nt n seed */
        long k = I(1), n = I(6); int32 id = FAIL; NEED(n > 0 && n < 4096);
        if (k == 0 && SLOT(sd, I(2), 2)) id = sd[I(2)]; if (k == 1 && SLOT(sds, I(2), NA)) id = sds[I(2)]; if (k == 2 && SLOT(sds, I(2), NA)) id = SDgetdimid(sds[I(2)], (int)I(3));
        NEED(id != FAIL); fill(big, n * 8, I(7)); rc = SDsetattr(id, S_(4), NT(I(5)), (int32)n, big) != FAIL;
    }
    OP("sdreadattr") {
        long k = I(1); int32 id = FAIL;
        if (k == 0 && SLOT(sd, I(2), 2)) id = sd[I(2)]; if (k == 1 && SLOT(sds, I(2), NA)) id = sds[I(2)]; if (k == 2 && SLOT(sds, I(2), NA)) id = SDgetdimid(sds[I(2)], (int)I(3));
        NEED(id != FAIL); char nm[256]; int32 t, c; if (SDattrinfo(id, (int32)I(4), nm, &t, &c) == FAIL || (long)c * ntsize(t) > (long)sizeof big) rc = 0; else rc = SDreadattr(id, (int32)I(4), big) != FAIL;
    }
    OP("sdsetdimname") { long d = I(1); NEED(SLOT(sds, d, NA)); int32 di = SDgetdimid(sds[d], (int)I(2)); NEED(di != FAIL); rc = SDsetdimname(di, S_(3)) != FAIL; }
    OP("sdsetdimscale") { long d = I(1); NEED(SLOT(sds, d, NA)); int32 di = SDgetdimid(sds[d], (int)I(2)); NEED(di != FAIL); char nm[256]; int32 sz = 0, t, na; SDdiminfo(di, nm, &sz, &t, &na); if (sz == 0) { int32 rank, dims[H4_MAX_VAR_DIMS], nt; long ne; sds_geom(sds[d], &rank, dims, &nt, &ne); sz = dims[0] > 0 ? dims[0] : 1; } fill(big, sz * 8, I(4)); rc = SDsetdimscale(di, sz, NT(I(3)), big) != FAIL; }
    OP("sdgetdimscale") { long d = I(1); NEED(SLOT(sds, d, NA)); int32 di = SDgetdimid(sds[d], (int)I(2)); NEED(di != FAIL); char nm[256]; int32 sz = 0, t = 0, na = 0; SDdiminfo(di, nm, &sz, &t, &na); rc = SDgetdimscale(di, big) != FAIL; if (t == 0) strcpy(extra, " empty=1"); }
    OP("sdsetdimstrs") { long d = I(1); NEED(SLOT(sds, d, NA)); int32 di = SDgetdimid(sds[d], (int)I(2)); NEED(di != FAIL); rc = SDsetdimstrs(di, "lab", "unit", "fmt") != FAIL; }
    OP("sdsetdimval_comp") { long d = I(1); NEED(SLOT(sds, d, NA)); int32 di = SDgetdimid(sds[d], (int)I(2)); NEED(di != FAIL); rc = SDsetdimval_comp(di, (int)I(3)) != FAIL; }
    OP("sdsetdatastrs") { long d = I(1); NEED(SLOT(sds, d, NA)); rc = SDsetdatastrs(sds[d], "label", "unit", "format", "coords") != FAIL; }
    OP("sdsetcal") { long d = I(1); NEED(SLOT(sds, d, NA)); rc = SDsetcal(sds[d], 1.5, 0.1, 2.5, 0.2, DFNT_INT16) != FAIL; }
    OP("sdsetfillvalue") { long d = I(1); NEED(SLOT(sds, d, NA)); fill(big, 8, I(2)); rc = SDsetfillvalue(sds[d], big) != FAIL; }
    OP("sdsetrange") { long d = I(1); NEED(SLOT(sds, d, NA)); fill(big, 16, I(2)); rc = SDsetrange(sds[d], big, big + 8) != FAIL; }
    OP("sdsetcompress") { long d = I(1); NEED(SLOT(sds, d, NA)); comp_info ci; memset(&ci, 0, sizeof ci); comp_coder_t ct = I(2) == 1 ? COMP_CODE_RLE : I(2) == 2 ? COMP_CODE_SKPHUFF : COMP_CODE_DEFLATE; if (ct == COMP_CODE_SKPHUFF) ci.skphuff.skp_size = 2; if (ct == COMP_CODE_DEFLATE) ci.deflate.level = 6; rc = SDsetcompress(sds[d], ct, &ci) != FAIL; }
    OP("sdsetchunk") {
        long d = I(1); NEED(SLOT(sds, d, NA)); int32 rank, dims[H4_MAX_VAR_DIMS], nt; long ne; NEED(sds_geom(sds[d], &rank, dims, &nt, &ne));
        HDF_CHUNK_DEF c; memset(&c, 0, sizeof c); int32 fl = I(2) ? (HDF_CHUNK | HDF_COMP) : HDF_CHUNK;
        for (int k = 0; k < rank; k++) { int32 cl = dims[k] > 0 ? (dims[k] + 1) / 2 : 2; if (I(2)) c.comp.chunk_lengths[k] = cl; else c.chunk_lengths[k] = cl; }
        if (I(2)) { c.comp.comp_type = I(2) == 1 ? COMP_CODE_RLE : COMP_CODE_DEFLATE; c.comp.cinfo.deflate.level = 6; }
        rc = SDsetchunk(sds[d], c, fl) != FAIL;
    }
    OP("sdsetexternalfile") { long d = I(1); NEED(SLOT(sds, d, NA)); /* documented no-op when the dataset is external already */ NEED(SDgetexternalinfo(sds[d], 0, NULL, NULL, NULL) <= 0); rc = SDsetexternalfile(sds[d], xname(I(2)), (int32)I(3)) != FAIL; }
    OP("sdsetnbitdataset") { long d = I(1); NEED(SLOT(sds, d, NA)); rc = SDsetnbitdataset(sds[d], 5, 4, 0, 0) != FAIL; }
    OP("sdsetfillmode") { long i = I(1); NEED(SLOT(sd, i, 2)); rc = SDsetfillmode(sd[i], (int)I(2)) != FAIL; }
    OP("sdsetblocksize") { long d = I(1); NEED(SLOT(sds, d, NA)); rc = SDsetblocksize(sds[d], (int32)I(2)) != FAIL; }
    OP("sdsetchunkcache") { long d = I(1); NEED(SLOT(sds, d, NA)); rc = SDsetchunkcache(sds[d], (int32)I(2), 0) != FAIL; }
    OP("sdsetaccesstype") { long d = I(1); NEED(SLOT(sds, d, NA)); rc = SDsetaccesstype(sds[d], DFACC_SERIAL) != FAIL; }
    OP("sdwritechunk") {
        long d = I(1); NEED(SLOT(sds, d, NA)); HDF_CHUNK_DEF c; int32 fl = 0; memset(&c, 0, sizeof c);
        if (SDgetchunkinfo(sds[d], &c, &fl) == FAIL || fl == HDF_NONE) { rc = -1; goto out; }
        int32 rank, dims[H4_MAX_VAR_DIMS], nt; long ne; NEED(sds_geom(sds[d], &rank, dims, &nt, &ne));
        long cs = ntsize(nt); int32 org[H4_MAX_VAR_DIMS]; for (int k = 0; k < rank; k++) { cs *= c.chunk_lengths[k]; org[k] = 0; } NEED(cs > 0 && cs < (long)sizeof big);
        fill(big, cs, I(2)); rc = SDwritechunk(sds[d], org, big) != FAIL;
    }
    OP("sdreadchunk") {
        long d = I(1); NEED(SLOT(sds, d, NA)); HDF_CHUNK_DEF c; int32 fl = 0; memset(&c, 0, sizeof c);
        if (SDgetchunkinfo(sds[d], &c, &fl) == FAIL || fl == HDF_NONE) { rc = -1; goto out; }
        int32 rank, dims[H4_MAX_VAR_DIMS], nt; long ne; NEED(sds_geom(sds[d], &rank, dims, &nt, &ne));
        long cs = ntsize(nt); int32 org[H4_MAX_VAR_DIMS]; for (int k = 0; k < rank; k++) { cs *= c.chunk_lengths[k]; org[k] = 0; } NEED(cs > 0 && cs < (long)sizeof big);
        rc = SDreadchunk(sds[d], org, big) != FAIL;
    }
    OP("sdinfo") {
        long d = I(1); NEED(SLOT(sds, d, NA)); char nm[256] = ""; int32 rank = 0, dims[H4_MAX_VAR_DIMS], nt = 0, na = 0;
        rc = SDgetinfo(sds[d], nm, &rank, dims, &nt, &na) != FAIL;
        comp_coder_t ct = 0; comp_info ci; HDF_CHUNK_DEF c; int32 fl = 0; double a, b, c2, e; int32 t2;
        SDgetcompinfo(sds[d], &ct, &ci); SDgetchunkinfo(sds[d], &c, &fl); SDgetfillvalue(sds[d], big); SDgetrange(sds[d], big, big + 8); SDgetcal(sds[d], &a, &b, &c2, &e, &t2);
        char l[64] = "", u[64] = "", f[64] = "", cs[64] = ""; SDgetdatastrs(sds[d], l, u, f, cs, 64);
        char *q_ = extra + sprintf(extra, " name=%.40s rank=%ld nt=%ld na=%ld coord=%d ref=%ld rec=%d chunk=%ld lab=%.20s", nm, (long)rank, (long)nt, (long)na, (int)SDiscoordvar(sds[d]), (long)SDidtoref(sds[d]), (int)SDisrecord(sds[d]), (long)fl, l);
        for (int k = 0; rc && k < rank && k < 4; k++) {
            int32 di = SDgetdimid(sds[d], k); char dn[256] = ""; int32 dsz = 0, dt = 0, dna = 0;
            if (di != FAIL) SDdiminfo(di, dn, &dsz, &dt, &dna);
            q_ += sprintf(q_, " d%d=%ld:%.30s:%ld:%ld:%ld", k, (long)dims[k], dn, (long)dsz, (long)dt, (long)dna);
        }
    }
    OP("sdfileinfo") { long i = I(1); NEED(SLOT(sd, i, 2)); int32 n = 0, a = 0; rc = SDfileinfo(sd[i], &n, &a) != FAIL; sprintf(extra, " nds=%ld nat=%ld", (long)n, (long)a); }
    OP("sdnametoindex") { long i = I(1); NEED(SLOT(sd, i, 2)); int32 x = SDnametoindex(sd[i], S_(2)); rc = x != FAIL; sprintf(extra, " idx=%ld", (long)x); }
    OP("sdfindattr") { long i = I(1); NEED(SLOT(sd, i, 2)); rc = SDfindattr(sd[i], S_(2)) != FAIL; }
    /* ---------------- GR ---------------- */
    OP("grstart") { long g = I(1), f = I(2); NEED(g >= 0 && g < 2 && gr[g] == FAIL && SLOT(fid, f, NF)); gr[g] = GRstart(fid[f]); rc = gr[g] != FAIL; }
    OP("grend") { long g = I(1); NEED(SLOT(gr, g, 2)); for (int k = 0; k < NA; k++) if (ri[k] != FAIL) { GRendaccess(ri[k]); ri[k] = FAIL; } rc = GRend(gr[g]) != FAIL; gr[g] = FAIL; }
    OP("grcreate") { long r = I(1), g = I(2); NEED(r >= 0 && r < NA && ri[r] == FAIL && SLOT(gr, g, 2)); int32 dm[2] = {(int32)I(6), (int32)I(7)}; ri[r] = GRcreate(gr[g], S_(3), (int32)I(4), NT(I(5)), MFGR_INTERLACE_PIXEL, dm); rc = ri[r] != FAIL; }
    OP("grselect") { long r = I(1), g = I(2); NEED(r >= 0 && r < NA && ri[r] == FAIL && SLOT(gr, g, 2)); ri[r] = GRselect(gr[g], (int32)I(3)); rc = ri[r] != FAIL; }
    OP("grendaccess") { long r = I(1); NEED(SLOT(ri, r, NA)); rc = GRendaccess(ri[r]) != FAIL; ri[r] = FAIL; }
    OP("grwriteimage") { long r = I(1); NEED(SLOT(ri, r, NA)); char nm[256]; int32 nc, nt, il, dm[2], na; NEED(GRgetiminfo(ri[r], nm, &nc, &nt, &il, dm, &na) != FAIL); long sz = (long)nc * ntsize(nt) * dm[0] * dm[1]; NEED(sz > 0 && sz < (long)sizeof big); int32 st[2] = {0, 0}; fill(big, sz, I(2)); rc = GRwriteimage(ri[r], st, NULL, dm, big) != FAIL; }
    OP("grreadimage") { long r = I(1); NEED(SLOT(ri, r, NA)); char nm[256]; int32 nc, nt, il, dm[2], na; NEED(GRgetiminfo(ri[r], nm, &nc, &nt, &il, dm, &na) != FAIL); long sz = (long)nc * ntsize(nt) * dm[0] * dm[1]; NEED(sz > 0 && sz < (long)sizeof big); int32 st[2] = {0, 0}; rc = GRreadimage(ri[r], st, NULL, dm, big) != FAIL; if (rc) sprintf(extra, " h=%08x", quick(big, sz)); }
    OP("grsetattr") { long k = I(1), n = I(5); int32 id = FAIL; NEED(n > 0 && n < 4096); if (k == 0 && SLOT(gr, I(2), 2)) id = gr[I(2)]; if (k == 1 && SLOT(ri, I(2), NA)) id = ri[I(2)]; NEED(id != FAIL); fill(big, n * 8, I(6)); rc = GRsetattr(id, S_(3), NT(I(4)), (int32)n, big) != FAIL; }
    OP("grgetattr") { long k = I(1); int32 id = FAIL; if (k == 0 && SLOT(gr, I(2), 2)) id = gr[I(2)]; if (k == 1 && SLOT(ri, I(2), NA)) id = ri[I(2)]; NEED(id != FAIL); char nm[256]; int32 t, c; if (GRattrinfo(id, (int32)I(3), nm, &t, &c) == FAIL || (long)c * ntsize(t) > (long)sizeof big) rc = 0; else rc = GRgetattr(id, (int32)I(3), big) != FAIL; }
    OP("grwritelut") { long r = I(1); NEED(SLOT(ri, r, NA)); int32 l = GRgetlutid(ri[r], 0); NEED(l != FAIL); fill(big, 768, I(2)); rc = GRwritelut(l, 3, DFNT_UINT8, MFGR_INTERLACE_PIXEL, 256, big) != FAIL; }
    OP("grreadlut") { long r = I(1); NEED(SLOT(ri, r, NA)); int32 l = GRgetlutid(ri[r], 0); NEED(l != FAIL); int32 nc = 0, nt = 0, il = 0, ne = 0; GRgetlutinfo(l, &nc, &nt, &il, &ne); if (ne <= 0) rc = 0; else rc = GRreadlut(l, big) != FAIL; }
    OP("grsetcompress") { long r = I(1); NEED(SLOT(ri, r, NA)); comp_info ci; memset(&ci, 0, sizeof ci); comp_coder_t ct = I(2) == 1 ? COMP_CODE_RLE : COMP_CODE_DEFLATE; ci.deflate.level = 6; rc = GRsetcompress(ri[r], ct, &ci) != FAIL; }
    OP("grsetchunk") { long r = I(1); NEED(SLOT(ri, r, NA)); char nm[256]; int32 nc, nt, il, dm[2], na; NEED(GRgetiminfo(ri[r], nm, &nc, &nt, &il, dm, &na) != FAIL); HDF_CHUNK_DEF c; memset(&c, 0, sizeof c); c.chunk_lengths[0] = (dm[0] + 1) / 2; c.chunk_lengths[1] = (dm[1] + 1) / 2; rc = GRsetchunk(ri[r], c, HDF_CHUNK) != FAIL; }
    OP("grsetexternalfile") { long r = I(1); NEED(SLOT(ri, r, NA)); rc = GRsetexternalfile(ri[r], xname(I(2)), (int32)I(3)) != FAIL; }
    OP("grsetaccesstype") { long r = I(1); NEED(SLOT(ri, r, NA)); rc = GRsetaccesstype(ri[r], DFACC_SERIAL) != FAIL; }
    OP("grsetchunkcache") { long r = I(1); NEED(SLOT(ri, r, NA)); rc = GRsetchunkcache(ri[r], (int32)I(2), 0) != FAIL; }
    OP("grreqimageil") { long r = I(1); NEED(SLOT(ri, r, NA)); rc = GRreqimageil(ri[r], (int)I(2)) != FAIL; }
    OP("grinfo") { long r = I(1); NEED(SLOT(ri, r, NA)); char nm[256] = ""; int32 nc = 0, nt = 0, il = 0, dm[2] = {0, 0}, na = 0; rc = GRgetiminfo(ri[r], nm, &nc, &nt, &il, dm, &na) != FAIL; sprintf(extra, " nc=%ld nt=%ld %ldx%ld na=%ld ref=%u name=%.40s", (long)nc, (long)nt, (long)dm[0], (long)dm[1], (long)na, (unsigned)GRidtoref(ri[r]), nm); }
    OP("grfileinfo") { long g = I(1); NEED(SLOT(gr, g, 2)); int32 n = 0, a = 0; rc = GRfileinfo(gr[g], &n, &a) != FAIL; sprintf(extra, " n=%ld na=%ld", (long)n, (long)a); }
    OP("grnametoindex") { long g = I(1); NEED(SLOT(gr, g, 2)); rc = GRnametoindex(gr[g], S_(2)) != FAIL; }
    /* ---------------- AN ---------------- */
    OP("anstart") { long a = I(1), f = I(2); NEED(a >= 0 && a < 2 && an[a] == FAIL && SLOT(fid, f, NF)); an[a] = ANstart(fid[f]); rc = an[a] != FAIL; }
    OP("anend") { long a = I(1); NEED(SLOT(an, a, 2)); for (int k = 0; k < NA; k++) if (ann[k] != FAIL) { ANendaccess(ann[k]); ann[k] = FAIL; } rc = ANend(an[a]) != FAIL; an[a] = FAIL; }
    OP("ancreate") { long n = I(1), a = I(2); NEED(n >= 0 && n < NA && ann[n] == FAIL && SLOT(an, a, 2)); ann[n] = ANcreate(an[a], (uint16)I(3), (uint16)I(4), (ann_type)I(5)); rc = ann[n] != FAIL; }
    OP("ancreatef") { long n = I(1), a = I(2); NEED(n >= 0 && n < NA && ann[n] == FAIL && SLOT(an, a, 2)); ann[n] = ANcreatef(an[a], (ann_type)I(3)); rc = ann[n] != FAIL; }
    OP("anselect") { long n = I(1), a = I(2); NEED(n >= 0 && n < NA && ann[n] == FAIL && SLOT(an, a, 2)); ann[n] = ANselect(an[a], (int32)I(3), (ann_type)I(4)); rc = ann[n] != FAIL; }
    OP("anendaccess") { long n = I(1); NEED(SLOT(ann, n, NA)); rc = ANendaccess(ann[n]) != FAIL; ann[n] = FAIL; }
    OP("anwriteann") { long n = I(1), l = I(2); NEED(SLOT(ann, n, NA) && l > 0 && l < 4096); fill(big, l, I(3)); for (long k = 0; k < l; k++) big[k] = (uint8_t)('a' + big[k] % 26); rc = ANwriteann(ann[n], (char *)big, (int32)l) != FAIL; }
    OP("anreadann") { long n = I(1); NEED(SLOT(ann, n, NA)); int32 l = ANannlen(ann[n]); if (l == FAIL || l + 1 > (int32)sizeof big) rc = 0; else rc = ANreadann(ann[n], (char *)big, l + 1) != FAIL; sprintf(extra, " len=%ld", (long)l); }
    OP("aninfo") { long a = I(1); NEED(SLOT(an, a, 2)); int32 p, q, r, s; rc = ANfileinfo(an[a], &p, &q, &r, &s) != FAIL; sprintf(extra, " %ld %ld %ld %ld n=%ld", (long)p, (long)q, (long)r, (long)s, (long)ANnumann(an[a], AN_DATA_LABEL, (uint16)I(2), (uint16)I(3))); }
    /* ---------------- directives ---------------- */
    OP("closeall") { closeall(); rc = closeall_failed ? 0 : 1; }
    OP("snapshot") { rc = 2; }
    OP("check") { rc = 3; }
    OP("dump") { rc = 4; }
    OP("ddlist") {   /* descriptor list, file length and stored version of file F (must be closed): the initial state of the model */
        int32 f = Hopen(fname(I(1)), DFACC_READ, 0); rc = f != FAIL;
        if (f != FAIL) {
            uint16 tag = 0, ref = 0; int32 off = 0, len = 0; char *p = extra; uint32 a_ = 0, b_ = 0, c_ = 0; char vs_[LIBVSTR_LEN + 1];
            filerec_t *fr = HAatom_object(f);
            Hgetfileversion(f, &a_, &b_, &c_, vs_);
            p += sprintf(p, " end=%ld ver=%u.%u.%u dds=", (long)fr->f_end_off, a_, b_, c_);
            while (Hfind(f, DFTAG_WILDCARD, DFREF_WILDCARD, &tag, &ref, &off, &len, DF_FORWARD) != FAIL && p - extra < (long)sizeof extra - 64)
            {
                int16 sp = 0;   /* special code of the element (1 linked, 2 external, 3 compressed, 5 chunked...), 0 = plain */
                if (SPECIALTAG(tag)) { uint8 hd[2] = {0, 0}; filerec_t *fr2 = HAatom_object(f); long here = ftell(fr2->file); FILE *raw = __real_fopen(fname(I(1)), "rb"); if (raw) { fseek(raw, off, SEEK_SET); if (fread(hd, 1, 2, raw) == 2) sp = (int16)((hd[0] << 8) | hd[1]); fclose(raw); } (void)here; if (sp == 0) sp = 1; }
                p += sprintf(p, "%u:%u:%ld:%ld:%d,", (unsigned)(SPECIALTAG(tag) ? BASETAG(tag) : tag), (unsigned)ref, (long)off, (long)len, (int)sp);
            }
            Hclose(f);
        }
    }
    OP("dfr8addimage") {   /* old-style 8-bit raster (DFR8 interface; the file must not be open): comp 0 none, 11 RLE */
        long w = I(2), h = I(3); NEED(w > 0 && h > 0 && w * h < (long)sizeof big); fill(big, w * h, I(5));
        rc = DFR8addimage(fname(I(1)), big, (int32)w, (int32)h, (uint16)I(4)) != FAIL;
    }
    OP("rmfile") { rc = unlink(xname(I(1))) == 0; }
    OP("chmodro") { rc = chmod(S_(1), 0444) == 0; }
    OP("chmodrw") { rc = chmod(S_(1), 0666) == 0; }
    /* OS-level scenarios: run as an unprivileged user (file permissions become effective); hide a file by renaming it
       (a second open of the same path then fails whatever the uid) */
    OP("dropuid") { rc = geteuid() != 0 ? 1 : seteuid(65534) == 0; }
    OP("regainuid") { rc = seteuid(0) == 0 || getuid() != 0; }
    OP("hide") { char m[64]; snprintf(m, sizeof m, "%s.moved", fname(I(1))); rc = rename(fname(I(1)), m) == 0; }
    OP("unhide") { char m[64]; snprintf(m, sizeof m, "%s.moved", fname(I(1))); rc = rename(m, fname(I(1))) == 0; }
    OP("oldversion") {   /* patch the stored version element of file F: library version -> 4.0.0 (file must be closed) */
        int32 f = Hopen(fname(I(1)), DFACC_READ, 0); int32 off = -1, len = 0; uint16 t, r;
        if (f != FAIL) { if (Hfind(f, DFTAG_VERSION, 1, &t, &r, &off, &len, DF_FORWARD) == FAIL) off = -1; Hclose(f); }
        if (off > 0) { FILE *fp = __real_fopen(fname(I(1)), "rb+"); uint8_t v[12] = {0, 0, 0, 4, 0, 0, 0, 0, 0, 0, 0, 0}; fseek(fp, off, SEEK_SET); __real_fwrite(v, 1, 12, fp); fclose(fp); }
        rc = off > 0;
    }
    else rc = -2;
out:
    return rc;
}

static void run_history(char **lines, long *lnos, long n)
{
    static char line[4096];
    init_slots();
    for (long li = 0; li < n; li++) {
        strncpy(line, lines[li], sizeof line - 1);
        nt_ = 0;
        for (char *p = strtok(line, " \t\r\n"); p && nt_ < MAXT; p = strtok(NULL, " \t\r\n")) T[nt_++] = p;
        if (nt_ == 0 || T[0][0] == '#') { printf("%ld skip\n", lnos[li]); continue; }
        if (!strcmp(T[0], "history")) { printf("%ld history\n", lnos[li]); continue; }
        w_bytes = w_calls = w_creates = 0;
        HEclear();
        if ((!strcmp(T[0], "seek") || !strcmp(T[0], "read")) && SLOT(aid, I(1), NA)) {
            /* context of a positioning / reading call, printed before it runs (diagnostics for crash signatures only) */
            int32 ln_ = -1, ps_ = -1; int16 sp_ = 0;
            Hinquire(aid[I(1)], NULL, NULL, NULL, &ln_, NULL, &ps_, NULL, &sp_);
            long tgt = !strcmp(T[0], "read") ? ps_ + I(2) : I(3) == 0 ? I(2) : I(3) == 1 ? ps_ + I(2) : ln_ + I(2);
            printf("%ld pre special=%d %s\n", lnos[li], (int)sp_, tgt > ln_ ? "past-end" : "inside"); fflush(stdout);
            HEclear();
        }
        int rc = run_op(T[0]);
        long wb = w_bytes, wc = w_calls, wcr = w_creates;
        if (rc == -2) { printf("%ld unknown-op %s\n", lnos[li], T[0]); continue; }
        if (rc == 2) { printf("%ld snapshot", lnos[li]); do_snapshot(); printf("\n"); fflush(stdout); continue; }
        if (rc == 3) { printf("%ld check", lnos[li]); do_check(); printf("\n"); fflush(stdout); continue; }
        if (rc == 4) {
            sha_t S; sha_init(&S);
            w_bytes = w_calls = w_creates = 0; dl_n = 0; dl_vn = 0; dl_len = 0; dl_view = 0;
            dump_file(fname(I(1)), &S);
            long wb2 = w_bytes, wc2 = w_calls, wcr2 = w_creates;
            printf("%ld dump w=%ld,%ld,%ld n=%d ", lnos[li], wb2, wc2, wcr2, dl_n);
            for (int k = 0; k < dl_n; k++) printf("%s%08x", k ? "," : "", dl_hashes[k]);
            printf(" view=");
            for (int k = 0; k < dl_vn; k++) printf("%s%08x", k ? "," : "", dl_vhashes[k]);
            printf("\n"); fflush(stdout); continue;
        }
        printf("%ld %s w=%ld,%ld,%ld%s\n", lnos[li], rc == 1 ? "ok" : rc == 0 ? "fail" : "na", wb, wc, wcr, extra);
        fflush(stdout);
    }
    closeall();
}

int main(int argc, char **argv)
{
    if (argc < 3) return 2;
    const char *dir = argv[1];
    FILE *f = __real_fopen(argv[2], "r");
    if (!f) return 2;
    static char buf[8192];
    char **lines = NULL; long *lnos = NULL; long n = 0, cap = 0, ln = 0;
    while (fgets(buf, sizeof buf, f)) {
        ln++;
        if (n == cap) { cap = cap ? cap * 2 : 1024; lines = realloc(lines, cap * sizeof *lines); lnos = realloc(lnos, cap * sizeof *lnos); }
        lines[n] = strdup(buf); lnos[n] = ln; n++;
    }
    fclose(f);
    long i = 0, hk = 0;
    while (i < n) {
        long j = i + 1;
        while (j < n && strncmp(lines[j], "history", 7) != 0) j++;
        fflush(stdout);
        char sub[1024];
        snprintf(sub, sizeof sub, "%s/h%ld", dir, hk++);
        mkdir(sub, 0777);
        chmod(sub, 0777);   /* an unprivileged run (dropuid) must still be able to create files here: creation is observed, not prevented */
        pid_t pid = fork();
        if (pid == 0) {
            if (chdir(sub) != 0) _exit(3);
            run_history(lines + i, lnos + i, j - i); fflush(stdout); _exit(0);
        }
        int st = 0;
        waitpid(pid, &st, 0);
        if (!(WIFEXITED(st) && WEXITSTATUS(st) == 0)) {
            int code = WIFEXITED(st) ? WEXITSTATUS(st) : 128 + WTERMSIG(st);
            printf("%ld crash %d\n", lnos[j - 1], code);
        }
        if (!getenv("DRIVE_RO_KEEP")) {
            char cmd[1100]; snprintf(cmd, sizeof cmd, "rm -rf '%s'", sub); if (system(cmd)) {}
        }
        i = j;
    }
    return 0;
}
