/* C18 harness: (1) builds HDF4 input files from a small script, (2) dumps a file as a canonical content tree
 * through the public API only (SD, GR, V, VS, AN, DFP) -- independent of hdiff/hdp.
 *
 *   drive_repack gen  <script> <out.hdf>
 *   drive_repack dump <file.hdf>
 *
 * Dump format (one line per item; names/bytes are hex so that any character is safe):
 *   N <depth> <kind> <namehex>           kind: root | vg | sds | gr | vs
 *   C <text>                             content of the last N (type, dims, attributes, palette, annotations, data)
 *   L <text>                             storage layout of the last N (not content)
 *   I <text>                             object information the layout decision depends on (not content)
 *   X <text>                             file-level accounting (not content)
 */
#include <stdio.h>
#include <stdlib.h>
#include <string.h>
#include "hdf.h"
#include "mfhdf.h"

#define DIE(...)                                                                                                     \
    do {                                                                                                             \
        printf("ERROR ");                                                                                            \
        printf(__VA_ARGS__);                                                                                         \
        printf("\n");                                                                                                \
        fflush(stdout);                                                                                              \
        exit(3);                                                                                                     \
    } while (0)

/* ------------------------------------------------------------------ helpers */
static uint32 rs;
static uint32
rnd(void)
{
    rs = rs * 1664525u + 1013904223u;
    return rs >> 8;
}

static int
ntsize(int32 nt)
{
    return DFKNTsize((nt & DFNT_MASK) | DFNT_NATIVE);
}

/* fill nelem elements of size sz with a reproducible pattern */
static void
fillpat(uint8 *b, size_t nelem, int sz, uint32 seed, int pat)
{
    size_t i;
    int    k;
    rs = seed * 2654435761u + 12345u;
    if (pat == 3) {
        memset(b, 0, nelem * (size_t)sz);
        return;
    }
    for (i = 0; i < nelem;) {
        uint8  v[8];
        size_t run = 1;
        for (k = 0; k < 8; k++)
            v[k] = (uint8)rnd();
        if (pat == 1)
            run = 1 + rnd() % 9; /* runs: good for RLE */
        if (pat == 2) {          /* ramp in the low byte */
            memset(v, 0, 8);
            v[0] = (uint8)i;
            v[sz - 1] = (uint8)(i >> 8);
        }
        if (pat == 4) { /* extremes */
            static const uint8 ext[4] = {0x00, 0x7f, 0x80, 0xff};
            uint8              e      = ext[rnd() % 4];
            memset(v, e, 8);
            if (rnd() % 2)
                v[0] = ext[rnd() % 4];
        }
        for (; run > 0 && i < nelem; run--, i++)
            memcpy(b + i * (size_t)sz, v, (size_t)sz);
    }
}

static int
hexval(int c)
{
    if (c >= '0' && c <= '9')
        return c - '0';
    if (c >= 'a' && c <= 'f')
        return c - 'a' + 10;
    return -1;
}

/* decode hex string into a NUL-terminated buffer; "-" means empty */
static char *
unhex(const char *h, int *len)
{
    size_t n = strlen(h);
    char  *o = calloc(n / 2 + 2, 1);
    size_t i;
    if (strcmp(h, "-") == 0) {
        if (len)
            *len = 0;
        return o;
    }
    for (i = 0; i + 1 < n; i += 2)
        o[i / 2] = (char)(hexval(h[i]) * 16 + hexval(h[i + 1]));
    if (len)
        *len = (int)(n / 2);
    return o;
}

static void
puthex(const void *p, size_t n)
{
    const uint8 *b = p;
    size_t       i;
    if (n == 0)
        putchar('-');
    for (i = 0; i < n; i++)
        printf("%02x", b[i]);
}

/* data values: small arrays in full, large ones as a 64-bit FNV-1a digest of all bytes plus the digests of 16
 * equal segments (so a report says which part of the array differs) */
#define FULL_DATA_MAX 65536
static void
putdata(const void *p, size_t n)
{
    const uint8 *b = p;
    size_t       i, k, seg;
    unsigned long long h = 1469598103934665603ULL;
    if (n <= FULL_DATA_MAX) {
        puthex(p, n);
        return;
    }
    for (i = 0; i < n; i++)
        h = (h ^ b[i]) * 1099511628211ULL;
    printf("digest %lu %016llx segments", (unsigned long)n, h);
    seg = (n + 15) / 16;
    for (k = 0; k < 16; k++) {
        unsigned long long hs = 1469598103934665603ULL;
        for (i = k * seg; i < n && i < (k + 1) * seg; i++)
            hs = (hs ^ b[i]) * 1099511628211ULL;
        printf(" %016llx", hs);
    }
}

static void
putname(const char *s)
{
    puthex(s, strlen(s));
}

static const char *
kv(int argc, char **argv, const char *key, const char *dflt)
{
    int    i;
    size_t kl = strlen(key);
    for (i = 0; i < argc; i++)
        if (strncmp(argv[i], key, kl) == 0 && argv[i][kl] == '=')
            return argv[i] + kl + 1;
    return dflt;
}

static int
parse_list(const char *s, int32 *out, int max)
{
    int n = 0;
    if (strcmp(s, "-") == 0)
        return 0;
    while (*s && n < max) {
        out[n++] = (int32)strtol(s, (char **)&s, 10);
        if (*s == ',')
            s++;
    }
    return n;
}

/* comp=none | rle | huff:N | gzip:N */
static comp_coder_t
parse_comp_kw(const char *s, comp_info *ci)
{
    memset(ci, 0, sizeof *ci);
    if (strncmp(s, "rle", 3) == 0)
        return COMP_CODE_RLE;
    if (strncmp(s, "huff:", 5) == 0) {
        ci->skphuff.skp_size = atoi(s + 5);
        return COMP_CODE_SKPHUFF;
    }
    if (strncmp(s, "gzip:", 5) == 0) {
        ci->deflate.level = atoi(s + 5);
        return COMP_CODE_DEFLATE;
    }
    return COMP_CODE_NONE;
}

/* ------------------------------------------------------------------ gen */
#define MAXTOK 96
#define MAXVG  64

enum { K_NONE, K_SDS, K_GR, K_VS, K_VG };

static int
gen(const char *script, const char *out)
{
    FILE *fp = fopen(script, "r");
    char  line[8192];
    int32 fid, sd, gr = FAIL, an;
    int32 vgs[MAXVG];
    int32 sds_open[512];
    int   nsds_open = 0;
    int32 ri_open[256];
    int   nri_open = 0;
    int   lastk    = K_NONE;
    int   last_mtag = 0; /* tag under which the last SDS / image is a vgroup member (0: not a member) */
    int32 last_id  = FAIL; /* sds id / ri id / vdata id / vgroup id */
    int32 last_vs  = FAIL;
    char   old_op[32][8];
    int    old_arg[32][4];
    int    nold = 0;
    uint32 lonepals[16];
    int    nlonepals = 0;
    int    i;

    if (!fp)
        DIE("cannot open script %s", script);
    for (i = 0; i < MAXVG; i++)
        vgs[i] = FAIL;
    if ((fid = Hopen(out, DFACC_CREATE, 0)) == FAIL)
        DIE("Hopen create");
    if ((sd = SDstart(out, DFACC_WRITE)) == FAIL)
        DIE("SDstart");
    if (Vstart(fid) == FAIL)
        DIE("Vstart");
    if ((an = ANstart(fid)) == FAIL)
        DIE("ANstart");

    while (fgets(line, sizeof line, fp)) {
        char *tok[MAXTOK];
        int   nt = 0;
        char *p  = strtok(line, " \t\r\n");
        while (p && nt < MAXTOK) {
            tok[nt++] = p;
            p         = strtok(NULL, " \t\r\n");
        }
        if (nt == 0 || tok[0][0] == '#')
            continue;

        if (strcmp(tok[0], "vg") == 0) { /* vg <id> <namehex> <classhex|-> <parent> */
            int   id = atoi(tok[1]), parent = atoi(tok[4]);
            char *name = unhex(tok[2], NULL), *cls = unhex(tok[3], NULL);
            int32 vg = Vattach(fid, -1, "w");
            if (vg == FAIL)
                DIE("Vattach new");
            if (Vsetname(vg, name) == FAIL)
                DIE("Vsetname");
            if (cls[0] && Vsetclass(vg, cls) == FAIL)
                DIE("Vsetclass");
            if (parent >= 0 && Vinsert(vgs[parent], vg) == FAIL)
                DIE("Vinsert");
            vgs[id] = vg;
            lastk   = K_VG;
            last_id = vg;
            free(name);
            free(cls);
        }
        else if (strcmp(tok[0], "link") == 0) { /* link <child id> <parent id>: a second parent for a group */
            if (Vinsert(vgs[atoi(tok[2])], vgs[atoi(tok[1])]) == FAIL)
                DIE("Vinsert link");
        }
        else if (strcmp(tok[0], "sds") == 0) {
            /* sds <namehex> <nt> <unl> <rank> <dims..> key=val... */
            char  *name = unhex(tok[1], NULL);
            int32  ntp = atoi(tok[2]);
            int    unl = atoi(tok[3]), rank = atoi(tok[4]);
            int32  dims[H4_MAX_VAR_DIMS], cdims[H4_MAX_VAR_DIMS], start[H4_MAX_VAR_DIMS], edges[H4_MAX_VAR_DIMS];
            int32  chunk[H4_MAX_VAR_DIMS];
            int    nchunk, parent, sz = ntsize(ntp), recs;
            size_t nel = 1;
            comp_info     ci;
            comp_coder_t  ct;
            const char   *wr, *fillh, *comps;
            int32         id;
            uint8        *buf;
            for (i = 0; i < rank; i++)
                dims[i] = atoi(tok[5 + i]);
            nchunk = parse_list(kv(nt, tok, "chunk", "-"), chunk, H4_MAX_VAR_DIMS);
            comps  = kv(nt, tok, "comp", "none");
            ct     = parse_comp_kw(comps, &ci);
            wr     = kv(nt, tok, "write", "all");
            fillh  = kv(nt, tok, "fill", "-");
            parent = atoi(kv(nt, tok, "parent", "-1"));
            recs   = atoi(kv(nt, tok, "recs", "0"));
            memcpy(cdims, dims, sizeof dims);
            if (unl)
                cdims[0] = SD_UNLIMITED;
            if ((id = SDcreate(sd, name, ntp, rank, cdims)) == FAIL)
                DIE("SDcreate %s", name);
            if (strcmp(fillh, "-") != 0) {
                int   fl;
                char *fv = unhex(fillh, &fl);
                char  f8[8] = {0};
                memcpy(f8, fv, (size_t)(fl < 8 ? fl : 8));
                if (SDsetfillvalue(id, f8) == FAIL)
                    DIE("SDsetfillvalue");
                free(fv);
            }
            if (nchunk > 0) {
                HDF_CHUNK_DEF cd;
                int32         fl = HDF_CHUNK;
                memset(&cd, 0, sizeof cd);
                for (i = 0; i < rank; i++)
                    cd.chunk_lengths[i] = chunk[i];
                if (ct != COMP_CODE_NONE) {
                    fl = HDF_CHUNK | HDF_COMP;
                    for (i = 0; i < rank; i++)
                        cd.comp.chunk_lengths[i] = chunk[i];
                    cd.comp.comp_type = ct;
                    cd.comp.cinfo     = ci;
                }
                if (SDsetchunk(id, cd, fl) == FAIL)
                    DIE("SDsetchunk %s", name);
            }
            else if (strncmp(comps, "nbit", 4) == 0) {
                if (SDsetnbitdataset(id, sz * 8 - 2, sz * 8 - 3, 0, 0) == FAIL)
                    DIE("SDsetnbitdataset");
            }
            else if (ct != COMP_CODE_NONE) {
                if (SDsetcompress(id, ct, &ci) == FAIL)
                    DIE("SDsetcompress %s", name);
            }
            for (i = 0; i < rank; i++) {
                start[i] = 0;
                edges[i] = dims[i];
            }
            if (unl)
                edges[0] = recs;
            if (strcmp(wr, "part") == 0 && rank > 0 && !unl) {
                /* only the leading half (at least 1) of the slowest dimension: the rest stays fill */
                edges[0] = dims[0] > 1 ? dims[0] / 2 : 1;
            }
            for (i = 0; i < rank; i++)
                nel *= (size_t)edges[i];
            if (strcmp(wr, "none") != 0 && nel > 0) {
                buf = malloc(nel * (size_t)sz + 8);
                fillpat(buf, nel, sz, (uint32)atoi(kv(nt, tok, "seed", "1")), atoi(kv(nt, tok, "pat", "0")));
                if (SDwritedata(id, start, NULL, edges, buf) == FAIL)
                    DIE("SDwritedata %s", name);
                free(buf);
            }
            if (parent >= 0) {
                /* mtag=: the tag under which the object is made a member (any tag vgroup_insert accepts) */
                if (Vaddtagref(vgs[parent], atoi(kv(nt, tok, "mtag", "720")), SDidtoref(id)) == FAIL)
                    DIE("Vaddtagref sds");
            }
            last_mtag = parent >= 0 ? atoi(kv(nt, tok, "mtag", "720")) : 0;
            sds_open[nsds_open++] = id;
            lastk                 = K_SDS;
            last_id               = id;
            free(name);
        }
        else if (strcmp(tok[0], "dimname") == 0) { /* dimname <i> <namehex> */
            char *name = unhex(tok[2], NULL);
            int32 dim  = SDgetdimid(last_id, atoi(tok[1]));
            if (dim == FAIL || SDsetdimname(dim, name) == FAIL)
                DIE("SDsetdimname %s", name);
            free(name);
        }
        else if (strcmp(tok[0], "dimscale") == 0) { /* dimscale <i> <nt> <count> <seed> */
            int32  dim = SDgetdimid(last_id, atoi(tok[1]));
            int32  ntp = atoi(tok[2]), cnt = atoi(tok[3]);
            uint8 *b   = malloc((size_t)cnt * 8 + 8);
            fillpat(b, (size_t)cnt, ntsize(ntp), (uint32)atoi(tok[4]), 2);
            if (dim == FAIL || SDsetdimscale(dim, cnt, ntp, b) == FAIL)
                DIE("SDsetdimscale");
            free(b);
        }
        else if (strcmp(tok[0], "dimattr") == 0) { /* dimattr <i> <namehex> <nt> <count> <seed> */
            int32  dim  = SDgetdimid(last_id, atoi(tok[1]));
            char  *name = unhex(tok[2], NULL);
            int32  ntp = atoi(tok[3]), cnt = atoi(tok[4]);
            uint8 *b = malloc((size_t)cnt * 8 + 8);
            fillpat(b, (size_t)cnt, ntsize(ntp), (uint32)atoi(tok[5]), 0);
            if (dim == FAIL || SDsetattr(dim, name, ntp, cnt, b) == FAIL)
                DIE("SDsetattr dim");
            free(b);
            free(name);
        }
        else if (strcmp(tok[0], "attr") == 0) { /* attr <namehex> <nt> <count> <seed> [f=<field index>] */
            char  *name = unhex(tok[1], NULL);
            int32  ntp = atoi(tok[2]), cnt = atoi(tok[3]);
            uint8 *b = malloc((size_t)cnt * 8 + 8);
            int    r = SUCCEED;
            fillpat(b, (size_t)cnt, ntsize(ntp), (uint32)atoi(tok[4]), 0);
            if ((ntp & DFNT_MASK) == DFNT_CHAR8)
                for (i = 0; i < cnt; i++)
                    b[i] = (uint8)('a' + b[i] % 26);
            if (lastk == K_SDS)
                r = SDsetattr(last_id, name, ntp, cnt, b);
            else if (lastk == K_GR)
                r = GRsetattr(last_id, name, ntp, cnt, b);
            else if (lastk == K_VS)
                r = VSsetattr(last_vs, atoi(kv(nt, tok, "f", "-1")), name, ntp, cnt, b);
            else if (lastk == K_VG)
                r = Vsetattr(last_id, name, ntp, cnt, b);
            if (r == FAIL)
                DIE("set attr %s", name);
            free(b);
            free(name);
        }
        else if (strcmp(tok[0], "gattr") == 0) { /* gattr <sd|gr> <namehex> <nt> <count> <seed> */
            char  *name = unhex(tok[2], NULL);
            int32  ntp = atoi(tok[3]), cnt = atoi(tok[4]);
            uint8 *b = malloc((size_t)cnt * 8 + 8);
            int    r;
            fillpat(b, (size_t)cnt, ntsize(ntp), (uint32)atoi(tok[5]), 0);
            if (strcmp(tok[1], "sd") == 0)
                r = SDsetattr(sd, name, ntp, cnt, b);
            else {
                if (gr == FAIL && (gr = GRstart(fid)) == FAIL)
                    DIE("GRstart");
                r = GRsetattr(gr, name, ntp, cnt, b);
            }
            if (r == FAIL)
                DIE("global attr");
            free(b);
            free(name);
        }
        else if (strcmp(tok[0], "gr") == 0) {
            /* gr <namehex> <nt> <ncomp> <il> <xdim> <ydim> key=val... */
            char  *name = unhex(tok[1], NULL);
            int32  ntp = atoi(tok[2]), ncomp = atoi(tok[3]), il = atoi(tok[4]);
            int32  dims[2], start[2] = {0, 0}, chunk[2];
            int    nchunk, parent, sz = ntsize(ntp);
            comp_info    ci;
            comp_coder_t ct;
            int32        id;
            uint8       *buf;
            size_t       nel;
            dims[0] = atoi(tok[5]);
            dims[1] = atoi(tok[6]);
            nchunk  = parse_list(kv(nt, tok, "chunk", "-"), chunk, 2);
            ct      = parse_comp_kw(kv(nt, tok, "comp", "none"), &ci);
            parent  = atoi(kv(nt, tok, "parent", "-1"));
            if (gr == FAIL && (gr = GRstart(fid)) == FAIL)
                DIE("GRstart");
            if ((id = GRcreate(gr, name, ncomp, ntp, il, dims)) == FAIL)
                DIE("GRcreate");
            if (nchunk > 0) {
                HDF_CHUNK_DEF cd;
                int32         fl = HDF_CHUNK;
                memset(&cd, 0, sizeof cd);
                cd.chunk_lengths[0] = chunk[0];
                cd.chunk_lengths[1] = chunk[1];
                if (ct != COMP_CODE_NONE) {
                    fl                       = HDF_CHUNK | HDF_COMP;
                    cd.comp.chunk_lengths[0] = chunk[0];
                    cd.comp.chunk_lengths[1] = chunk[1];
                    cd.comp.comp_type        = ct;
                    cd.comp.cinfo            = ci;
                }
                if (GRsetchunk(id, cd, fl) == FAIL)
                    DIE("GRsetchunk");
            }
            else if (ct != COMP_CODE_NONE) {
                if (GRsetcompress(id, ct, &ci) == FAIL)
                    DIE("GRsetcompress");
            }
            nel = (size_t)dims[0] * (size_t)dims[1] * (size_t)ncomp;
            buf = malloc(nel * (size_t)sz + 8);
            fillpat(buf, nel, sz, (uint32)atoi(kv(nt, tok, "seed", "1")), atoi(kv(nt, tok, "pat", "0")));
            if (GRwriteimage(id, start, NULL, dims, buf) == FAIL)
                DIE("GRwriteimage");
            free(buf);
            if (parent >= 0 && Vaddtagref(vgs[parent], atoi(kv(nt, tok, "mtag", "306")), GRidtoref(id)) == FAIL)
                DIE("Vaddtagref gr");
            last_mtag = parent >= 0 ? atoi(kv(nt, tok, "mtag", "306")) : 0;
            ri_open[nri_open++] = id;
            lastk               = K_GR;
            last_id             = id;
            free(name);
        }
        else if (strcmp(tok[0], "pal") == 0) { /* pal <seed>   (256 x 3 uint8 on the last image) */
            uint8 pal[768];
            int32 pid = GRgetlutid(last_id, 0);
            fillpat(pal, 768, 1, (uint32)atoi(tok[1]), 0);
            if (pid == FAIL || GRwritelut(pid, 3, DFNT_UINT8, 0, 256, pal) == FAIL)
                DIE("GRwritelut");
        }
        else if (strcmp(tok[0], "vs") == 0) {
            /* vs <namehex> <classhex|-> <il> <nrec> <nfields> {<fnamehex> <type> <order>} seed= parent= */
            char  *name = unhex(tok[1], NULL), *cls = unhex(tok[2], NULL);
            int32  il = atoi(tok[3]), nrec = atoi(tok[4]);
            int    nf = atoi(tok[5]), parent, recsz = 0;
            char   flist[4096] = "";
            int32  vs;
            uint8 *buf;
            if (last_vs != FAIL) {
                VSdetach(last_vs);
                last_vs = FAIL;
            }
            if ((vs = VSattach(fid, -1, "w")) == FAIL)
                DIE("VSattach");
            if (VSsetname(vs, name) == FAIL)
                DIE("VSsetname");
            if (cls[0] && VSsetclass(vs, cls) == FAIL)
                DIE("VSsetclass");
            for (i = 0; i < nf; i++) {
                char *fn  = unhex(tok[6 + 3 * i], NULL);
                int32 ft  = atoi(tok[7 + 3 * i]);
                int32 ord = atoi(tok[8 + 3 * i]);
                if (VSfdefine(vs, fn, ft, ord) == FAIL)
                    DIE("VSfdefine %s", fn);
                if (i)
                    strcat(flist, ",");
                strcat(flist, fn);
                recsz += ntsize(ft) * ord;
                free(fn);
            }
            if (VSsetfields(vs, flist) == FAIL)
                DIE("VSsetfields");
            if (VSsetinterlace(vs, il) == FAIL)
                DIE("VSsetinterlace");
            if (nrec > 0) {
                buf = malloc((size_t)nrec * (size_t)recsz + 8);
                fillpat(buf, (size_t)nrec * (size_t)recsz, 1, (uint32)atoi(kv(nt, tok, "seed", "1")), 0);
                if (VSwrite(vs, buf, nrec, il) == FAIL)
                    DIE("VSwrite");
                free(buf);
            }
            parent = atoi(kv(nt, tok, "parent", "-1"));
            if (parent >= 0 && Vaddtagref(vgs[parent], DFTAG_VH, VSQueryref(vs)) == FAIL)
                DIE("Vaddtagref vs");
            lastk   = K_VS;
            last_vs = vs;
            free(name);
            free(cls);
        }
        else if (strcmp(tok[0], "ann") == 0) { /* ann <label|desc> <texthex>  on the last object */
            int      len;
            char    *txt = unhex(tok[2], &len);
            ann_type ty  = strcmp(tok[1], "label") == 0 ? AN_DATA_LABEL : AN_DATA_DESC;
            uint16   tag = 0, ref = 0;
            int32    a;
            if (lastk == K_SDS) {
                /* an annotation belongs to a tag/ref pair: the pair under which the SDS is known in its vgroup */
                tag = last_mtag ? (uint16)last_mtag : DFTAG_NDG;
                ref = (uint16)SDidtoref(last_id);
            }
            else if (lastk == K_GR) {
                /* images: the raster image group or the raster image tag (atag=306|302) */
                tag = (uint16)atoi(kv(nt, tok, "atag", "306"));
                ref = (uint16)GRidtoref(last_id);
            }
            else if (lastk == K_VS) {
                tag = DFTAG_VH;
                ref = (uint16)VSQueryref(last_vs);
            }
            else if (lastk == K_VG) {
                tag = DFTAG_VG;
                ref = (uint16)VQueryref(last_id);
            }
            else
                DIE("ann on unsupported object");
            if ((a = ANcreate(an, tag, ref, ty)) == FAIL)
                DIE("ANcreate");
            if (ANwriteann(a, txt, len) == FAIL)
                DIE("ANwriteann");
            ANendaccess(a);
            free(txt);
        }
        else if (strcmp(tok[0], "fann") == 0) { /* fann <label|desc> <texthex> */
            int   len;
            char *txt = unhex(tok[2], &len);
            int32 a   = ANcreatef(an, strcmp(tok[1], "label") == 0 ? AN_FILE_LABEL : AN_FILE_DESC);
            if (a == FAIL || ANwriteann(a, txt, len) == FAIL)
                DIE("file annotation");
            ANendaccess(a);
            free(txt);
        }
        else if (strcmp(tok[0], "lonepal") == 0) {
            if (nlonepals < 16)
                lonepals[nlonepals++] = (uint32)atoi(tok[1]);
        }
        else if (strcmp(tok[0], "r8pal") == 0 || strcmp(tok[0], "r8") == 0 || strcmp(tok[0], "r24") == 0) {
            /* old-style raster images, written through DFR8 / DF24 after the file is closed, in script order:
               r8pal <seed>            palette for the following 8-bit images (they all share this one palette object)
               r8 <w> <h> <seed> <rle> 8-bit image (DFR8addimage), optionally run-length compressed
               r24 <w> <h> <seed> <il> 24-bit image (DF24addimage) in interlace il */
            if (nold < 32) {
                int k;
                strncpy(old_op[nold], tok[0], 7);
                for (k = 0; k < 4; k++)
                    old_arg[nold][k] = k + 1 < nt ? atoi(tok[k + 1]) : 0;
                nold++;
            }
        }
        else
            DIE("unknown script op %s", tok[0]);
    }
    fclose(fp);
    if (last_vs != FAIL)
        VSdetach(last_vs);
    for (i = 0; i < nsds_open; i++)
        SDendaccess(sds_open[i]);
    for (i = 0; i < nri_open; i++)
        GRendaccess(ri_open[i]);
    for (i = 0; i < MAXVG; i++)
        if (vgs[i] != FAIL)
            Vdetach(vgs[i]);
    ANend(an);
    if (gr != FAIL)
        GRend(gr);
    Vend(fid);
    if (SDend(sd) == FAIL)
        DIE("SDend");
    if (Hclose(fid) == FAIL)
        DIE("Hclose");
    for (i = 0; i < nlonepals; i++) {
        uint8 pal[768];
        fillpat(pal, 768, 1, lonepals[i], 0);
        if (DFPaddpal(out, pal) == FAIL)
            DIE("DFPaddpal");
    }
    if (nold > 0) {
        DFR8restart();
        DF24restart();
    }
    for (i = 0; i < nold; i++) {
        if (strcmp(old_op[i], "r8pal") == 0) {
            static uint8 pal[768];
            fillpat(pal, 768, 1, (uint32)old_arg[i][0], 0);
            if (DFR8setpalette(pal) == FAIL)
                DIE("DFR8setpalette");
        }
        else {
            int    w = old_arg[i][0], h = old_arg[i][1], is8 = strcmp(old_op[i], "r8") == 0;
            size_t n = (size_t)w * (size_t)h * (is8 ? 1 : 3);
            uint8 *img = malloc(n + 8);
            fillpat(img, n, 1, (uint32)old_arg[i][2], 1);
            if (is8) {
                if (DFR8addimage(out, img, w, h, old_arg[i][3] ? COMP_RLE : 0) == FAIL)
                    DIE("DFR8addimage");
            }
            else {
                if (DF24setil(old_arg[i][3]) == FAIL || DF24addimage(out, img, w, h) == FAIL)
                    DIE("DF24addimage");
            }
            free(img);
        }
    }
    printf("ok\n");
    return 0;
}

/* ------------------------------------------------------------------ dump */
static int32 d_fid, d_sd, d_gr, d_an;

static int
reserved_class(const char *c)
{
    static const char *res[] = {"Attr0.0", "Var0.0", "Dim0.0", "UDim0.0", "DimVal0.0", "DimVal0.1", "CDF0.0",
                                "RIG0.0", "RI0.0", "RIATTR0.0N", "RIATTR0.0C", NULL};
    int i;
    for (i = 0; res[i]; i++)
        if (strcmp(c, res[i]) == 0)
            return 1;
    return strncmp(c, "_HDF_CHK_TBL_", 13) == 0;
}

static void
dump_anns(uint16 tag, uint16 ref)
{
    ann_type ty[2] = {AN_DATA_LABEL, AN_DATA_DESC};
    int      t, i;
    for (t = 0; t < 2; t++) {
        int32  n = ANnumann(d_an, ty[t], tag, ref);
        int32 *ids;
        if (n <= 0)
            continue;
        ids = malloc(sizeof(int32) * (size_t)n);
        if (ANannlist(d_an, ty[t], tag, ref, ids) == FAIL)
            DIE("ANannlist");
        for (i = 0; i < n; i++) {
            int32 len = ANannlen(ids[i]);
            char *b   = calloc((size_t)len + 2, 1);
            if (len < 0 || ANreadann(ids[i], b, len + 1) == FAIL)
                DIE("ANreadann");
            printf("C ann %s ", t == 0 ? "label" : "desc");
            puthex(b, (size_t)len);
            printf("\n");
            free(b);
            ANendaccess(ids[i]);
        }
        free(ids);
    }
}

static const char *
compname(comp_coder_t c)
{
    switch (c) {
        case COMP_CODE_NONE:
            return "none";
        case COMP_CODE_RLE:
            return "rle";
        case COMP_CODE_NBIT:
            return "nbit";
        case COMP_CODE_SKPHUFF:
            return "huff";
        case COMP_CODE_DEFLATE:
            return "gzip";
        case COMP_CODE_SZIP:
            return "szip";
        case COMP_CODE_JPEG:
            return "jpeg";
        default:
            return "other";
    }
}

static int
compparam(comp_coder_t c, comp_info *ci)
{
    if (c == COMP_CODE_SKPHUFF)
        return ci->skphuff.skp_size;
    if (c == COMP_CODE_DEFLATE)
        return ci->deflate.level;
    return 0;
}

static void
dump_sd_attrs(int32 id, int32 nattrs, const char *pfx)
{
    int i;
    for (i = 0; i < nattrs; i++) {
        char   an[H4_MAX_NC_NAME + 1];
        int32  nt, cnt;
        uint8 *b;
        if (SDattrinfo(id, i, an, &nt, &cnt) == FAIL)
            DIE("SDattrinfo");
        b = calloc((size_t)cnt * (size_t)ntsize(nt) + 8, 1);
        if (SDreadattr(id, i, b) == FAIL)
            DIE("SDreadattr");
        printf("C %sattr ", pfx);
        putname(an);
        printf(" %d %d ", (int)nt, (int)cnt);
        puthex(b, (size_t)cnt * (size_t)ntsize(nt));
        printf("\n");
        free(b);
    }
}

static void
dump_sds(int32 index, int depth)
{
    int32 id = SDselect(d_sd, index);
    char  name[H4_MAX_NC_NAME + 1];
    int32 rank, dims[H4_MAX_VAR_DIMS], nt, nattrs, start[H4_MAX_VAR_DIMS];
    int   i, empty = 0, sz;
    size_t        nel = 1;
    comp_coder_t  ct  = COMP_CODE_NONE;
    comp_info     ci;
    HDF_CHUNK_DEF cd;
    int32         cflags = 0;
    int           isrec;

    if (id == FAIL || SDgetinfo(id, name, &rank, dims, &nt, &nattrs) == FAIL)
        DIE("SDgetinfo");
    sz = ntsize(nt);
    printf("N %d sds ", depth);
    putname(name);
    printf("\n");
    printf("C type %d rank %d dims", (int)nt, (int)rank);
    for (i = 0; i < rank; i++) {
        printf(" %d", (int)dims[i]);
        nel *= (size_t)dims[i];
        start[i] = 0;
    }
    printf("\n");
    dump_sd_attrs(id, nattrs, "");
    for (i = 0; i < rank; i++) {
        int32 dim = SDgetdimid(id, i);
        char  dn[H4_MAX_NC_NAME + 1];
        int32 dsz, dnt, dnat;
        if (dim == FAIL || SDdiminfo(dim, dn, &dsz, &dnt, &dnat) == FAIL)
            DIE("SDdiminfo");
        printf("C dim %d ", i);
        putname(dn);
        printf(" scale %d ", (int)dnt);
        if (dnt != 0) {
            int32  cnt = dsz == 0 ? dims[i] : dsz;
            uint8 *b   = calloc((size_t)cnt * (size_t)ntsize(dnt) + 8, 1);
            if (cnt > 0 && SDgetdimscale(dim, b) == FAIL)
                printf("unreadable");
            else
                puthex(b, (size_t)cnt * (size_t)ntsize(dnt));
            free(b);
        }
        else
            printf("-");
        printf("\n");
        if (dnat > 0) {
            char pfx[32];
            sprintf(pfx, "dim %d ", i);
            dump_sd_attrs(dim, dnat, pfx);
        }
    }
    if (SDcheckempty(id, &empty) == FAIL)
        DIE("SDcheckempty");
    memset(&ci, 0, sizeof ci);
    if (!empty) {
        if (SDgetcompinfo(id, &ct, &ci) == FAIL)
            DIE("SDgetcompinfo %s", name);
        if (SDgetchunkinfo(id, &cd, &cflags) == FAIL)
            DIE("SDgetchunkinfo %s", name);
    }
    isrec = SDisrecord(id) ? 1 : 0;
    if (nel > 0 && rank > 0) {
        uint8 *b = calloc(nel * (size_t)sz + 8, 1);
        if (SDreaddata(id, start, NULL, dims, b) == FAIL)
            DIE("SDreaddata %s", name);
        printf("C data ");
        putdata(b, nel * (size_t)sz);
        printf("\n");
        free(b);
    }
    else
        printf("C data -\n");
    dump_anns(DFTAG_NDG, (uint16)SDidtoref(id));
    dump_anns(DFTAG_SDG, (uint16)SDidtoref(id));
    dump_anns(DFTAG_SD, (uint16)SDidtoref(id));
    printf("I empty %d rank %d bytes %ld isrec %d\n", empty, (int)rank, (long)(nel * (size_t)sz), isrec);
    printf("L comp %s %d chunk", compname(ct), compparam(ct, &ci));
    if (cflags & HDF_CHUNK)
        for (i = 0; i < rank; i++)
            printf(" %d", (int)cd.chunk_lengths[i]);
    else
        printf(" -");
    printf(" flags %d isrec %d\n", (int)cflags, isrec);
    SDendaccess(id);
}

static void
dump_gr_attrs(int32 id, int32 nattrs)
{
    int i;
    for (i = 0; i < nattrs; i++) {
        char   an[H4_MAX_GR_NAME + 1];
        int32  nt, cnt;
        uint8 *b;
        if (GRattrinfo(id, i, an, &nt, &cnt) == FAIL)
            DIE("GRattrinfo");
        b = calloc((size_t)cnt * (size_t)ntsize(nt) + 8, 1);
        if (GRgetattr(id, i, b) == FAIL)
            DIE("GRgetattr");
        printf("C attr ");
        putname(an);
        printf(" %d %d ", (int)nt, (int)cnt);
        puthex(b, (size_t)cnt * (size_t)ntsize(nt));
        printf("\n");
        free(b);
    }
}

static void
dump_gr(int32 index, int depth)
{
    int32 id = GRselect(d_gr, index);
    char  name[H4_MAX_GR_NAME + 1];
    int32 ncomp, nt, il, dims[2], nattrs, start[2] = {0, 0};
    int32 pid, pnc = 0, pnt = 0, pil = 0, pne = 0;
    comp_coder_t  ct = COMP_CODE_NONE;
    comp_info     ci;
    HDF_CHUNK_DEF cd;
    int32         cflags = 0;
    size_t        nb;
    uint8        *b;

    if (id == FAIL || GRgetiminfo(id, name, &ncomp, &nt, &il, dims, &nattrs) == FAIL)
        DIE("GRgetiminfo");
    printf("N %d gr ", depth);
    putname(name);
    printf("\n");
    /* the interlace of an image is storage layout: the GR interface stores every image it creates pixel-interlaced
       whatever GRcreate is told, so a copy of a line- or component-interlaced (DF24) image cannot keep it; the pixels
       are compared in pixel interlace */
    printf("C type %d ncomp %d dims %d %d\n", (int)nt, (int)ncomp, (int)dims[0], (int)dims[1]);
    dump_gr_attrs(id, nattrs);
    pid = GRgetlutid(id, 0);
    if (pid != FAIL && GRgetlutinfo(pid, &pnc, &pnt, &pil, &pne) != FAIL && pnc > 0 && pne > 0) {
        uint8 *p = calloc((size_t)pnc * (size_t)pne * (size_t)ntsize(pnt) + 8, 1);
        if (GRreadlut(pid, p) == FAIL)
            DIE("GRreadlut");
        printf("C palette %d %d %d %d ", (int)pnc, (int)pnt, (int)pil, (int)pne);
        puthex(p, (size_t)pnc * (size_t)pne * (size_t)ntsize(pnt));
        printf("\n");
        free(p);
    }
    nb = (size_t)dims[0] * (size_t)dims[1] * (size_t)ncomp * (size_t)ntsize(nt);
    b  = calloc(nb + 8, 1);
    if (GRreqimageil(id, MFGR_INTERLACE_PIXEL) == FAIL || GRreadimage(id, start, NULL, dims, b) == FAIL)
        DIE("GRreadimage %s", name);
    printf("C data ");
    putdata(b, nb);
    printf("\n");
    free(b);
    memset(&ci, 0, sizeof ci);
    GRgetcompinfo(id, &ct, &ci);
    if (GRgetchunkinfo(id, &cd, &cflags) == FAIL)
        DIE("GRgetchunkinfo");
    dump_anns(DFTAG_RIG, (uint16)GRidtoref(id));
    dump_anns(DFTAG_RI, (uint16)GRidtoref(id));
    printf("I empty 0 rank 2 bytes %ld isrec 0\n", (long)((size_t)dims[0] * (size_t)dims[1] * (size_t)ntsize(nt)));
    printf("L comp %s %d chunk", compname(ct), compparam(ct, &ci));
    if (cflags & HDF_CHUNK)
        printf(" %d %d", (int)cd.chunk_lengths[0], (int)cd.chunk_lengths[1]);
    else
        printf(" -");
    printf(" flags %d isrec 0 il %d\n", (int)cflags, (int)il);
    GRendaccess(id);
}

static void
dump_vs_attrs(int32 vs, int32 findex)
{
    int n = VSfnattrs(vs, findex), i;
    for (i = 0; i < n; i++) {
        char   an[H4_MAX_NC_NAME + 1];
        int32  nt, cnt, size;
        uint8 *b;
        if (VSattrinfo(vs, findex, i, an, &nt, &cnt, &size) == FAIL)
            DIE("VSattrinfo");
        b = calloc((size_t)size * (size_t)cnt + 8, 1);
        if (VSgetattr(vs, findex, i, b) == FAIL)
            DIE("VSgetattr");
        printf("C attr f%d ", (int)findex);
        putname(an);
        printf(" %d %d ", (int)nt, (int)cnt);
        puthex(b, (size_t)cnt * (size_t)ntsize(nt));
        printf("\n");
        free(b);
    }
}

static void
dump_vs(int32 ref, int depth)
{
    int32 vs = VSattach(d_fid, ref, "r");
    char  name[VSNAMELENMAX + 1], cls[VSNAMELENMAX + 1];
    char  fields[VSFIELDMAX * FIELDNAMELENMAX];
    int32 nrec, il, vsize;
    int   nf, i;
    if (vs == FAIL)
        DIE("VSattach %d", (int)ref);
    VSgetname(vs, name);
    VSgetclass(vs, cls);
    if (VSinquire(vs, &nrec, &il, fields, &vsize, name) == FAIL) {
        /* a vdata without fields */
        nrec = 0;
        il = 0;
        fields[0] = 0;
        vsize = 0;
    }
    printf("N %d vs ", depth);
    putname(name);
    printf("\n");
    printf("C class ");
    putname(cls);
    printf(" il %d nrec %d\n", (int)il, (int)nrec);
    nf = VFnfields(vs);
    for (i = 0; i < nf; i++) {
        printf("C field %d ", i);
        putname(VFfieldname(vs, i));
        printf(" %d %d\n", (int)VFfieldtype(vs, i), (int)VFfieldorder(vs, i));
    }
    if (nrec > 0 && nf > 0) {
        uint8 *b = calloc((size_t)nrec * (size_t)vsize + 8, 1);
        if (VSsetfields(vs, fields) == FAIL || VSread(vs, b, nrec, FULL_INTERLACE) == FAIL)
            DIE("VSread %s", name);
        printf("C data ");
        putdata(b, (size_t)nrec * (size_t)vsize);
        printf("\n");
        free(b);
    }
    else
        printf("C data -\n");
    dump_vs_attrs(vs, -1);
    for (i = 0; i < nf; i++)
        dump_vs_attrs(vs, i);
    dump_anns(DFTAG_VH, (uint16)VSQueryref(vs));
    VSdetach(vs);
}

#define MAXSEEN 4096
static int32 seen_tag[MAXSEEN], seen_ref[MAXSEEN];
static int   nseen;
static int
seen(int32 tag, int32 ref)
{
    int i;
    for (i = 0; i < nseen; i++)
        if (seen_tag[i] == tag && seen_ref[i] == ref)
            return 1;
    return 0;
}
static void
mark(int32 tag, int32 ref)
{
    if (nseen < MAXSEEN) {
        seen_tag[nseen] = tag;
        seen_ref[nseen] = ref;
        nseen++;
    }
}

static void
dump_vg(int32 ref, int depth, int guard)
{
    int32 vg = Vattach(d_fid, ref, "r");
    char *name, *cls;
    uint16 nl = 0, cl = 0;
    int    n, i, na;
    if (vg == FAIL)
        DIE("Vattach %d", (int)ref);
    Vgetnamelen(vg, &nl);
    Vgetclassnamelen(vg, &cl);
    name = calloc((size_t)nl + 2, 1);
    cls  = calloc((size_t)cl + 2, 1);
    Vgetname(vg, name);
    Vgetclass(vg, cls);
    if (reserved_class(cls)) {
        Vdetach(vg);
        free(name);
        free(cls);
        return;
    }
    mark(DFTAG_VG, ref);
    printf("N %d vg ", depth);
    putname(name);
    printf("\n");
    printf("C class ");
    putname(cls);
    printf("\n");
    na = Vnattrs(vg);
    for (i = 0; i < na; i++) {
        char   an[H4_MAX_NC_NAME + 1];
        int32  nt, cnt, size;
        uint8 *b;
        if (Vattrinfo(vg, i, an, &nt, &cnt, &size) == FAIL)
            DIE("Vattrinfo");
        b = calloc((size_t)size * (size_t)cnt + 8, 1);
        if (Vgetattr(vg, i, b) == FAIL)
            DIE("Vgetattr");
        printf("C attr ");
        putname(an);
        printf(" %d %d ", (int)nt, (int)cnt);
        puthex(b, (size_t)cnt * (size_t)ntsize(nt));
        printf("\n");
        free(b);
    }
    dump_anns(DFTAG_VG, (uint16)ref);
    n = Vntagrefs(vg);
    for (i = 0; i < n; i++) {
        int32 t, r;
        if (Vgettagref(vg, i, &t, &r) == FAIL)
            DIE("Vgettagref");
        if (t == DFTAG_VG) {
            if (guard < 12)
                dump_vg(r, depth + 1, guard + 1);
        }
        else if (t == DFTAG_NDG || t == DFTAG_SD || t == DFTAG_SDG) {
            int32 idx = SDreftoindex(d_sd, r);
            mark(DFTAG_NDG, r);
            if (idx != FAIL)
                dump_sds(idx, depth + 1);
            else
                printf("N %d dangling-sds %d\n", depth + 1, (int)r);
        }
        else if (t == DFTAG_RIG || t == DFTAG_RI || t == DFTAG_CI || t == DFTAG_RI8 || t == DFTAG_CI8 || t == DFTAG_II8) {
            int32 idx = GRreftoindex(d_gr, (uint16)r);
            mark(DFTAG_RIG, r);
            if (idx != FAIL)
                dump_gr(idx, depth + 1);
            else
                printf("N %d dangling-gr %d\n", depth + 1, (int)r);
        }
        else if (t == DFTAG_VH) {
            mark(DFTAG_VH, r);
            dump_vs(r, depth + 1);
        }
        else
            printf("C member-other %d\n", (int)t);
    }
    Vdetach(vg);
    free(name);
    free(cls);
}

static int
dump(const char *file)
{
    int32 nds, nga, nri, ngra, i, n;
    int32 *refs;
    int32 nfl, nfd, ndl, ndd;
    ann_type fty[2] = {AN_FILE_LABEL, AN_FILE_DESC};
    int      t, npal;
    int      lone_attr_vd = 0;

    if ((d_fid = Hopen(file, DFACC_READ, 0)) == FAIL)
        DIE("Hopen %s", file);
    if ((d_sd = SDstart(file, DFACC_READ)) == FAIL)
        DIE("SDstart");
    if ((d_gr = GRstart(d_fid)) == FAIL)
        DIE("GRstart");
    if (Vstart(d_fid) == FAIL)
        DIE("Vstart");
    if ((d_an = ANstart(d_fid)) == FAIL)
        DIE("ANstart");

    printf("N 0 root -\n");
    if (SDfileinfo(d_sd, &nds, &nga) == FAIL)
        DIE("SDfileinfo");
    {
        /* global SD attributes */
        int j;
        for (j = 0; j < nga; j++) {
            char   an[H4_MAX_NC_NAME + 1];
            int32  nt, cnt;
            uint8 *b;
            if (SDattrinfo(d_sd, j, an, &nt, &cnt) == FAIL)
                DIE("SDattrinfo global");
            b = calloc((size_t)cnt * (size_t)ntsize(nt) + 8, 1);
            if (SDreadattr(d_sd, j, b) == FAIL)
                DIE("SDreadattr global");
            printf("C sdattr ");
            putname(an);
            printf(" %d %d ", (int)nt, (int)cnt);
            puthex(b, (size_t)cnt * (size_t)ntsize(nt));
            printf("\n");
            free(b);
        }
    }
    if (GRfileinfo(d_gr, &nri, &ngra) == FAIL)
        DIE("GRfileinfo");
    {
        int j;
        for (j = 0; j < ngra; j++) {
            char   an[H4_MAX_GR_NAME + 1];
            int32  nt, cnt;
            uint8 *b;
            if (GRattrinfo(d_gr, j, an, &nt, &cnt) == FAIL)
                DIE("GRattrinfo global");
            b = calloc((size_t)cnt * (size_t)ntsize(nt) + 8, 1);
            if (GRgetattr(d_gr, j, b) == FAIL)
                DIE("GRgetattr global");
            printf("C grattr ");
            putname(an);
            printf(" %d %d ", (int)nt, (int)cnt);
            puthex(b, (size_t)cnt * (size_t)ntsize(nt));
            printf("\n");
            free(b);
        }
    }
    if (ANfileinfo(d_an, &nfl, &nfd, &ndl, &ndd) == FAIL)
        DIE("ANfileinfo");
    for (t = 0; t < 2; t++) {
        int cnt = t == 0 ? nfl : nfd;
        for (i = 0; i < cnt; i++) {
            int32 a   = ANselect(d_an, i, fty[t]);
            int32 len = ANannlen(a);
            char *b   = calloc((size_t)len + 2, 1);
            if (a == FAIL || len < 0 || ANreadann(a, b, len + 1) == FAIL)
                DIE("file annotation");
            printf("C fann %s ", t == 0 ? "label" : "desc");
            puthex(b, (size_t)len);
            printf("\n");
            free(b);
            ANendaccess(a);
        }
    }
    printf("X data-annotations labels %d descs %d\n", (int)ndl, (int)ndd);

    /* hierarchy: lone vgroups first */
    n = Vlone(d_fid, NULL, 0);
    if (n > 0) {
        refs = malloc(sizeof(int32) * (size_t)n);
        n    = Vlone(d_fid, refs, n);
        for (i = 0; i < n; i++)
            dump_vg(refs[i], 1, 0);
        free(refs);
    }
    /* SDSs that are in no vgroup */
    for (i = 0; i < nds; i++) {
        int32 id = SDselect(d_sd, i);
        int32 r;
        if (id == FAIL)
            DIE("SDselect");
        r = SDidtoref(id);
        if (SDiscoordvar(id)) {
            SDendaccess(id);
            continue;
        }
        SDendaccess(id);
        if (!seen(DFTAG_NDG, r))
            dump_sds(i, 1);
    }
    for (i = 0; i < nri; i++) {
        int32 id = GRselect(d_gr, i);
        int32 r  = GRidtoref(id);
        GRendaccess(id);
        if (!seen(DFTAG_RIG, r))
            dump_gr(i, 1);
    }
    n = VSlone(d_fid, NULL, 0);
    if (n > 0) {
        refs = malloc(sizeof(int32) * (size_t)n);
        n    = VSlone(d_fid, refs, n);
        for (i = 0; i < n; i++) {
            int32 vs = VSattach(d_fid, refs[i], "r");
            char  cls[VSNAMELENMAX + 1] = "";
            if (vs == FAIL)
                DIE("VSattach lone");
            VSgetclass(vs, cls);
            VSdetach(vs);
            if (reserved_class(cls)) {
                if (strcmp(cls, "Attr0.0") == 0)
                    lone_attr_vd++;
                continue;
            }
            if (!seen(DFTAG_VH, refs[i]))
                dump_vs(refs[i], 1);
        }
        free(refs);
    }
    printf("X lone-attr-vdatas %d\n", lone_attr_vd);
    {
        /* number of vgroups of no reserved class in the file: a vgroup with two parents is one vgroup */
        int32 vref = -1;
        int   nuser = 0;
        while ((vref = Vgetid(d_fid, vref)) != FAIL) {
            int32  vg = Vattach(d_fid, vref, "r");
            uint16 cl = 0;
            char  *cls;
            if (vg == FAIL)
                continue;
            Vgetclassnamelen(vg, &cl);
            cls = calloc((size_t)cl + 2, 1);
            Vgetclass(vg, cls);
            if (!reserved_class(cls)) {
                uint16 nl2 = 0;
                char  *nm;
                Vgetnamelen(vg, &nl2);
                nm = calloc((size_t)nl2 + 2, 1);
                Vgetname(vg, nm);
                if (strcmp(nm, "RIG0.0") != 0)
                    nuser++;
                free(nm);
            }
            free(cls);
            Vdetach(vg);
        }
        printf("X user-vgroups %d\n", nuser);
    }
    ANend(d_an);
    Vend(d_fid);
    GRend(d_gr);
    SDend(d_sd);
    Hclose(d_fid);
    /* all 8-bit palettes in the file (IP8 and LUT descriptors, one per distinct data offset), read at the H level */
    {
        int32  f = Hopen(file, DFACC_READ, 0);
        int32  offs[512];
        int    noffs = 0, k, pass;
        uint16 tags[2] = {DFTAG_IP8, DFTAG_LUT};
        if (f == FAIL)
            DIE("Hopen for palettes");
        npal = 0;
        for (pass = 0; pass < 2; pass++) {
            uint16 ftag = 0, fref = 0;
            int32  off = 0, len = 0;
            while (Hfind(f, tags[pass], DFREF_WILDCARD, &ftag, &fref, &off, &len, DF_FORWARD) != FAIL) {
                int dup = 0;
                for (k = 0; k < noffs; k++)
                    if (offs[k] == off)
                        dup = 1;
                if (dup || noffs >= 512)
                    continue;
                offs[noffs++] = off;
                if (len == 768) {
                    uint8 pal[768];
                    if (Hgetelement(f, ftag, fref, pal) == FAIL)
                        DIE("Hgetelement palette");
                    printf("P ");
                    puthex(pal, 768);
                    printf("\n");
                    npal++;
                }
                else
                    printf("X palette-element tag %d len %d\n", (int)ftag, (int)len);
            }
        }
        Hclose(f);
        printf("X palettes %d\n", npal);
    }
    printf("ok\n");
    return 0;
}

int
main(int argc, char **argv)
{
    setvbuf(stdout, NULL, _IOFBF, 1 << 16);
    if (argc >= 4 && strcmp(argv[1], "gen") == 0)
        return gen(argv[2], argv[3]);
    if (argc >= 3 && strcmp(argv[1], "dump") == 0)
        return dump(argv[2]);
    fprintf(stderr, "usage: drive_repack gen <script> <out.hdf> | dump <file.hdf>\n");
    return 2;
}
