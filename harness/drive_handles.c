/* C13 harness (b): mixed histories over H / Hbit / V / VS / GR / AN / SD on the freshly built (ASan) library.
 * usage: drive_handles <workdir> <history file>
 * Every history ("N" ... next "N") runs in a forked child on fresh copies p0,p1,p2 of three prepared files.
 * Each op prints exactly one line: a monitor line for the abstract handle table (extract/atom_main.ml, mode ht)
 *    O k obj argsok ans | I k parent pk sub argsok ans | U k id ans | L k id ans | P k1 id1 k2 id2 argsok ans
 *    (ans = F or integer; P = a call that takes two ids)
 * or "-" for ops the handle table does not judge.  Kinds: 0 file 1 aid 2 bit 3 vg 4 vs 5 gr 6 ri 7 an 8 ann 9 sd
 * 10 sds 11 dim.  AN interface ids equal the file id by design; they are reported with AN_OFF added.
 * Object identities: root p+1; below a handle 100*parent+sub, recomputed here from what the library reports
 * (names, lengths, counts of the prepared files), never from the history.                                       */
#include <stdio.h>
#include <stdlib.h>
#include <string.h>
#include <unistd.h>
#include <sys/wait.h>
#include "hdf.h"
#include "mfhdf.h"
#include "hchunks_priv.h"
extern int H4_ncopts;
#define ncopts H4_ncopts

#include <errno.h>
/* linked with -Wl,--wrap=fopen: while deny_opens is set, every stream the library tries to open is refused by "the system" */
static int deny_opens = 0;
FILE      *__real_fopen(const char *path, const char *mode);
FILE      *__wrap_fopen(const char *path, const char *mode)
{
    if (deny_opens > 0) {            /* every stream is refused while the switch is on (a file that cannot be opened
                                        for update cannot be created over either) */
        errno = EACCES;
        return NULL;
    }
    return __real_fopen(path, mode);
}
#define ANTEXT "abcdefghijklmnopqrstuvwxyz0123456789ABCDEFGHIJKLMNOPQRSTUVWXYZ-+*/=<>()[]{}"
/* annotation of file p, type t (ann_type 0..3), index i (4 = created by the history): text length */
static int annlen_of(int p, int t, int i) { return 10 + 20 * p + 5 * t + i; }
static int ann_count(int p, int t) { return t == AN_FILE_LABEL ? 2 + p : 2; }
#define NSLOT 40
#define AN_OFF 1099511627776LL
#define ETAG 1000
static long long slot[NSLOT];
static char       wdir[512];

static const char *tpath(int p) { static char b[600]; snprintf(b, sizeof b, "%s/t%d.hdf", wdir, p); return b; }
static const char *ppath(int p) { static char b[4][600]; snprintf(b[p & 3], 600, "%s/p%d.hdf", wdir, p); return b[p & 3]; }

/* Every prepared file holds the SAME tag/refs, names apart: element ETAG/ref is filled with ebyte(p,ref) and has
 * elen(p,ref) bytes: refs 1,2 ordinary, 3 linked blocks, 4 compressed (RLE), 5 external, 6 chunked. */
static int ebyte(int p, int ref) { return 0x40 + p * 8 + ref; }
static int elen(int p, int ref)
{
    switch (ref) {
        case 1: case 2: return 8;
        case 3: return 40 + 20 * p;
        case 4: return 30 + 10 * p;
        case 5: return 24 + 8 * p;
        case 6: return 16 + 8 * p;
        default: return -1;
    }
}
static int vsrecs(int p, int idx) { return idx == 1 ? 10 + 15 * p : 2; }

static void prep(int p)
{
    char  nm[64];
    uint8 buf[256];
    int32 f = Hopen(tpath(p), DFACC_CREATE, 0);
    for (int ref = 1; ref <= 2; ref++) {
        memset(buf, ebyte(p, ref), 8);
        Hputelement(f, ETAG, (uint16)ref, buf, 8);
    }
    {
        int32      aid;
        comp_info  ci;
        model_info mi;
        char       xn[600];
        memset(&ci, 0, sizeof ci);
        memset(&mi, 0, sizeof mi);
        memset(buf, ebyte(p, 3), sizeof buf);
        aid = HLcreate(f, ETAG, 3, 16, 4);
        if (aid == FAIL || Hwrite(aid, elen(p, 3), buf) != elen(p, 3) || Hendaccess(aid) == FAIL) exit(4);
        memset(buf, ebyte(p, 4), sizeof buf);
        aid = HCcreate(f, ETAG, 4, COMP_MODEL_STDIO, &mi, COMP_CODE_RLE, &ci);
        if (aid == FAIL || Hwrite(aid, elen(p, 4), buf) != elen(p, 4) || Hendaccess(aid) == FAIL) exit(5);
        memset(buf, ebyte(p, 5), sizeof buf);
        snprintf(xn, sizeof xn, "%s/x%d.dat", wdir, p);
        remove(xn);
        aid = HXcreate(f, ETAG, 5, xn, 0, 0);
        if (aid == FAIL || Hwrite(aid, elen(p, 5), buf) != elen(p, 5) || Hendaccess(aid) == FAIL) exit(6);
        {
            HCHUNK_DEF ch;
            DIM_DEF    dd;
            uint8      fill = 0;
            memset(&ch, 0, sizeof ch);
            memset(&dd, 0, sizeof dd);
            ch.pdims = &dd;
            ch.num_dims = 1;
            ch.chunk_size = 8;
            ch.nt_size = 1;
            ch.chunk_flag = 0;
            ch.comp_type = COMP_CODE_NONE;
            ch.model_type = COMP_MODEL_STDIO;
            dd.dim_length = elen(p, 6);
            dd.chunk_length = 8;
            dd.distrib_type = 1;
            memset(buf, ebyte(p, 6), sizeof buf);
            aid = HMCcreate(f, ETAG, 6, 1, 1, &fill, &ch);
            if (aid == FAIL || Hwrite(aid, elen(p, 6), buf) != elen(p, 6) || Hendaccess(aid) == FAIL) exit(7);
        }
    }
    Vstart(f);
    for (int i = 0; i < 2; i++) {
        int32 vg = Vattach(f, -1, "w");
        snprintf(nm, sizeof nm, "f%dg%d", p, i);
        Vsetname(vg, nm);
        for (int k = 0; k <= i; k++) Vaddtagref(vg, 2000 + 10 * p + i, k + 1);
        Vdetach(vg);
        int32 vs = VSattach(f, -1, "w");
        snprintf(nm, sizeof nm, "f%ds%d", p, i);
        VSsetname(vs, nm);
        VSfdefine(vs, "x", DFNT_INT32, 1);
        VSsetfields(vs, "x");
        for (int k = 0; k < vsrecs(p, i); k++) {
            int32 d = 1000 * (p + 1) + 100 * i + k;
            VSwrite(vs, (uint8 *)&d, 1, FULL_INTERLACE);
            /* something else is written behind the vdata, so that it continues in linked blocks */
            if (k == 0) Hputelement(f, 1001, (uint16)(i + 1), (const uint8 *)"pad", 3);
        }
        VSdetach(vs);
    }
    int32 gr = GRstart(f);
    for (int i = 0; i < 2 + p; i++) {
        int32 dims[2] = {2, 2}, st[2] = {0, 0};
        uint8 d[4]    = {(uint8)(p * 16 + i), (uint8)(p * 16 + i + 64), (uint8)(p * 16 + i + 128), (uint8)(p * 16 + i + 192)};
        snprintf(nm, sizeof nm, "f%di%d", p, i);
        int32 ri = GRcreate(gr, nm, 1, DFNT_UINT8, MFGR_INTERLACE_PIXEL, dims);
        GRwriteimage(ri, st, NULL, dims, d);
        GRendaccess(ri);
    }
    GRend(gr);
    int32 an = ANstart(f);
    for (int t = 0; t < 4; t++)
        for (int i = 0; i < ann_count(p, t); i++) {
            int32 a = (t == AN_FILE_LABEL || t == AN_FILE_DESC) ? ANcreatef(an, (ann_type)t)
                                                                : ANcreate(an, ETAG, 1, (ann_type)t);
            /* ANselect enumerates newest first: the annotation that will be index k gets the length of index k */
            ANwriteann(a, ANTEXT, annlen_of(p, t, ann_count(p, t) - 1 - i));
            ANendaccess(a);
        }
    ANend(an);
    Vend(f);
    Hclose(f);
    int32 sd = SDstart(tpath(p), DFACC_WRITE);
    for (int i = 0; i < 2 + p; i++) {
        int32 dd[1] = {3}, z[1] = {0}, v[3] = {p, i, 7};
        snprintf(nm, sizeof nm, "f%dd%d", p, i);
        int32 s = SDcreate(sd, nm, DFNT_INT32, 1, dd);
        snprintf(nm, sizeof nm, "f%dd%dx", p, i);
        SDsetdimname(SDgetdimid(s, 0), nm);
        SDwritedata(s, z, NULL, dd, v);
        SDendaccess(s);
    }
    SDend(sd);
}

static void copyfile(const char *a, const char *b)
{
    FILE  *fa = fopen(a, "rb"), *fb = fopen(b, "wb");
    char   buf[65536];
    size_t n;
    if (!fa || !fb) { fprintf(stderr, "copy %s -> %s failed\n", a, b); exit(3); }
    while ((n = fread(buf, 1, sizeof buf, fa)) > 0) fwrite(buf, 1, n, fb);
    fclose(fa);
    fclose(fb);
}

static int path_index(const char *s)
{
    if (s == NULL) return -1;
    const char *q = strrchr(s, '/');
    q = q ? q + 1 : s;
    if (q[0] == 'p' && q[1] >= '0' && q[1] <= '9' && strcmp(q + 2, ".hdf") == 0) return q[1] - '0';
    return -1;
}

/* "f<p><letter><i>[x]" -> p, i */
static int parse_name(const char *nm, char letter, int *p, int *i)
{
    char l;
    if (sscanf(nm, "f%d%c%d", p, &l, i) == 3 && l == letter) return 1;
    return 0;
}

static void ans(long long v, int ok)
{
    if (ok) printf(" %lld\n", v); else printf(" F\n");
}

static long long S(const char *t) { int k = atoi(t); return (k >= 0 && k < NSLOT) ? slot[k] : -1; }

static void run_history(char **lines, int n)
{
    for (int i = 0; i < NSLOT; i++) slot[i] = -1;
    ncopts = 0; /* netCDF-2 error mode: non-fatal, as SDstart sets it (the default would exit() on a bad id) */
    for (int p = 0; p < 3; p++) copyfile(tpath(p), ppath(p));
    for (int li = 0; li < n; li++) {
        char op[16] = "", a[32] = "", b[32] = "", c[32] = "", d[32] = "", e[32] = "";
        sscanf(lines[li], "%15s %31s %31s %31s %31s %31s", op, a, b, c, d, e);
        int       s  = atoi(a);
        long long id = S(a);
        if (s < 0 || s >= NSLOT) { printf("-\n"); continue; }
        if (!strcmp(op, "lit")) { slot[s] = atoll(b); printf("-\n"); }
        else if (!strcmp(op, "copy")) { slot[s] = S(b); printf("-\n"); }
        else if (!strcmp(op, "hopen")) {
            int   p   = atoi(b);
            int   acc = c[0] == 'r' ? DFACC_READ : c[0] == 'w' ? DFACC_WRITE : DFACC_CREATE;
            int32 r   = Hopen(ppath(p), acc, 0);
            slot[s]   = r;
            printf("O 0 %d %s", p + 1, d); ans(r, r != FAIL);
        }
        else if (!strcmp(op, "hclose")) { int r = Hclose((int32)id); printf("L 0 %lld", id); ans(0, r != FAIL); }
        else if (!strcmp(op, "hfinq") || !strcmp(op, "vstart") || !strcmp(op, "vend")) {
            char *fn = NULL;
            int   acc, att, r;
            /* identity of the file first (harmless inquiry), then the call under test */
            int p = (Hfidinquire((int32)id, &fn, &acc, &att) == SUCCEED) ? path_index(fn) : -1;
            if (op[0] == 'h') r = (p >= 0) ? SUCCEED : FAIL;
            else if (op[1] == 's') r = Vstart((int32)id);
            else r = Vend((int32)id);
            printf("U 0 %lld", id); ans(p + 1, r != FAIL);
        }
        else if (!strcmp(op, "hnew")) {
            uint8 buf[8];
            memset(buf, 0x77, 8);
            Hputelement((int32)id, ETAG, (uint16)atoi(b), buf, 8);
            printf("-\n");
        }
        else if (!strcmp(op, "hstart")) {
            int32 r = Hstartaccess((int32)S(b), ETAG, (uint16)atoi(c), d[0] == 'w' ? DFACC_WRITE : DFACC_READ);
            slot[s] = r;
            printf("I 1 %lld 0 %d %s", S(b), atoi(c), e); ans(r, r != FAIL);
        }
        else if (!strcmp(op, "hend")) { int r = Hendaccess((int32)id); printf("L 1 %lld", id); ans(0, r != FAIL); }
        else if (!strcmp(op, "hinq")) {
            int32  fid = -1;
            uint16 tag = 0, ref = 0;
            int    r = Hinquire((int32)id, &fid, &tag, &ref, NULL, NULL, NULL, NULL, NULL);
            char  *fn = NULL;
            int    acc, att, p = -1;
            int32  len = -1;
            if (r != FAIL) Hinquire((int32)id, NULL, NULL, NULL, &len, NULL, NULL, NULL, NULL);
            if (r != FAIL && Hfidinquire(fid, &fn, &acc, &att) == SUCCEED) p = path_index(fn);
            /* the length reported through the id must be the length of that file's element */
            if (r != FAIL && p >= 0 && ref >= 1 && ref <= 6 && len != elen(p, ref)) p = -1;
            printf("U 1 %lld", id); ans(100LL * (p + 1) + ref, r != FAIL);
        }
        else if (!strcmp(op, "hread")) {      /* whole element through the access id: the bytes decide the identity */
            uint8 buf[512];
            int32 len = -1, n = -1;
            int   p = -1, ref = 0, ok = 0;
            memset(buf, 0, sizeof buf);
            if (Hinquire((int32)id, NULL, NULL, NULL, &len, NULL, NULL, NULL, NULL) != FAIL && len > 0 && len <= 512 &&
                Hseek((int32)id, 0, DF_START) != FAIL) {
                n = Hread((int32)id, len, buf);
                if (n == len) {
                    ok = 1;
                    p = (buf[0] - 0x40) >> 3;
                    ref = (buf[0] - 0x40) & 7;
                    if (p < 0 || p > 2 || elen(p, ref) != len) { p = -1; ref = 0; }
                    for (int k = 0; k < len && p >= 0; k++)
                        if (buf[k] != buf[0]) { p = -1; ref = 0; }
                }
                Hseek((int32)id, 0, DF_START);
            }
            printf("U 1 %lld", id); ans(100LL * (p + 1) + ref, ok);
        }
        else if (!strcmp(op, "hbit")) {
            int32 r = Hstartbitread((int32)S(b), ETAG, (uint16)atoi(c));
            slot[s] = r;
            printf("I 2 %lld 0 %d %s", S(b), 20 + atoi(c), d); ans(r, r != FAIL);
        }
        else if (!strcmp(op, "hbitend")) { int r = Hendbitaccess((int32)id, 0); printf("L 2 %lld", id); ans(0, r != FAIL); }
        else if (!strcmp(op, "hbitrd")) {
            uint32 dat = 0;
            int    r = Hbitread((int32)id, 8, &dat);
            int    ref = (int)((dat - 0x40) & 7), p = (int)((dat - 0x40) >> 3);
            Hbitseek((int32)id, 0, 0);
            printf("U 2 %lld", id); ans(100LL * (p + 1) + 20 + ref, r == 8);
        }
        else if (!strcmp(op, "vattach")) {
            int32 fid = (int32)S(b), r;
            int   idx = atoi(c);
            char  nm[64] = "", fnb[8];
            char *fn = NULL; int acc, att, p = -1;
            if (Hfidinquire(fid, &fn, &acc, &att) == SUCCEED) p = path_index(fn);
            snprintf(nm, sizeof nm, "f%dg%d", p, idx);
            if (idx >= 5) { r = Vattach(fid, -1, "w"); if (r != FAIL) Vsetname(r, nm); }
            else { int32 ref = Vfind(fid, nm); r = Vattach(fid, ref > 0 ? ref : 9999, d); }
            (void)fnb;
            slot[s] = r;
            printf("I 3 %lld 0 %d %s", S(b), 30 + idx, e); ans(r, r != FAIL);
        }
        else if (!strcmp(op, "vdetach")) { int r = Vdetach((int32)id); printf("L 3 %lld", id); ans(0, r != FAIL); }
        else if (!strcmp(op, "vname")) {
            char nm[VGNAMELENMAX + 1] = "";
            int  p = -1, i = 0, r = Vgetname((int32)id, nm);
            if (r != FAIL) parse_name(nm, 'g', &p, &i);
            printf("U 3 %lld", id); ans(100LL * (p + 1) + 30 + i, r != FAIL);
        }
        else if (!strcmp(op, "vgmem")) {       /* content of the vgroup: its first member names the file */
            int32 n = Vntagrefs((int32)id), t = 0, rf = 0;
            int   p = -1, i = 0, ok = (n != FAIL);
            if (ok && n >= 1 && Vgettagref((int32)id, 0, &t, &rf) != FAIL && t >= 2000 && t < 2030) {
                p = (t - 2000) / 10;
                i = (t - 2000) % 10;
                if (n < 1 + i) p = -1;
            }
            printf("U 3 %lld", id); ans(100LL * (p + 1) + 30 + i, ok);
        }
        else if (!strcmp(op, "vinsert")) {     /* two ids: Vinsert(vgroup, vgroup|vdata) */
            int32 r = Vinsert((int32)id, (int32)S(b));
            printf("P 3 %lld %d %lld %s", id, c[0] == 's' ? 4 : 3, S(b), d); ans(0, r != FAIL);
        }
        else if (!strcmp(op, "vsread")) {      /* all records through the vdata id */
            int32 recs[64];
            int   p = -1, i = 0, ok = 0;
            int32 n = VSelts((int32)id);
            memset(recs, 0, sizeof recs);
            if (n > 0 && n <= 64 && VSsetfields((int32)id, "x") != FAIL && VSseek((int32)id, 0) != FAIL &&
                VSread((int32)id, (uint8 *)recs, n, FULL_INTERLACE) == n) {
                ok = 1;
                p = recs[0] / 1000 - 1;
                i = (recs[0] % 1000) / 100;
                if (p < 0 || p > 2 || i > 1 || vsrecs(p, i) != n) p = -1;
                for (int k = 0; k < n && p >= 0; k++)
                    if (recs[k] != 1000 * (p + 1) + 100 * i + k) p = -1;
            }
            printf("U 4 %lld", id); ans(100LL * (p + 1) + 40 + i, ok);
        }
        else if (!strcmp(op, "vsattach")) {
            int32 fid = (int32)S(b), r;
            int   idx = atoi(c);
            char  nm[64];
            char *fn = NULL; int acc, att, p = -1;
            if (Hfidinquire(fid, &fn, &acc, &att) == SUCCEED) p = path_index(fn);
            snprintf(nm, sizeof nm, "f%ds%d", p, idx);
            int32 ref = VSfind(fid, nm);
            r = VSattach(fid, ref > 0 ? ref : 9999, d);
            slot[s] = r;
            printf("I 4 %lld 0 %d %s", S(b), 40 + idx, e);
            if (r != FAIL) printf(" %d", (int)r); else printf(" F");
            printf("%s\n", d[0] == 'w' ? " W" : "");       /* W: attachment for writing (exclusive) */
        }
        else if (!strcmp(op, "vsdetach")) { int r = VSdetach((int32)id); printf("L 4 %lld", id); ans(0, r != FAIL); }
        else if (!strcmp(op, "vsname")) {
            char nm[VSNAMELENMAX + 1] = "";
            int  p = -1, i = 0, r = VSgetname((int32)id, nm);
            if (r != FAIL) parse_name(nm, 's', &p, &i);
            printf("U 4 %lld", id); ans(100LL * (p + 1) + 40 + i, r != FAIL);
        }
        else if (!strcmp(op, "grstart")) {
            int32 r = GRstart((int32)S(b));
            slot[s] = r;
            printf("I 5 %lld 0 90 %s", S(b), c); ans(r, r != FAIL);
        }
        else if (!strcmp(op, "grend")) { int r = GRend((int32)id); printf("L 5 %lld", id); ans(0, r != FAIL); }
        else if (!strcmp(op, "grinfo")) {
            int32 nd = 0, na = 0;
            int   r = GRfileinfo((int32)id, &nd, &na);
            printf("U 5 %lld", id); ans(100LL * (nd - 2 + 1) + 90, r != FAIL);
        }
        else if (!strcmp(op, "grselect")) {
            int32 gidx = atoi(c);
            if (e[0] == 'n') {                 /* the index is looked up by name first */
                char *fn = NULL; int acc, att, p = -1; char nm[64];
                int32 nd = 0, na = 0;
                if (GRfileinfo((int32)S(b), &nd, &na) != FAIL) p = nd - 2;
                (void)fn; (void)acc; (void)att;
                snprintf(nm, sizeof nm, "f%di%d", p, atoi(c));
                gidx = GRnametoindex((int32)S(b), nm);
            }
            int32 r = GRselect((int32)S(b), gidx);
            slot[s] = r;
            printf("I 6 %lld 5 %d %s", S(b), atoi(c), d); ans(r, r != FAIL);
        }
        else if (!strcmp(op, "grendacc")) { int r = GRendaccess((int32)id); printf("L 6 %lld", id); ans(0, r != FAIL); }
        else if (!strcmp(op, "riinfo") || !strcmp(op, "grlut")) {
            char  nm[256] = "";
            int32 nc, nt, il, dm[2], na, rid = (int32)id;
            int   p = -1, i = 0, r = SUCCEED;
            if (op[0] == 'g') { rid = GRgetlutid((int32)id, 0); r = rid; }
            if (r != FAIL && GRgetiminfo(rid, nm, &nc, &nt, &il, dm, &na) != FAIL) parse_name(nm, 'i', &p, &i);
            else if (op[0] == 'r') r = FAIL;
            printf("U 6 %lld", id); ans((100LL * (p + 1) + 90) * 100 + i, r != FAIL);
        }
        else if (!strcmp(op, "riread")) {      /* pixels through the raster id */
            uint8 px[16] = {0};
            int32 st[2] = {0, 0}, cnt[2] = {2, 2};
            int   p = -1, i = 0, r = GRreadimage((int32)id, st, NULL, cnt, px);
            if (r != FAIL) {
                p = px[0] / 16;
                i = px[0] % 16;
                if (p > 2 || px[1] != px[0] + 64 || px[2] != px[0] + 128 || px[3] != px[0] + 192) p = -1;
            }
            printf("U 6 %lld", id); ans((100LL * (p + 1) + 90) * 100 + i, r != FAIL);
        }
        else if (!strcmp(op, "anstart")) {
            int32 r = ANstart((int32)S(b));
            slot[s] = r;
            printf("I 7 %lld 0 91 %s", S(b), c); ans(r + AN_OFF, r != FAIL);
        }
        else if (!strcmp(op, "anend")) { int r = ANend((int32)id); printf("L 7 %lld", id + AN_OFF); ans(0, r != FAIL); }
        else if (!strcmp(op, "aninfo")) {
            int32 nfl = 0, nfd, nol, nod;
            int   r = ANfileinfo((int32)id, &nfl, &nfd, &nol, &nod);
            printf("U 7 %lld", id + AN_OFF); ans(100LL * (nfl - 2 + 1) + 91, r != FAIL);
        }
        else if (!strcmp(op, "anselect")) {    /* anselect s an idx ok type */
            int   t = atoi(e);
            int32 r = ANselect((int32)S(b), atoi(c), (ann_type)t);
            slot[s] = r;
            printf("I 8 %lld 7 %d %s", S(b) + AN_OFF, t * 10 + atoi(c), d); ans(r, r != FAIL);
        }
        else if (!strcmp(op, "antagref")) {    /* antagref s an idx ok type: the id is obtained from the tag/ref */
            static const uint16 tags[4] = {DFTAG_DIL, DFTAG_DIA, DFTAG_FID, DFTAG_FD};
            int   t = atoi(e) & 3, idx = atoi(c);
            char *fn = NULL; int acc, att, p = -1;
            if (Hfidinquire((int32)S(b), &fn, &acc, &att) == SUCCEED) p = path_index(fn);
            /* refs are allocated per tag in creation order; ANselect enumerates newest first */
            int   ref = (p >= 0 ? ann_count(p, t) : 2) - idx;
            int32 r = ANtagref2id((int32)S(b), tags[t], (uint16)(ref > 0 ? ref : 999));
            slot[s] = r;
            printf("I 8 %lld 7 %d %s", S(b) + AN_OFF, t * 10 + idx, d); ans(r, r != FAIL);
        }
        else if (!strcmp(op, "ancreate")) {    /* ancreate s an type ok: a new annotation (index 4) */
            int   t = atoi(c);
            char *fn = NULL; int acc, att, p = -1;
            if (Hfidinquire((int32)S(b), &fn, &acc, &att) == SUCCEED) p = path_index(fn);
            int32 r = (t == AN_FILE_LABEL || t == AN_FILE_DESC) ? ANcreatef((int32)S(b), (ann_type)t)
                                                                : ANcreate((int32)S(b), ETAG, 2, (ann_type)t);
            if (r != FAIL && p >= 0 && ANwriteann(r, ANTEXT, annlen_of(p, t, 4)) == FAIL) r = FAIL;
            slot[s] = r;
            printf("I 8 %lld 7 %d %s", S(b) + AN_OFF, t * 10 + 4, d); ans(r, r != FAIL);
        }
        else if (!strcmp(op, "annlen") || !strcmp(op, "anendacc")) {
            int r = SUCCEED, p = -1, i = 0, t = 0;
            if (op[2] == 'e') r = ANendaccess((int32)id);
            int32 len = ANannlen((int32)id);
            if (len >= 10 && len < 80) {
                char txt[96];
                p = (len - 10) / 20; t = ((len - 10) % 20) / 5; i = (len - 10) % 5;
                /* the text read through the id must be the annotation's own text */
                memset(txt, 0, sizeof txt);
                if (ANreadann((int32)id, txt, len + 1) == FAIL || strncmp(txt, ANTEXT, (size_t)len) != 0) p = -1;
                /* ... and the tag/ref reported for the id must be the annotation's own */
                {
                    static const uint16 tags[4] = {DFTAG_DIL, DFTAG_DIA, DFTAG_FID, DFTAG_FD};
                    uint16 tg = 0, rf = 0;
                    if (ANid2tagref((int32)id, &tg, &rf) == FAIL || tg != tags[t] ||
                        (i < 4 && p >= 0 && p <= 2 && rf != ann_count(p, t) - i))
                        p = -1;
                }
            }
            else if (op[2] == 'n') r = FAIL;
            printf("U 8 %lld", id); ans((100LL * (p + 1) + 91) * 100 + t * 10 + i, r != FAIL);
        }
        else if (!strcmp(op, "denyopen")) { deny_opens = atoi(b); printf("-\n"); }
        else if (!strcmp(op, "sdstart")) {
            int   p = atoi(b);
            int32 r = SDstart(ppath(p), c[0] == 'r' ? DFACC_READ : DFACC_WRITE);
            slot[s] = r;
            printf("O 9 %d %s", p + 1, d); ans(r, r != FAIL);
        }
        else if (!strcmp(op, "sdend")) { int r = SDend((int32)id); printf("L 9 %lld", id); ans(0, r != FAIL); }
        else if (!strcmp(op, "sdinfo")) {
            int32 nd = 0, na = 0;
            int   r = SDfileinfo((int32)id, &nd, &na);
            printf("U 9 %lld", id); ans(nd - 2 + 1, r != FAIL);
        }
        else if (!strcmp(op, "sdselect")) {
            int32 sidx = atoi(c);
            if (e[0] == 'n') {                 /* the index is looked up by name first */
                char  nm[64];
                int32 nd = 0, na = 0, p = -1;
                if (SDfileinfo((int32)S(b), &nd, &na) != FAIL) p = nd - 2;
                snprintf(nm, sizeof nm, "f%dd%d", (int)p, atoi(c));
                sidx = SDnametoindex((int32)S(b), nm);
            }
            int32 r = SDselect((int32)S(b), sidx);
            slot[s] = r;
            printf("I 10 %lld 9 %d %s", S(b), atoi(c), d); ans(r, r != FAIL);
        }
        else if (!strcmp(op, "sdendacc")) { int r = SDendaccess((int32)id); printf("L 10 %lld", id); ans(0, r != FAIL); }
        else if (!strcmp(op, "sdsinfo")) {
            char  nm[256] = "";
            int32 rk, dm[8], nt, na;
            int   p = -1, i = 0, r = SDgetinfo((int32)id, nm, &rk, dm, &nt, &na);
            if (r != FAIL) parse_name(nm, 'd', &p, &i);
            printf("U 10 %lld", id); ans(100LL * (p + 1) + i, r != FAIL);
        }
        else if (!strcmp(op, "sdsread")) {     /* values through the dataset id */
            int32 v[3] = {-1, -1, -1}, z[1] = {0}, e3[1] = {3};
            int   p = -1, i = 0, r = SDreaddata((int32)id, z, NULL, e3, v);
            if (r != FAIL && v[2] == 7 && v[0] >= 0 && v[0] <= 2) { p = v[0]; i = v[1]; }
            printf("U 10 %lld", id); ans(100LL * (p + 1) + i, r != FAIL);
        }
        else if (!strcmp(op, "sddim")) {
            int32 r = SDgetdimid((int32)S(b), 0);
            slot[s] = r;
            printf("I 11 %lld 10 0 %s", S(b), c); ans(r, r != FAIL);
        }
        else if (!strcmp(op, "diminfo")) {
            char  nm[256] = "";
            int32 sz, nt, na;
            int   p = -1, i = 0, r = SDdiminfo((int32)id, nm, &sz, &nt, &na);
            if (r != FAIL) parse_name(nm, 'd', &p, &i);
            printf("U 11 %lld", id); ans((100LL * (p + 1) + i) * 100, r != FAIL);
        }
        else if (!strcmp(op, "sdreset")) {     /* no handle argument: reorganises the table every SD id indexes */
            intn cur = 0, lim = 0;
            SDget_maxopenfiles(&cur, &lim);
            int r = SDreset_maxopenfiles(atoi(b));
            printf("Z %d %d %d\n", atoi(b), r, (int)lim);
        }
        else if (!strcmp(op, "hpend")) { HPend(); printf("-\n"); }
        else printf("- unknown op %s\n", op);
        fflush(stdout);
    }
}

#define MAXOPS 2048
int main(int argc, char **argv)
{
    if (argc < 3) return 2;
    snprintf(wdir, sizeof wdir, "%s", argv[1]);
    FILE *f = fopen(argv[2], "r");
    if (!f) return 2;
    {   /* prepare the three template files in a child so that the parent never initialises the library */
        fflush(stdout);
        pid_t pid = fork();
        if (pid == 0) { for (int p = 0; p < 3; p++) prep(p); _exit(0); }
        int st = 0;
        waitpid(pid, &st, 0);
        if (!(WIFEXITED(st) && WEXITSTATUS(st) == 0)) { printf("PREPFAIL %d\n", st); return 3; }
    }
    /* read the whole input first: a child that dies through exit() would otherwise rewind the shared file offset */
    static char *all[400000];
    int          nall = 0;
    char         buf[256];
    while (fgets(buf, sizeof buf, f) != NULL && nall < 400000) all[nall++] = strdup(buf);
    fclose(f);
    static char *lines[MAXOPS];
    int          n = 0, started = 0;
    for (int ai = 0; ai <= nall; ai++) {
        const char *b = ai < nall ? all[ai] : NULL;
        if (b == NULL || (b[0] == 'N' && (b[1] == '\n' || b[1] == 0))) {
            if (started) {
                fflush(stdout);
                pid_t pid = fork();
                if (pid == 0) { alarm(20); run_history(lines, n); fflush(stdout); _exit(0); }
                int st = 0;
                waitpid(pid, &st, 0);
                if (!(WIFEXITED(st) && WEXITSTATUS(st) == 0))
                    printf("CRASH status=%d\n", WIFEXITED(st) ? WEXITSTATUS(st) : 1000 + WTERMSIG(st));
            }
            n = 0;
            if (b != NULL) { printf("N\n"); started = 1; }
            continue;
        }
        if (b[0] == '\n' || b[0] == '#') continue;
        if (n < MAXOPS) lines[n++] = all[ai];
    }
    fflush(stdout);
    return 0;
}
