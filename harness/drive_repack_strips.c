/* C18: R-vs-M for the data movement of copy_sds.  The whole hrepack tool is compiled in (its sources are included),
 * and SDreaddata is interposed (-Wl,--wrap=SDreaddata): every block hrepack reads from the input is logged as
 *   B <sds name hex> <rank> <dims> | <start> | <edges>
 * (hrepack writes the very same start / edges: copy_plumbing).  Usage: drive_repack_strips <in.hdf> <out.hdf>   */
#include <stdio.h>
#include <stdlib.h>
#include <string.h>
#include "hdf.h"
#include "mfhdf.h"
#include "hrepack.h"
#include "hrepack_parse.h"
#include "hrepack_opttable.h"

#include "hrepack.c"
#include "hrepack_an.c"
#include "hrepack_dim.c"
#include "hrepack_gr.c"
#include "hrepack_list.c"
#include "hrepack_lsttable.c"
#include "hrepack_opttable.c"
#include "hrepack_parse.c"
#include "hrepack_sds.c"
#include "hrepack_utils.c"
#include "hrepack_vg.c"
#include "hrepack_vs.c"

int __real_SDreaddata(int32 sdsid, int32 *start, int32 *stride, int32 *end, void *data);

int
__wrap_SDreaddata(int32 sdsid, int32 *start, int32 *stride, int32 *end, void *data)
{
    char  name[H4_MAX_NC_NAME + 1];
    int32 rank, dims[H4_MAX_VAR_DIMS], nt, nattrs;
    int   i;
    if (SDgetinfo(sdsid, name, &rank, dims, &nt, &nattrs) != FAIL) {
        printf("B ");
        for (i = 0; name[i]; i++)
            printf("%02x", (unsigned char)name[i]);
        printf(" %d", (int)rank);
        for (i = 0; i < rank; i++)
            printf(" %d", (int)dims[i]);
        printf(" |");
        for (i = 0; i < rank; i++)
            printf(" %d", (int)start[i]);
        printf(" |");
        for (i = 0; i < rank; i++)
            printf(" %d", (int)end[i]);
        printf("\n");
    }
    return __real_SDreaddata(sdsid, start, stride, end, data);
}

int
main(int argc, char **argv)
{
    options_t options;
    int       ret;
    if (argc < 3)
        return 2;
    hrepack_init(&options, 0);
    ret = hrepack_main(argv[1], argv[2], &options);
    hrepack_end(&options);
    printf("R rc=%d\n", ret);
    return ret == -1 ? 1 : 0;
}
