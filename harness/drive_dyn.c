/* C12 harness: drives dynarray.c of the freshly built tree directly (the .c file is #included so that num_elems can be
 * compared with the model after every call).
 * input lines: "new S I" (DAcreate_array) | "s e p" (DAset_elem e -> object p) | "g e" (DAget_elem) | "d e" (DAdel_elem)
 * output: "new ok|fail", then per op "result num_elems"  (result: object + 1, 0 for NULL, -1 for FAIL)                */
#include <stdio.h>
#include <stdlib.h>
#include <string.h>
#include <stdint.h>
#include "dynarray.c"

int main(int argc, char **argv)
{
    char     line[128], op[16];
    long     a, b;
    dynarr_p v = NULL;
    FILE    *f = argc > 1 ? fopen(argv[1], "r") : stdin;
    if (!f) return 2;
    while (fgets(line, sizeof line, f)) {
        int  n = sscanf(line, "%15s %ld %ld", op, &a, &b);
        long r;
        if (n < 1 || op[0] == '#') continue;
        if (!strcmp(op, "new")) {
            if (v) DAdestroy_array(v, 0);
            v = DAcreate_array((int)a, (int)b);
            printf("new %s\n", v ? "ok" : "fail");
            continue;
        }
        if (!v) continue;
        if (!strcmp(op, "s")) r = DAset_elem(v, (int)a, (void *)(intptr_t)(b + 1)) == FAIL ? -1 : 0;
        else if (!strcmp(op, "g")) r = (long)(intptr_t)DAget_elem(v, (int)a);
        else if (!strcmp(op, "d")) r = (long)(intptr_t)DAdel_elem(v, (int)a);
        else continue;
        printf("%ld %ld\n", r, (long)((dynarr_t *)v)->num_elems);
    }
    if (v) DAdestroy_array(v, 0);
    return 0;
}
