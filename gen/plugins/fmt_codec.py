"""C02 translator plugin: the big-endian ENCODE/DECODE statement macros of hdf_priv.h and the order in which the
record writers of the library call them.

spec["codec_macros"] = [ [file, [MACRO, ...]], ... ]
   XXXENCODE(p, i) { *(p) = E0; (p)++; *(p) = E1; (p)++; ... }   ->  Definition XXXENCODE_bytes (i : Z) : list Z := [E0; E1; ..]
   XXXDECODE(p, i) { (i) = E0; (p)++; (i) |= E1; (p)++; ... }     ->  Definition XXXDECODE_val (b0 b1 .. : Z) : Z := lor (.. E0 ..) Ek
   (every E translated expression-by-expression by the integer-expression translator; (unsigned) is 32 bits wide)
spec["encode_seq"] = [ [file, function-or-macro, gallina-name, nth-or-null], ... ]
   the ordered list of (macro, argument text) of all *ENCODE / *DECODE invocations in the function body (raw source,
   comments stripped) or in the body of a #define  ->  Definition <name> : list (string * string)
   With [lo, hi] as 4th entry only the lo-th..hi-th invocations (0-based, inclusive) are emitted.
"""
import re


def _stmts(body):
    b = body.strip()
    if b.startswith("{"):
        b = b[1:]
    if b.endswith("}"):
        b = b[:-1]
    return [" ".join(s.split()) for s in b.split(";") if s.strip()]


def emit(repo, spec, H):
    out = ["From Coq Require Import String."]
    for f, names in spec.get("codec_macros", []):
        d = H.defines(repo, f)
        env = {}
        env.update(d)
        for n in names:
            if n not in d or d[n][0] is None:
                raise ValueError("%s: statement macro %s not found" % (f, n))
            params, body = d[n]
            argn = [a.strip() for a in params.strip("()").split(",")]
            if argn != ["p", "i"]:
                raise ValueError("%s: macro %s has parameters %s" % (f, n, argn))
            body = body.replace("(unsigned)", "(uint32)")
            sts = _stmts(body)
            exprs, k = [], 0
            for s in sts:
                if re.fullmatch(r"\(p\)\s*\+\+", s):
                    k += 1
                    continue
                m = re.fullmatch(r"\*\(p\)\s*=\s*(.*)", s)
                if m and n.endswith("ENCODE"):
                    exprs.append(H.P(m.group(1), ["i"], env).ternary_all())
                    continue
                m = re.fullmatch(r"\(i\)\s*(\|?=)\s*(.*)", s)
                if m and n.endswith("DECODE"):
                    if (m.group(1) == "=") != (not exprs):
                        raise ValueError("%s: unexpected assignment order in %s" % (f, n))
                    e = m.group(2).replace("*(p)", " b%d " % k)
                    exprs.append(H.P(e, ["b%d" % j for j in range(8)], env).ternary_all())
                    continue
                raise ValueError("%s: unsupported statement %r in %s" % (f, s, n))
            if k != len(exprs):
                raise ValueError("%s: %s advances p %d times for %d bytes" % (f, n, k, len(exprs)))
            out.append("(* %s: #define %s%s %s *)" % (f, n, params, body.replace("*)", "* )").replace("(*", "( *")))
            if n.endswith("ENCODE"):
                out.append("Definition %s_bytes (i : Z) : list Z :=\n  [%s]." % (n, ";\n   ".join(exprs)))
            else:
                t = exprs[0]
                for e in exprs[1:]:
                    t = "(Z.lor %s\n   %s)" % (t, e)
                out.append("Definition %s_val %s : Z :=\n  %s." % (n, " ".join("(b%d : Z)" % j for j in range(len(exprs))), t))
    for ent in spec.get("encode_seq", []):
        f, fn, name = ent[0], ent[1], ent[2]
        rng = ent[3] if len(ent) > 3 else None
        d = H.defines(repo, f)
        if fn in d and d[fn][0] is not None:
            body = d[fn][1]
        else:
            body = H.func_body(H.raw(repo, f), fn)
        items = []
        for m in re.finditer(r"\b(U?INT(?:16|32)(?:EN|DE)CODE)\s*\(\s*(\w+)\s*,", body):
            # argument text up to the matching parenthesis
            i, depth = m.end(), 1
            while depth and i < len(body):
                if body[i] == "(":
                    depth += 1
                elif body[i] == ")":
                    depth -= 1
                i += 1
            arg = "".join(body[m.end():i - 1].split())
            items.append((m.group(1), arg))
        if rng:
            items = items[rng[0]:rng[1] + 1]
        if not items:
            raise ValueError("%s: no ENCODE/DECODE calls in %s" % (f, fn))
        out.append("(* %s: %s: order of the encode/decode calls *)" % (f, fn))
        out.append("Definition %s : list (string * string) :=\n  [%s]." % (
            name, ";\n   ".join('("%s"%%string, "%s"%%string)' % (a, b.replace('"', "'")) for a, b in items)))
    return out
