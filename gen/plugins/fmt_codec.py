"""C02 translator plugin: the big-endian ENCODE/DECODE statement macros of hdf_priv.h and the order in which the
record writers of the library call them.

spec["codec_macros"] = [ [file, [MACRO, ...]], ... ]
   XXXENCODE(p, i) { *(p) = E0; (p)++; *(p) = E1; (p)++; ... }   ->  Definition XXXENCODE_bytes (i : Z) : list Z := [E0; E1; ..]
   XXXDECODE(p, i) { (i) = E0; (p)++; (i) |= E1; (p)++; ... }     ->  Definition XXXDECODE_val (b0 b1 .. : Z) : Z := lor (.. E0 ..) Ek
   (every E translated expression-by-expression by the integer-expression translator; (unsigned) is 32 bits wide)
spec["encode_seq"] = [ [file, function-or-macro, gallina-name, nth-or-null], ... ]
   the ordered list of (macro, argument text) of all *ENCODE / *DECODE invocations in the function body (raw source,
   comments stripped) or in the body of a #define  ->  Definition <name> : list (string * string)
   With [lo, hi] as 4th entry only the lo-th..hi-th invocations (0-based, inclusive) are emitted.
spec["conds"] = [ [file, function, anchor-regex, gallina-name, [params], {c-subexpr: identifier}], ... ]
   an integer condition of the function (group 1 of the anchor, which must match exactly once in the preprocessed
   body), translated expression by expression  ->  Definition <name> (params : Z) : Z   (a C truth value is 0/1)
spec["strconds"] = [ [file, function, anchor-regex, gallina-name, [a, b]], ... ]
   a string comparison: group 1 must be  !strcmp(a, b)  (-> whole-string equality) or  !strncmp(a, b, strlen(a))
   (-> "a is a prefix of b"); anything else is an error  ->  Definition <name> (a b : list Z) : bool
spec["exprs"] = [ [file, function, anchor-regex, gallina-name], ... ]
   the C text (blanks removed) of group 1 of the anchor, which must match exactly once  ->  Definition <name> : string
spec["pins"] = [ [file, [function, ...]], ... ]
   SHA-256 of the function body (comments and all white space removed): the hand-written model of that function was
   written against exactly this text  ->  Definition <function>_src : string
"""
import re


def _stmts(body):
    b = body.strip()
    if b.startswith("{"):
        b = b[1:]
    if b.endswith("}"):
        b = b[:-1]
    return [" ".join(s.split()) for s in b.split(";") if s.strip()]


def emit(repo, spec, H):
    out = ["From Coq Require Import String."]
    for f, names in spec.get("codec_macros", []):
        d = H.defines(repo, f)
        env = {}
        env.update(d)
        for n in names:
            if n not in d or d[n][0] is None:
                raise ValueError("%s: statement macro %s not found" % (f, n))
            params, body = d[n]
            argn = [a.strip() for a in params.strip("()").split(",")]
            if argn != ["p", "i"]:
                raise ValueError("%s: macro %s has parameters %s" % (f, n, argn))
            body = body.replace("(unsigned)", "(uint32)")
            sts = _stmts(body)
            exprs, k = [], 0
            for s in sts:
                if re.fullmatch(r"\(p\)\s*\+\+", s):
                    k += 1
                    continue
                m = re.fullmatch(r"\*\(p\)\s*=\s*(.*)", s)
                if m and n.endswith("ENCODE"):
                    exprs.append(H.P(m.group(1), ["i"], env).ternary_all())
                    continue
                m = re.fullmatch(r"\(i\)\s*(\|?=)\s*(.*)", s)
                if m and n.endswith("DECODE"):
                    if (m.group(1) == "=") != (not exprs):
                        raise ValueError("%s: unexpected assignment order in %s" % (f, n))
                    e = m.group(2).replace("*(p)", " b%d " % k)
                    exprs.append(H.P(e, ["b%d" % j for j in range(8)], env).ternary_all())
                    continue
                raise ValueError("%s: unsupported statement %r in %s" % (f, s, n))
            if k != len(exprs):
                raise ValueError("%s: %s advances p %d times for %d bytes" % (f, n, k, len(exprs)))
            out.append("(* %s: #define %s%s %s *)" % (f, n, params, body.replace("*)", "* )").replace("(*", "( *")))
            if n.endswith("ENCODE"):
                out.append("Definition %s_bytes (i : Z) : list Z :=\n  [%s]." % (n, ";\n   ".join(exprs)))
            else:
                t = exprs[0]
                for e in exprs[1:]:
                    t = "(Z.lor %s\n   %s)" % (t, e)
                out.append("Definition %s_val %s : Z :=\n  %s." % (n, " ".join("(b%d : Z)" % j for j in range(len(exprs))), t))
    for ent in spec.get("encode_seq", []):
        f, fn, name = ent[0], ent[1], ent[2]
        rng = ent[3] if len(ent) > 3 else None
        d = H.defines(repo, f)
        if fn in d and d[fn][0] is not None:
            body = d[fn][1]
        else:
            body = H.func_body(H.raw(repo, f), fn)
        items = []
        for m in re.finditer(r"\b(U?INT(?:16|32)(?:EN|DE)CODE)\s*\(\s*(\w+)\s*,", body):
            # argument text up to the matching parenthesis
            i, depth = m.end(), 1
            while depth and i < len(body):
                if body[i] == "(":
                    depth += 1
                elif body[i] == ")":
                    depth -= 1
                i += 1
            arg = "".join(body[m.end():i - 1].split())
            items.append((m.group(1), arg))
        if rng:
            items = items[rng[0]:rng[1] + 1]
        if not items:
            raise ValueError("%s: no ENCODE/DECODE calls in %s" % (f, fn))
        out.append("(* %s: %s: order of the encode/decode calls *)" % (f, fn))
        out.append("Definition %s : list (string * string) :=\n  [%s]." % (
            name, ";\n   ".join('("%s"%%string, "%s"%%string)' % (a, b.replace('"', "'")) for a, b in items)))
    for f, fn, anchor, name, params, subst in spec.get("conds", []):
        body = H.func_body(H.src(repo, f), fn)
        ms = list(re.finditer(anchor, body))
        if len(ms) != 1:
            raise ValueError("%s:%s: anchor %r matched %d times (need exactly 1)" % (f, fn, anchor, len(ms)))
        cexpr = " ".join(ms[0].group(1).split())
        e = cexpr
        for k in sorted(subst, key=len, reverse=True):
            e = e.replace(k, " %s " % subst[k])
        e = re.sub(r"\(\s*(?:unsigned\s+)?(?:long|int32|int|uint32|size_t|unsigned)\s*\)", " ", e)
        env = {}
        env.update(H.all_enums(H.src(repo, f)))
        env.update(H.defines(repo, f))
        term = H.P(e, params, env).ternary_all()
        out.append("(* %s: %s: %s *)" % (f, fn, cexpr.replace("*)", "* )").replace("(*", "( *")))
        out.append("Definition %s %s : Z := %s." % (name, " ".join("(%s : Z)" % p_ for p_ in params), term))
    if spec.get("strconds"):
        out.append("Fixpoint str_eqb (a b : list Z) : bool := match a, b with [], [] => true | x :: a', y :: b' => "
                   "andb (Z.eqb x y) (str_eqb a' b') | _, _ => false end.")
        out.append("Fixpoint str_prefixb (a b : list Z) : bool := match a, b with [], _ => true | x :: a', y :: b' => "
                   "andb (Z.eqb x y) (str_prefixb a' b') | _, _ => false end.")
    for f, fn, anchor, name, params in spec.get("strconds", []):
        body = H.func_body(H.src(repo, f), fn)
        ms = list(re.finditer(anchor, body))
        if len(ms) != 1:
            raise ValueError("%s:%s: anchor %r matched %d times (need exactly 1)" % (f, fn, anchor, len(ms)))
        cexpr = "".join(ms[0].group(1).split())
        a, b = params
        if cexpr == "!strcmp(%s,%s)" % (a, b) or cexpr == "!strcmp(%s,%s)" % (b, a):
            term = "str_eqb %s %s" % (a, b)
        elif cexpr == "!strncmp(%s,%s,strlen(%s))" % (a, b, a):
            term = "str_prefixb %s %s" % (a, b)
        elif cexpr == "!strncmp(%s,%s,strlen(%s))" % (a, b, b) or cexpr == "!strncmp(%s,%s,strlen(%s))" % (b, a, b):
            term = "str_prefixb %s %s" % (b, a)
        else:
            raise ValueError("%s:%s: unsupported string comparison %r" % (f, fn, cexpr))
        out.append("(* %s: %s: %s *)" % (f, fn, cexpr))
        out.append("Definition %s (%s %s : list Z) : bool := %s." % (name, a, b, term))
    for f, fn, anchor, name in spec.get("exprs", []):
        body = H.func_body(H.raw(repo, f), fn)
        ms = list(re.finditer(anchor, body))
        if len(ms) != 1:
            raise ValueError("%s:%s: anchor %r matched %d times (need exactly 1)" % (f, fn, anchor, len(ms)))
        out.append("(* %s: %s *)" % (f, fn))
        out.append('Definition %s : string := "%s"%%string.' % (name, "".join(ms[0].group(1).split()).replace('"', "'")))
    import hashlib
    for f, fns in spec.get("pins", []):
        for fn in fns:
            body = "".join(H.func_body(H.raw(repo, f), fn).split())
            out.append("(* %s: body of %s, %d characters without comments and white space *)" % (f, fn, len(body)))
            out.append('Definition %s_src : string := "%s"%%string.' % (fn, hashlib.sha256(body.encode()).hexdigest()))
    return out
