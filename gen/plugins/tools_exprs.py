"""C19 translator plugin: the integer expressions that decide what hdiff reports, what hdp prints and what
hdfimport scans, taken from the preprocessed text of the *current* sources.

Unlike the untyped macro translator of gen_consts.P this one is *typed*: every sub-expression carries a C
integer type (signedness, width); the usual arithmetic conversions, integer promotion, casts, assignment
narrowing and abs()/labs()/llabs() are translated with explicit wrap-around (ToolsCInt.swrap / uwrap), because
the property is about exactly those widths (DESIGN section 8 #17).

spec["array_diff_branches"] = [ [gallina-prefix, ptr1, ptr2, diffvar], ... ]     (hdiff_array.c: array_diff)
   -> <p>_elt_signed, <p>_elt_bits   element type the buffers are read through (declaration of the pointers)
      <p>_types                       case labels of the branch (the switch that assigns ptr1 = (T *)buf1)
      <p>_diff a b                    value stored in diffvar by `diffvar = EXPR;` (incl. narrowing to its type)
      <p>_over d lim                  the C truth value of the `else if (diffvar > (int32)err_limit)` test
spec["array_diff_float_branches"] = [ [gallina-prefix, ptr1, ptr2, diffvar], ... ]
   -> <p>_elt_bits (32 / 64: float32 / float64 pointers) and <p>_diff : fexpr, the *width skeleton* of the
      expression stored in diffvar: which subtraction is carried out at which width, where a value is narrowed
      (casts to float32 / float, fabsf's parameter, assignment to a float32 variable); widening is exact and
      leaves no trace.  fabs vs fabsf, (float32) vs (float64) therefore change the generated term.
spec["switch_scrutinee"] = [ [file, function, marker-text-inside-the-switch, gallina-name, c-variable], ... ]
   -> Definition name (nt : Z) : Z := the switch's controlling expression with c-variable := nt
spec["exprs"] = [ [file, function, anchor-regex, nth, gallina-name, [params], {c-subexpr: ident}], ... ]
   -> Definition name params : Z := untyped translation (gen_consts.P, a C truth value is 0/1) of group 1 of the
      nth match (0-based; the regex must match more than nth times) of the anchor inside the function body
spec["present"] = [ [file, function, regex, gallina-name], ... ]
   -> Definition name : Z := 1 if the regex matches inside the (preprocessed) function body, else 0
      (is a difference counted in this branch?  is the state reset inside this function?)
spec["call_args"] = [ [file, function, callee, argindex, gallina-name, [params], {c-subexpr: ident}], ... ]
   -> Definition name params : Z := untyped translation of that argument (casts to uint32 etc. dropped only when
      listed in the substitution map)
spec["printf_formats"] = [ [file, function, callee-regex, gallina-name], ... ]
   -> Definition name : list Z := character codes of the first string literal passed to the callee in function
spec["local_types"] = [ [file, function, variable, gallina-prefix], ... ]
   -> <prefix>_signed : bool, <prefix>_bits : Z  from the declaration of the local variable
"""
import re

TYPES = {"int8": (True, 8), "uint8": (False, 8), "int16": (True, 16), "uint16": (False, 16),
         "int32": (True, 32), "uint32": (False, 32), "int": (True, 32), "unsigned": (False, 32),
         "intn": (True, 32), "uintn": (False, 32), "long": (True, 64), "int64": (True, 64),
         "int64_t": (True, 64), "uint64_t": (False, 64), "int32_t": (True, 32), "uint32_t": (False, 32),
         "int16_t": (True, 16), "uint16_t": (False, 16), "int8_t": (True, 8), "uint8_t": (False, 8),
         "short": (True, 16), "char": (True, 8), "uchar8": (False, 8), "char8": (True, 8),
         "size_t": (False, 64)}
MULTI = {("unsigned", "int"): (False, 32), ("long", "long"): (True, 64), ("unsigned", "long"): (False, 64),
         ("unsigned", "char"): (False, 8), ("signed", "char"): (True, 8), ("unsigned", "short"): (False, 16),
         ("long", "int"): (True, 64), ("short", "int"): (True, 16), ("unsigned", "long", "long"): (False, 64),
         ("long", "long", "int"): (True, 64)}


def rng(t):
    s, b = t
    return (-(1 << (b - 1)), (1 << (b - 1)) - 1) if s else (0, (1 << b) - 1)


def conv(term, frm, to):
    """value of C type frm converted to C type to"""
    if frm == to:
        return term
    lo, hi = rng(frm)
    tlo, thi = rng(to)
    if tlo <= lo and hi <= thi:
        return term
    return "(%s %d %s)" % ("swrap" if to[0] else "uwrap", to[1], term)


def promote(t):
    return (True, 32) if t[1] < 32 else t


def common(t1, t2):
    t1, t2 = promote(t1), promote(t2)
    if t1 == t2:
        return t1
    if t1[1] != t2[1]:
        return t1 if t1[1] > t2[1] else t2
    return (False, t1[1])


class TP:
    """typed precedence-climbing parser: C integer expression -> (Gallina Z term, C type)"""
    BIN = {"||": 1, "&&": 2, "==": 6, "!=": 6, "<=": 7, ">=": 7, "<": 7, ">": 7, "+": 9, "-": 9, "*": 10}

    def __init__(self, s, leaves):
        self.toks = re.findall(r"0[xX][0-9a-fA-F]+[uUlL]*|\d+[uUlL]*|[A-Za-z_][A-Za-z0-9_]*|==|!=|<=|>=|&&|\|\||[()+\-*/%<>?:!,]", s)
        self.i = 0
        self.leaves = leaves

    def peek(self, k=0):
        return self.toks[self.i + k] if self.i + k < len(self.toks) else None

    def eat(self, t=None):
        x = self.peek()
        if t is not None and x != t:
            raise ValueError("typed translator: expected %s got %s in %s" % (t, x, " ".join(self.toks)))
        self.i += 1
        return x

    def try_type(self):
        """at '(' : is this a cast?  returns (type, ntokens) or None"""
        j = self.i + 1
        names = []
        while j < len(self.toks) and re.match(r"[A-Za-z_]", self.toks[j]) and (self.toks[j] in TYPES or self.toks[j] in ("signed", "unsigned", "long", "short")):
            names.append(self.toks[j])
            j += 1
        if not names or j >= len(self.toks) or self.toks[j] != ")":
            return None
        key = tuple(names)
        if len(key) == 1 and key[0] in TYPES:
            return TYPES[key[0]], j + 1 - self.i
        if key in MULTI:
            return MULTI[key], j + 1 - self.i
        raise ValueError("typed translator: unknown cast type %s" % " ".join(names))

    def expr(self):
        c, ct = self.binary(0)
        if self.peek() == "?":
            self.eat()
            a, at = self.expr()
            self.eat(":")
            b, bt = self.expr()
            rt = common(at, bt)
            return "(if Z.eqb %s 0 then %s else %s)" % (c, conv(b, bt, rt), conv(a, at, rt)), rt
        return c, ct

    def binary(self, minp):
        lhs, lt = self.unary()
        while True:
            op = self.peek()
            pr = self.BIN.get(op)
            if pr is None or pr < minp:
                return lhs, lt
            self.eat()
            rhs, rt = self.binary(pr + 1)
            lhs, lt = self.mk(op, lhs, lt, rhs, rt)

    def mk(self, op, a, at, b, bt):
        if op in ("&&", "||"):
            f = "andb" if op == "&&" else "orb"
            return "(b2z (%s (negb (Z.eqb %s 0)) (negb (Z.eqb %s 0))))" % (f, a, b), (True, 32)
        ct = common(at, bt)
        a, b = conv(a, at, ct), conv(b, bt, ct)
        if op in ("+", "-", "*"):
            f = {"+": "Z.add", "-": "Z.sub", "*": "Z.mul"}[op]
            raw = "(%s %s %s)" % (f, a, b)
            return "(%s %d %s)" % ("swrap" if ct[0] else "uwrap", ct[1], raw), ct
        cmpf = {"==": "Z.eqb %s %s", "!=": "negb (Z.eqb %s %s)", "<": "Z.ltb %s %s", "<=": "Z.leb %s %s"}
        if op in cmpf:
            return "(b2z (%s))" % (cmpf[op] % (a, b)), (True, 32)
        if op == ">":
            return "(b2z (Z.ltb %s %s))" % (b, a), (True, 32)
        if op == ">=":
            return "(b2z (Z.leb %s %s))" % (b, a), (True, 32)
        raise ValueError(op)

    def unary(self):
        t = self.peek()
        if t == "(":
            ty = self.try_type()
            if ty is not None:
                self.i += ty[1]
                x, xt = self.unary()
                return conv(x, xt, ty[0]), ty[0]
            self.eat("(")
            x, xt = self.expr()
            self.eat(")")
            return x, xt
        if t == "-":
            self.eat()
            x, xt = self.unary()
            pt = promote(xt)
            return "(%s %d (Z.opp %s))" % ("swrap" if pt[0] else "uwrap", pt[1], conv(x, xt, pt)), pt
        if t == "+":
            self.eat()
            return self.unary()
        if t == "!":
            self.eat()
            x, xt = self.unary()
            return "(b2z (Z.eqb %s 0))" % x, (True, 32)
        self.eat()
        if re.match(r"\d", t):
            m = re.match(r"(0[xX][0-9a-fA-F]+|\d+)([uUlL]*)", t)
            v = int(m.group(1), 0)
            suf = m.group(2).lower()
            ty = (("u" not in suf), 64 if ("l" in suf or v > 0xffffffff) else 32)
            if ty == (True, 32) and v > 0x7fffffff:
                ty = (True, 64)
            return "%d" % v, ty
        if t in self.leaves:
            return self.leaves[t]
        if t in ("abs", "labs", "llabs") and self.peek() == "(":
            rt = (True, 32) if t == "abs" else (True, 64)
            self.eat("(")
            x, xt = self.expr()
            self.eat(")")
            return "(swrap %d (Z.abs %s))" % (rt[1], conv(x, xt, rt)), rt
        raise ValueError("typed translator: unknown identifier %s" % t)

    def all(self):
        x = self.expr()
        if self.peek() is not None:
            raise ValueError("typed translator: trailing tokens %s" % self.toks[self.i:])
        return x


FTYPES = {"float32": 32, "float": 32, "float64": 64, "double": 64}


class FP:
    """float expression -> (fexpr term, width).  Grammar: primary { - primary }, primary = leaf | (T)primary |
    (expr) | fabs(expr) | fabsf(expr)"""

    def __init__(self, s, leaves):
        self.toks = re.findall(r"[A-Za-z_][A-Za-z0-9_]*|[()\-]", s)
        if "".join(self.toks) != re.sub(r"\s+", "", s):
            raise ValueError("float translator: unsupported characters in %r" % s)
        self.i = 0
        self.leaves = leaves

    def peek(self, k=0):
        return self.toks[self.i + k] if self.i + k < len(self.toks) else None

    def eat(self, t=None):
        x = self.peek()
        if t is not None and x != t:
            raise ValueError("float translator: expected %s got %s" % (t, x))
        self.i += 1
        return x

    @staticmethod
    def to(term, w, target):
        return "(FNarrow %d %s)" % (target, term) if target < w else term

    def expr(self):
        a, wa = self.primary()
        while self.peek() == "-":
            self.eat()
            b, wb = self.primary()
            w = max(wa, wb)
            a, wa = "(FSub %d %s %s)" % (w, a, b), w
        return a, wa

    def primary(self):
        t = self.peek()
        if t == "(":
            if self.peek(1) in FTYPES and self.peek(2) == ")":
                w = FTYPES[self.peek(1)]
                self.i += 3
                x, wx = self.primary()
                return self.to(x, wx, w), w
            self.eat("(")
            x = self.expr()
            self.eat(")")
            return x
        self.eat()
        if t in self.leaves:
            return self.leaves[t]
        if t in ("fabs", "fabsf") and self.peek() == "(":
            w = 64 if t == "fabs" else 32
            self.eat("(")
            x, wx = self.expr()
            self.eat(")")
            return "(FAbs %s)" % self.to(x, wx, w), w
        raise ValueError("float translator: unknown identifier %s" % t)

    def all(self):
        x = self.expr()
        if self.peek() is not None:
            raise ValueError("float translator: trailing tokens %s" % self.toks[self.i:])
        return x


def fdecl_width(body, var, pointer=False):
    star = r"\*\s*" if pointer else ""
    m = re.search(r"\b(float32|float64|float|double)\s+(?:\*?\s*[A-Za-z_][A-Za-z0-9_]*\s*(?:=[^,;]*)?,\s*)*%s%s\s*(?:=[^,;]*)?[,;]" % (star, re.escape(var)), body)
    if not m:
        raise ValueError("floating declaration of %s not found" % var)
    return FTYPES[m.group(1)]


def decl_type(body, var, pointer=False):
    star = r"\*\s*" if pointer else ""
    m = re.search(r"\b((?:unsigned\s+|signed\s+)?[A-Za-z_][A-Za-z0-9_]*)\s+(?:\*?\s*[A-Za-z_][A-Za-z0-9_]*\s*(?:=[^,;]*)?,\s*)*%s%s\s*(?:=[^,;]*)?[,;]" % (star, re.escape(var)), body)
    if not m:
        raise ValueError("declaration of %s not found" % var)
    key = tuple(m.group(1).split())
    if len(key) == 1 and key[0] in TYPES:
        return TYPES[key[0]]
    if key in MULTI:
        return MULTI[key]
    raise ValueError("declaration of %s has unsupported type %s" % (var, m.group(1)))


def one(pattern, body, what):
    ms = list(re.finditer(pattern, body, flags=re.S))
    if len(ms) != 1:
        raise ValueError("%s: pattern matched %d times (need exactly 1)" % (what, len(ms)))
    return ms[0]


def cstr(s):
    out = []
    i = 0
    esc = {"n": 10, "t": 9, "r": 13, "\\": 92, '"': 34, "0": 0}
    while i < len(s):
        if s[i] == "\\":
            out.append(esc.get(s[i + 1], ord(s[i + 1])))
            i += 2
        else:
            out.append(ord(s[i]))
            i += 1
    return out


def emit(repo, spec, H):
    out = []
    f = "mfhdf/hdiff/hdiff_array.c"
    if spec.get("array_diff_branches"):
        body = H.func_body(H.src(repo, f), "array_diff")
        env = {}
        env.update(H.all_enums(H.src(repo, f)))
        env.update(H.defines(repo, f))
        for pre, p1, p2, dv in spec["array_diff_branches"]:
            et = decl_type(body, p1, pointer=True)
            if decl_type(body, p2, pointer=True) != et:
                raise ValueError("%s and %s have different element types" % (p1, p2))
            dt = decl_type(body, dv)
            # case labels: the text between the previous `break;` (or the switch head) and `p1 = (T *)buf1;`
            m = one(r"((?:case\s+[^:]+:\s*)+)%s\s*=\s*\(\s*[A-Za-z0-9_]+\s*\*\s*\)\s*buf1\s*;" % re.escape(p1), body,
                    "case labels of %s" % p1)
            labels = [H.ceval(x, env) for x in re.findall(r"case\s+([^:]+):", m.group(1))]
            a = one(r"\b%s\s*=\s*([^;]+);" % re.escape(dv), body, "assignment to %s" % dv)
            cexpr = " ".join(a.group(1).split())
            e = cexpr.replace("*" + p1, " ELT_A ").replace("*" + p2, " ELT_B ")
            term, ty = TP(e, {"ELT_A": ("a", et), "ELT_B": ("b", et)}).all()
            term = conv(term, ty, dt)
            c = one(r"else\s+if\s*\(\s*(%s\s*>[^;{]*?)\)\s*\{" % re.escape(dv), body, "threshold test on %s" % dv)
            ccond = " ".join(c.group(1).split())
            ce = re.sub(r"\(\s*(?:int32|int)\s*\)\s*err_limit", " LIM ", ccond).replace(dv, " DIFF ")
            cterm, _ = TP(ce, {"LIM": ("lim", (True, 32)), "DIFF": ("d", dt)}).all()
            out.append("(* %s: array_diff: %s elements read through `%s%d *`; `%s %s = %s;`; test `%s` *)" % (
                f, pre, "int" if et[0] else "uint", et[1], ("int" if dt[0] else "uint") + str(dt[1]), dv,
                cexpr.replace("*)", "* )").replace("(*", "( *"), ccond))
            out.append("Definition %s_elt_signed : bool := %s." % (pre, "true" if et[0] else "false"))
            out.append("Definition %s_elt_bits : Z := %d." % (pre, et[1]))
            out.append("Definition %s_types : list Z := [%s]." % (pre, "; ".join(str(x) for x in labels)))
            out.append("Definition %s_diff (a b : Z) : Z := %s." % (pre, term))
            out.append("Definition %s_over (d lim : Z) : Z := %s." % (pre, cterm))
    if spec.get("array_diff_float_branches"):
        body = H.func_body(H.src(repo, f), "array_diff")
        for pre, p1, p2, dv in spec["array_diff_float_branches"]:
            ew = fdecl_width(body, p1, pointer=True)
            if fdecl_width(body, p2, pointer=True) != ew:
                raise ValueError("%s and %s have different element types" % (p1, p2))
            dw = fdecl_width(body, dv)
            a = one(r"\b%s\s*=\s*([^;]+);" % re.escape(dv), body, "assignment to %s" % dv)
            cexpr = " ".join(a.group(1).split())
            e = cexpr.replace("*" + p1, " ELT_A ").replace("*" + p2, " ELT_B ")
            term, w = FP(e, {"ELT_A": ("FA", ew), "ELT_B": ("FB", ew)}).all()
            term = FP.to(term, w, dw)
            out.append("(* %s: array_diff: %s elements are float%d; `float%d %s = %s;` *)" % (
                f, pre, ew, dw, dv, cexpr.replace("*)", "* )").replace("(*", "( *")))
            out.append("Definition %s_elt_bits : Z := %d." % (pre, ew))
            out.append("Definition %s_diff : fexpr := %s." % (pre, term))
    for ff, fn, marker, name, cvar in spec.get("switch_scrutinee", []):
        body = H.func_body(H.src(repo, ff), fn)
        found = None
        for m in re.finditer(r"\bswitch\s*\(", body):
            i, depth = m.end(), 1
            while depth:
                depth += {"(": 1, ")": -1}.get(body[i], 0)
                i += 1
            scrut = body[m.end():i - 1]
            j = body.index("{", i)
            k, depth = j + 1, 1
            while depth:
                depth += {"{": 1, "}": -1}.get(body[k], 0)
                k += 1
            if re.sub(r"\s+", "", marker) in re.sub(r"\s+", "", body[j:k]):
                found = scrut
        if found is None:
            raise ValueError("%s: %s: no switch containing %r" % (ff, fn, marker))
        env = {}
        env.update(H.all_enums(H.src(repo, ff)))
        env.update(H.defines(repo, ff))
        cexpr = " ".join(found.split())
        term = H.P(re.sub(r"\b%s\b" % re.escape(cvar), " nt ", cexpr), ["nt"], env).ternary_all()
        out.append("(* %s: %s: switch (%s) *)" % (ff, fn, cexpr))
        out.append("Definition %s (nt : Z) : Z := %s." % (name, term))
    for ff, fn, anchor, nth, name, params, subst in spec.get("exprs", []):
        body = H.func_body(H.src(repo, ff), fn)
        ms = list(re.finditer(anchor, body))
        if len(ms) <= nth:
            raise ValueError("%s:%s: anchor %r matched %d times (need more than %d)" % (ff, fn, anchor, len(ms), nth))
        cexpr = " ".join(ms[nth].group(1).split())
        e = cexpr
        for k in sorted(subst, key=len, reverse=True):
            e = e.replace(k, " %s " % subst[k])
        env = {}
        env.update(H.all_enums(H.src(repo, ff)))
        env.update(H.defines(repo, ff))
        term = H.P(e, params, env).ternary_all()
        out.append("(* %s: %s: %s *)" % (ff, fn, cexpr.replace("*)", "* )").replace("(*", "( *")))
        out.append("Definition %s %s : Z := %s." % (name, " ".join("(%s : Z)" % p_ for p_ in params), term))
    for ff, fn, rx, name in spec.get("present", []):
        body = H.func_body(H.src(repo, ff), fn)
        hit = re.search(rx, body, flags=re.S) is not None
        out.append("(* %s: %s: /%s/ %s *)" % (ff, fn, rx.replace("*)", "* )").replace("(*", "( *"), "present" if hit else "ABSENT"))
        out.append("Definition %s : Z := %d." % (name, 1 if hit else 0))
    for ent in spec.get("call_args", []):
        ff, fn, callee, idx, name, params, subst = ent
        body = H.func_body(H.src(repo, ff), fn)
        m = one(r"\b%s\s*\(" % re.escape(callee), body, "call of %s in %s" % (callee, fn))
        i = m.end()
        depth, args, cur = 1, [], ""
        while depth:
            ch = body[i]
            if ch == "(":
                depth += 1
            elif ch == ")":
                depth -= 1
                if depth == 0:
                    break
            if ch == "," and depth == 1:
                args.append(cur)
                cur = ""
            else:
                cur += ch
            i += 1
        args.append(cur)
        cexpr = " ".join(args[idx].split())
        e = cexpr
        for k in sorted(subst, key=len, reverse=True):
            e = e.replace(k, " %s " % subst[k])
        env = {}
        env.update(H.all_enums(H.src(repo, ff)))
        env.update(H.defines(repo, ff))
        term = H.P(e, params, env).ternary_all()
        out.append("(* %s: %s: argument %d of %s(...): %s *)" % (ff, fn, idx, callee, cexpr))
        out.append("Definition %s %s : Z := %s." % (name, " ".join("(%s : Z)" % p for p in params), term))
    for ff, fn, callee, name in spec.get("printf_formats", []):
        body = H.func_body(H.src(repo, ff), fn)
        ms = list(re.finditer(r"\b(?:%s)\s*\((?:[^\"();]*,)?\s*\"((?:[^\"\\]|\\.)*)\"" % callee, body))
        if not ms:
            raise ValueError("%s: %s: no call of %s with a string literal" % (ff, fn, callee))
        lit = ms[0].group(1)
        out.append("(* %s: %s: first format string passed to %s: \"%s\" *)" % (ff, fn, callee, lit))
        out.append("Definition %s : list Z := [%s]." % (name, "; ".join(str(x) for x in cstr(lit))))
    for ff, fn, name, callee_re, names in spec.get("switch_calls", []):
        body = H.func_body(H.src(repo, ff), fn)
        env = {}
        env.update(H.all_enums(H.src(repo, ff)))
        env.update(H.defines(repo, ff))
        m = re.search(r"\bswitch\s*\([^{]*\{", body)
        if not m:
            raise ValueError("%s: no switch in %s" % (ff, fn))
        i, depth = m.end(), 1
        while depth:
            depth += {"{": 1, "}": -1}.get(body[i], 0)
            i += 1
        sw = body[m.end():i - 1]
        rows, labels, got = [], [], False
        for t in re.finditer(r"case\s+([^:]+):|(default)\s*:|\b(%s)\b|(break)\s*;" % callee_re, sw):
            if t.group(1) is not None or t.group(2) is not None:
                if got:
                    labels, got = [], False
                if t.group(1) is not None:
                    labels.append(H.ceval(t.group(1), env))
            elif t.group(3) is not None:
                if not got and t.group(3) in names:
                    rows += [(lab, names.index(t.group(3))) for lab in labels]
                    got = True
                elif not got:
                    raise ValueError("%s: %s: callee %s not in the expected list" % (ff, fn, t.group(3)))
            else:
                labels, got = [], False
        out.append("(* %s: switch in %s: case label -> index of the routine used, in [%s] *)" % (ff, fn, "; ".join(names)))
        out.append("Definition %s : list (Z * Z) := [%s]." % (name, "; ".join("(%d, %d)" % r for r in rows)))
    for ff, fn, var, pre in spec.get("local_types", []):
        body = H.func_body(H.src(repo, ff), fn)
        t = decl_type(body, var)
        out.append("(* %s: %s: local `%s` *)" % (ff, fn, var))
        out.append("Definition %s_signed : bool := %s." % (pre, "true" if t[0] else "false"))
        out.append("Definition %s_bits : Z := %d." % (pre, t[1]))
    return out
