"""C16 translator plugin: error-flow skeleton of the anchored I/O functions, taken from the *current* sources.

spec["hi_macros"]  = [file, [macro names]]          the stdio wrapper macros of hfile_priv.h
spec["io_callees"] = [names]                        functions / macros whose result reports an I/O failure
spec["functions"]  = [[file, function], ...]        anchored functions to scan

Output (Gallina):
  HI_macros : list (string * (string * string))     macro -> (underlying stdio function, success test)
      success test: "eq_count" (returned count == requested), "eq_zero" (result == 0), "ptr" (pointer, OPENERR),
      "call" (delegates to a function), "raw" (value handed through)
  sites_<fn> : list (string * cls)                  every call of an io_callee inside <fn>, in source order, classified
      Checked   the result is tested and a failure leaves the function with its failure value at once
                (if (X(..) == FAIL) HGOTO_ERROR / HRETURN_ERROR / return FAIL ...; also r = X(..); if (r == FAIL) ...)
      Late      the result is tested, a failure is remembered (flag / status / ret_value) and the function returns
                its failure value after finishing its clean-up
      Returned  the result is the function's own result (return X(..); ret_value = X(..);)
      OnFailPath the result is not used, but the call sits in a block that unconditionally leaves with the failure value
      Diverted  the result is tested; on failure the function returns the result of another call (the next site)
      Dropped   anything else: result unused, or only logged
spec["facts"] = [[file, function, regex, name], ...]   ->  Definition fact_<name> : bool  (does the regex match inside the function?)
  anchored : list (string * list (string * cls))

The scanner works on the comment-stripped source text of each function (macros such as HGOTO_ERROR are recognised
by name, which is why it does not run on preprocessed text).  It is deliberately conservative: whatever it cannot
recognise as checked is Dropped, and a Dropped site breaks `anchored_sites_checked` in FaultProofs.v.
"""
import re

ERR_EXIT = r"(?:HGOTO_ERROR|HGOTO_FAIL|HRETURN_ERROR|HE_REPORT_GOTO|HE_REPORT_RETURN|HCLOSE_GOTO_ERROR|HGOTO_DONE\s*\(\s*FAIL|" \
           r"return\s*\(?\s*(?:FAIL|-\s*1|NULL|FALSE)\b|return\s+ret_value|goto\s+done)"
LATE_SET = r"(?:ret_value\s*=\s*(?:FAIL|-\s*1|FALSE)|status\s*=\s*(?:FAIL|-\s*1)|[A-Za-z_]*failed\s*=\s*(?:TRUE|1))"


def match_paren(txt, i):
    """txt[i] == '(' -> index just after the matching ')'"""
    depth = 0
    j = i
    while j < len(txt):
        if txt[j] == "(":
            depth += 1
        elif txt[j] == ")":
            depth -= 1
            if depth == 0:
                return j + 1
        j += 1
    raise ValueError("unbalanced parentheses")


def next_statement(txt, i):
    """the statement starting at txt[i:] (after an if-condition): either a {...} block or up to ';' (macro calls with
    parentheses handled).  Returns (text, end)"""
    j = i
    while j < len(txt) and txt[j].isspace():
        j += 1
    if j < len(txt) and txt[j] == "{":
        depth = 0
        k = j
        while k < len(txt):
            if txt[k] == "{":
                depth += 1
            elif txt[k] == "}":
                depth -= 1
                if depth == 0:
                    return txt[j:k + 1], k + 1
            k += 1
        raise ValueError("unbalanced braces")
    k = j
    depth = 0
    while k < len(txt):
        if txt[k] == "(":
            depth += 1
        elif txt[k] == ")":
            depth -= 1
        elif txt[k] == ";" and depth == 0:
            return txt[j:k + 1], k + 1
        k += 1
    return txt[j:], len(txt)


def enclosing_if(body, pos):
    """if the call at body[pos] lies inside the condition of an `if (...)`, return (cond_start, cond_end)"""
    for m in re.finditer(r"\bif\s*\(", body):
        s = m.end() - 1
        if s > pos:
            break
        e = match_paren(body, s)
        if s < pos < e:
            return s, e
    return None


def enclosing_block_tail(body, pos):
    """text from pos to the end of the innermost {...} block containing pos"""
    depth = 0
    k = pos
    while k < len(body):
        if body[k] == "{":
            depth += 1
        elif body[k] == "}":
            if depth == 0:
                return body[pos:k]
            depth -= 1
        k += 1
    return body[pos:]


def statement_bounds(body, pos):
    """start and end of the simple statement containing pos (no enclosing if-condition)"""
    s = pos
    depth = 0
    while s > 0:
        c = body[s - 1]
        if c == ")":
            depth += 1
        elif c == "(":
            if depth > 0:      # (an unmatched "(" means the call sits inside a parenthesised expression: go on)
                depth -= 1
        elif c in ";{}" and depth == 0:
            break
        s -= 1
    e = pos
    depth = 0
    while e < len(body):
        c = body[e]
        if c == "(":
            depth += 1
        elif c == ")":
            depth -= 1
        elif c == ";" and depth <= 0:
            break
        e += 1
    return s, e + 1


def in_failure_cleanup(body, pos):
    """is pos inside a block  if (ret_value == FAIL|NULL|RET_ERROR) { ... }  (the usual `done:` clean-up)?"""
    depth = 0
    k = pos - 1
    while k >= 0:
        c = body[k]
        if c == "}":
            depth += 1
        elif c == "{":
            if depth == 0:
                if re.search(r"if\s*\(\s*ret_value\s*==\s*(?:FAIL|NULL|RET_ERROR)\s*\)\s*$", body[:k]):
                    return True
            else:
                depth -= 1
        k -= 1
    return False


def classify(body, pos, end_call, fn_tail_has_flag_test):
    ifc = enclosing_if(body, pos)
    if ifc is not None:
        cond = body[ifc[0]:ifc[1]]
        stmt, _ = next_statement(body, ifc[1])
        if re.search(r"\bret_value\s*=\s*$", body[ifc[0]:pos]):
            return "Returned"     # if ((ret_value = X(..)) != FAIL) ...: the call's result is the function's result
        # the condition must actually compare / test the call's value
        if re.search(ERR_EXIT, stmt):
            return "Checked"
        if re.search(LATE_SET, stmt):
            return "Late"
        if re.search(r"\breturn\s+[A-Za-z_][A-Za-z0-9_]*\s*\(", stmt):
            return "Diverted"     # on failure the function returns the result of ANOTHER call (listed next)
        return "Dropped"          # e.g. only HERROR(...) / HEreport(...)
    s, e = statement_bounds(body, pos)
    stmt = body[s:e].strip()
    if re.match(r"return\b", stmt):
        return "Returned"
    head = body[s:pos]
    # a guarded assignment:  if (c) v = X(..); else v = Y(..);   -- look at the assignment itself
    pm = re.match(r"\s*(?:else\s+)?(?:if\s*\()", head)
    if pm:
        ce = match_paren(head + ")" * 50, pm.end() - 1)
        if ce <= len(head):
            head = head[ce:]
    head = re.sub(r"^\s*else\b", "", head)
    m = re.match(r"\s*([A-Za-z_][A-Za-z0-9_>\.\-\*\(\)\[\] ]*?)\s*=\s*(?:\(\s*EOF\s*==\s*)?(?:\([A-Za-z_0-9 \*]+\)\s*)?$", head)
    if m:
        var = m.group(1).strip().split()[-1]          # drop a declaration's type ("int ret_value")
        if var == "ret_value":
            # ret_value = X(...);  -> the function's own result, provided nothing overwrites it with success later
            return "Returned"
        rest = body[e:e + 400]
        t = re.match(r"\s*if\s*\(", rest)
        if not t:                 # the test may follow the other arm of an if/else that assigns the same variable
            t2 = re.match(r"\s*else\b[^;]*;\s*(?=if\s*\()", rest)
            if t2:
                rest = rest[t2.end():]
                t = re.match(r"\s*if\s*\(", rest)
        if t:
            ce = match_paren(rest, t.end() - 1)
            cond = rest[t.end() - 1:ce]
            if re.search(r"\b%s\b" % re.escape(var), cond):
                st2, _ = next_statement(rest, ce)
                if re.search(ERR_EXIT, st2):
                    return "Checked"
                if re.search(LATE_SET, st2):
                    return "Late"
        return "Dropped"
    # bare call statement inside the error clean-up `if (ret_value == FAIL) { ... }`?
    if in_failure_cleanup(body, s):
        return "OnFailPath"
    # bare call statement: is it on a path that leaves with the failure value anyway?
    tail = enclosing_block_tail(body, e)
    # only straight-line statements up to the error exit (no further condition in between)
    head = re.split(r"\bif\b|\bfor\b|\bwhile\b|\bswitch\b", tail)[0]
    if re.search(ERR_EXIT, head) and not re.search(r"return\s+ret_value|goto\s+done", head):
        return "OnFailPath"
    return "Dropped"


def scan_function(H, repo, f, fn, callees):
    body = H.func_body(H.raw(repo, f), fn)
    # drop HFILE_SEEKINFO-style debugging blocks
    # drop debugging variants that are never compiled in (-D not set anywhere in the build)
    for mac in ("HFILE_SEEKINFO", "STATISTICS", "DISKBLOCK_DEBUG"):
        body = re.sub(r"#ifdef\s+%s\b.*?#(?:else|endif)[^\n]*" % mac, " ", body, flags=re.S)
    out = []
    pat = re.compile(r"\b(%s)\s*\(" % "|".join(re.escape(c) for c in sorted(callees, key=len, reverse=True)))
    for m in pat.finditer(body):
        name = m.group(1)
        end_call = match_paren(body, m.end() - 1)
        cls = classify(body, m.start(), end_call, None)
        s, e = statement_bounds(body, m.start())
        ctx = " ".join(body[max(0, m.start() - 40):min(len(body), end_call + 60)].split())
        out.append((name, cls, ctx))
    return out


def macro_shape(body):
    b = " ".join(body.split())
    m = re.search(r"\b(fopen|fread|fwrite|fseek|ftell|fflush|fclose)\s*\(", b)
    m2 = re.match(r"\(?\s*([A-Za-z_][A-Za-z0-9_]*)\s*\(", b)
    if m is None:
        if m2:
            return m2.group(1), "call"
        raise ValueError("unrecognised wrapper macro body: %r" % b)
    fnm = m.group(1)
    if re.search(r"\(size_t\)\s*\(n\)\s*==\s*\(size_t\)\s*%s\s*\(" % fnm, b) and re.search(r"\?\s*SUCCEED\s*:\s*FAIL", b):
        return fnm, "eq_count"
    if re.search(r"%s\s*\([^?]*\)\s*==\s*0\s*\?\s*SUCCEED\s*:\s*FAIL" % fnm, b):
        return fnm, "eq_zero"
    if fnm == "fopen":
        return fnm, "ptr"
    if re.fullmatch(r"\(?\s*%s\s*\(\s*f\s*\)\s*\)?" % fnm, b):
        return fnm, "raw"
    raise ValueError("unrecognised success test in wrapper macro: %r" % b)


# ---- failure-value conventions: what a callee returns on failure vs. what its callers test for -------------------
RET_TOK = r"(FAIL|FALSE|NULL|TRUE|SUCCEED|-\s*1|\(\s*-\s*1\s*\)|0|1)\b"


def fail_kind(body):
    """the value(s) a function hands back on failure, from its return statements and error macros"""
    vals = set()
    for m in re.finditer(r"\breturn\s*\(?\s*" + RET_TOK, body):
        vals.add(m.group(1))
    for m in re.finditer(r"\bret_value\s*=\s*" + RET_TOK, body):
        vals.add(m.group(1))
    for m in re.finditer(r"\b(?:HGOTO_ERROR|HRETURN_ERROR|HE_REPORT_GOTO|HE_REPORT_RETURN)\s*\([^;]*?,\s*" + RET_TOK + r"\s*\)\s*;", body):
        vals.add(m.group(1))
    for m in re.finditer(r"\b(?:HGOTO_FAIL|HGOTO_DONE)\s*\(\s*" + RET_TOK + r"\s*\)", body):
        vals.add(m.group(1))
    vals = {re.sub(r"[\s()]", "", v) for v in vals}
    has_fail = bool(vals & {"FAIL", "-1"})
    has_false = "FALSE" in vals or ("0" in vals and "1" in vals and not has_fail) or ("TRUE" in vals and not has_fail)
    if has_fail and "FALSE" in vals:
        return "MIXED"
    if has_fail:
        return "FAIL"
    if has_false:
        return "FALSE"
    if "NULL" in vals:
        return "NULL"
    return "NONE"


def test_kind(body, pos, name):
    """how the result of the call at body[pos] is tested"""
    ifc = enclosing_if(body, pos)
    cond = None
    if ifc is not None:
        cond = body[ifc[0]:ifc[1]]
    else:
        s, e = statement_bounds(body, pos)
        m = re.match(r"\s*([A-Za-z_][A-Za-z0-9_>\.\-\*\(\)\[\] ]*?)\s*=\s*(?:\([A-Za-z_0-9 \*]+\)\s*)?$", body[s:pos])
        if re.match(r"\s*return\b", body[s:e]):
            return "RETURNED"
        if m:
            var = m.group(1).strip().split()[-1]
            if var == "ret_value":
                return "RETURNED"
            rest = body[e:e + 300]
            t = re.match(r"\s*if\s*\(", rest)
            if t:
                ce = match_paren(rest, t.end() - 1)
                c2 = rest[t.end() - 1:ce]
                if re.search(r"\b%s\b" % re.escape(var), c2):
                    cond = c2.replace(var, name + "()")
        if cond is None:
            return "UNTESTED"
    c = " ".join(cond.split())
    if re.search(r"\bFAIL\b|==\s*-\s*1|==\s*\(\s*-\s*1\s*\)|<\s*0", c):
        return "FAIL"
    if re.search(r"!\s*%s\s*\(" % re.escape(name), c) or re.search(r"\bFALSE\b|!=\s*TRUE", c):
        return "FALSE"
    if re.search(r"\bNULL\b", c):
        return "NULL"
    if re.search(r"\bSUCCEED\b", c):
        return "NOTSUCCEED"
    return "TRUTH"            # if (f(..)) ...


def conventions(H, repo, files, callees):
    rows = []
    texts = {f: H.raw(repo, f) for f in files}
    kinds = {}
    for c in callees:
        for f, txt in texts.items():
            try:
                kinds[c] = fail_kind(H.func_body(txt, c))
                break
            except ValueError:
                continue
    for f, txt in texts.items():
        # every function body of the file
        for fm in re.finditer(r"(?m)^([A-Za-z_][A-Za-z0-9_]*)\s*\([^;{)]*\)\s*\{", txt):
            caller = fm.group(1)
            try:
                body = H.func_body(txt, caller)
            except ValueError:
                continue
            for c in callees:
                if c == caller or c not in kinds:
                    continue
                for m in re.finditer(r"\b%s\s*\(" % re.escape(c), body):
                    rows.append((caller, c, kinds[c], test_kind(body, m.start(), c)))
    return rows


def emit(repo, spec, H):
    out = ["From Coq Require Import String.", "Local Open Scope string_scope.",
           "Inductive cls := Checked | Late | Returned | OnFailPath | Diverted | Dropped.", ""]
    f, names = spec["hi_macros"]
    d = H.defines(repo, f)
    rows = []
    for n in names:
        if n not in d or d[n][0] is None:
            raise ValueError("%s: wrapper macro %s not found" % (f, n))
        fnm, test = macro_shape(d[n][1])
        out.append("(* %s: #define %s%s %s *)" % (f, n, d[n][0], d[n][1].replace("(*", "( *").replace("*)", "* )").replace('"', "'")))
        rows.append('("%s", ("%s", "%s"))' % (n, fnm, test))
    out.append("Definition HI_macros : list (string * (string * string)) :=\n  [%s]." % ";\n   ".join(rows))
    out.append("")
    callees = set(spec["io_callees"]) | set(names)
    allf = []
    for f, fn in spec["functions"]:
        sites = scan_function(H, repo, f, fn, callees)
        out.append("(* %s: %s *)" % (f, fn))
        for name, cls, ctx in sites:
            out.append("(*   %-10s %s   <<%s>> *)" % (cls, name, ctx.replace("(*", "( *").replace("*)", "* )").replace('"', "'")))
        out.append("Definition sites_%s : list (string * cls) :=\n  [%s]." % (
            fn, "; ".join('("%s", %s)' % (n, c) for n, c, _ in sites)))
        allf.append(fn)
    out.append("")
    for f, fn, rx, name in spec.get("facts", []):
        body = H.func_body(H.raw(repo, f), fn)
        out.append("(* %s: %s contains /%s/ ? *)" % (f, fn, rx.replace("(*", "( *").replace("*)", "* )").replace('"', "'")))
        out.append("Definition fact_%s : bool := %s." % (name, "true" if re.search(rx, body) else "false"))
    if spec.get("conventions"):
        rows = conventions(H, repo, spec["conventions"]["files"], spec["conventions"]["callees"])
        out.append("(* failure-value conventions: (caller, callee, what the callee returns on failure, what the caller tests) *)")
        out.append("Definition conventions : list (string * string * string * string) :=\n  [%s]." % ";\n   ".join(
            '("%s", "%s", "%s", "%s")' % r for r in rows))
    out.append("Definition anchored : list (string * list (string * cls)) :=\n  [%s]." % ";\n   ".join(
        '("%s", sites_%s)' % (fn, fn) for fn in allf))
    return out
