"""C14 translator plugin: the access-mode guards of the anchored functions, taken from the preprocessed text of the
*current* sources and translated expression-by-expression into Gallina (Z-valued; a C truth value is 0/1).

spec["guards"] = [ [file, function, anchor-regex, gallina-name, [params], {c-subexpr: identifier, ...}], ... ]
  The anchor regex is searched in the body of the function (after gcc -E, i.e. DFACC_WRITE is 2, HGOTO_ERROR is
  expanded to its HEpush/goto form) and must match exactly once; its group 1 is the C expression that is translated.
  Deleting a check makes its anchor vanish (the generated file then fails to build, and every proof that imports it
  with it); weakening it changes the generated definition and breaks the lemma that characterises it."""
import re


def emit(repo, spec, H):
    out = []
    for f, fn, anchor, name, params, subst in spec.get("guards", []):
        body = H.func_body(H.src(repo, f), fn)
        ms = list(re.finditer(anchor, body))
        if len(ms) != 1:
            raise ValueError("%s:%s: anchor %r matched %d times (need exactly 1)" % (f, fn, anchor, len(ms)))
        cexpr = " ".join(ms[0].group(1).split())
        e = cexpr
        for k in sorted(subst, key=len, reverse=True):
            e = e.replace(k, " %s " % subst[k])
        e = re.sub(r"'(.)'", lambda m: str(ord(m.group(1))), e)
        e = e.replace("((void *)0)", "0")
        env = {}
        env.update(H.all_enums(H.src(repo, f)))
        env.update(H.defines(repo, f))
        term = H.P(e, params, env).ternary_all()
        out.append("(* %s: %s: %s *)" % (f, fn, cexpr.replace("*)", "* )").replace("(*", "( *")))
        out.append("Definition %s %s : Z := %s." % (name, " ".join("(%s : Z)" % p for p in params), term))
    return out
