"""C14 translator plugin: the access-mode guards of the anchored functions, taken from the preprocessed text of the
*current* sources and translated expression-by-expression into Gallina (Z-valued; a C truth value is 0/1).

spec["guards"] = [ [file, function, anchor-regex, gallina-name, [params], {c-subexpr: identifier, ...}], ... ]
  The anchor regex is searched in the body of the function (after gcc -E, i.e. DFACC_WRITE is 2, HGOTO_ERROR is
  expanded to its HEpush/goto form) and must match exactly once; its group 1 is the C expression that is translated.
  Deleting a check makes its anchor vanish (the generated file then fails to build, and every proof that imports it
  with it); weakening it changes the generated definition and breaks the lemma that characterises it.

spec["structure"] = [ ["depth", file, function, anchor, name],
                      ["count_after", file, function, anchor, pattern, "block"|"function", name],
                      ["count_before", file, function, anchor, pattern, name],
                      ["path_condition", file, function, anchor, name, [params], {subst}] ]
  Position of a guard / an update relative to the control structure: its brace depth (a guard that has been moved
  into a branch no longer has depth 0), what follows it (a re-assignment of the guarded handle, a failing exit after a
  permission upgrade) and what precedes it (effects before the guard).  The lemmas state the values a DOMINATING guard
  has; a guard that no longer dominates a path changes them."""
import re


def emit(repo, spec, H):
    out = []
    for f, fn, anchor, name, params, subst in spec.get("guards", []):
        body = H.func_body(H.src(repo, f), fn)
        ms = list(re.finditer(anchor, body))
        if len(ms) != 1:
            raise ValueError("%s:%s: anchor %r matched %d times (need exactly 1)" % (f, fn, anchor, len(ms)))
        cexpr = " ".join(ms[0].group(1).split())
        e = cexpr
        for k in sorted(subst, key=len, reverse=True):
            e = e.replace(k, " %s " % subst[k])
        e = re.sub(r"'(.)'", lambda m: str(ord(m.group(1))), e)
        e = e.replace("((void *)0)", "0")
        env = {}
        env.update(H.all_enums(H.src(repo, f)))
        env.update(H.defines(repo, f))
        term = H.P(e, params, env).ternary_all()
        out.append("(* %s: %s: %s *)" % (f, fn, cexpr.replace("*)", "* )").replace("(*", "( *")))
        out.append("Definition %s %s : Z := %s." % (name, " ".join("(%s : Z)" % p for p in params), term))
    # ---- structure: WHERE a guard (or an update) stands relative to the branches and the effects of its function
    def locate(f, fn, anchor):
        body = H.func_body(H.src(repo, f), fn)
        ms = list(re.finditer(anchor, body))
        if len(ms) != 1:
            raise ValueError("%s:%s: structure anchor %r matched %d times (need exactly 1)" % (f, fn, anchor, len(ms)))
        return body, ms[0]

    def depth_at(body, pos):
        """number of CONDITIONAL blocks (opened by if/else/for/while/do/switch) that enclose position pos; bare scope
        blocks '{ decl; ... }' are executed unconditionally and do not count"""
        stack = []
        for i, ch in enumerate(body[:pos]):
            if ch == "{":
                before = body[:i].rstrip()
                cond = before.endswith(")") or re.search(r"\b(else|do)$", before) is not None
                stack.append(1 if cond else 0)
            elif ch == "}" and stack:
                stack.pop()
        return sum(stack)

    def block_end(body, pos):
        d = 0
        for i in range(pos, len(body)):
            if body[i] == "{":
                d += 1
            elif body[i] == "}":
                if d == 0:
                    return i
                d -= 1
        return len(body)

    for ent in spec.get("structure", []):
        kind = ent[0]
        if kind == "depth":
            _, f, fn, anchor, name = ent
            body, m = locate(f, fn, anchor)
            out.append("(* %s: %s: number of conditional blocks enclosing the statement matching %s (0 = executed on every path that reaches it from the function entry) *)" % (f, fn, anchor.replace("*)", "* )").replace("(*", "( *")))
            out.append("Definition %s : Z := %d." % (name, depth_at(body, m.start())))
        elif kind == "count_after":
            _, f, fn, anchor, pattern, scope, name = ent
            body, m = locate(f, fn, anchor)
            end = block_end(body, m.end()) if scope == "block" else len(body)
            n = len(re.findall(pattern, body[m.end():end]))
            out.append("(* %s: %s: occurrences of /%s/ after the anchored statement, to the end of its %s *)" % (f, fn, pattern.replace("*)", "* )").replace("(*", "( *"), scope))
            out.append("Definition %s : Z := %d." % (name, n))
        elif kind == "count_before":
            _, f, fn, anchor, pattern, name = ent
            body, m = locate(f, fn, anchor)
            n = len(re.findall(pattern, body[:m.start()]))
            out.append("(* %s: %s: occurrences of /%s/ before the anchored statement *)" % (f, fn, pattern.replace("*)", "* )").replace("(*", "( *")))
            out.append("Definition %s : Z := %d." % (name, n))
        elif kind == "path_condition":
            # conjunction of the conditions of all if-blocks that enclose the anchored statement: the condition under
            # which the statement is reached from the function entry (tolerant of nesting vs. one flattened test)
            _, f, fn, anchor, name, params, subst = ent
            body, m = locate(f, fn, anchor)
            stack = []
            for i, ch in enumerate(body[:m.start()]):
                if ch == "{":
                    j = max(body.rfind(";", 0, i), body.rfind("{", 0, i), body.rfind("}", 0, i))
                    stack.append(" ".join(body[j + 1:i].split()))
                elif ch == "}" and stack:
                    stack.pop()
            conds = []
            for hd in stack:
                if not hd:
                    continue            # bare scope block
                mm = re.fullmatch(r"if \((.*)\)", hd)
                if not mm:
                    raise ValueError("%s:%s: enclosing block %r of %r is not a plain if-block" % (f, fn, hd, anchor))
                conds.append("(" + mm.group(1) + ")")
            cexpr = " && ".join(conds) if conds else "1"
            e = cexpr
            for k in sorted(subst, key=len, reverse=True):
                e = e.replace(k, " %s " % subst[k])
            e = re.sub(r"'(.)'", lambda q: str(ord(q.group(1))), e)
            env = {}
            env.update(H.all_enums(H.src(repo, f)))
            env.update(H.defines(repo, f))
            term = H.P(e, params, env).ternary_all()
            out.append("(* %s: %s: path condition of the statement matching %s: %s *)" % (f, fn, anchor.replace("*)", "* )").replace("(*", "( *"), cexpr.replace("*)", "* )").replace("(*", "( *")))
            out.append("Definition %s %s : Z := %s." % (name, " ".join("(%s : Z)" % p_ for p_ in params), term))
        elif kind == "switch_var":
            # value a switch gives to one variable per case label (fall-through followed as the C code does), and in
            # the default branch:  Definition name : list (Z * Z)  and  Definition name_default : Z
            _, f, fn, nth, var, name = ent
            env = {}
            env.update(H.all_enums(H.src(repo, f)))
            env.update(H.defines(repo, f))
            rows = H.switch_table(H.src(repo, f), fn, env, nth)
            items, dflt = [], None
            for labels, assigns, ret in rows:
                if var not in assigns:
                    continue
                v = H.ceval(assigns[var], env)
                for lab in labels:
                    if lab == "default":
                        dflt = v
                    else:
                        items.append("(%s, %s)" % (H.zlit(lab), H.zlit(v)))
            if dflt is None:
                raise ValueError("%s:%s: switch #%d gives %s no value in its default branch" % (f, fn, nth, var))
            out.append("(* %s: %s: switch #%d, value of %s per case label (after preprocessing, fall-through followed) *)" % (f, fn, nth, var))
            out.append("Definition %s : list (Z * Z) := [%s]." % (name, "; ".join(items)))
            out.append("Definition %s_default : Z := %s." % (name, H.zlit(dflt)))
        elif kind == "flag_writers":
            # every function of a file whose name matches a pattern and that assigns to handle->flags: how many such
            # statements it has.  Definition <prefix>_<fn> : Z := count (only functions with count > 0), plus their number
            _, f, fnpat, stmt, prefix = ent
            txt = H.src(repo, f)
            fns = sorted(set(re.findall(r"(?m)^(%s)\s*\(" % fnpat, txt)))
            n = 0
            for fn in fns:
                try:
                    body = H.func_body(txt, fn)
                except ValueError:
                    continue
                c = len(re.findall(stmt, body))
                if c:
                    n += 1
                    out.append("Definition %s_%s : Z := %d." % (prefix, fn.lower(), c))
            out.append("(* %s: functions matching %s with statements /%s/ *)" % (f, fnpat, stmt.replace("*)", "* )")))
            out.append("Definition %s_count : Z := %d." % (prefix, n))
        elif kind == "counts_in":
            # number of statements matching a pattern in EACH of the listed functions (0 included):
            # Definition <prefix>_<fn> : Z := count
            _, f, fns, stmt, prefix = ent
            txt = H.src(repo, f)
            out.append("(* %s: statements /%s/ per function *)" % (f, stmt.replace("*)", "* )").replace("(*", "( *")))
            for fn in fns:
                body = H.func_body(txt, fn)
                out.append("Definition %s_%s : Z := %d." % (prefix, fn.lower(), len(re.findall(stmt, body))))
        else:
            raise ValueError("unknown structure kind %r" % kind)
    return out
