"""C10 translator plugin: string literals and small conditions taken from function bodies of the *current* sources.

spec["literals"] = [ [file, function, anchor-regex, gallina-name], ... ]
  the anchor regex must match exactly once inside the (preprocessed) function body; group 1 is a C string literal
  (with its quotes); emitted as  Definition <name> : list Z  (the bytes of the string).
spec["present"]  = [ [file, function, anchor-regex, gallina-name], ... ]
  emits  Definition <name> : bool := true  when the regex matches exactly once, else the translator fails (so a
  proof depending on the shape of that statement breaks when the statement is edited away).
"""
import re


def emit(repo, spec, H):
    out = []
    for f, fn, anchor, name in spec.get("literals", []):
        body = H.func_body(H.src(repo, f), fn)
        ms = list(re.finditer(anchor, body, flags=re.S))
        if len(ms) != 1:
            raise ValueError("%s:%s: anchor %r matched %d times (need exactly 1)" % (f, fn, anchor, len(ms)))
        bs = H.c_string_bytes(ms[0].group(1))
        out.append("(* %s: %s: %s *)" % (f, fn, ms[0].group(1).replace("*)", "* )")))
        out.append("Definition %s : list Z := [%s]." % (name, "; ".join(map(str, bs))))
    for f, fn, anchor, name in spec.get("present", []):
        body = H.func_body(H.src(repo, f), fn)
        ms = list(re.finditer(anchor, body, flags=re.S))
        if len(ms) != 1:
            raise ValueError("%s:%s: statement %r found %d times (need exactly 1)" % (f, fn, anchor, len(ms)))
        out.append("(* %s: %s: %s *)" % (f, fn, " ".join(ms[0].group(0).split()).replace("*)", "* )").replace("(*", "( *")))
        out.append("Definition %s : bool := true." % name)
    return out
