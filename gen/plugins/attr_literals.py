"""C10 translator plugin: string literals and small conditions taken from function bodies of the *current* sources.

spec["literals"] = [ [file, function, anchor-regex, gallina-name], ... ]
  the anchor regex must match exactly once inside the (preprocessed) function body; group 1 is a C string literal
  (with its quotes); emitted as  Definition <name> : list Z  (the bytes of the string).
spec["present"]  = [ [file, function, anchor-regex, gallina-name], ... ]
  emits  Definition <name> : bool := true  when the regex matches exactly once, else the translator fails (so a
  proof depending on the shape of that statement breaks when the statement is edited away).
spec["call_args"] = [ [file, function, anchor-regex with two groups, gallina-name, {c-text: int}], ... ]
  the two groups are mapped through the dictionary (whitespace removed); emits <name>_L and <name>_R : Z.
spec["via"]       = [ [file, function, assign-regex (groups: variable, string literal), use-regex (groups: key, variable),
                       {key: gallina-name}], ... ]
  which string literal reaches which use through a local variable: emits <gallina-name> : list Z for every key.
spec["one_of"]    = [ [file, function, anchor-regex with one group, gallina-name, {c-text: int}], ... ]   (raw text)
  the anchor must match exactly once; the group (whitespace removed) is mapped through the dictionary -> <name> : Z.
spec["count"]     = [ [file, function, regex, gallina-name], ... ]   (raw text)
  <name> : Z := number of matches inside the function body (0 is allowed: the definition then says so).
"""
import re


def emit(repo, spec, H):
    out = []
    for f, fn, anchor, name in spec.get("literals", []):
        body = H.func_body(H.src(repo, f), fn)
        ms = list(re.finditer(anchor, body, flags=re.S))
        if len(ms) != 1:
            raise ValueError("%s:%s: anchor %r matched %d times (need exactly 1)" % (f, fn, anchor, len(ms)))
        bs = H.c_string_bytes(ms[0].group(1))
        out.append("(* %s: %s: %s *)" % (f, fn, ms[0].group(1).replace("*)", "* )")))
        out.append("Definition %s : list Z := [%s]." % (name, "; ".join(map(str, bs))))
    for f, fn, anchor, name in spec.get("present", []):
        body = H.func_body(H.src(repo, f), fn)
        ms = list(re.finditer(anchor, body, flags=re.S))
        if len(ms) != 1:
            raise ValueError("%s:%s: statement %r found %d times (need exactly 1)" % (f, fn, anchor, len(ms)))
        out.append("(* %s: %s: %s *)" % (f, fn, " ".join(ms[0].group(0).split()).replace("*)", "* )").replace("(*", "( *")))
        out.append("Definition %s : bool := true." % name)
    for f, fn, anchor, name, mapping in spec.get("call_args", []):
        body = H.func_body(H.raw(repo, f), fn)      # raw text: macro calls such as NC_compare_string(..) are still visible
        ms = list(re.finditer(anchor, body, flags=re.S))
        if len(ms) != 1:
            raise ValueError("%s:%s: anchor %r matched %d times (need exactly 1)" % (f, fn, anchor, len(ms)))
        vals = []
        for g in (1, 2):
            t = "".join(ms[0].group(g).split())
            if t not in mapping:
                raise ValueError("%s:%s: unexpected argument %r" % (f, fn, t))
            vals.append(mapping[t])
        out.append("(* %s: %s: %s *)" % (f, fn, " ".join(ms[0].group(0).split()).replace("*)", "* )").replace("(*", "( *")))
        out.append("Definition %s_L : Z := %d." % (name, vals[0]))
        out.append("Definition %s_R : Z := %d." % (name, vals[1]))
    for f, fn, anchor, name, mapping in spec.get("one_of", []):
        body = H.func_body(H.raw(repo, f), fn)
        ms = list(re.finditer(anchor, body, flags=re.S))
        if len(ms) != 1:
            raise ValueError("%s:%s: anchor %r matched %d times (need exactly 1)" % (f, fn, anchor, len(ms)))
        t = "".join(ms[0].group(1).split())
        if t not in mapping:
            raise ValueError("%s:%s: unexpected text %r" % (f, fn, t))
        out.append("(* %s: %s: %s *)" % (f, fn, " ".join(ms[0].group(0).split()).replace("*)", "* )").replace("(*", "( *")))
        out.append("Definition %s : Z := %d." % (name, mapping[t]))
    for f, fn, rx, name in spec.get("count", []):
        body = H.func_body(H.raw(repo, f), fn)
        n = len(re.findall(rx, body, flags=re.S))
        out.append("(* %s: %s: occurrences of /%s/ *)" % (f, fn, rx.replace("*)", "* )").replace("(*", "( *")))
        out.append("Definition %s : Z := %d." % (name, n))
    for f, fn, assign, use, keys in spec.get("via", []):
        body = H.func_body(H.src(repo, f), fn)
        var2lit = {}
        for m in re.finditer(assign, body, flags=re.S):
            var2lit[m.group(1)] = m.group(2)
        seen = {}
        for m in re.finditer(use, body, flags=re.S):
            if m.group(1) in seen:
                raise ValueError("%s:%s: key %s used twice" % (f, fn, m.group(1)))
            seen[m.group(1)] = m.group(2)
        for key, name in keys.items():
            if key not in seen or seen[key] not in var2lit:
                raise ValueError("%s:%s: cannot trace %s to a string literal" % (f, fn, key))
            lit = var2lit[seen[key]]
            out.append("(* %s: %s: %s <- %s <- %s *)" % (f, fn, key, seen[key], lit))
            out.append("Definition %s : list Z := [%s]." % (name, "; ".join(map(str, H.c_string_bytes(lit)))))
    return out
