"""C15 translator plugin: the on-disk field sequences of the older storage conventions, read off the *current*
sources (comments stripped, macros not expanded) and emitted as Gallina data that the record models interpret.

spec["codecs"] = [ {"file", "func", "name", "split": bool, "segment": int, "take": int|null, "map": [[regex, canon], ...]}, ... ]
    The INT16/UINT16/INT32/UINT32 ENCODE/DECODE macro calls of <func>, in source order.  With "split" the sequence is
    cut at every reset of the buffer pointer ("p = buf;") and segment <segment> is taken; "take" keeps a prefix.
    A DECODE into a scratch variable is followed to the assignment that consumes it.  Every C operand must match
    one of the regexes (else the translator fails loudly).
      ->  Definition <name> : list (Z * bool * string) := [(bytes, signed, canon); ...].
spec["ntstrings"] = [ [file, func, name], ... ]    the four "ntstring[k] = expr;" assignments (first of each k)
      ->  Definition <name> : list string.
spec["groups"] = [ [file, func, name], ... ]       the tags of the DFdiput(GroupID, tag, ref) calls in source order
      ->  Definition <name> : list string.
spec["conds_text"] = [ [file, func, anchor-regex, name], ... ]   one C condition (group 1), as normalised text
      ->  Definition <name> : string.
"""
import re

MAC = re.compile(r"\b(U?)INT(16|32)(EN|DE)CODE\s*\(\s*(\w+)\s*,\s*([^;]+?)\)\s*;")


def _q(s):
    return '"%s"%%string' % " ".join(s.split()).replace('"', "'")


def emit(repo, spec, H):
    out = ["From Coq Require Import String."]
    for c in spec.get("codecs", []):
        body = H.func_body(H.raw(repo, c["file"]), c["func"])
        items = []   # (pos, kind, payload)
        for m in MAC.finditer(body):
            items.append((m.start(), "mac", m))
        if c.get("split"):
            for m in re.finditer(r"(?<![\w>.])(?:p|bufp)\s*=\s*\w+\s*;", body):
                items.append((m.start(), "reset", None))
        items.sort(key=lambda x: x[0])
        segs, cur = [], []
        for pos, kind, m in items:
            if kind == "reset":
                segs.append(cur)
                cur = []
                continue
            signed = m.group(1) == ""
            width = int(m.group(2)) // 8
            arg = " ".join(m.group(5).split())
            if m.group(3) == "DE" and re.fullmatch(r"\w+", arg):
                # scratch variable: follow it to the assignment that consumes it
                tail = body[m.end():m.end() + 200]
                a = re.match(r"\s*([^;=]+?)\s*=\s*(?:\(\s*[A-Za-z0-9_ ]+\s*\))?\s*%s\s*;" % re.escape(arg), tail)
                if a and not MAC.match(tail.lstrip()):
                    arg = " ".join(a.group(1).split())
            cur.append((width, signed, arg))
        segs.append(cur)
        segs = [s for s in segs if s]
        seq = segs[c.get("segment", 0)] if c.get("split") else [x for s in segs for x in s]
        if c.get("take"):
            seq = seq[:c["take"]]
        if not seq:
            raise ValueError("%s:%s: no ENCODE/DECODE sequence found" % (c["file"], c["func"]))
        fields = []
        for width, signed, arg in seq:
            for rx, canon in c["map"]:
                if re.search(rx, arg):
                    fields.append((width, signed, canon))
                    break
            else:
                raise ValueError("%s:%s: operand %r matches no field name" % (c["file"], c["func"], arg))
        out.append("(* %s: %s: %s *)" % (c["file"], c["func"], "; ".join(a for _, _, a in seq).replace("*)", "* )")))
        out.append("Definition %s : list (Z * bool * string) :=\n  [%s]." % (
            c["name"], "; ".join('(%d, %s, %s)' % (w, "true" if s else "false", _q(n)) for w, s, n in fields)))
    for f, fn, name in spec.get("ntstrings", []):
        body = H.func_body(H.raw(repo, f), fn)
        vals = {}
        for m in re.finditer(r"\bntstring\s*\[\s*(\d)\s*\]\s*=\s*([^;]+);", body):
            vals.setdefault(int(m.group(1)), m.group(2))
        if sorted(vals) != [0, 1, 2, 3]:
            raise ValueError("%s:%s: ntstring[0..3] assignments not found" % (f, fn))
        out.append("(* %s: %s: number-type record *)" % (f, fn))
        out.append("Definition %s : list string := [%s]." % (name, "; ".join(_q(vals[k]) for k in range(4))))
    for f, fn, name in spec.get("groups", []):
        body = H.func_body(H.raw(repo, f), fn)
        tags = [m.group(1) for m in re.finditer(r"\bDFdiput\s*\(\s*GroupID\s*,\s*([^,]+),", body)]
        if not tags:
            raise ValueError("%s:%s: no DFdiput calls" % (f, fn))
        out.append("(* %s: %s: members put into the group, in source order *)" % (f, fn))
        out.append("Definition %s : list string := [%s]." % (name, "; ".join(_q(t) for t in tags)))
    for f, fn, anchor, name in spec.get("conds_text", []):
        body = H.func_body(H.raw(repo, f), fn)
        ms = list(re.finditer(anchor, body))
        if len(ms) != 1:
            raise ValueError("%s:%s: anchor %r matched %d times (need exactly 1)" % (f, fn, anchor, len(ms)))
        out.append("(* %s: %s *)" % (f, fn))
        out.append("Definition %s : string := %s." % (name, _q(ms[0].group(1))))
    # is a statement present in a block?  spec["flags"] = [[file, func, block-anchor-regex (group 1 = the block), statement-regex, name], ...]
    #   -> Definition <name> : bool := true | false.
    for f, fn, anchor, stmt, name in spec.get("flags", []):
        body = H.func_body(H.raw(repo, f), fn)
        ms = list(re.finditer(anchor, body))
        if len(ms) != 1:
            raise ValueError("%s:%s: anchor %r matched %d times (need exactly 1)" % (f, fn, anchor, len(ms)))
        block = " ".join(ms[0].group(1).split())
        out.append("(* %s: %s: block { %s } contains /%s/ ? *)" % (f, fn, block.replace("*)", "* )").replace("(*", "( *"), stmt))
        out.append("Definition %s : bool := %s." % (name, "true" if re.search(stmt, block) else "false"))
    # C conditions translated expression by expression into Gallina (Z-valued, C truth value 0/1), taken from the
    # preprocessed function body: spec["conds"] = [[file, func, anchor-regex (group 1 = the C expression), name,
    # [params], {c-subexpr: identifier}], ...]
    for f, fn, anchor, name, params, subst in spec.get("conds", []):
        body = H.func_body(H.src(repo, f), fn)
        ms = list(re.finditer(anchor, body))
        if len(ms) != 1:
            raise ValueError("%s:%s: anchor %r matched %d times (need exactly 1)" % (f, fn, anchor, len(ms)))
        cexpr = " ".join(ms[0].group(1).split())
        e = cexpr
        for k in sorted(subst, key=len, reverse=True):
            e = e.replace(k, " %s " % subst[k])
        e = re.sub(r"\(\s*(?:unsigned\s+)?(?:long|int32|int|uint32|size_t)\s*\)", " ", e)
        env = {}
        env.update(H.all_enums(H.src(repo, f)))
        env.update(H.defines(repo, f))
        term = H.P(e, params, env).ternary_all()
        out.append("(* %s: %s: %s *)" % (f, fn, cexpr.replace("*)", "* )").replace("(*", "( *")))
        out.append("Definition %s %s : Z := %s." % (name, " ".join("(%s : Z)" % p_ for p_ in params), term))
    return out
