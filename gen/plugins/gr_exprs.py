"""Translator plugin for C09: address arithmetic of hdf/src/mfgr.c -> Gallina (nat) definitions.

Regenerated on every run from the preprocessed source (gcc -E), so an edit of any of these expressions
changes coq/gen/Gen_GR.v and breaks the proofs that unfold them:

  GRIil_convert : per-interlace initial component pointer offsets, per-pixel and per-line increments
                  (both switch statements), the loop bounds of the copy nest, the memcpy length, the
                  line wrap-around condition and the length of the trivial (same interlace) memcpy;
  GRwriteimage  : img_offset, fill_lo_size / fill_hi_size (and their guards), fill_line_size, pix_len,
                  fill_stride_size, stride_add, the two img_offset increments, and the start row of
                  every "lines above the block" loop (one per first-write branch);
  GRreadimage   : img_offset, pix_len, stride_add, the two img_offset increments.

Only +, -, * over named int variables are accepted (casts are dropped: widths are not modelled);
anything else raises, which leaves a Gen file that breaks the proofs (loud failure)."""
import re

F = "hdf/src/mfgr.c"
CASTS = re.compile(r"\(\s*(?:const\s+)?(?:unsigned\s+)?(?:int32|uint32|size_t|int|unsigned|uint8|long)\s*\*?\s*\)")


def clean(e, ren):
    e = " ".join(e.split())
    for a, b in ren:
        e = e.replace(a, b)
    e = CASTS.sub(" ", e)
    return " ".join(e.split())


def nat_expr(e, ren, params):
    e = clean(e, ren)
    if not re.fullmatch(r"[A-Za-z0-9_\s()+\-*]+", e):
        raise ValueError("gr_exprs: unsupported expression %r" % e)
    for idn in re.findall(r"[A-Za-z_][A-Za-z0-9_]*", e):
        if idn not in params:
            raise ValueError("gr_exprs: unknown identifier %s in %r" % (idn, e))
    return e


def bool_expr(e, ren, params):
    """a > b, a < b, a == b joined by || (no nesting)."""
    e = clean(e, ren)
    outs = []
    for part in e.split("||"):
        part = part.strip()
        while part.startswith("(") and part.endswith(")") and part.count("(") == part.count(")") and \
                _balanced(part[1:-1]):
            part = part[1:-1].strip()
        m = re.fullmatch(r"(.+?)\s*(==|<|>)\s*(.+)", part)
        if not m:
            raise ValueError("gr_exprs: unsupported condition %r" % part)
        a, op, b = nat_expr(m.group(1), [], params), m.group(2), nat_expr(m.group(3), [], params)
        if op == "==":
            outs.append("Nat.eqb (%s) (%s)" % (a, b))
        elif op == "<":
            outs.append("Nat.ltb (%s) (%s)" % (a, b))
        else:
            outs.append("Nat.ltb (%s) (%s)" % (b, a))
    r = outs[0]
    for o in outs[1:]:
        r = "orb (%s) (%s)" % (r, o)
    return r


def _balanced(s):
    d = 0
    for ch in s:
        if ch == "(":
            d += 1
        elif ch == ")":
            d -= 1
            if d < 0:
                return False
    return d == 0


def switch_blocks(body, nth):
    ms = list(re.finditer(r"\bswitch\s*\(", body))
    if len(ms) <= nth:
        raise ValueError("gr_exprs: switch #%d not found" % nth)
    i = body.index("{", ms[nth].end())
    j, depth = i + 1, 1
    while depth:
        depth += {"{": 1, "}": -1}.get(body[j], 0)
        j += 1
    sw = body[i + 1:j - 1]
    blocks = {}
    for m in re.finditer(r"case\s+([^:]+?)\s*:(.*?)break\s*;", sw, flags=re.S):
        blocks[m.group(1).strip()] = m.group(2)
    return blocks


def assigns(body, lhs):
    out = []
    for m in re.finditer(r"(?<![A-Za-z0-9_>.\]])%s\s*(\+?=)\s*([^;]+);" % re.escape(lhs), body):
        rhs = m.group(2)
        if "=" in rhs or "," in rhs:
            continue
        out.append((m.group(1), rhs))
    return out


def emit(repo, spec, H):
    txt = H.src(repo, F)
    L = ["", "(* ---- plugin gr_exprs.py: address arithmetic of %s (nat; casts dropped) ---- *)" % F]

    def defn(name, params, body, ty="nat"):
        L.append("Definition %s %s : %s := (%s)%%nat." % (name, " ".join("(%s : nat)" % p for p in params), ty, body))

    # ---------------- GRIil_convert ----------------
    body = H.func_body(txt, "GRIil_convert")
    ilp = ["i", "comp_size", "pixel_size", "ncomp", "dimX", "dimY"]
    ren = [("dims[0]", "dimX"), ("dims[1]", "dimY")]
    for nth, side, buf in ((0, "in", "inbuf"), (1, "out", "outbuf")):
        blocks = switch_blocks(body, nth)
        if sorted(blocks) != ["0", "1", "2"]:
            raise ValueError("gr_exprs: GRIil_convert switch #%d has cases %s" % (nth, sorted(blocks)))
        for var, nm in (("%s_comp_ptr" % side, "comp_ptr"), ("%s_pixel_add" % side, "pixel_add"),
                        ("%s_line_add" % side, "line_add")):
            arms = []
            for lab in ("0", "1", "2"):
                m = re.search(r"%s\s*\[\s*i\s*\]\s*=\s*([^;]+);" % var, blocks[lab])
                if not m:
                    raise ValueError("gr_exprs: %s[i] not assigned in case %s" % (var, lab))
                rhs = " ".join(m.group(1).split())
                if nm == "comp_ptr":
                    mm = re.fullmatch(r"\(\s*\(\s*(?:const\s+)?uint8\s*\*\s*\)\s*%s\s*\)\s*\+\s*(.+)" % buf, rhs)
                    if not mm:
                        raise ValueError("gr_exprs: unexpected pointer initialiser %r" % rhs)
                    rhs = mm.group(1)
                arms.append("| %s => %s" % (lab, nat_expr(rhs, ren, ilp)))
            defn("ilc_%s_%s" % (side, nm), ["il"] + ilp, "match il with %s | _ => 0 end" % " ".join(arms))
    # loop nest
    loops = re.findall(r"for\s*\(\s*([ijk])\s*=\s*0\s*;\s*\1\s*<\s*([^;]+?)\s*;\s*\1\+\+\s*\)", body)
    push = body[body.index("now just push pixels") if "now just push pixels" in body else body.rindex("switch"):]
    nest = re.findall(r"for\s*\(\s*([ijk])\s*=\s*0\s*;\s*\1\s*<\s*([^;]+?)\s*;\s*\1\+\+\s*\)", push)
    # after preprocessing comments are gone: take the last four for-loops of the function (i, j, k, k)
    if len(loops) < 4 or [v for v, _ in loops[-4:]] != ["i", "j", "k", "k"]:
        raise ValueError("gr_exprs: unexpected loop nest in GRIil_convert: %s" % loops[-4:])
    nestp = ["ncomp", "dimX", "dimY"]
    defn("ilc_loop_outer", nestp, nat_expr(loops[-4][1], ren, nestp))
    defn("ilc_loop_mid", nestp, nat_expr(loops[-3][1], ren, nestp))
    defn("ilc_loop_inner", nestp, nat_expr(loops[-2][1], ren, nestp))
    defn("ilc_loop_wrap", nestp, nat_expr(loops[-1][1], ren, nestp))
    m = re.search(r"memcpy\s*\(\s*out_comp_ptr\s*\[\s*k\s*\]\s*,\s*in_comp_ptr\s*\[\s*k\s*\]\s*,\s*([^)]+)\)", body)
    if not m:
        raise ValueError("gr_exprs: component memcpy not found")
    defn("ilc_copy_len", ["comp_size", "pixel_size"], nat_expr(m.group(1), ren, ["comp_size", "pixel_size"]))
    for side in ("out", "in"):
        if not re.search(r"%s_comp_ptr\s*\[\s*k\s*\]\s*=\s*\(\s*\(\s*(?:const\s+)?uint8\s*\*\s*\)\s*%s_comp_ptr\s*\[\s*k\s*\]\s*\)"
                         r"\s*\+\s*%s_pixel_add\s*\[\s*k\s*\]\s*;" % (side, side, side), body):
            raise ValueError("gr_exprs: %s pointer is not advanced by %s_pixel_add[k]" % (side, side))
        if not re.search(r"%s_comp_ptr\s*\[\s*k\s*\]\s*=\s*\(\s*\(\s*(?:const\s+)?uint8\s*\*\s*\)\s*%s_comp_ptr\s*\[\s*k\s*\]\s*\)"
                         r"\s*\+\s*%s_line_add\s*\[\s*k\s*\]\s*;" % (side, side, side), body):
            raise ValueError("gr_exprs: %s pointer is not advanced by %s_line_add[k]" % (side, side))
    m = re.search(r"if\s*\(([^{};]*?)\)\s*for\s*\(\s*k\s*=\s*0", body)
    if not m:
        raise ValueError("gr_exprs: wrap-around condition not found")
    L.append("Definition ilc_wrap_cond (inil outil : nat) : bool := (%s)%%nat." % bool_expr(m.group(1), [], ["inil", "outil"]))
    m = re.search(r"if\s*\(([^{};]*?)\)\s*memcpy\s*\(\s*outbuf\s*,\s*inbuf\s*,\s*([^;]+)\)\s*;", body)
    if not m:
        raise ValueError("gr_exprs: trivial-conversion memcpy not found")
    L.append("Definition ilc_same_cond (inil outil : nat) : bool := (%s)%%nat." % bool_expr(m.group(1), [], ["inil", "outil"]))
    defn("ilc_same_len", ["pixel_size", "dimX", "dimY"], nat_expr(m.group(2), ren, ["pixel_size", "dimX", "dimY"]))

    # ---------------- GRwriteimage / GRreadimage ----------------
    gp = ["xdim", "ydim", "psz", "sx", "sy", "tx", "ty", "cx", "cy"]
    gren = [("ri_ptr->img_dim.xdim", "xdim"), ("ri_ptr->img_dim.ydim", "ydim"), ("pixel_disk_size", "psz"),
            ("start[0]", "sx"), ("start[1]", "sy"), ("stride[0]", "tx"), ("stride[1]", "ty"),
            ("count[0]", "cx"), ("count[1]", "cy")]

    def one(body, lhs, op, which, name):
        xs = [r for o, r in assigns(body, lhs) if o == op]
        xs = [r for r in xs if clean(r, gren) not in ("0", "FALSE", "TRUE", "1")]
        if len(xs) <= which:
            raise ValueError("gr_exprs: assignment #%d to %s (%s) not found" % (which, lhs, op))
        defn(name, gp, nat_expr(xs[which], gren, gp))
        return len(xs)

    wb = H.func_body(txt, "GRwriteimage")
    one(wb, "img_offset", "=", 0, "wr_img_offset")
    one(wb, "fill_lo_size", "=", 0, "wr_fill_lo_size")
    one(wb, "fill_hi_size", "=", 0, "wr_fill_hi_size")
    one(wb, "fill_line_size", "=", 0, "wr_fill_line_size")
    one(wb, "pix_len", "=", 0, "wr_pix_len")
    one(wb, "fill_stride_size", "=", 0, "wr_fill_stride_size")
    one(wb, "stride_add", "=", 0, "wr_stride_add")
    n = one(wb, "img_offset", "+=", 0, "wr_row_add")
    one(wb, "img_offset", "+=", 1, "wr_srow_add")
    if n != 2:
        raise ValueError("gr_exprs: GRwriteimage has %d img_offset increments (2 expected)" % n)
    m = re.search(r"if\s*\(([^{};]*?)\)\s*fill_lo_size\s*=", wb)
    if not m:
        raise ValueError("gr_exprs: guard of fill_lo_size not found")
    L.append("Definition wr_fill_lo_cond %s : bool := (%s)%%nat." % (" ".join("(%s : nat)" % p for p in gp), bool_expr(m.group(1), gren, gp)))
    m = re.search(r"if\s*\(([^{};]*?)\)\s*fill_hi_size\s*=", wb)
    if not m:
        raise ValueError("gr_exprs: guard of fill_hi_size not found")
    L.append("Definition wr_fill_hi_cond %s : bool := (%s)%%nat." % (" ".join("(%s : nat)" % p for p in gp), bool_expr(m.group(1), gren, gp)))
    trail = re.findall(r"for\s*\(\s*i\s*=\s*([^;]*start[^;]*?)\s*;\s*i\s*<\s*([^;]+?)\s*;\s*i\+\+\s*\)", wb)
    for idx, (init, bound) in enumerate(trail):
        defn("wr_trail_from_%d" % idx, gp, nat_expr(init, gren, gp))
        defn("wr_trail_to_%d" % idx, gp, nat_expr(bound, gren, gp))
    defn("wr_trail_loops", [], str(len(trail)))

    rb = H.func_body(txt, "GRreadimage")
    one(rb, "img_offset", "=", 0, "rd_img_offset")
    one(rb, "pix_len", "=", 0, "rd_pix_len")
    one(rb, "stride_add", "=", 0, "rd_stride_add")
    n = one(rb, "img_offset", "+=", 0, "rd_row_add")
    one(rb, "img_offset", "+=", 1, "rd_srow_add")
    if n != 2:
        raise ValueError("gr_exprs: GRreadimage has %d img_offset increments (2 expected)" % n)

    # ---------------- palette geometry of GRreadlut ----------------
    lb = H.func_body(txt, "GRreadlut")
    lren = [("ri_ptr->lut_dim.xdim", "nentries")]
    xs = assigns(lb, "count[0]") and [r for o, r in assigns(lb, "count[0]")]
    ys = [r for o, r in assigns(lb, "count[1]")]
    if not xs or not ys:
        raise ValueError("gr_exprs: GRreadlut count[] assignments not found")
    defn("lut_dimX", ["nentries"], nat_expr(xs[0], lren, ["nentries"]))
    defn("lut_dimY", ["nentries"], nat_expr(ys[0], lren, ["nentries"]))

    # ---------------- number-type record written by GRIupdatemeta, size lookup of DFKNTsize ----------------
    ub = H.func_body(txt, "GRIupdatemeta")
    ub = ub[:ub.index("Hputelement")]           # the image's NT record is the first element written
    env = {}
    nren = [("img_ptr->img_dim.nt", "nt"), ("img_ptr->img_dim.file_nt_subclass", "fsub")]

    def zexpr(e):
        for a, b in nren:
            e = e.replace(a, b)
        return H.P(e, ["nt", "fsub"], env).ternary_all()
    m1 = re.search(r"ntstring\s*\[\s*1\s*\]\s*=\s*([^;]+);", ub)
    m3 = re.findall(r"(?:(else\s+)?if\s*\(([^;{}]*?)\)\s*)?ntstring\s*\[\s*3\s*\]\s*=\s*([^;]+);", ub)
    # expected shape: one unconditional default, then ONE if / else-if chain of conditional overrides
    if not m1 or len(m3) < 2 or m3[0][1] or any(not c for _, c, _ in m3[1:]) or m3[1][0] or \
            any(not e for e, _, _ in m3[2:]):
        raise ValueError("gr_exprs: unexpected number-type record code in GRIupdatemeta: %r" % (m3,))

    def classval(e):
        # a value is an integer expression over (nt, fsub), or the platform subclass DFKgetPNSC(<expr>, <expr>)
        mc = re.fullmatch(r"\s*(?:\(\s*uint8\s*\)\s*)?DFKgetPNSC\s*\((.*),([^,]*)\)\s*", e, re.S)
        if mc:
            return "(dfkgetpnsc %s %s)" % (zexpr(mc.group(1)), zexpr(mc.group(2)))
        return zexpr(e)
    # dfconv.c: DFKgetPNSC (platform number subclass of a type's class on a machine type)
    pb = H.func_body(H.src(repo, "hdf/src/dfconv.c"), "DFKgetPNSC")
    psel = re.search(r"switch\s*\(([^{]*)\)\s*\{", pb)
    prow = H.switch_table(H.src(repo, "hdf/src/dfconv.c"), "DFKgetPNSC", env)
    if not psel or not prow:
        raise ValueError("gr_exprs: switch of DFKgetPNSC not found")
    pn = ["numbertype", "machinetype"]
    chain = "(-1)"
    for labels, _assigns, ret in reversed(prow):
        if "default" in labels:
            continue
        if ret is None:
            raise ValueError("gr_exprs: DFKgetPNSC case without a return")
        cond = "false"
        for l in reversed(labels):
            cond = "orb (Z.eqb sel %s) (%s)" % (H.zlit(l), cond) if cond != "false" else "Z.eqb sel %s" % H.zlit(l)
        chain = "if %s then %s else %s" % (cond, H.P(ret, pn, env).ternary_all(), chain)
    L.append("(* ---- dfconv.c: DFKgetPNSC ---- *)")
    L.append("Definition dfkgetpnsc (numbertype machinetype : Z) : Z := let sel := %s in %s." % (
        H.P(psel.group(1), pn, env).ternary_all(), chain))
    L.append("(* ---- GRIupdatemeta: bytes 1 (type) and 3 (class / subclass) of the image's DFTAG_NT record ---- *)")
    L.append("Definition nt_rec_type (nt fsub : Z) : Z := %s." % zexpr(m1.group(1)))
    body = classval(m3[0][2])
    for _e, c, v in reversed(m3[1:]):
        body = "if Z.eqb %s 0 then %s else %s" % (zexpr(c), body, classval(v))
    L.append("Definition nt_rec_class (nt fsub : Z) : Z := %s." % body)
    cb = H.func_body(H.src(repo, "hdf/src/dfconv.c"), "DFKNTsize")
    ms = re.search(r"switch\s*\(([^{]*)\)\s*\{", cb)
    if not ms:
        raise ValueError("gr_exprs: switch selector of DFKNTsize not found")
    L.append("(* dfconv.c: DFKNTsize switches on this expression *)")
    L.append("Definition dfkntsize_selector (number_type : Z) : Z := %s." % H.P(ms.group(1), ["number_type"], env).ternary_all())

    # ---------------- buffered driver for compressed images selected from a file; empty-image reads ------------
    menv = {}
    menv.update(H.all_enums(txt))
    menv.update(H.defines(repo, F))
    rows = H.switch_table(txt, "GRIisspecial_type", menv, 0)
    rep = [lab for labels, asg, ret in rows for lab in labels
           if lab != "default" and "access_rec->special" in (asg.get("ret_value") or "")]
    L.append("(* GRIisspecial_type: the special-element codes it reports (everything else yields 0) *)")
    L.append("Definition isspecial_reported : list Z := [%s]." % "; ".join(H.zlit(v) for v in rep))
    gb = H.func_body(txt, "GRIget_image_list")
    uses = re.findall(r"GRIisspecial_type\s*\([^;{}]*?\)\s*==\s*([A-Za-z0-9_()x]+)\s*\)\s*\{?\s*new_image->use_buf_drvr\s*=\s*1", gb)
    if len(uses) != 2 or len(set(uses)) != 1:
        raise ValueError("gr_exprs: expected two 'GRIisspecial_type(..) == CODE -> use_buf_drvr = 1' sites, found %r" % (uses,))
    L.append("(* GRIget_image_list (both branches): an image whose data element has this special code is buffered *)")
    L.append("Definition select_buffers_code : Z := %s." % H.zlit(H.ceval(uses[0], menv)))
    L.append("Definition SPECIAL_COMP : Z := %s." % H.zlit(H.ceval("SPECIAL_COMP", menv)))
    L.append("(* GRreadimage: does the no-data branch keep the fill pixel with the image (ri_ptr->fill_value)? *)")
    L.append("Definition rd_nodata_caches_fill : bool := %s." % ("true" if "ri_ptr->fill_value" in rb else "false"))

    # ---------------- old-style run-length coder (hdf/src/dfrle.c) ----------------
    rt = H.src(repo, "hdf/src/dfrle.c")
    eb = H.func_body(rt, "DFCIrle")
    db = H.func_body(rt, "DFCIunrle")

    def grab(body, rx, what):
        m = re.search(rx, body)
        if not m:
            raise ValueError("gr_exprs: dfrle.c: %s not found" % what)
        return str(H.c_int(m.group(1)))
    L.append("(* ---- hdf/src/dfrle.c: limits of DFCIrle / DFCIunrle ---- *)")
    defn("dfrle_run_window", [], grab(eb, r"while\s*\(\s*i\s*&&\s*i\s*\+\s*(\d+)\s*>\s*len\s*&&\s*\*p\s*==\s*\*q\s*\)", "run scan loop"))
    defn("dfrle_min_run", [], grab(eb, r"if\s*\(\s*q\s*-\s*p\s*>\s*(\d+)\s*\)", "run threshold"))
    defn("dfrle_lit_flush", [], grab(eb, r"if\s*\(\s*p\s*-\s*begp\s*>\s*(\d+)\s*\)", "literal flush threshold"))
    defn("dfrle_run_flag", [], grab(eb, r"\(\s*uint8\s*\)\s*\(\s*(\d+)\s*\|\s*\(\s*uint8\s*\)\s*\(\s*q\s*-\s*p\s*\)\s*\)", "run count byte"))
    defn("dfrle_dec_flag", [], grab(db, r"if\s*\(\s*!\s*\(\s*cnt\s*&\s*(\d+)\s*\)\s*\)", "decoder flag test"))
    defn("dfrle_dec_mask", [], grab(db, r"cnt\s*&=\s*(\d+)\s*;", "decoder count mask"))
    return L
