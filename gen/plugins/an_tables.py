"""C11 translator plugin (annotation interfaces).  Everything is taken from the preprocessed text of the *current*
sources (gcc -E), so an edit of mfan.c / dfan.c / hdf_priv.h that changes one of these shapes changes Gen_AN.v and
breaks the proofs that import it; a shape the plugin cannot follow is an error (the generated file then fails).

spec["type_switches"] = [ [file, function, variable, nth-switch], ... ]
    switch over the annotation type (or tag) whose cases assign a constant to <variable> (a leading '*' of an
    out-parameter is ignored)                      ->  Definition <function>_<variable>_switch : list (Z * Z)
spec["cmp_chain"] = [ [file, function, [params]] ]
    body of the shape  if (A) return c1; if (B) return c2; else return c3;   with *(int32 *)p read as p
                                                   ->  Definition <function> (params : Z) : Z
spec["codec16"] = [ [file, encode-macro, decode-macro] ]
    UINT16ENCODE(p, i): the two byte expressions    ->  Definition <enc>_b0 / _b1 (i : Z) : Z
    UINT16DECODE(p, i): i = e0(*p); i |= e1(*p)     ->  Definition <dec> (b0 b1 : Z) : Z
spec["str_conds"] = [ [file, function, anchor-regex, gallina-name, [string params], [integer params]] ]
    like conds, but the expression may call strncmp(s1, s2, LEN) with s1, s2 among the string parameters and LEN an
    integer expression that may contain strlen(s); they become H4.ANLang.strncmp / strlen on byte lists
                                                   ->  Definition <name> (strings : list Z) (ints : Z) : Z
spec["index_lists"] = [ [file, function, regex, gallina-name] ]
    every match of the regex in the function body, group 1 = a constant array index (an enumerator)
                                ->  Definition <name> : list Z   (in source order; no match is an error)
spec["entry_fields"] = [ [file, function, anchor-regex, gallina-name] ]
    the anchor (exactly one match in the function body) captures the ANentry field that is read: annref / elmtag /
    elmref / ann_id            ->  Definition <name> : Z := 0 / 1 / 2 / 3
spec["conds"] = [ [file, function, anchor-regex, gallina-name, [params], {c-subexpr: identifier}], ... ]
    the anchor must match exactly once in the function body; group 1 is a C integer/boolean expression
                                                   ->  Definition <name> (params : Z) : Z      (truth value 0/1)
"""
import re


def _env(repo, f, H):
    env = {}
    env.update(H.all_enums(H.src(repo, f)))
    env.update(H.defines(repo, f))
    return env


def _c(text):
    """text safe inside a Coq comment"""
    return text.replace("(*", "( *").replace("*)", "* )")


def emit(repo, spec, H):
    out = []
    for f, fn, var, nth in spec.get("type_switches", []):
        env = _env(repo, f, H)
        txt = H.src(repo, f).replace("*" + var, var)
        rows = H.switch_table(txt, fn, env, nth)
        items = []
        for labels, assigns, ret in rows:
            if var not in assigns:
                continue
            val = H.ceval(assigns[var], env)
            for lab in labels:
                if lab != "default":
                    items.append("(%s, %s)" % (H.zlit(lab), H.zlit(val)))
        if len(items) < 2:
            raise ValueError("%s: switch #%d of %s assigns %s in %d cases only" % (f, nth, fn, var, len(items)))
        out.append("(* %s: %s, switch #%d, constants assigned to %s *)" % (f, fn, nth, var))
        out.append("Definition %s_%s_switch : list (Z * Z) := [%s]." % (fn, var, "; ".join(items)))
    for f, fn, params in spec.get("cmp_chain", []):
        env = _env(repo, f, H)
        body = H.func_body(H.src(repo, f), fn)
        body = re.sub(r"\*\s*\(\s*int32\s*\*\s*\)\s*([A-Za-z_]\w*)", r"\1", body)
        body = re.sub(r"\(\s*void\s*\)\s*\w+\s*;", " ", body)
        m = re.fullmatch(r"\s*if\s*\((.*?)\)\s*return\s*([^;]+);\s*if\s*\((.*?)\)\s*return\s*([^;]+);\s*else\s*return\s*([^;]+);\s*",
                         body, flags=re.S)
        if not m:
            raise ValueError("%s: %s is not an if/return chain: %r" % (f, fn, body[:200]))
        c1, r1, c2, r2, r3 = [" ".join(x.split()) for x in m.groups()]
        t = lambda e: H.P(e, params, env).ternary_all()
        out.append(_c("(* %s: %s: if (%s) return %s; if (%s) return %s; else return %s; *)" % (f, fn, c1, r1, c2, r2, r3)).replace("( *", "(*", 1)[::-1].replace(") *", ")*", 1)[::-1])
        out.append("Definition %s %s : Z := if Z.eqb %s 0 then (if Z.eqb %s 0 then %s else %s) else %s." % (
            fn, " ".join("(%s : Z)" % p for p in params), t(c1), t(c2), t(r3), t(r2), t(r1)))
    for f, enc, dec in spec.get("codec16", []):
        d = H.defines(repo, f)
        env = _env(repo, f, H)
        for name in (enc, dec):
            if name not in d or d[name][0] is None:
                raise ValueError("%s: macro %s not found" % (f, name))
        if [a.strip() for a in d[enc][0].strip("()").split(",")] != ["p", "i"] or \
           [a.strip() for a in d[dec][0].strip("()").split(",")] != ["p", "i"]:
            raise ValueError("%s: %s/%s do not have parameters (p, i)" % (f, enc, dec))
        fix = lambda e: e.replace("(unsigned)", "(uint32)")
        stm = [s.strip() for s in d[enc][1].strip().strip("{}").split(";") if s.strip()]
        if len(stm) != 4 or stm[1] != "(p)++" or stm[3] != "(p)++":
            raise ValueError("%s: unexpected shape of %s: %r" % (f, enc, stm))
        for k, s in ((0, stm[0]), (1, stm[2])):
            m = re.fullmatch(r"\*\(p\)\s*=\s*(.*)", s)
            if not m:
                raise ValueError("%s: %s statement %r" % (f, enc, s))
            out.append("(* %s: %s byte %d: %s *)" % (f, enc, k, _c(s)))
            out.append("Definition %s_b%d (i : Z) : Z := %s." % (enc, k, H.P(fix(m.group(1)), ["i"], env).ternary_all()))
        stm = [s.strip() for s in d[dec][1].strip().strip("{}").split(";") if s.strip()]
        if len(stm) != 4 or stm[1] != "(p)++" or stm[3] != "(p)++":
            raise ValueError("%s: unexpected shape of %s: %r" % (f, dec, stm))
        m0 = re.fullmatch(r"\(i\)\s*=\s*(.*)", stm[0])
        m1 = re.fullmatch(r"\(i\)\s*\|=\s*(.*)", stm[2])
        if not m0 or not m1:
            raise ValueError("%s: %s statements %r" % (f, dec, stm))
        e0 = H.P(fix(m0.group(1).replace("*(p)", "b0")), ["b0"], env).ternary_all()
        e1 = H.P(fix(m1.group(1).replace("*(p)", "b1")), ["b1"], env).ternary_all()
        out.append("(* %s: %s: %s; %s *)" % (f, dec, _c(stm[0]), _c(stm[2])))
        out.append("Definition %s (b0 b1 : Z) : Z := Z.lor %s %s." % (dec, e0, e1))
    for f, fn, anchor, name, sparams, iparams in spec.get("str_conds", []):
        body = H.func_body(H.src(repo, f), fn)
        ms = list(re.finditer(anchor, body))
        if len(ms) != 1:
            raise ValueError("%s:%s: anchor %r matched %d times (need exactly 1)" % (f, fn, anchor, len(ms)))
        cexpr = " ".join(ms[0].group(1).split())
        env = _env(repo, f, H)
        calls = []

        def lenterm(e):
            ls = []

            def sl(m):
                if m.group(1) not in sparams:
                    raise ValueError("%s:%s: strlen of %s" % (f, fn, m.group(1)))
                ls.append(m.group(1))
                return " STRLEN%d " % (len(ls) - 1)
            e2 = re.sub(r"\bstrlen\s*\(\s*(\w+)\s*\)", sl, e)
            t = H.P(e2, iparams + ["STRLEN%d" % i for i in range(len(ls))], env).ternary_all()
            for i, nm in enumerate(ls):
                t = re.sub(r"\bSTRLEN%d\b" % i, "(strlen %s)" % nm, t)
            return t

        def sc(m):
            a, b, ln = m.group(1), m.group(2), m.group(3)
            if a not in sparams or b not in sparams:
                raise ValueError("%s:%s: strncmp on %s, %s" % (f, fn, a, b))
            calls.append("(strncmp %s %s %s)" % (a, b, lenterm(ln)))
            return " STRNCMP%d " % (len(calls) - 1)
        e = re.sub(r"\bstrncmp\s*\(\s*(\w+)\s*,\s*(\w+)\s*,\s*((?:[^()]|\([^()]*\))*)\)", sc, cexpr)
        if re.search(r"\b(strcmp|strncmp|strlen|memcmp|strcasecmp)\b", e):
            raise ValueError("%s:%s: unsupported string call in %r" % (f, fn, cexpr))
        term = H.P(e, iparams + ["STRNCMP%d" % i for i in range(len(calls))], env).ternary_all()
        for i, c in enumerate(calls):
            term = re.sub(r"\bSTRNCMP%d\b" % i, c.replace("\\", "\\\\"), term)
        out.append("(* %s: %s: %s *)" % (f, fn, _c(cexpr)))
        out.append("Definition %s %s %s : Z := %s." % (name, " ".join("(%s : list Z)" % p_ for p_ in sparams),
                                                     " ".join("(%s : Z)" % p_ for p_ in iparams), term))
    for f, fn, rx, name in spec.get("index_lists", []):
        body = H.func_body(H.src(repo, f), fn)
        env = _env(repo, f, H)
        ms = re.findall(rx, body)
        if not ms:
            raise ValueError("%s:%s: %r does not occur" % (f, fn, rx))
        out.append("(* %s: %s: indices matched by %s *)" % (f, fn, _c(rx)))
        out.append("Definition %s : list Z := [%s]." % (name, "; ".join(H.zlit(H.ceval(m, env)) for m in ms)))
    for f, fn, anchor, name in spec.get("entry_fields", []):
        body = H.func_body(H.src(repo, f), fn)
        ms = list(re.finditer(anchor, body))
        if len(ms) != 1:
            raise ValueError("%s:%s: anchor %r matched %d times (need exactly 1)" % (f, fn, anchor, len(ms)))
        fields = ["annref", "elmtag", "elmref", "ann_id"]
        if ms[0].group(1) not in fields:
            raise ValueError("%s:%s: unknown ANentry field %s" % (f, fn, ms[0].group(1)))
        out.append("(* %s: %s: %s *)" % (f, fn, _c(" ".join(ms[0].group(0).split()))))
        out.append("Definition %s : Z := %d." % (name, fields.index(ms[0].group(1))))
    for f, fn, anchor, name, params, subst in spec.get("conds", []):
        body = H.func_body(H.src(repo, f), fn)
        ms = list(re.finditer(anchor, body))
        if len(ms) != 1:
            raise ValueError("%s:%s: anchor %r matched %d times (need exactly 1)" % (f, fn, anchor, len(ms)))
        cexpr = " ".join(ms[0].group(1).split())
        e = cexpr
        for k in sorted(subst, key=len, reverse=True):
            e = e.replace(k, " %s " % subst[k])
        term = H.P(e, params, _env(repo, f, H)).ternary_all()
        out.append("(* %s: %s: %s *)" % (f, fn, _c(cexpr)))
        out.append("Definition %s %s : Z := %s." % (name, " ".join("(%s : Z)" % p for p in params), term))
    return out
