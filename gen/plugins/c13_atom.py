"""C13 translator plugin: atom.c id macros (with sizeof(atom_t) resolved from the typedef), the group
enumeration, the HAinit_group call sites (group, hash size), Hclose/Hopen/Hstartaccess/Hendaccess
reference-count statements, and the SD id encode/decode expressions of mfsd.c -> Gallina over Z.
emit(repo, spec, H) -> list of Coq lines;  H = gen_consts module."""
import re

INT_SIZES = {"int32_t": 4, "int32": 4, "int": 4, "int16_t": 2, "int64_t": 8, "uint32_t": 4}


def wrap32(e):
    return "(Z.sub (Z.modulo (Z.add %s 2147483648) 4294967296) 2147483648)" % e


def emit(repo, spec, H):
    out = []
    # ---- atom.c macros ------------------------------------------------------------------------
    f = "hdf/src/atom.c"
    env = {}
    env.update(H.all_enums(H.src(repo, f)))
    env.update(H.defines(repo, f))
    m = re.search(r"typedef\s+([A-Za-z0-9_]+)\s+atom_t\s*;", H.src(repo, "hdf/src/atom_priv.h"))
    if not m or m.group(1) not in INT_SIZES:
        raise ValueError("typedef of atom_t not understood")
    size = INT_SIZES[m.group(1)]
    out.append("(* hdf/src/atom_priv.h: typedef %s atom_t *)" % m.group(1))
    out.append("Definition ATOM_T_BYTES : Z := %d." % size)
    for name, params in (("MAKE_ATOM", ["g", "i"]), ("ATOM_TO_GROUP", ["a"]), ("ATOM_TO_LOC", ["a", "s"])):
        if name not in env or isinstance(env[name], int) or env[name][0] is None:
            raise ValueError("macro %s not found in atom.c" % name)
        p, body = env[name]
        argn = [a.strip() for a in p.strip("()").split(",") if a.strip()]
        if argn != params:
            raise ValueError("macro %s has parameters %s" % (name, argn))
        b2 = re.sub(r"sizeof\s*\(\s*atom_t\s*\)", str(size), body)
        b2 = re.sub(r"\buint32_t\b", "uint32", b2)
        if "sizeof" in b2:
            raise ValueError("unsupported sizeof in %s" % name)
        term = H.P(b2, argn, env).ternary_all()
        out.append("(* %s: #define %s%s %s *)" % (f, name, p, " ".join(body.split())))
        out.append("Definition %s %s : Z := %s." % (name, " ".join("(%s : Z)" % a for a in argn), term))
    # ---- HAinit_group call sites: which group gets which hash size ----------------------------
    sites = []
    for cf in spec.get("init_sites", []):
        txt = H.src(repo, cf)
        cenv = {}
        cenv.update(H.all_enums(txt))
        cenv.update(env)
        for mm in re.finditer(r"HAinit_group\s*\(\s*([A-Z_]+)\s*,\s*([^)]+?)\s*\)", txt):
            sites.append((cenv[mm.group(1)], H.ceval(mm.group(2), cenv), cf))
    sites = sorted(set(sites))
    out.append("(* HAinit_group(group, hash_size) call sites: %s *)" % ", ".join(sorted(set(s[2] for s in sites))))
    out.append("Definition init_sites : list (Z * Z) := [%s]." % "; ".join("(%d, %d)" % (g, h) for g, h, _ in sites))
    # ---- hfile.c: reference-count / attach statements of the four anchored functions ----------
    hf = H.src(repo, "hdf/src/hfile.c")

    def has(fn, pat):
        return 1 if re.search(pat, H.func_body(hf, fn), flags=re.S) else 0
    facts = [
        ("Hopen_shared_refcount_inc", has("Hopen", r"if\s*\(\s*file_rec->refcount\s*\)\s*\{.*?file_rec->refcount\+\+\s*;")),
        ("Hopen_create_on_open_fails", has("Hopen", r"if\s*\(\s*acc_mode\s*==\s*(?:DFACC_CREATE|4)\s*\)\s*(?:\{|do)?.*?(?:DFE_ALROPEN|FAIL)")),
        ("Hopen_first_sets_refcount_1_attach_0", has("Hopen", r"file_rec->refcount\s*=\s*1\s*;\s*file_rec->attach\s*=\s*0\s*;")),
        ("Hclose_dec_then_attach_check_restores",
         has("Hclose", r"if\s*\(\s*--file_rec->refcount\s*==\s*0\s*\)\s*\{\s*if\s*\(\s*file_rec->attach\s*>\s*0\s*\)\s*\{\s*file_rec->refcount\+\+\s*;")),
        ("Hclose_removes_atom_last", has("Hclose", r"HAremove_atom\s*\(\s*file_id\s*\)")),
        ("Hstartaccess_attach_inc", has("Hstartaccess", r"file_rec->attach\+\+\s*;")),
        ("Hendaccess_remove_then_attach_dec",
         has("Hendaccess", r"HAremove_atom\s*\(\s*access_id\s*\).*?file_rec->attach--\s*;")),
    ]
    out.append("(* hdf/src/hfile.c: presence (1) of the reference-count statements the file machine of the model mirrors *)")
    for n, v in facts:
        out.append("Definition %s : Z := %d." % (n, v))
    # ---- hfile.c Hopen, branch "already open read-only, write access requested": the new stream is opened before the
    #      old one is closed (a refused reopen must leave the shared file record untouched)
    rawh = H.raw(repo, "hdf/src/hfile.c")
    hb = H.func_body(rawh, "Hopen")
    mo = re.search(r"HI_OPEN\s*\(\s*file_rec->path", hb)
    mc = re.search(r"HI_CLOSE\s*\(\s*file_rec->file\s*\)", hb)
    ms = re.search(r"HIsync\s*\(\s*file_rec\s*\)", hb)
    if not (mo and mc and ms):
        raise ValueError("Hopen: reopen branch not understood")
    out.append("(* hdf/src/hfile.c Hopen, reopen for writing: 1 iff HI_OPEN(file_rec->path, ...) comes before HI_CLOSE(file_rec->file) *)")
    out.append("Definition Hopen_reopen_opens_before_closing : Z := %d." % (1 if ms.start() < mo.start() < mc.start() else 0))
    # ---- mfan.c ANend: the annotation types whose ids are removed from the atom group and whose tree is freed
    rawa = H.raw(repo, "hdf/src/mfan.c")
    ab = H.func_body(rawa, "ANend")
    aenv = {}
    aenv.update(H.all_enums(H.src(repo, "hdf/src/hdf.h")))
    types = set()
    for mm in re.finditer(r"an_tree\[\s*(AN_[A-Z_]+)\s*\]\s*!=\s*NULL\s*\)\s*\{(.*?)tbbtdfree\s*\(\s*file_rec->an_tree\[\s*(AN_[A-Z_]+)\s*\]", ab, flags=re.S):
        if mm.group(1) == mm.group(3) and re.search(r"HAremove_atom\s*\(\s*ann_entry->ann_id\s*\)", mm.group(2)):
            types.add(aenv[mm.group(1)])
    ml = re.search(r"for\s*\(\s*(\w+)\s*=\s*(AN_[A-Z_]+)\s*;\s*\1\s*(<=|<)\s*(AN_[A-Z_]+)\s*;\s*\1\+\+\s*\)\s*\{(.*?)tbbtdfree\s*\(\s*file_rec->an_tree\[\s*\1\s*\]",
                   ab, flags=re.S)
    if ml and re.search(r"HAremove_atom\s*\(\s*ann_entry->ann_id\s*\)", ml.group(5)):
        lo, hi = aenv[ml.group(2)], aenv[ml.group(4)]
        types.update(range(lo, hi + (1 if ml.group(3) == "<=" else 0)))
    out.append("(* hdf/src/hdf.h ann_type; hdf/src/mfan.c ANend: annotation types whose ids ANend removes from ANIDGROUP *)")
    for n in ("AN_DATA_LABEL", "AN_DATA_DESC", "AN_FILE_LABEL", "AN_FILE_DESC"):
        out.append("Definition %s : Z := %s." % (n, H.zlit(aenv[n])))
    out.append("Definition ANend_types_released : list Z := [%s]." % "; ".join(H.zlit(t) for t in sorted(types)))
    # ---- mfan.c: the two switches between annotation tags and annotation types (ANIcreate: type -> tag of a new
    #      annotation; ANtagref2id: tag given by the caller -> type, i.e. the tree the id is looked up in)
    atxt = H.src(repo, "hdf/src/mfan.c")
    senv2 = {}
    senv2.update(H.all_enums(atxt))
    senv2.update(H.defines(repo, "hdf/src/mfan.c"))
    for fn, var, nm, what in (("ANIcreate", "ann_tag", "ANIcreate_type_to_tag", "type -> tag"),
                              ("ANtagref2id", "type", "ANtagref2id_tag_to_type", "tag -> type")):
        rows = H.switch_table(atxt, fn, senv2, 0)
        items = []
        for labels, assigns, ret in rows:
            for lab in labels:
                if lab == "default" or assigns.get(var) is None:
                    continue
                items.append("(%s, %s)" % (H.zlit(lab), H.zlit(H.ceval(assigns[var], senv2))))
        if len(items) < 4:
            raise ValueError("%s: switch on annotation %s not understood" % (fn, what))
        out.append("(* hdf/src/mfan.c %s: switch, %s (assignments to %s) *)" % (fn, what, var))
        out.append("Definition %s : list (Z * Z) := [%s]." % (nm, "; ".join(items)))
    # ---- vio.c VSattach: the two exclusivity tests (read attach while attached for writing; write attach while attached)
    vb = H.func_body(H.raw(repo, "hdf/src/vio.c"), "VSattach")
    mws = re.findall(r"else\s*\{\s*if\s*\(([^)]*)\)\s*HGOTO_ERROR\s*\(\s*DFE_BADATTACH", vb)
    if len(mws) != 2:
        raise ValueError("VSattach: the two exclusivity tests (read branch, write branch) not found")
    out.append("(* hdf/src/vio.c VSattach, read attachment of an existing vdata that is not read-attached, refused when: %s *)"
               % " ".join(mws[0].split()))
    out.append("Definition VSattach_read_refused_while_written : Z := %d."
               % (1 if re.fullmatch(r"w->nattach(\s*(>|!=)\s*0)?", " ".join(mws[0].split())) else 0))
    cond = " ".join(mws[1].split())
    out.append("(* hdf/src/vio.c VSattach, write attachment of an existing vdata, refused when: %s *)" % cond)
    out.append("Definition VSattach_write_refused_whenever_attached : Z := %d." % (1 if re.fullmatch(r"w->nattach(\s*(>|!=)\s*0)?", cond) else 0))
    # ---- mfsd.c: SD id arithmetic --------------------------------------------------------------
    sf = "mfhdf/src/mfsd.c"
    stxt = H.src(repo, sf)
    senv = {}
    senv.update(H.all_enums(stxt))
    senv.update(H.defines(repo, sf))

    def expr_of(fn, lhs, params, nth=0, wrap=True):
        body = H.func_body(stxt, fn)
        ms = re.findall(r"(?<![A-Za-z0-9_>.])%s\s*=\s*([^;]+);" % re.escape(lhs), body)
        ms = [x for x in ms if any(re.search(r"\b%s\b" % p, x) for p in params) and re.search(r"<<|>>|&", x)]
        if len(ms) <= nth:
            raise ValueError("%s: assignment #%d to %s not found" % (fn, nth, lhs))
        e = ms[nth]
        t = H.P(e, params, senv).ternary_all()
        return " ".join(e.split()), (wrap32(t) if wrap else t)
    for name, fn, lhs, params, nth in (
            ("SD_file_id", "SDstart", "fid", ["cdfid"], 0),
            ("SD_sds_id", "SDselect", "sdsid", ["fid", "index"], 0),
            ("SD_create_id_base", "SDcreate", "sdsid", ["fid"], 0),
            ("SD_dim_id", "SDgetdimid", "id", ["sdsid", "dimindex"], 0),
            ("SD_id_type", "SDIhandle_from_id", "tmp", ["id"], 0),
            ("SD_id_slot", "SDIhandle_from_id", "tmp", ["id"], 1),
            ("SD_var_index", "SDIget_var", "varid", ["sdsid"], 0),
            ("SD_dim_index", "SDIget_dim", "dimindex", ["id"], 0)):
        src_e, term = expr_of(fn, lhs, params, nth)
        out.append("(* %s %s: %s = %s *)" % (sf, fn, lhs, src_e))
        out.append("Definition %s %s : Z := %s." % (name, " ".join("(%s : Z)" % a for a in params), term))
    # ---- mfhdf file.c: the table of open SD/netCDF files (positions are part of every SD id) ----------------
    ff = "mfhdf/src/file.c"
    ftxt = H.src(repo, ff)
    fenv = {}
    fenv.update(H.all_enums(ftxt))

    def cond_of(fn, pat, params, what):
        body = H.func_body(ftxt, fn)
        m = re.search(pat, body, flags=re.S)
        if not m:
            raise ValueError("%s: %s not found" % (fn, what))
        e = " ".join(m.group(1).split())
        e2 = e
        for a, b in (("_curr_opened", "curr_opened"), ("_cdfs_size", "cdfs_size"), ("_ncdf", "ncdf")):
            e2 = re.sub(r"(?<![A-Za-z0-9_])%s\b" % a, b, e2)
        return e, H.P(e2, params, fenv).ternary_all()
    for name, fn, pat, params, what in (
            ("NC_reset_neg_guard", "NC_reset_maxopenfiles", r"if\s*\(\s*(req_max\s*[<>=!]+\s*0)\s*\)", ["req_max"],
             "negative request guard"),
            ("NC_reset_curr_guard", "NC_reset_maxopenfiles", r"if\s*\(\s*(req_max\s*[<>=!]+\s*_curr_opened)\s*\)",
             ["req_max", "curr_opened"], "open-files guard"),
            ("NC_reset_limit_cond", "NC_reset_maxopenfiles", r"if\s*\(\s*(req_max\s*[<>=!]+\s*sys_limit)\s*\)",
             ["req_max", "sys_limit"], "system limit condition"),
            ("NC_reset_guard", "NC_reset_maxopenfiles", r"if\s*\(\s*(alloc_size\s*[<>=!]+\s*old_idx)\s*\)",
             ["alloc_size", "old_idx"], "highest-position guard"),
            ("NC_reset_copy_cond", "NC_reset_maxopenfiles",
             r"for\s*\(\s*new_idx\s*=\s*0\s*;\s*([^;]+);\s*new_idx\+\+\s*\)\s*newlist\[new_idx\]\s*=\s*_cdfs\[new_idx\]",
             ["new_idx", "cdfs_size", "alloc_size"], "copy loop condition"),
            ("NC_reset_clamp_cond", "NC_reset_maxopenfiles", r"if\s*\(\s*(_ncdf\s*[<>=!]+\s*alloc_size)\s*\)\s*_ncdf\s*=\s*alloc_size",
             ["ncdf", "alloc_size"], "_ncdf clamp"),
            ("NC_check_range", "H4_NC_check_id", r"handle\s*=\s*\(\s*(cdfid[^?]*?)\)\s*\?", ["cdfid", "ncdf"], "range check"),
            ("NC_open_grow_cond", "NC_open", r"if\s*\(\s*(cdfid\s*==\s*_cdfs_size\s*&&[^)]*)\)", ["cdfid", "cdfs_size", "ncdf", "max_NC_open"],
             "grow condition"),
            ("NC_close_top_cond", "H4_ncclose", r"if\s*\(\s*(cdfid\s*==\s*_ncdf\s*-\s*1)\s*\)\s*_ncdf--", ["cdfid", "ncdf"],
             "high-water decrement")):
        src_e, term = cond_of(fn, pat, params, what)
        out.append("(* %s %s: %s: %s *)" % (ff, fn, what, src_e))
        out.append("Definition %s %s : Z := %s." % (name, " ".join("(%s : Z)" % a for a in params), term))
    return out
