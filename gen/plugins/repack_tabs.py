"""C18 translator plugin: the tables and conditions of hrepack's option handling, taken from the preprocessed text
of the *current* sources.

  comp_keywords   parse_comp's chain  `strcmp(scomp, "KW") == 0 ... comp->type = COMP_CODE_X`  ->
                  list (keyword bytes, code, parameter rule)   rule 0 = optional, 1 = required (`if (no_param)` error),
                  2 = forbidden (`if (m > 0)` error).  A branch that only reports an error (SZIP when not built in)
                  yields no entry.
  scomp_table     get_scomp's chain  `code == COMP_CODE_X) return "KW"`  -> list (code, keyword bytes)
  chunk_alphabet  the characters parse_chunk accepts besides digits
  default_threshold  the constant assigned to options->threshold in hrepack_init
  compressible_tags  the tags accepted by list_table_check
  reserved_classes   the class names tested by is_reserved (strcmp ones) and the chunk-table prefix
  conds           as in the C03 plugin: [file, function, anchor-regex, name, [params], {c-subexpr: identifier}]
"""
import re


def _bytes(s):
    return "[" + "; ".join(str(ord(c)) for c in s) + "]"


def emit(repo, spec, H):
    out = []
    f = "mfhdf/hrepack/hrepack_parse.c"
    txt = H.src(repo, f)
    env = {}
    env.update(H.all_enums(txt))
    env.update(H.defines(repo, f))
    body = H.func_body(txt, "parse_comp")
    # split the if / else-if chain on the strcmp tests
    parts = re.split(r'strcmp\s*\(\s*scomp\s*,\s*"([A-Z0-9]+)"\s*\)\s*==\s*0\s*\)', body)
    rows = []
    # parts = [pre, kw1, blk1, kw2, blk2, ...]; the first occurrence of "SZIP" is the parameter scanner, skip
    # blocks that do not assign comp->type
    for i in range(1, len(parts) - 1, 2):
        kw, blk = parts[i], parts[i + 1]
        blk = blk.split("else if")[0]
        m = re.match(r"\s*\{?\s*comp->type\s*=\s*(COMP_CODE_[A-Z0-9]+)\s*;", blk)
        if not m:
            continue
        rule = 0
        if re.search(r"if\s*\(\s*no_param\s*\)", blk):
            rule = 1
        elif re.search(r"if\s*\(\s*m\s*>\s*0\s*\)", blk):
            rule = 2
        rows.append((kw, H.ceval(m.group(1), env), rule))
    if not rows:
        raise ValueError("parse_comp: keyword chain not found")
    out.append("(* %s: parse_comp keyword chain (keyword, compression code, parameter rule 0 optional / 1 required / 2 forbidden) *)" % f)
    out.append("Definition comp_keywords : list (list Z * Z * Z) :=\n  [%s]." % ";\n   ".join(
        "(%s, %s, %d)" % (_bytes(k), H.zlit(c), r) for k, c, r in rows))
    body = H.func_body(txt, "get_scomp")
    rows = re.findall(r'code\s*==\s*(COMP_CODE_[A-Z0-9]+)\s*\)\s*return\s*"([A-Za-z0-9_]+)"', body)
    if not rows:
        raise ValueError("get_scomp: chain not found")
    out.append("(* %s: get_scomp *)" % f)
    out.append("Definition scomp_table : list (Z * list Z) :=\n  [%s]." % ";\n   ".join(
        "(%s, %s)" % (H.zlit(H.ceval(c, env)), _bytes(s)) for c, s in rows))
    body = H.func_body(txt, "parse_chunk")
    m = re.search(r"if\s*\(\s*!\s*isdigit\s*\(\s*c\s*\)\s*((?:&&\s*c\s*!=\s*'.'\s*)+)\)", body)
    if not m:
        # isdigit may be a macro after preprocessing: look for the c != 'x' chain alone
        m = re.search(r"((?:&&\s*c\s*!=\s*'.'\s*)+)\)", body)
    if not m:
        raise ValueError("parse_chunk: accepted alphabet not found")
    alpha = sorted(set(re.findall(r"'(.)'", m.group(1))))
    out.append("(* %s: parse_chunk accepts digits and these characters *)" % f)
    out.append("Definition chunk_alphabet : list Z := [%s]." % "; ".join(str(ord(c)) for c in alpha))

    f = "mfhdf/hrepack/hrepack.c"
    body = H.func_body(H.src(repo, f), "hrepack_init")
    m = re.search(r"options->threshold\s*=\s*([^;]+);", body)
    if not m:
        raise ValueError("hrepack_init: threshold not found")
    out.append("(* %s: hrepack_init *)" % f)
    out.append("Definition default_threshold : Z := %s." % H.zlit(H.ceval(m.group(1), {})))

    f = "mfhdf/hrepack/hrepack_lsttable.c"
    txt = H.src(repo, f)
    env2 = {}
    env2.update(H.defines(repo, f))
    body = H.func_body(txt, "list_table_check")
    m = re.search(r"if\s*\(((?:[^;{}]*?tag\s*==[^;{}]*?))\)\s*return\s*(?:\(\(void\s*\*\)0\)|NULL|0)\s*;", body, flags=re.S)
    if not m:
        raise ValueError("list_table_check: tag test not found")
    tags = [H.ceval(x, env2) for x in re.findall(r"tag\s*==\s*(\(\(uint16\)\d+\)|[A-Za-z_][A-Za-z_0-9]*)", m.group(1))]
    if "&&" in m.group(1) or not tags:
        raise ValueError("list_table_check: tag test has an unexpected shape")
    out.append("(* %s: list_table_check accepts objects found under these tags *)" % f)
    out.append("Definition compressible_tags : list Z := [%s]." % "; ".join(map(str, tags)))

    f = "mfhdf/hrepack/hrepack_utils.c"
    body = H.func_body(H.src(repo, f), "is_reserved")
    names = re.findall(r'strcmp\s*\(\s*vgroup_class\s*,\s*"([^"]*)"\s*\)\s*==\s*0', body)
    pref = re.findall(r'strncmp\s*\(\s*vgroup_class\s*,\s*"([^"]*)"\s*,\s*(\d+)\s*\)\s*==\s*0', body)
    if not names or not pref:
        raise ValueError("is_reserved: class tests not found")
    out.append("(* %s: is_reserved *)" % f)
    out.append("Definition reserved_classes : list (list Z) :=\n  [%s]." % ";\n   ".join(_bytes(n) for n in names))
    out.append("Definition reserved_prefixes : list (list Z * Z) := [%s]." % "; ".join(
        "(%s, %s)" % (_bytes(p), n) for p, n in pref))

    # ---- strip-mining copy loop of copy_sds (objects of H4TOOLS_MALLOCSIZE bytes or more) -------------------------
    f = "mfhdf/hrepack/hrepack_sds.c"
    rawtxt = H.raw(repo, f)
    body = H.func_body(rawtxt, "copy_sds")
    envs = {}
    envs.update(H.all_enums(H.src(repo, f)))
    envs.update(H.defines(repo, f))

    def tr(cexpr, params, subst):
        e = " ".join(cexpr.split())
        for k in sorted(subst, key=len, reverse=True):
            e = e.replace(k, " %s " % subst[k])
        return H.P(e, params, envs).ternary_all()

    m = re.findall(r"sm_size\[i - 1\]\s*=\s*([^;]+);", body)
    if len(m) != 1:
        raise ValueError("copy_sds: strip size assignment not found exactly once")
    out.append("(* %s: copy_sds: sm_size[i - 1] = %s *)" % (f, " ".join(m[0].split())))
    out.append("Definition strip_size (dim buf nbytes : Z) : Z := %s." % tr(
        m[0], ["dim", "buf", "nbytes"], {"dimsizes[i - 1]": "dim", "H4TOOLS_BUFSIZE": "buf", "sm_nbytes": "nbytes"}))
    m = re.findall(r"hs_size\[i\]\s*=\s*([^;]+);", body)
    if len(m) != 1:
        raise ValueError("copy_sds: hyperslab size assignment not found exactly once")
    out.append("(* %s: copy_sds: hs_size[i] = %s *)" % (f, " ".join(m[0].split())))
    out.append("Definition strip_hs_size (dim off sm : Z) : Z := %s." % tr(
        m[0], ["dim", "off", "sm"], {"dimsizes[i]": "dim", "hs_offset[i]": "off", "sm_size[i]": "sm"}))
    if not re.search(r"for\s*\(\s*i = rank\s*,\s*carry = 1\s*;\s*i > 0 && carry\s*;\s*--i\s*\)", body):
        raise ValueError("copy_sds: next-offset loop header has an unexpected shape")
    sub = {"hs_offset[i - 1]": "off", "dimsizes[i - 1]": "dim", "hs_size[i - 1]": "hs"}
    m1 = re.search(r"hs_offset\[i - 1\] \+= hs_size\[i - 1\];\s*if\s*\(([^;{}]+)\)\s*hs_offset\[i - 1\] = 0;\s*else\s*carry = ([^;]+);", body)
    m2 = re.search(r"hs_offset\[i - 1\] \+= hs_size\[i - 1\];\s*carry = ([^;]+);\s*if\s*\(([^;{}]+)\)\s*hs_offset\[i - 1\] = 0;", body)
    if m1:
        wrap, carry = tr(m1.group(1), ["off", "dim", "hs"], sub), None
        celse = tr(m1.group(2), ["off", "dim", "hs"], sub)
        carry = "(if Z.eqb %s 0 then %s else 1)" % (wrap, celse)
        shape = "offset += size; if (wrap) offset = 0; else carry = %s" % m1.group(2).strip()
    elif m2:
        wrap = tr(m2.group(2), ["off", "dim", "hs"], sub)
        carry = tr(m2.group(1), ["off", "dim", "hs"], sub)
        shape = "offset += size; carry = %s; if (wrap) offset = 0" % m2.group(1).strip()
    else:
        raise ValueError("copy_sds: next-offset loop body has an unexpected shape")
    out.append("(* %s: copy_sds: next hyperslab offset, one dimension: %s   (off = the offset after the addition) *)" % (f, shape))
    out.append("Definition strip_wrap (off dim hs : Z) : Z := %s." % wrap)
    out.append("Definition strip_carry (off dim hs : Z) : Z := %s." % carry)

    # ---- traversal: under which tags are members of a vgroup copied, and which tags do the top-level passes search?
    f = "mfhdf/hrepack/hrepack_list.c"
    rawl = H.raw(repo, f)
    envl = {}
    envl.update(H.defines(repo, f))
    vb = H.func_body(rawl, "vgroup_insert")
    kinds = {"sds": [], "image": [], "vs": [], "vg": []}
    pending = []
    for m in re.finditer(r"case\s+([A-Za-z_0-9]+)\s*:|\b(copy_sds|copy_gr|copy_vs|Vattach)\s*\(", vb):
        if m.group(1):
            pending.append(H.ceval(m.group(1), envl))
        elif pending:
            k = {"copy_sds": "sds", "copy_gr": "image", "copy_vs": "vs", "Vattach": "vg"}[m.group(2)]
            kinds[k] += pending
            pending = []
    if pending or not kinds["sds"] or not kinds["image"]:
        raise ValueError("vgroup_insert: tag switch has an unexpected shape")

    def search_tags(fn, refvar):
        body = H.func_body(rawl, fn)
        tags = []
        for m in re.finditer(r"\blist_table_search\w*\s*\(\s*list_tbl\s*,\s*([A-Za-z_0-9]+)\s*,([^;{]*?)\b%s\s*\)" % refvar, body):
            a = m.group(1)
            try:
                tags.append(H.ceval(a, envl))
            except Exception:
                t = re.search(r"\b%s\s*\[\s*\]\s*=\s*\{([^}]*)\}" % re.escape(a), rawl)
                if not t:
                    raise ValueError("%s: cannot resolve the tag list %s" % (fn, a))
                tags += [H.ceval(x, envl) for x in t.group(1).split(",") if x.strip()]
        if not tags:
            raise ValueError("%s: no table search found" % fn)
        return tags
    out.append("(* %s: vgroup_insert: member tags copied with copy_sds / copy_gr / copy_vs; groups *)" % f)
    for k, nm in (("sds", "insert_sds_tags"), ("image", "insert_image_tags"), ("vs", "insert_vs_tags"), ("vg", "insert_vg_tags")):
        out.append("Definition %s : list Z := [%s]." % (nm, "; ".join(map(str, kinds[k]))))
    out.append("(* %s: list_sds / list_gr / list_vs: tags searched to skip objects already copied as vgroup members *)" % f)
    out.append("Definition list_sds_search_tags : list Z := [%s]." % "; ".join(map(str, search_tags("list_sds", "sds_ref"))))
    out.append("Definition list_gr_search_tags : list Z := [%s]." % "; ".join(map(str, search_tags("list_gr", "gr_ref"))))
    out.append("Definition list_vs_search_tags : list Z := [%s]." % "; ".join(map(str, search_tags("list_vs", "ref"))))

    # ---- metadata plumbing of the copy functions: which variables does the inquiring call fill, which does the
    # creating call receive, and is any of them assigned in between?
    def call_args(body, fname, nth=0):
        ms = list(re.finditer(r"\b%s\s*\(" % fname, body))
        if len(ms) <= nth:
            raise ValueError("call of %s not found" % fname)
        i = ms[nth].end()
        depth, j = 1, i
        while depth:
            depth += {"(": 1, ")": -1}.get(body[j], 0)
            j += 1
        args, cur, d = [], "", 0
        for ch in body[i:j - 1]:
            if ch == "," and d == 0:
                args.append(cur)
                cur = ""
            else:
                d += {"(": 1, ")": -1}.get(ch, 0)
                cur += ch
        args.append(cur)
        return ["".join(a.split()).lstrip("&") for a in args], ms[nth].start(), j

    def plumbing(name, f, fn, inq, create, extra=()):
        body = H.func_body(H.raw(repo, f), fn)
        ia, i0, i1 = call_args(body, inq)
        ca, c0, c1 = call_args(body, create)
        if c0 < i1:
            raise ValueError("%s: %s is called before %s" % (fn, create, inq))
        between = body[i1:c0]
        reass = [v for v in ca if v in ia and re.fullmatch(r"[A-Za-z_]\w*", v) and
                 re.search(r"(?<![=!<>])\b%s\s*(?:\[[^\]]*\]\s*)?=(?!=)" % re.escape(v), between)]
        out.append("(* %s: %s: %s(%s) ... %s(%s) *)" % (f, fn, inq, ", ".join(ia), create, ", ".join(ca)))
        out.append("Definition %s_inquired : list (list Z) := [%s]." % (name, "; ".join(_bytes(a) for a in ia)))
        out.append("Definition %s_created : list (list Z) := [%s]." % (name, "; ".join(_bytes(a) for a in ca)))
        out.append("Definition %s_reassigned : list (list Z) := [%s]." % (name, "; ".join(_bytes(a) for a in reass)))
        for label, fcall, nth in extra:
            xa, _, _ = call_args(body, fcall, nth)
            out.append("Definition %s_%s : list (list Z) := [%s]." % (name, label, "; ".join(_bytes(a) for a in xa)))
    plumbing("copy_gr", "mfhdf/hrepack/hrepack_gr.c", "copy_gr", "GRgetiminfo", "GRcreate",
             [("reqil", "GRreqimageil", 0), ("read", "GRreadimage", 0), ("write", "GRwriteimage", 0)])
    plumbing("copy_sds", "mfhdf/hrepack/hrepack_sds.c", "copy_sds", "SDgetinfo", "SDcreate",
             [("create2", "SDcreate", 1), ("diminfo", "SDdiminfo", 0), ("setdimname", "SDsetdimname", 1),
              ("getdimscale", "SDgetdimscale", 0), ("setdimscale", "SDsetdimscale", 0)])
    # whole-object transfers: the start / edges the one-piece reads and writes use, per dimension
    for fn_, f_, nm_ in (("copy_sds", "mfhdf/hrepack/hrepack_sds.c", "copy_sds"), ("copy_gr", "mfhdf/hrepack/hrepack_gr.c", "copy_gr")):
        b_ = H.func_body(H.raw(repo, f_), fn_)
        me = re.findall(r"\bedges\[(\w)\]\s*=\s*([^;]+);", b_)
        ms = re.findall(r"\bstart\[(\w)\]\s*=\s*([^;]+);", b_)
        if len(me) != 1 or len(ms) != 1 or me[0][0] != ms[0][0]:
            raise ValueError("%s: start/edges of the whole-object transfer not found exactly once" % fn_)
        ix = me[0][0]
        out.append("(* %s: %s: edges[%s] = %s; start[%s] = %s *)" % (f_, fn_, ix, me[0][1].strip(), ix, ms[0][1].strip()))
        out.append("Definition %s_edge (dim : Z) : Z := %s." % (nm_, H.P(me[0][1].replace("dimsizes[%s]" % ix, " dim "), ["dim"], {}).ternary_all()))
        out.append("Definition %s_start (dim : Z) : Z := %s." % (nm_, H.P(ms[0][1].replace("dimsizes[%s]" % ix, " dim "), ["dim"], {}).ternary_all()))
    # the guard of the dimension-scale copy
    bsds = H.func_body(H.raw(repo, "mfhdf/hrepack/hrepack_sds.c"), "copy_sds")
    mg = re.findall(r"if\s*\(([^;{}]*)\)\s*\{\s*int\s+okdim\s*;", bsds)
    if len(mg) != 1:
        raise ValueError("copy_sds: guard of the dimension scale copy not found exactly once")
    out.append("(* mfhdf/hrepack/hrepack_sds.c: copy_sds: the dimension scale is copied if (%s) *)" % " ".join(mg[0].split()))
    out.append("Definition sds_scale_guard (dtype dim_size : Z) : Z := %s." % H.P(
        " ".join(mg[0].split()), ["dtype", "dim_size"], {}).ternary_all())
    plumbing("copy_vs", "mfhdf/hrepack/hrepack_vs.c", "copy_vs", "VSinquire", "VSsetinterlace",
             [("fdefine", "VSfdefine", 0), ("setfields_out", "VSsetfields", 0), ("setfields_in", "VSsetfields", 1),
              ("read", "VSread", 0), ("write", "VSwrite", 0), ("setname", "VSsetname", 0), ("setclass", "VSsetclass", 0)])

    # ---- under which conditions is a call reached?  (enclosing if-conditions of the call site, and the conditions of
    # the early returns / jumps that precede it at the outer level of the function)
    def guards_of(body, callname, nth=0):
        ms = list(re.finditer(r"\b%s\s*\(" % callname, body))
        if len(ms) <= nth:
            raise ValueError("call of %s not found" % callname)
        pos = ms[nth].start()
        stack, headers, i, last = [], [], 0, 0
        while i < pos:
            ch = body[i]
            if ch == "{":
                stack.append((" ".join(body[last:i].split()), i))
                last = i + 1
            elif ch == "}":
                if stack:
                    h0, b0 = stack.pop()
                    m0 = re.match(r"if\s*\((.*)\)$", h0)
                    if not stack and m0 and re.search(r"\b(return|goto)\b", body[b0:i]):
                        headers.append("".join(m0.group(1).split()))
                last = i + 1
            elif ch == ";":
                # a statement ends; remember early exits at the outer level
                st = " ".join(body[last:i].split())
                m_ = re.match(r"if\s*\((.*)\)\s*(return\b.*|goto\s+\w+)$", st)
                if m_ and not stack:
                    headers.append("".join(m_.group(1).split()))
                last = i + 1
            i += 1
        enc = []
        for h_, _b in stack:
            m_ = re.match(r"(?:else\s+)?if\s*\((.*)\)$", h_)
            enc.append("".join(m_.group(1).split()) if m_ else "".join(h_.split()))
        # early exits written as blocks: "if (c) { ...; return X; }" at the outer level are not decomposed; the run
        # of the function up to the call must then not contain such a block with a bare return of success
        return enc, headers

    bgr = H.func_body(H.raw(repo, "mfhdf/hrepack/hrepack_gr.c"), "copy_gr")
    enc, _ = guards_of(bgr, "GRwritelut")
    out.append("(* mfhdf/hrepack/hrepack_gr.c: copy_gr: conditions enclosing the call of GRwritelut *)")
    out.append("Definition copy_gr_writelut_guards : list (list Z) := [%s]." % "; ".join(_bytes(a) for a in enc))
    enc, _ = guards_of(bgr, "GRreadlut")
    out.append("Definition copy_gr_readlut_guards : list (list Z) := [%s]." % "; ".join(_bytes(a) for a in enc))
    bgl = H.func_body(rawl, "list_glb")
    enc, early = guards_of(bgl, "copy_gr_attrs")
    out.append("(* mfhdf/hrepack/hrepack_list.c: list_glb: conditions enclosing copy_gr_attrs, and the early exits before it *)")
    out.append("Definition list_glb_gr_attrs_guards : list (list Z) := [%s]." % "; ".join(_bytes(a) for a in enc))
    out.append("Definition list_glb_exits_before_gr_attrs : list (list Z) := [%s]." % "; ".join(_bytes(a) for a in early))
    blm = H.func_body(rawl, "list_main")
    mh = re.findall(r"if\s*\(([^;{}]*)\)\s*has_GRelems\s*=\s*1\s*;", blm)
    if len(mh) != 1:
        raise ValueError("list_main: the has_GRelems test was not found exactly once")
    out.append("(* mfhdf/hrepack/hrepack_list.c: list_main: has_GRelems = 1 if (%s) *)" % " ".join(mh[0].split()))
    out.append("Definition has_gr_elems (n_rimages n_file_attrs : Z) : Z := %s." % H.P(
        " ".join(mh[0].split()), ["n_rimages", "n_file_attrs"], {}).ternary_all())

    for ent in spec.get("conds", []):
        f, fn, anchor, name, params, subst = ent[:6]
        txt = H.src(repo, f)
        body = H.func_body(txt, fn)
        ms = list(re.finditer(anchor, body))
        want = 1
        if len(ms) != want:
            raise ValueError("%s:%s: anchor %r matched %d times (need exactly 1)" % (f, fn, anchor, len(ms)))
        cexpr = " ".join(ms[0].group(1).split())
        e = cexpr
        for k in sorted(subst, key=len, reverse=True):
            e = e.replace(k, " %s " % subst[k])
        e = re.sub(r"\(\s*(?:unsigned\s+)?(?:long|int32|int|uint32|size_t)\s*\)", " ", e)
        env3 = {}
        env3.update(H.all_enums(txt))
        env3.update(H.defines(repo, f))
        term = H.P(e, params, env3).ternary_all()
        out.append("(* %s: %s: %s *)" % (f, fn, cexpr.replace("*)", "* )").replace("(*", "( *")))
        out.append("Definition %s %s : Z := %s." % (name, " ".join("(%s : Z)" % p for p in params), term))
    return out
