"""Translator plugin for C04: integer assignment right-hand sides, `if` conditions and `for` headers of the chunk
arithmetic functions of hchunks.c and of the cache routines of mcache.c -> Gallina definitions over Z.

spec["stmt_funcs"] = [[file, [function, ...]], ...]; spec["ignore_lhs"] = regex of assignment targets to leave out
(queue-pointer plumbing of the CIRCLEQ macros, return codes); spec["quiet_files"] = files whose unparsable statements
(pointer expressions, calls) are not listed.

For every function, in source order (after gcc -E):
  * each assignment  lhs = e; / lhs += e; / lhs *= e; / lhs |= e; / lhs &= e;  whose right-hand side is an integer
    expression the expression parser accepts becomes
        Definition <fn>_q_<lhs>_<k> (<free identifiers, alphabetical>) : Z := <term>.
    (k counts the assignments to that lhs inside the function; compound assignments are expanded to  lhs op (e));
  * each  if (c)  whose condition parses becomes  Definition <fn>_q_if_<k> (...) : Z := <term>  (non-zero = taken);
  * the list of `for (...)` headers becomes  Definition <fn>_q_loops : list string.
spec["call_funcs"] = [[file, function, [callee, ...]], ...]: Definition <fn>_q_calls : list string, the calls the
function makes to the listed callees, in source order, with their (whitespace-normalised) argument text.
spec["stmt_text"] = [[file, function, [identifier, ...]], ...]: Definition <fn>_q_stmts : list string, the text of the
assignments and conditions of the function that mention one of the identifiers, in source order.
spec["cond_funcs"] = [[file, function, [callee, ...]], ...]: Definition <fn>_q_conds : list string, the text of the
`if` conditions of the function that call one of the listed callees (how a lookup's result is tested).
Sub-expressions are normalised first:  a[i] -> a_i,  a[ndims - 1] -> a_last,  a[j + 1] -> a_next,  p->f -> p_f,
d[i].f -> f,  d[j + 1].f -> f_next,  d[ndims - 1].f -> f_last,  *p -> p.  Casts to int32/uint8... keep their
wrap-around meaning (H.P).  Anything that does not parse is listed in a comment, not silently dropped."""
import re

IDX = {"i": "", "j": "", "k": "", "ndims - 1": "_last", "j + 1": "_next", "i + 1": "_next", "0": "_0", "1": "_1"}


def norm(e):
    e = " ".join(e.split())

    def field(m):
        idx = " ".join(m.group(2).split())
        if idx not in IDX:
            raise ValueError("index %r" % idx)
        return m.group(3) + IDX[idx]
    e = re.sub(r"\b([A-Za-z_]\w*)\s*\[([^\]]*)\]\s*\.\s*([A-Za-z_]\w*)", field, e)

    def arr(m):
        idx = " ".join(m.group(2).split())
        if idx not in IDX:
            raise ValueError("index %r" % idx)
        return m.group(1) + (IDX[idx] or "_" + idx)
    e = re.sub(r"\b([A-Za-z_]\w*)\s*\[([^\]]*)\]", arr, e)
    e = re.sub(r"\b([A-Za-z_]\w*)\s*->\s*([A-Za-z_]\w*)", r"\1_\2", e)
    e = re.sub(r"(^|[=(,?:+\-*/%&|^<>!~]\s*)\*\s*([A-Za-z_]\w*)", r"\1\2", e)
    return e


def free_ids(e, env):
    ids = set(re.findall(r"\b[A-Za-z_]\w*\b", e))
    out = []
    for x in sorted(ids):
        if x in H_P.WIDTH:
            continue
        if x in env and (isinstance(env[x], int) or env[x][0] is None):
            continue
        out.append(x)
    return out


def split_top(body):
    """yield ('for', header) / ('if', cond) / ('asg', lhs, op, rhs) in source order"""
    i, n = 0, len(body)
    out = []
    while i < n:
        m = re.compile(r"\b(for|if|while|switch)\s*\(").match(body, i)
        if m:
            j, depth = m.end(), 1
            while depth and j < n:
                depth += body[j] == "("
                depth -= body[j] == ")"
                j += 1
            out.append((m.group(1), body[m.end():j - 1]))
            i = j
            continue
        m = re.compile(r"(\*?\s*[A-Za-z_]\w*(?:\s*->\s*\w+|\s*\[[^\]]*\](?:\s*\.\s*\w+)?)*)\s*(\+|-|\*|/|%|\||&|\^)?=(?!=)\s*([^;{}]*);").match(body, i)
        if m and not re.match(r"\s*(return|else|goto)\b", m.group(1)):
            out.append(("asg", m.group(1), m.group(2) or "", m.group(3)))
            i = m.end()
            continue
        i += 1
    return out


def emit(repo, spec, H):
    global H_P
    H_P = H.P
    lines = ["From Coq Require Import String.", "Local Open Scope Z_scope.", ""]
    ignore = re.compile(spec.get("ignore_lhs", "^$"))
    for f, fns in spec.get("stmt_funcs", []):
        txt = H.src(repo, f)
        env = {}
        env.update(H.all_enums(txt))
        env.update(H.defines(repo, f))
        for fn in fns:
            body = H.func_body(txt, fn)
            lines.append("(* %s: %s *)" % (f, fn))
            cnt, loops, skipped = {}, [], []
            for it in split_top(body):
                try:
                    if it[0] == "for":
                        loops.append(" ".join(it[1].split()))
                        continue
                    if it[0] in ("while", "switch"):
                        loops.append(it[0] + " " + " ".join(it[1].split()))
                        continue
                    if it[0] == "if":
                        e = norm(it[1])
                        name = "%s_q_if" % fn
                    else:
                        lhs = norm(it[1].replace(" ", ""))
                        lhs = re.sub(r"\W", "_", lhs).strip("_")
                        if ignore.match(lhs):
                            continue
                        rhs = norm(it[3])
                        e = "%s %s (%s)" % (lhs, it[2], rhs) if it[2] else rhs
                        name = "%s_q_%s" % (fn, lhs)
                    if re.search(r"\b(NULL|malloc|sizeof)\b|\"|[A-Za-z_]\w*\s*\(", re.sub(r"\(\s*(u?int(8|16|32)|intn|uintn|int)\s*\)", " ", e)):
                        raise ValueError("not an integer expression")
                    params = free_ids(e, env)
                    term = H.P(e, params, env).ternary_all()
                    k = cnt.get(name, 0)
                    cnt[name] = k + 1
                    lines.append("(* %s *)" % " ".join((it[1] if it[0] == "if" else "%s %s= %s" % (it[1], it[2], it[3])).split()).replace("*)", "* )").replace("(*", "( *"))
                    lines.append("Definition %s_%d %s : Z := %s." % (name, k, " ".join("(%s : Z)" % p for p in params), term))
                except Exception as ex:  # listed, not dropped silently
                    if f in spec.get("quiet_files", []):
                        continue
                    skipped.append("%s: %s" % (" ".join(str(x) for x in it[1:])[:70].replace("*)", "* )").replace("(*", "( *"), str(ex)[:40].replace("*)", "* )").replace("(*", "( *")))
            lines.append("Definition %s_q_loops : list string := [%s]." % (fn, "; ".join('"%s"%%string' % l.replace('"', "'") for l in loops)))
            for sk in skipped:
                lines.append("(* not translated: %s *)" % sk)
            lines.append("")
    # ordered list of the calls a function makes to the named callees, with their normalised argument text
    for f, fn, callees in spec.get("call_funcs", []):
        txt = H.src(repo, f)
        body = H.func_body(txt, fn)
        calls = []
        for m in re.finditer(r"\b(%s)\s*\(" % "|".join(re.escape(c) for c in callees), body):
            j, depth = m.end(), 1
            while depth and j < len(body):
                depth += body[j] == "("
                depth -= body[j] == ")"
                j += 1
            args = " ".join(body[m.end():j - 1].split())
            calls.append("%s(%s)" % (m.group(1), args))
        lines.append("(* %s: calls of %s to %s, in source order *)" % (f, fn, ", ".join(callees)))
        lines.append("Definition %s_q_calls : list string := [%s]." % (fn, ";\n  ".join('"%s"%%string' % c.replace('"', "'") for c in calls)))
        lines.append("")
    # statements (assignments and conditions) of a function that mention one of the given identifiers, as normalised
    # text in source order: pins the ORDER of bookkeeping statements and keeps sibling conditions comparable
    for f, fn, idents in spec.get("stmt_text", []):
        txt = H.src(repo, f)
        body = H.func_body(txt, fn)
        out = []
        for it in split_top(body):
            t = " ".join((it[1] if it[0] != "asg" else "%s %s= %s" % (it[1], it[2], it[3])).split())
            if it[0] in ("if", "asg", "while", "for") and any(re.search(r"\b%s\b" % re.escape(x), t) for x in idents):
                out.append(("if " if it[0] == "if" else "") + t)
        lines.append("(* %s: statements of %s mentioning %s, in source order *)" % (f, fn, ", ".join(idents)))
        lines.append("Definition %s_q_stmts : list string := [%s]." % (fn, ";\n  ".join('"%s"%%string' % c.replace('"', "'") for c in out)))
        lines.append("")
    # conditions (if / else-if) that mention one of the named callees, as normalised text, in source order
    for f, fn, callees in spec.get("cond_funcs", []):
        txt = H.src(repo, f)
        body = H.func_body(txt, fn)
        conds = []
        for it in split_top(body):
            if it[0] == "if" and any(re.search(r"\b%s\s*\(" % re.escape(c), it[1]) for c in callees):
                conds.append(" ".join(it[1].split()))
        lines.append("(* %s: conditions of %s that call %s, in source order *)" % (f, fn, ", ".join(callees)))
        lines.append("Definition %s_q_conds : list string := [%s]." % (fn, ";\n  ".join('"%s"%%string' % c.replace('"', "'") for c in conds)))
        lines.append("")
    return lines
