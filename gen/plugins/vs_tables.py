"""C07 translator plugin.

spec["rstab"] = [file, table-name]
    static const SYMDEF rstab[] = { {"PX", DFNT_FLOAT32, SIZE_FLOAT32, 1}, ... }
    ->  Definition rstab : list ((list Z * Z) * Z)        name bytes, number type, order
        Definition rstab_isize : list Z                   the isize column
spec["conds"] = [ [file, function, anchor-regex, gallina-name, [params], {c-subexpr: identifier}], ... ]
    C integer / boolean expressions of the Vdata transfer engine, taken from the preprocessed text of the
    *current* sources and translated expression-by-expression into Gallina (Z-valued; a C truth value is 0/1).
    The anchor regex must match exactly `count` times inside the function body (default 1; a 7th element gives
    another count -- VSread and VSwrite repeat the same expression in every case and all copies must agree);
    group 1 is the C expression.
spec["stmts"] = [ [file, function, regex, gallina-name] ]
    the statements of a function that match the regex, in textual order, as strings (header-size bookkeeping of
    VSsetname / VSsetclass)
spec["encode_order"] = [ [file, function, gallina-name] ]
    the sequence of ENCODE/DECODE macro uses in vpackvs / vunpackvs as a list of (width, field-name) pairs, in textual
    order of the source (so that dropping, adding or reordering a header field is visible to the proofs)
"""
import re


def _cond(repo, H, ent):
    f, fn, anchor, name, params, subst = ent[:6]
    count = ent[6] if len(ent) > 6 else 1
    body = H.func_body(H.src(repo, f), fn)
    ms = list(re.finditer(anchor, body))
    if len(ms) != count:
        raise ValueError("%s:%s: anchor %r matched %d times (need exactly %d)" % (f, fn, anchor, len(ms), count))
    exprs = set(" ".join(m.group(1).split()) for m in ms)
    if len(exprs) != 1:
        raise ValueError("%s:%s: anchor %r matched different expressions: %s" % (f, fn, anchor, sorted(exprs)))
    cexpr = exprs.pop()
    e = cexpr
    for k in sorted(subst, key=len, reverse=True):
        e = e.replace(k, " %s " % subst[k])
    e = re.sub(r"\(\s*(?:unsigned\s+)?(?:long|int32|int|uint32|size_t|uint16|int16)\s*\)", " ", e)
    env = {}
    env.update(H.all_enums(H.src(repo, f)))
    env.update(H.defines(repo, f))
    term = H.P(e, params, env).ternary_all()
    return ["(* %s: %s: %s *)" % (f, fn, cexpr.replace("*)", "* )").replace("(*", "( *")),
            "Definition %s %s : Z := %s." % (name, " ".join("(%s : Z)" % p for p in params), term)]


def _rstab(repo, H, f, name):
    raw = H.raw(repo, f)
    m = re.search(r"\b%s\s*\[\s*\]\s*=\s*\{(.*?)\}\s*;" % re.escape(name), raw, flags=re.S)
    if not m:
        raise ValueError("table %s not found in %s" % (name, f))
    env = {}
    env.update(H.all_enums(H.src(repo, f)))
    env.update(H.defines(repo, f))
    rows = re.findall(r"\{\s*\"([^\"]*)\"\s*,\s*([^,{}]+),\s*([^,{}]+),\s*([^,{}]+)\}", m.group(1))
    if not rows:
        raise ValueError("table %s: no rows" % name)
    if len(rows) != m.group(1).count("{"):
        raise ValueError("table %s: unsupported row shape" % name)
    items, isz = [], []
    for nm, ty, isize, order in rows:
        items.append("(([%s], %s), %s)" % ("; ".join(str(ord(c)) for c in nm), H.zlit(H.ceval(ty, env)),
                                           H.zlit(H.ceval(order, env))))
        isz.append(H.zlit(H.ceval(isize, env)))
    return ["(* %s: %s *)" % (f, name),
            "Definition %s : list ((list Z * Z) * Z) :=\n  [%s]." % (name, ";\n   ".join(items)),
            "Definition %s_isize : list Z := [%s]." % (name, "; ".join(isz))]


WIDTH = {"INT16": 2, "UINT16": 2, "INT32": 4, "UINT32": 4}


def _encode_order(repo, H, f, fn, name):
    # macros are expanded by cpp, so work on the raw text (comments stripped)
    raw = H.raw(repo, f)
    body = H.func_body(raw, fn)
    items = []
    for m in re.finditer(r"\b(U?INT(?:16|32))(ENCODE|DECODE)\s*\(\s*bb\s*,\s*([^;]*?)\)\s*;", body):
        arg = re.sub(r"\s+", "", m.group(3))
        arg = re.sub(r"^vs->", "", arg).replace("wlist.", "").replace("->", "_").replace(".", "_")
        arg = re.sub(r"\[i\]", "_i", arg)
        arg = re.sub(r"[^A-Za-z0-9_]", "_", arg)
        items.append("(%d, \"%s\"%%string)" % (WIDTH[m.group(1)], arg))
    if not items:
        raise ValueError("%s: no ENCODE/DECODE uses found" % fn)
    return ["(* %s: %s: order of the %s uses *)" % (f, fn, "ENCODE/DECODE"),
            "Definition %s : list (Z * string) :=\n  [%s]." % (name, "; ".join(items))]


def _skeleton(repo, H, f, fn, name):
    """DFKconvert calls and the pointer / offset updates around them, in textual order (preprocessed text)"""
    body = H.func_body(H.src(repo, f), fn)
    pat = re.compile(r"\bDFKconvert\s*\((?:[^;()]|\([^;()]*\))*\)\s*;|"
                     r"\b(?:b1|b2|src|dest|Src|offset|done|bytes|uvsize|int_size)\s*(?:\+=|=)[^;=][^;]*;")
    items = []
    for m in pat.finditer(body):
        st = " ".join(m.group(0).split())
        st = st.replace("(void *)", "").replace("(size_t)", "").replace("(int32)", "").replace("(int)", "")
        st = st.replace("(uint8 *)", "")
        items.append(st)
    if not items:
        raise ValueError("%s: empty skeleton" % fn)
    return ["(* %s: %s: conversion calls and pointer updates, textual order *)" % (f, fn),
            "Definition %s : list string :=\n  [%s]." % (name, ";\n   ".join('"%s"%%string' % i.replace('"', "'") for i in items))]


def _stmts(repo, H, f, fn, pattern, name):
    """statements of a function matching a regex, in textual order (preprocessed text), as strings"""
    body = H.func_body(H.src(repo, f), fn)
    items = [" ".join(m.group(0).split()) for m in re.finditer(pattern, body)]
    if not items:
        raise ValueError("%s: no statement matches %r" % (fn, pattern))
    return ["(* %s: %s: statements matching %s *)" % (f, fn, pattern.replace("*)", "* )")),
            "Definition %s : list string :=\n  [%s]." % (name, ";\n   ".join('"%s"%%string' % i.replace('"', "'") for i in items))]


def emit(repo, spec, H):
    out = []
    if spec.get("rstab"):
        out += _rstab(repo, H, spec["rstab"][0], spec["rstab"][1])
    for ent in spec.get("conds", []):
        out += _cond(repo, H, ent)
    if spec.get("encode_order") or spec.get("skeletons") or spec.get("stmts"):
        out.insert(0, "From Coq Require Import String.")
    for f, fn, name in spec.get("encode_order", []):
        out += _encode_order(repo, H, f, fn, name)
    for f, fn, name in spec.get("skeletons", []):
        out += _skeleton(repo, H, f, fn, name)
    for f, fn, pattern, name in spec.get("stmts", []):
        out += _stmts(repo, H, f, fn, pattern, name)
    return out
