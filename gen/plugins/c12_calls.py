"""C12 translator plugin: order of calls inside a function body.

spec["call_order"] = [[file, function, [callee, ...]], ...]
For each entry emits
  Definition <function>_calls : list Z := [...]
the sequence (in source order, after preprocessing) of the listed callees, each encoded as its index in the
given callee list.  The model composes the steps of HTPdelete/HTPcreate in exactly this order, so swapping two
calls in the C source changes the generated definition and the proofs that rely on the order break directly."""
import re


def emit(repo, spec, H):
    out = []
    for f, fn, callees in spec.get("call_order", []):
        body = H.func_body(H.src(repo, f), fn)
        hits = []
        for i, c in enumerate(callees):
            for m in re.finditer(r"\b%s\s*\(" % re.escape(c), body):
                hits.append((m.start(), i))
        hits.sort()
        out.append("(* %s: calls made by %s, in source order; codes: %s *)" % (
            f, fn, ", ".join("%d=%s" % (i, c) for i, c in enumerate(callees))))
        out.append("Definition %s_calls : list Z := [%s]." % (fn, "; ".join(str(i) for _, i in hits)))
    return out


def _table(H, txt, name, env):
    m = re.search(r"\b%s\s*\[[^\]]*\]\s*=\s*\{(.*?)\}\s*;" % re.escape(name), txt, flags=re.S)
    if not m:
        raise ValueError("table %s not found" % name)
    if "{" in m.group(1):
        raise ValueError("nested table %s unsupported" % name)
    return [H.ceval(" ".join(x.split()), env) for x in m.group(1).split(",") if x.strip()]


_emit_calls = emit


def emit(repo, spec, H):  # noqa: F811  (tables first, then call orders)
    out = []
    for f, name in spec.get("c12_tables", []):
        env = {}
        env.update(H.all_enums(H.src(repo, f)))
        env.update(H.defines(repo, f))
        vals = _table(H, H.src(repo, f), name, env)
        out.append("(* %s: static table %s[%d] *)" % (f, name, len(vals)))
        out.append("Definition %s : list Z := [%s]." % (name, "; ".join(H.zlit(v) for v in vals)))
    return out + _emit_calls(repo, spec, H)


def _exprs(repo, spec, H):
    """spec["c12_exprs"] = [[file, function, defname, [[c_lvalue, coq_param], ...], regex_with_one_group], ...]
    The (single) match of the regex inside the preprocessed body of the function is an integer expression over the
    listed C lvalues; it is translated with the stock expression translator into
      Definition <defname> (<params> : Z) : Z := ...
    so that an edit of that expression changes the generated definition (and breaks the proofs about it)."""
    out = []
    for f, fn, name, params, rx in spec.get("c12_exprs", []):
        body = H.func_body(H.src(repo, f), fn)
        ms = re.findall(rx, body, flags=re.S)
        if len(ms) != 1:
            raise ValueError("%s: expression for %s matched %d times in %s" % (f, name, len(ms), fn))
        e = " ".join(ms[0].split())
        txt = e
        for c, q in params:
            txt = txt.replace(c, q)
        env = {}
        env.update(H.defines(repo, f))
        term = H.P(txt, [q for _, q in params], env).ternary_all()
        out.append("(* %s: %s: %s *)" % (f, fn, e))
        out.append("Definition %s %s : Z := %s." % (name, " ".join("(%s : Z)" % q for _, q in params), term))
    return out


_emit_tables_calls = emit


def emit(repo, spec, H):  # noqa: F811
    return _emit_tables_calls(repo, spec, H) + _exprs(repo, spec, H)


def _tokens(repo, spec, H):
    """spec["c12_tokens"] = [[file, function, defname, [regex, ...]], ...]: the sequence (source order, preprocessed body of
    the function) of the listed tokens, each encoded as its index in the list -- statements such as 'refcount++' or an
    error exit, not only calls."""
    out = []
    for f, fn, name, rxs in spec.get("c12_tokens", []):
        body = H.func_body(H.src(repo, f), fn)
        hits = []
        for i, rx in enumerate(rxs):
            for m in re.finditer(rx, body):
                hits.append((m.start(), i))
        hits.sort()
        out.append("(* %s: tokens of %s in source order; codes: %s *)" % (f, fn, ", ".join("%d=/%s/" % (i, r.replace("*)", "* )")) for i, r in enumerate(rxs))))
        out.append("Definition %s : list Z := [%s]." % (name, "; ".join(str(i) for _, i in hits)))
    return out


_emit_before_tokens = emit


def emit(repo, spec, H):  # noqa: F811
    return _emit_before_tokens(repo, spec, H) + _tokens(repo, spec, H)
