"""C20 translator plugin: the guard conditions and width-relevant expressions of the limit-enforcing sites, taken from
the preprocessed text of the *current* sources and translated expression-by-expression into Gallina (Z-valued; a C
truth value is 0/1; casts to uint16/int32 become explicit modulo arithmetic; + - * become the wrapping 32-bit
operations add32/sub32/mul32 of coq/LimitsWidth.v, so the generated definitions ARE the C arithmetic).

spec["conds"] = [ [file, function, anchor-regex, gallina-name, [params], {c-subexpr: identifier}, nmatch?], ... ]
  The anchor regex must match exactly nmatch times (default 1) inside the function body and every match must give the
  same group 1, which is the C expression.  A guard that disappears from the source, or changes, therefore either breaks
  the translation (and with it every proof importing the file) or changes the model the proofs are about.
"""
import re


def emit(repo, spec, H):
    out = []
    for ent in spec.get("conds", []):
        f, fn, anchor, name, params, subst = ent[:6]
        want = ent[6] if len(ent) > 6 else 1
        body = H.func_body(H.src(repo, f), fn)
        ms = list(re.finditer(anchor, body))
        if len(ms) != want:
            raise ValueError("%s:%s: anchor %r matched %d times (need exactly %d)" % (f, fn, anchor, len(ms), want))
        exprs = set(" ".join(m.group(1).split()) for m in ms)
        if len(exprs) != 1:
            raise ValueError("%s:%s: anchor %r matched different expressions %r" % (f, fn, anchor, sorted(exprs)))
        cexpr = exprs.pop()
        e = cexpr
        for k in sorted(subst, key=len, reverse=True):
            e = e.replace(k, " %s " % subst[k])
        # value-preserving casts of already-narrow operands are dropped; (uint16)/(int32) of computed values are kept
        e = re.sub(r"\(\s*(?:unsigned|int|size_t|uint32|long)\s*\)", " ", e)
        env = {}
        env.update(H.all_enums(H.src(repo, f)))
        env.update(H.defines(repo, f))
        term = H.P(e, params, env).ternary_all()
        # int / int32 arithmetic of the C expression wraps: use the explicit-width operations of H4.LimitsWidth
        term = term.replace("(Z.add ", "(add32 ").replace("(Z.sub ", "(sub32 ").replace("(Z.mul ", "(mul32 ")
        out.append("(* %s: %s: %s *)" % (f, fn, cexpr.replace("*)", "* )").replace("(*", "( *")))
        out.append("Definition %s %s : Z := %s." % (name, " ".join("(%s : Z)" % p for p in params), term))
    return out
