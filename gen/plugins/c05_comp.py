"""C05 translator plugin: shapes of hcomp.c / crle.c / cskphuff.c that the built-in kinds do not cover.
   emit(repo, spec, H) -> Coq lines appended to Gen_Comp.v.  Anything unexpected raises (loud)."""
import re


def _switch_body(body, nth):
    ms = list(re.finditer(r"\bswitch\s*\(", body))
    if len(ms) <= nth:
        raise ValueError("switch #%d not found" % nth)
    i = body.index("{", ms[nth].end())
    j, depth = i + 1, 1
    while depth:
        if body[j] == "{":
            depth += 1
        elif body[j] == "}":
            depth -= 1
        j += 1
    return body[ms[nth].end():i], body[i + 1:j - 1]


def emit(repo, spec, H):
    out = ["From Coq Require Import String."]
    # 0a. constants whose C name collides with another file's (#define TMP_BUF_SIZE in crle.c and cskphuff.c)
    for cf, cname, coqname in spec.get("c05_renamed_consts", []):
        dd = H.defines(repo, cf)
        if cname not in dd:
            raise ValueError("%s: #define %s not found" % (cf, cname))
        out.append("(* %s: #define %s *)" % (cf, cname))
        out.append("Definition %s : Z := %s." % (coqname, H.zlit(H.ceval(dd[cname][1], dd))))
    # 0. lookup tables (the built-in "tables" kind does not accept initialisers spread over several lines)
    for tf, name in spec.get("c05_tables", []):
        m = re.search(r"\b%s\s*\[[^\]]*\]\s*=\s*\{(.*?)\}\s*;" % re.escape(name), H.src(repo, tf), flags=re.S)
        if not m or "{" in m.group(1):
            raise ValueError("table %s not found in %s" % (name, tf))
        vals = [H.ceval(x.strip(), {}) for x in m.group(1).split(",") if x.strip()]
        out.append("(* %s *)" % tf)
        out.append("Definition %s : list Z := [%s]." % (name, "; ".join(H.zlit(v) for v in vals)))
    f = "hdf/src/hcomp.c"
    txt = H.src(repo, f)
    env = {}
    env.update(H.all_enums(txt))
    env.update(H.defines(repo, f))
    # 1. HCPquery_encode_header: "coder_len += N" per coder case, and the two minimum lengths
    body = H.func_body(txt, "HCPquery_encode_header")
    m = re.search(r"coder_len\s*=\s*(\d+)\s*;", body)
    m2 = re.search(r"model_len\s*=\s*(\d+)\s*;", body)
    if not m or not m2:
        raise ValueError("HCPquery_encode_header: base lengths not found")
    out.append("(* %s: HCPquery_encode_header *)" % f)
    out.append("Definition hdr_coder_base_len : Z := %s." % m.group(1))
    out.append("Definition hdr_model_base_len : Z := %s." % m2.group(1))
    _, sw = _switch_body(body, 1)
    items = []
    for cm in re.finditer(r"case\s+([A-Za-z_0-9]+)\s*:\s*coder_len\s*\+=\s*(\d+)\s*;", sw):
        items.append("(%s, %s)" % (H.zlit(H.ceval(cm.group(1), env)), cm.group(2)))
    if len(items) < 3:
        raise ValueError("HCPquery_encode_header: coder switch not recognised")
    out.append("Definition hdr_coder_extra_len : list (Z * Z) := [%s]." % "; ".join(items))

    # 2. HCPencode_header / HCPdecode_header: per coder, the ordered list of field encodings (width in bytes, name)
    def fields(fn, enc):
        b = H.func_body(H.raw(repo, f), fn)
        # the coder switch is the last switch of the function
        nsw = len(re.findall(r"\bswitch\s*\(", b))
        _, sw = _switch_body(b, nsw - 1)
        rows = []
        parts = re.split(r"\bcase\s+([A-Za-z_0-9]+)\s*:", sw)
        for k in range(1, len(parts), 2):
            lab, code = parts[k], parts[k + 1]
            code = code.split("break;")[0]
            fl = []
            for fm in re.finditer(r"\b(U?INT)(16|32)(ENCODE|DECODE)\s*\(\s*p\s*,\s*([^;]*?)\)\s*;", code):
                if (fm.group(3) == "ENCODE") != enc:
                    raise ValueError("%s: unexpected %s" % (fn, fm.group(0)))
                arg = re.sub(r"\([a-z0-9_ ]+\)", "", fm.group(4))
                name = re.sub(r"[^A-Za-z0-9_]", "_", arg.strip().replace("c_info->", "").replace(".", "_")).strip("_")
                fl.append('(%d, "%s"%%string)' % (int(fm.group(2)) // 8, name))
            for fm in re.finditer(r"\*p\+\+", code):
                fl.append('(1, "byte"%string)')
            rows.append("(%s, [%s])" % (H.zlit(H.ceval(lab, env)), "; ".join(fl)))
        return rows
    out.append("(* %s: field layout written by HCPencode_header after the model/coder type words *)" % f)
    out.append("Definition hdr_encode_fields : list (Z * list (Z * string)) :=\n  [%s]." % ";\n   ".join(fields("HCPencode_header", True)))
    out.append("(* %s: field layout read by HCPdecode_header *)" % f)
    out.append("Definition hdr_decode_fields : list (Z * list (Z * string)) :=\n  [%s]." % ";\n   ".join(fields("HCPdecode_header", False)))
    # the fixed prefix of the special-element record (HCIwrite_header)
    b = H.func_body(H.raw(repo, f), "HCIwrite_header")
    pre = []
    for fm in re.finditer(r"\b(U?INT)(16|32)ENCODE\s*\(\s*p\s*,\s*([^;]*?)\)\s*;", b):
        arg = re.sub(r"\([a-z0-9_ ]+\)", "", fm.group(3)).strip()
        pre.append('(%d, "%s"%%string)' % (int(fm.group(2)) // 8, re.sub(r"[^A-Za-z0-9_]", "_", arg.replace("info->", "")).strip("_")))
    out.append("Definition hdr_prefix_fields : list (Z * string) := [%s]." % "; ".join(pre))

    # 3. crle.c: the count bytes / payload lengths the encoder and term emit, as integer expressions of buf_length
    f2 = "hdf/src/crle.c"
    t2 = H.src(repo, f2)
    env2 = {}
    env2.update(H.all_enums(t2))
    env2.update(H.defines(repo, f2))
    r2 = H.raw(repo, f2)
    enc = H.func_body(r2, "HCIcrle_encode")
    term = H.func_body(r2, "HCIcrle_term")
    dec = H.func_body(r2, "HCIcrle_decode")

    def exprs(b, pat):
        return [" ".join(x.split()) for x in re.findall(pat, b, flags=re.S)]

    def tr(e):
        e = e.replace("rle_info->buf_length", "bl").replace("(uint8)", "").replace("(unsigned)", "")
        return H.P(e, ["bl", "c"], env2).ternary_all()
    runs = exprs(enc, r"c\s*=\s*([^;]*?RLE_MIN_RUN\)?)\s*;")
    putc = exprs(enc, r"HDputc\(\(uint8\)\(([^;]*?)\),\s*info->aid\)")
    hwr = exprs(enc, r"Hwrite\(info->aid,\s*\(?([^,]*?)\)?,\s*rle_info->buffer\)")
    cmp_run = exprs(enc, r"if\s*\(rle_info->buf_length\s*>=\s*(RLE_MAX_RUN)\)")
    cmp_mix = exprs(enc, r"if\s*\(rle_info->buf_length\s*>=\s*(RLE_BUF_SIZE)\)")
    cmp_m2r = exprs(enc, r"if\s*\(rle_info->buf_length\s*>\s*(\(RLE_MIN_RUN - 1\))\)")
    setrun = exprs(enc, r"rle_info->buf_length\s*=\s*(RLE_MIN_RUN)\s*;")
    if len(runs) != 2 or len(putc) != 2 or len(hwr) != 2 or not (cmp_run and cmp_mix and cmp_m2r and setrun):
        raise ValueError("HCIcrle_encode: shape not recognised (%s %s %s)" % (runs, putc, hwr))
    out.append("(* %s: HCIcrle_encode -- emitted control bytes / payload lengths as functions of buf_length *)" % f2)
    out.append("Definition rle_enc_run_ctl_end (bl : Z) : Z := %s." % tr(runs[0]))
    out.append("Definition rle_enc_run_ctl_max (bl : Z) : Z := %s." % tr(runs[1]))
    out.append("Definition rle_enc_mix_ctl_torun (bl : Z) : Z := %s." % tr(putc[0]))
    out.append("Definition rle_enc_mix_len_torun (bl : Z) : Z := %s." % tr(hwr[0]))
    out.append("Definition rle_enc_mix_ctl_full (bl : Z) : Z := %s." % tr(putc[1]))
    out.append("Definition rle_enc_mix_len_full (bl : Z) : Z := %s." % tr(hwr[1]))
    out.append("Definition rle_enc_run_limit : Z := %s." % tr(cmp_run[0]))
    out.append("Definition rle_enc_mix_limit : Z := %s." % tr(cmp_mix[0]))
    out.append("Definition rle_enc_torun_keep : Z := %s." % tr(cmp_m2r[0]))
    out.append("Definition rle_enc_run_start : Z := %s." % tr(setrun[0]))
    truns = exprs(term, r"c\s*=\s*([^;]*?RLE_MIN_RUN\)?)\s*;")
    tputc = exprs(term, r"HDputc\(\(uint8\)\(\(([^;]*?)\)\),\s*info->aid\)")
    thwr = exprs(term, r"Hwrite\(info->aid,\s*([^,]*?),\s*rle_info->buffer\)")
    if len(truns) != 1 or len(tputc) != 1 or len(thwr) != 1:
        raise ValueError("HCIcrle_term: shape not recognised (%s %s %s)" % (truns, tputc, thwr))
    out.append("(* %s: HCIcrle_term *)" % f2)
    out.append("Definition rle_term_run_ctl (bl : Z) : Z := %s." % tr(truns[0]))
    out.append("Definition rle_term_mix_ctl (bl : Z) : Z := %s." % tr(tputc[0]))
    out.append("Definition rle_term_mix_len (bl : Z) : Z := %s." % tr(thwr[0]))
    dtest = exprs(dec, r"if\s*\((c\s*&\s*RUN_MASK)\)")
    dlen = exprs(dec, r"rle_info->buf_length\s*=\s*(\(c & COUNT_MASK\) \+ RLE_MIN_(?:RUN|MIX))\s*;")
    if len(dtest) != 1 or len(dlen) != 2:
        raise ValueError("HCIcrle_decode: shape not recognised (%s %s)" % (dtest, dlen))
    out.append("(* %s: HCIcrle_decode *)" % f2)
    out.append("Definition rle_dec_is_run (c : Z) : Z := %s." % tr(dtest[0]))
    out.append("Definition rle_dec_run_len (c : Z) : Z := %s." % tr(dlen[0]))
    out.append("Definition rle_dec_mix_len (c : Z) : Z := %s." % tr(dlen[1]))

    # 4. cskphuff.c: initial tree (expressions of the init loops)
    f3 = "hdf/src/cskphuff.c"
    t3 = H.src(repo, f3)
    env3 = {}
    env3.update(H.defines(repo, f3))
    r3 = H.raw(repo, f3)
    ib = H.func_body(r3, "HCIcskphuff_init")
    up = re.search(r"up\[k\]\[i\]\s*=\s*\(uint8\)\s*\(([^;]*)\)\s*;", ib)
    lf = re.search(r"left\[k\]\[j\]\s*=\s*\(unsigned\)\s*\(([^;]*)\)\s*;", ib)
    rt = re.search(r"right\[k\]\[j\]\s*=\s*\(unsigned\)\s*\(([^;]*)\)\s*;", ib)
    lim_i = re.search(r"for\s*\(i\s*=\s*0;\s*i\s*<\s*([A-Z_]+);", ib)
    lim_j = re.search(r"for\s*\(j\s*=\s*0;\s*j\s*<\s*([A-Z_]+);", ib)
    if not (up and lf and rt and lim_i and lim_j):
        raise ValueError("HCIcskphuff_init: shape not recognised")
    out.append("(* %s: HCIcskphuff_init *)" % f3)
    out.append("Definition skp_init_up (i : Z) : Z := Z.modulo %s 256." % H.P(up.group(1), ["i"], env3).ternary_all())
    out.append("Definition skp_init_left (j : Z) : Z := %s." % H.P(lf.group(1), ["j"], env3).ternary_all())
    out.append("Definition skp_init_right (j : Z) : Z := %s." % H.P(rt.group(1), ["j"], env3).ternary_all())
    out.append("Definition skp_init_up_count : Z := %d." % H.ceval(lim_i.group(1), env3))
    out.append("Definition skp_init_lr_count : Z := %d." % H.ceval(lim_j.group(1), env3))
    db = H.func_body(r3, "HCIcskphuff_decode")
    lw = re.search(r"while\s*\(a\s*<=\s*([A-Z_]+)\)", db)
    pl = re.search(r"plain\s*=\s*\(uint8\)\s*\(a\s*-\s*([A-Z_]+)\)", db)
    if not (lw and pl):
        raise ValueError("HCIcskphuff_decode: shape not recognised")
    out.append("Definition skp_dec_internal_max : Z := %d." % H.ceval(lw.group(1), env3))
    out.append("Definition skp_leaf_base : Z := %d." % H.ceval(pl.group(1), env3))
    # 6. hcomp.c position bookkeeping: the origin handling of HCPseek and the length rule of HCPread, as expressions
    #    over (offset/length argument, access_rec->posn, info->length); any other operand is an error
    rawc = H.raw(repo, f)

    def operand(e):
        e = " ".join(e.split())
        table = {"access_rec->posn": "posn", "((compinfo_t *)(access_rec->special_info))->length": "elen",
                 "info->length": "elen", "info->length - access_rec->posn": "(Z.sub elen posn)",
                 "access_rec->posn + length": "(Z.add posn length)"}
        if e not in table:
            raise ValueError("hcomp.c position bookkeeping: unexpected operand %r" % e)
        return table[e]
    sb = H.func_body(rawc, "HCPseek")
    adj = re.findall(r"if\s*\(origin\s*==\s*(DF_[A-Z]+)\)\s*offset\s*\+=\s*([^;]+);", sb)
    if [a for a, _ in adj] != ["DF_CURRENT", "DF_END"] or not re.search(r"if\s*\(offset\s*<\s*0\)\s*HGOTO_ERROR", sb) \
            or not re.search(r"access_rec->posn\s*=\s*offset\s*;", sb):
        raise ValueError("HCPseek: origin handling not recognised: %s" % adj)
    out.append("(* %s: HCPseek -- offset after the origin adjustment, rejection test, new position *)" % f)
    out.append("Definition hcp_seek_offset (origin offset posn elen : Z) : Z :=")
    out.append("  let offset := if Z.eqb origin %d then Z.add offset %s else offset in" % (H.ceval("DF_CURRENT", env), operand(adj[0][1])))
    out.append("  let offset := if Z.eqb origin %d then Z.add offset %s else offset in offset." % (H.ceval("DF_END", env), operand(adj[1][1])))
    out.append("Definition hcp_seek_rejects (offset : Z) : bool := Z.ltb offset 0.")
    rb = H.func_body(rawc, "HCPread")
    m0 = re.search(r"if\s*\(length\s*==\s*0\)\s*length\s*=\s*([^;]+);\s*else\s+if\s*\(length\s*<\s*0\s*\|\|\s*(.+?)\s+>\s+([^)]+)\)\s*HGOTO_ERROR", rb)
    if not m0 or not re.search(r"access_rec->posn\s*\+=\s*length\s*;", rb):
        raise ValueError("HCPread: length rule not recognised")
    out.append("(* %s: HCPread -- effective length, rejection test *)" % f)
    out.append("Definition hcp_read_length (length posn elen : Z) : Z := if Z.eqb length 0 then %s else length." % operand(m0.group(1)))
    out.append("Definition hcp_read_rejects (length posn elen : Z) : bool := if Z.eqb length 0 then false else orb (Z.ltb length 0) (Z.ltb %s %s)." % (operand(m0.group(3)), operand(m0.group(2))))
    # 7. hbitio.c Hbitseek: the test that decides whether another 4096-byte block has to be loaded
    f4 = "hdf/src/hbitio.c"
    hb = H.func_body(H.raw(repo, f4), "Hbitseek")
    mnb = re.search(r"new_block\s*=\s*\((.*?)\)\s*\?\s*TRUE\s*:\s*FALSE\s*;", hb, flags=re.S)
    if not mnb:
        raise ValueError("Hbitseek: new_block test not found")
    e4 = " ".join(mnb.group(1).split()).replace("bitfile_rec->block_offset", "block_offset")
    env4 = {}
    env4.update(H.defines(repo, f4))
    out.append("(* %s: Hbitseek -- new_block = (%s) ? TRUE : FALSE *)" % (f4, " ".join(mnb.group(1).split())))
    out.append("Definition hbitseek_new_block (byte_offset block_offset : Z) : Z := %s." % H.P(e4, ["byte_offset", "block_offset"], env4).ternary_all())
    # 8. the "restart from the beginning?" test of the stream coders' seek routines
    for cf, fn, var, coqname in (("hdf/src/crle.c", "HCPcrle_seek", "rle_info->offset", "rle_seek_restarts"),
                                 ("hdf/src/cskphuff.c", "HCPcskphuff_seek", "skphuff_info->offset", "skp_seek_restarts"),
                                 ("hdf/src/cdeflate.c", "HCPcdeflate_seek", "deflate_info->offset", "deflate_seek_restarts")):
        sbody = H.func_body(H.raw(repo, cf), fn)
        ms = re.findall(r"if\s*\(\s*(offset\s*[<>=!]+\s*%s)\s*\)\s*\{[^{}]*?(?:need to seek from the beginning|HCI[a-z]+_init|HCI[a-z]+_term)" % re.escape(var), sbody, flags=re.S)
        ms2 = re.findall(r"if\s*\(\s*(offset\s*[<>=!]+\s*%s)\s*\)" % re.escape(var), sbody)
        if len(ms2) != 1:
            raise ValueError("%s: restart test not recognised (%s)" % (fn, ms2))
        e8 = " ".join(ms2[0].split()).replace(var, "cur")
        out.append("(* %s: %s -- if (%s) restart from the beginning *)" % (cf, fn, " ".join(ms2[0].split())))
        out.append("Definition %s (offset cur : Z) : Z := %s." % (coqname, H.P(e8, ["offset", "cur"], {}).ternary_all()))
    # 9. hbitio.c Hbitwrite: the two copies of the "buffer is full" code (partial-byte path, whole-byte loop), as
    #    normalised statement lists
    wb = H.func_body(H.raw(repo, f4), "Hbitwrite")
    blocks = []
    for m9 in re.finditer(r"if\s*\(\+\+bitfile_rec->bytep\s*==\s*bitfile_rec->bytez\)\s*\{", wb):
        i9, depth = m9.end(), 1
        while depth and i9 < len(wb):
            depth += {"{": 1, "}": -1}.get(wb[i9], 0)
            i9 += 1
        body9 = wb[m9.end():i9 - 1]
        stm = [" ".join(x.split()) for x in re.split(r"[;{}]", body9)]
        blocks.append([x for x in stm if x])
    if len(blocks) != 2:
        raise ValueError("Hbitwrite: expected two copies of the buffer-full code, found %d" % len(blocks))
    out.append("(* %s: Hbitwrite -- the two copies of the buffer-full code *)" % f4)
    for n9, bl in enumerate(blocks, 1):
        out.append("Definition hbitwrite_full_block_%d : list string := [%s]." % (
            n9, "; ".join('"%s"%%string' % x.replace('"', "'") for x in bl)))
    # 5. hbitio.c: BITNUM / DATANUM are sizeof expressions
    d4 = H.defines(repo, f4)
    for nm in ("BITNUM", "DATANUM"):
        e = d4[nm][1]
        e = re.sub(r"sizeof\s*\(\s*uint8\s*\)", "1", e)
        e = re.sub(r"sizeof\s*\(\s*uint32\s*\)", "4", e)
        out.append("Definition %s : Z := %d." % (nm, H.ceval(e, {})))
    return out
