"""C08 translator plugin: things of the Vgroup code that are neither plain constants nor integer macros, taken
from the *current* sources.

spec["string_tables"] = [ [file, array-name], ... ]
    `const char *NAME[] = {"..", ".."}` after preprocessing -> Definition NAME : list (list Z)  (bytes of each string)
spec["codec_layout"] = [ [file, function, gallina-name], ... ]
    the sequence of ENCODE/DECODE macro invocations, of `for`/`if` headers and of the buffer-pointer moves of a
    pack/unpack routine, in source order, as a list of strings (comments and white space removed).  The model's
    codec is hand written; a lemma of VGProofs.v states that this list is the one the model was written against, so
    reordering / dropping / widening a field in the C source breaks that proof.
spec["stmt_anchors"] = [ [file, function, regex, gallina-name], ... ]
    group 1 of the regex (must match exactly once in the function body, white space squeezed) as a string.
spec["api_functions"] = [ [[file, ...], gallina-name], ... ]
    the names of the functions with external linkage defined in the files (definition = name at the start of a line
    followed by "(", return type on the line before, not `static`), in source order, as a list of strings.  A lemma
    accounts for every one of them (driven by the harness / reached through a driven one / other property), so a new
    entry point is noticed.
"""
import re


def _coq_string(s):
    return '"%s"%%string' % s.replace('"', '""')


def _squeeze(s):
    return re.sub(r"\s+", "", s)


def emit(repo, spec, H):
    out = []
    for f, name in spec.get("string_tables", []):
        txt = H.src(repo, f)
        m = re.search(r"\b%s\s*\[\s*\]\s*=\s*\{(.*?)\}\s*;" % re.escape(name), txt, flags=re.S)
        if not m:
            raise ValueError("%s: string table %s not found" % (f, name))
        items = []
        for part in m.group(1).split(","):
            part = part.strip()
            if not part:
                continue
            lits = re.findall(r'"(?:[^"\\]|\\.)*"', part)
            if not lits or re.sub(r'"(?:[^"\\]|\\.)*"', "", part).strip():
                raise ValueError("%s: %s: element is not a string literal: %r" % (f, name, part))
            bs = []
            for lit in lits:
                bs += H.c_string_bytes(lit)
            items.append("[%s]" % "; ".join(str(b) for b in bs))
        out.append("(* %s: %s[] after preprocessing *)" % (f, name))
        out.append("Definition %s : list (list Z) :=\n  [%s]." % (name, ";\n   ".join(items)))
    need_string = False
    for f, fn, gname in spec.get("codec_layout", []):
        body = H.func_body(H.raw(repo, f), fn)
        pat = re.compile(r"\b(U?INT(?:16|32)(?:ENCODE|DECODE))\s*\(([^;]*?)\)\s*;"
                         r"|\bfor\s*\(((?:[^()]|\([^()]*\))*)\)"
                         r"|\bif\s*\(((?:[^()]|\([^()]*\))*)\)"
                         r"|\b(bb\s*(?:\+=|=)\s*[^;]*);"
                         r"|(\*\s*bb\s*=\s*[^;]*);"
                         r"|(\*\s*size\s*=\s*[^;]*);"
                         r"|\b(else)\b")
        steps = []
        for m in pat.finditer(body):
            if m.group(1):
                steps.append("%s(%s)" % (m.group(1), _squeeze(m.group(2))))
            elif m.group(3) is not None:
                steps.append("for(%s)" % _squeeze(m.group(3)))
            elif m.group(4) is not None:
                steps.append("if(%s)" % _squeeze(m.group(4)))
            elif m.group(5):
                steps.append(_squeeze(m.group(5)))
            elif m.group(6):
                if _squeeze(m.group(6)) != "*bb=NULL":      # the declaration `uint8 *bb = NULL`
                    steps.append(_squeeze(m.group(6)))
            elif m.group(7):
                steps.append(_squeeze(m.group(7)))
            elif m.group(8):
                steps.append("else")
        if not steps:
            raise ValueError("%s: %s: no codec statements found" % (f, fn))
        need_string = True
        out.append("(* %s: %s: encode/decode statements and control headers in source order *)" % (f, fn))
        out.append("Definition %s : list string :=\n  [%s]." % (gname, ";\n   ".join(_coq_string(s) for s in steps)))
    for f, fn, rx, gname in spec.get("stmt_anchors", []):
        body = re.sub(r"\s+", " ", H.func_body(H.raw(repo, f), fn))
        ms = list(re.finditer(rx, body))
        if len(ms) != 1:
            raise ValueError("%s: %s: anchor %r matched %d times (need exactly 1)" % (f, fn, rx, len(ms)))
        need_string = True
        out.append("(* %s: %s *)" % (f, fn))
        out.append("Definition %s : string := %s." % (gname, _coq_string(_squeeze(ms[0].group(1)))))
    for files, gname in spec.get("api_functions", []):
        names = []
        for f in files:
            lines = H.raw(repo, f).split("\n")
            prev = ""
            for ln in lines:
                m = re.match(r"^([A-Za-z_][A-Za-z0-9_]*)\s*\(", ln)
                if m and prev and not prev.startswith("static") and not prev.startswith("#") and \
                        re.match(r"^[A-Za-z_][A-Za-z0-9_ \*]*$", prev) and m.group(1) not in ("if", "while", "for", "switch", "return"):
                    names.append(m.group(1))
                if ln.strip():
                    prev = ln.strip()
        if not names:
            raise ValueError("api_functions: no function definitions found in %s" % files)
        need_string = True
        out.append("(* functions with external linkage defined in %s *)" % ", ".join(files))
        out.append("Definition %s : list string :=\n  [%s]." % (gname, ";\n   ".join(_coq_string(n) for n in names)))
    if need_string:
        out.insert(0, "From Coq Require Import String.")
    return out
