"""C03 translator plugin: boundary conditions and update expressions of the SD hyperslab engine, taken from the
preprocessed text of the *current* sources and translated expression-by-expression into Gallina (Z-valued; a C
truth value is 0/1), plus the IEEE bit patterns of the default float fill values.

spec["conds"] = [ [file, function, anchor-regex, gallina-name, [params], {c-subexpr: identifier, ...}], ... ]
  The anchor regex must match exactly once inside the function body; its group 1 is the C expression.
spec["float_bits"] = [ [file, macro, width-bytes], ... ]  ->  Definition <macro>_bits : Z  (unsigned integer whose
  little-endian bytes are the memory image of the constant on this host)
"""
import re
import struct


def emit(repo, spec, H):
    out = []
    for f, fn, anchor, name, params, subst in spec.get("conds", []):
        body = H.func_body(H.src(repo, f), fn)
        ms = list(re.finditer(anchor, body))
        if len(ms) != 1:
            raise ValueError("%s:%s: anchor %r matched %d times (need exactly 1)" % (f, fn, anchor, len(ms)))
        cexpr = " ".join(ms[0].group(1).split())
        e = cexpr
        for k in sorted(subst, key=len, reverse=True):
            e = e.replace(k, " %s " % subst[k])
        e = re.sub(r"\(\s*(?:unsigned\s+)?(?:long|int32|int|uint32|size_t)\s*\)", " ", e)
        env = {}
        env.update(H.all_enums(H.src(repo, f)))
        env.update(H.defines(repo, f))
        term = H.P(e, params, env).ternary_all()
        out.append("(* %s: %s: %s *)" % (f, fn, cexpr.replace("*)", "* )").replace("(*", "( *")))
        out.append("Definition %s %s : Z := %s." % (name, " ".join("(%s : Z)" % p for p in params), term))
    for f, macro, width in spec.get("float_bits", []):
        d = H.defines(repo, f)
        if macro not in d:
            raise ValueError("%s: #define %s not found" % (f, macro))
        lit = d[macro][1].strip()
        m = re.fullmatch(r"\(?\s*([-+]?[0-9.]+(?:[eE][-+]?\d+)?)([fFlL]?)\s*\)?", lit)
        if not m:
            raise ValueError("%s: %s is not a floating literal: %r" % (f, macro, lit))
        x = float(m.group(1))
        raw = struct.pack("<f" if width == 4 else "<d", x)
        out.append("(* %s: #define %s %s  (IEEE-754 image, %d bytes) *)" % (f, macro, lit, width))
        out.append("Definition %s_bits : Z := %d." % (macro, int.from_bytes(raw, "little")))
    return out
