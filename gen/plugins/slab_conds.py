"""C03 translator plugin: boundary conditions and update expressions of the SD hyperslab engine, taken from the
preprocessed text of the *current* sources and translated expression-by-expression into Gallina (Z-valued; a C
truth value is 0/1), plus the IEEE bit patterns of the default float fill values.

spec["conds"] = [ [file, function, anchor-regex, gallina-name, [params], {c-subexpr: identifier, ...}], ... ]
  The anchor regex must match exactly once inside the function body; its group 1 is the C expression.
spec["float_bits"] = [ [file, macro, width-bytes], ... ]  ->  Definition <macro>_bits : Z  (unsigned integer whose
  little-endian bytes are the memory image of the constant on this host)
"""
import re
import struct


def emit(repo, spec, H):
    out = []
    for f, fn, anchor, name, params, subst in spec.get("conds", []):
        body = H.func_body(H.src(repo, f), fn)
        ms = list(re.finditer(anchor, body))
        if len(ms) != 1:
            raise ValueError("%s:%s: anchor %r matched %d times (need exactly 1)" % (f, fn, anchor, len(ms)))
        cexpr = " ".join(ms[0].group(1).split())
        e = cexpr
        for k in sorted(subst, key=len, reverse=True):
            e = e.replace(k, " %s " % subst[k])
        e = re.sub(r"\(\s*(?:unsigned\s+)?(?:long|int32|int|uint32|size_t)\s*\)", " ", e)
        env = {}
        env.update(H.all_enums(H.src(repo, f)))
        env.update(H.defines(repo, f))
        term = H.P(e, params, env).ternary_all()
        out.append("(* %s: %s: %s *)" % (f, fn, cexpr.replace("*)", "* )").replace("(*", "( *")))
        out.append("Definition %s %s : Z := %s." % (name, " ".join("(%s : Z)" % p for p in params), term))
    # do { ...; } while (cond);  loops whose body is a straight-line sequence of updates of the listed variables:
    # the updates are emitted in SOURCE ORDER as nested lets, so a reordering changes the generated function.
    for f, fn, nth, name, vars_, init_anchor in spec.get("seq_loops", []):
        body = H.func_body(H.src(repo, f), fn)
        env = {}
        env.update(H.all_enums(H.src(repo, f)))
        env.update(H.defines(repo, f))
        loops = list(re.finditer(r"\bdo\s*\{((?:[^{}]|\{[^{}]*\})*)\}\s*while\s*\(([^;]*)\)\s*;", body))
        if len(loops) <= nth:
            raise ValueError("%s:%s: do-while #%d not found (%d present)" % (f, fn, nth, len(loops)))
        lb, cond = loops[nth].group(1), " ".join(loops[nth].group(2).split())
        flat = re.sub(r"\{[^{}]*\}", " ", lb)          # drop nested blocks (the error exits)
        ups = []
        for st in flat.split(";"):
            st = " ".join(st.split())
            m = re.fullmatch(r"(?:if\s*\(.*\)\s*)?([A-Za-z_][A-Za-z0-9_]*)\s*(-=|\+=|=)\s*(.+)", st)
            if not m or m.group(1) not in vars_:
                continue
            rhs = m.group(3)
            if m.group(2) != "=":
                rhs = "%s %s (%s)" % (m.group(1), m.group(2)[0], rhs)
            ups.append((m.group(1), rhs, st))
        if not ups:
            raise ValueError("%s:%s: do-while #%d has no updates of %s" % (f, fn, nth, vars_))
        out.append("(* %s: %s: do-while #%d, updates in source order: %s ; while (%s) *)" % (
            f, fn, nth, " ; ".join(u[2] for u in ups).replace("(*", "( *").replace("*)", "* )"), cond))
        lets = "".join("let %s := %s in " % (v, H.P(rhs, vars_, env).ternary_all()) for v, rhs, _ in ups)
        out.append("Definition %s_step %s : %s := %s(%s)." % (
            name, " ".join("(%s : Z)" % v for v in vars_), " * ".join("Z" for _ in vars_), lets, ", ".join(vars_)))
        out.append("Definition %s_more %s : Z := %s." % (
            name, " ".join("(%s : Z)" % v for v in vars_), H.P(cond, vars_, env).ternary_all()))
        inits = list(re.finditer(init_anchor, body))
        if len(inits) <= nth:
            raise ValueError("%s:%s: initial value anchor matched %d times, need > %d" % (f, fn, len(inits), nth))
        ie = " ".join(inits[nth].group(1).split())
        out.append("(* %s: %s: initial %s before do-while #%d: %s *)" % (f, fn, vars_[-1], nth, ie.replace("(*", "( *").replace("*)", "* )")))
        out.append("Definition %s_init %s : Z := %s." % (name, "(%s : Z)" % vars_[0], H.P(ie, [vars_[0]], env).ternary_all()))
    # the n-th .. occurrences of one call pattern inside a function: group 1 of the regex is an integer expression;
    # the number of occurrences must equal the number of names (so a removed / added call is loud)
    for f, fn, rx, names, params, subst in spec.get("call_args", []):
        body = H.func_body(H.src(repo, f), fn)
        ms = list(re.finditer(rx, body))
        if len(ms) != len(names):
            raise ValueError("%s:%s: call pattern %r occurs %d times, %d expected" % (f, fn, rx, len(ms), len(names)))
        env = {}
        env.update(H.all_enums(H.src(repo, f)))
        env.update(H.defines(repo, f))
        for m_, name in zip(ms, names):
            cexpr = " ".join(m_.group(1).split())
            e = cexpr
            for k in sorted(subst, key=len, reverse=True):
                e = e.replace(k, " %s " % subst[k])
            out.append("(* %s: %s: %s  <- argument %s *)" % (f, fn, " ".join(m_.group(0).split()).replace("(*", "( *").replace("*)", "* )"), cexpr))
            out.append("Definition %s %s : Z := %s." % (name, " ".join("(%s : Z)" % p for p in params),
                                                        H.P(e, params, env).ternary_all()))
    # a statement that must be reached: inside the block that starts at `start`, every `return` in front of the
    # `target` statement must be guarded by `allowed` (an I/O failure); the definition is 1 if so, else 0
    for f, fn, start, target, allowed, name in spec.get("guarded_returns", []):
        body = H.func_body(H.src(repo, f), fn)
        ms = re.search(start, body)
        mt = re.search(target, body[ms.end():]) if ms else None
        if not ms or not mt:
            raise ValueError("%s:%s: block start / target statement not found" % (f, fn))
        seg = body[ms.end():ms.end() + mt.start()]
        rets = [(m_.start(), " ".join(seg[max(0, seg.rfind(";", 0, m_.start()), seg.rfind("{", 0, m_.start()),
                                             seg.rfind("}", 0, m_.start())) + 1:m_.end()].split()))
                for m_ in re.finditer(r"\breturn\b[^;]*;", seg)]
        bad = [r for _, r in rets if not re.fullmatch(allowed, r)]
        out.append("(* %s: %s: returns in front of the statement %r: %s *)" % (
            f, fn, target, "; ".join(r for _, r in rets).replace("(*", "( *").replace("*)", "* )") or "none"))
        out.append("Definition %s : Z := %d." % (name, 0 if bad else 1))
    for f, macro, width in spec.get("float_bits", []):
        d = H.defines(repo, f)
        if macro not in d:
            raise ValueError("%s: #define %s not found" % (f, macro))
        lit = d[macro][1].strip()
        m = re.fullmatch(r"\(?\s*([-+]?[0-9.]+(?:[eE][-+]?\d+)?)([fFlL]?)\s*\)?", lit)
        if not m:
            raise ValueError("%s: %s is not a floating literal: %r" % (f, macro, lit))
        x = float(m.group(1))
        raw = struct.pack("<f" if width == 4 else "<d", x)
        out.append("(* %s: #define %s %s  (IEEE-754 image, %d bytes) *)" % (f, macro, lit, width))
        out.append("Definition %s_bits : Z := %d." % (macro, int.from_bytes(raw, "little")))
    return out
