"""C17 translator plugin.

spec["exprs"] = [ [file, function, anchor-regex, gallina-name, [params], {c-subexpr: identifier}], ... ]
    The anchor regex must match exactly once in the (preprocessed) body of the function; its group 1 is a C integer
    expression, translated expression-by-expression into a Z-valued Gallina function.
spec["skeletons"] = [ [file, function, [watched call names], [watched condition substrings], [statement regexes]?], ... ]
    -> Definition <function>_skel : list string  =  the watched calls (with their argument text, blanks removed) and
    the `if (...)` conditions mentioning one of the watched substrings, plus `else`, in textual order, taken from
    the preprocessed body of the function in the *current* sources.  The model's proofs contain the expected
    skeleton literally, so a dropped / reordered / re-guarded write breaks a proof.  `for (...)` headers mentioning
    a watched substring are recorded like conditions; the optional fifth element lists regexes of statements that
    are recorded too (text with blanks removed), e.g. the index resets of a block-list walk.
spec["pattern_census"] = [ [[files], regex, gallina-name], ... ]   same, for every match of an arbitrary regex
spec["assign_census"] = [ [[files], lvalue-regex, gallina-name], ... ]
    -> Definition <name> : list string = "function: statement" for EVERY assignment / increment of the lvalue in
    the listed files (comments stripped, not preprocessed), in textual order.  A theorem that depends on "these are
    all the places that change X" states the list literally.
"""
import re


def _scan_call(body, i):
    """body[i] == '(' -> index just after the matching ')'"""
    depth, j = 0, i
    while j < len(body):
        if body[j] == "(":
            depth += 1
        elif body[j] == ")":
            depth -= 1
            if depth == 0:
                return j + 1
        j += 1
    raise ValueError("unbalanced parentheses")


def emit(repo, spec, H):
    out = []
    for f, fn, anchor, name, params, subst in spec.get("exprs", []):
        body = H.func_body(H.src(repo, f), fn)
        ms = list(re.finditer(anchor, body))
        if len(ms) != 1:
            raise ValueError("%s:%s: anchor %r matched %d times (need exactly 1)" % (f, fn, anchor, len(ms)))
        cexpr = " ".join(ms[0].group(1).split())
        e = cexpr
        for k in sorted(subst, key=len, reverse=True):
            e = e.replace(k, " %s " % subst[k])
        e = re.sub(r"\(\s*(?:unsigned\s+)?(?:long|int32|int|uint32|size_t)\s*\)", " ", e)
        env = {}
        env.update(H.all_enums(H.src(repo, f)))
        env.update(H.defines(repo, f))
        term = H.P(e, params, env).ternary_all()
        out.append("(* %s: %s: %s *)" % (f, fn, cexpr.replace("*)", "* )").replace("(*", "( *")))
        out.append("Definition %s %s : Z := %s." % (name, " ".join("(%s : Z)" % p for p in params), term))
    if spec.get("skeletons"):
        out.append("Local Open Scope string_scope.")
    for ent in spec.get("skeletons", []):
        f, fn, calls, conds = ent[0], ent[1], ent[2], ent[3]
        stmts = ent[4] if len(ent) > 4 else []
        body = H.func_body(H.src(repo, f), fn)
        toks = []
        alts = [r"\b(%s)\s*\(" % "|".join(re.escape(c) for c in calls) if calls else r"(\b\B)x", r"\bif\s*\(", r"\bfor\s*\(",
                r"\belse\b"] + ["(?P<st%d>%s)" % (i, x) for i, x in enumerate(stmts)]
        pat = re.compile("|".join(alts))
        pos = 0
        while True:
            m = pat.search(body, pos)
            if not m:
                break
            if m.group(0).startswith("else"):
                toks.append("else")
                pos = m.end()
                continue
            if any(m.groupdict().get("st%d" % i) for i in range(len(stmts))):
                toks.append(re.sub(r"\s+", "", m.group(0)))
                pos = m.end()
                continue
            lp = m.end() - 1
            rp = _scan_call(body, lp)
            inner = re.sub(r"\s+", "", body[lp:rp])
            if m.group(1):
                toks.append(m.group(1) + inner)
                pos = rp
            else:
                kw = "for" if m.group(0).startswith("for") else "if"
                if any(c in inner for c in conds):
                    # a watched condition / loop header; calls inside it are listed after it
                    toks.append(kw + inner)
                pos = lp + 1
        # drop `else` tokens that do not follow a watched structure (keep it simple: keep all; the list is literal)
        items = "; ".join('"%s"' % t.replace('"', "'") for t in toks)
        out.append("(* %s: %s -- ordered skeleton of watched calls / conditions *)" % (f, fn))
        out.append("Definition %s_skel : list string :=\n  [%s]." % (fn, items))
    census = [(files, None, lv, name) for files, lv, name in spec.get("assign_census", [])] + \
             [(files, pat, pat, name) for files, pat, name in spec.get("pattern_census", [])]
    for files, rawpat, lv, name in census:
        items = []
        rx = re.compile(rawpat) if rawpat else re.compile(r"(?:\+\+|--)\s*\(?\s*%s\s*\)?|%s\s*(?:\+\+|--)|%s\s*(?:[-+*/|&^]|<<|>>)?=(?!=)[^;]*" % (lv, lv, lv))
        for f in files:
            txt = H.raw(repo, f)
            # top-level function bodies
            depth, i, start, fname = 0, 0, None, None
            spans = []
            while i < len(txt):
                ch = txt[i]
                if ch == "{":
                    if depth == 0:
                        head = txt[max(0, i - 600):i]
                        mm = re.search(r"([A-Za-z_][A-Za-z0-9_]*)\s*\([^;{}]*\)\s*$", head)
                        fname, start = (mm.group(1) if mm else "?"), i
                    depth += 1
                elif ch == "}":
                    depth -= 1
                    if depth == 0 and start is not None:
                        spans.append((fname, start, i))
                        start = None
                i += 1
            for fname, a, b in spans:
                for m in rx.finditer(txt, a, b):
                    items.append("%s: %s" % (fname, re.sub(r"\s+", "", m.group(0))))
        out.append("(* every %s %s in %s *)" % ("occurrence of" if rawpat else "assignment to",
                                                  lv.replace("\\", "").replace("*)", "* )").replace("(*", "( *"), ", ".join(files)))
        out.append("Definition %s : list string :=\n  [%s]." % (name, ";\n   ".join('"%s"' % t.replace('"', "'") for t in items)))
    if spec.get("skeletons"):
        out.append("Local Close Scope string_scope.")
    return out
