"""C17 translator plugin.

spec["exprs"] = [ [file, function, anchor-regex, gallina-name, [params], {c-subexpr: identifier}], ... ]
    The anchor regex must match exactly once in the (preprocessed) body of the function; its group 1 is a C integer
    expression, translated expression-by-expression into a Z-valued Gallina function.
spec["skeletons"] = [ [file, function, [watched call names], [watched condition substrings]], ... ]
    -> Definition <function>_skel : list string  =  the watched calls (with their argument text, blanks removed) and
    the `if (...)` conditions mentioning one of the watched substrings, plus `else`, in textual order, taken from
    the preprocessed body of the function in the *current* sources.  The model's proofs contain the expected
    skeleton literally, so a dropped / reordered / re-guarded write breaks a proof.
"""
import re


def _scan_call(body, i):
    """body[i] == '(' -> index just after the matching ')'"""
    depth, j = 0, i
    while j < len(body):
        if body[j] == "(":
            depth += 1
        elif body[j] == ")":
            depth -= 1
            if depth == 0:
                return j + 1
        j += 1
    raise ValueError("unbalanced parentheses")


def emit(repo, spec, H):
    out = []
    for f, fn, anchor, name, params, subst in spec.get("exprs", []):
        body = H.func_body(H.src(repo, f), fn)
        ms = list(re.finditer(anchor, body))
        if len(ms) != 1:
            raise ValueError("%s:%s: anchor %r matched %d times (need exactly 1)" % (f, fn, anchor, len(ms)))
        cexpr = " ".join(ms[0].group(1).split())
        e = cexpr
        for k in sorted(subst, key=len, reverse=True):
            e = e.replace(k, " %s " % subst[k])
        e = re.sub(r"\(\s*(?:unsigned\s+)?(?:long|int32|int|uint32|size_t)\s*\)", " ", e)
        env = {}
        env.update(H.all_enums(H.src(repo, f)))
        env.update(H.defines(repo, f))
        term = H.P(e, params, env).ternary_all()
        out.append("(* %s: %s: %s *)" % (f, fn, cexpr.replace("*)", "* )").replace("(*", "( *")))
        out.append("Definition %s %s : Z := %s." % (name, " ".join("(%s : Z)" % p for p in params), term))
    if spec.get("skeletons"):
        out.append("Local Open Scope string_scope.")
    for f, fn, calls, conds in spec.get("skeletons", []):
        body = H.func_body(H.src(repo, f), fn)
        toks = []
        pat = re.compile(r"\b(%s)\s*\(|\bif\s*\(|\belse\b" % "|".join(re.escape(c) for c in calls))
        pos = 0
        while True:
            m = pat.search(body, pos)
            if not m:
                break
            if m.group(0).startswith("else"):
                toks.append("else")
                pos = m.end()
                continue
            lp = m.end() - 1
            rp = _scan_call(body, lp)
            inner = re.sub(r"\s+", "", body[lp:rp])
            if m.group(1):
                toks.append(m.group(1) + inner)
                pos = rp
            else:
                if any(c in inner for c in conds):
                    # a watched condition; calls inside the condition are listed after it
                    toks.append("if" + inner)
                pos = lp + 1
        # drop `else` tokens that do not follow a watched structure (keep it simple: keep all; the list is literal)
        items = "; ".join('"%s"' % t.replace('"', "'") for t in toks)
        out.append("(* %s: %s -- ordered skeleton of watched calls / conditions *)" % (f, fn))
        out.append("Definition %s_skel : list string :=\n  [%s]." % (fn, items))
    if spec.get("skeletons"):
        out.append("Local Close Scope string_scope.")
    return out
