#!/usr/bin/env python3
"""Translator: constants, enums, lookup tables and integer macros of the current /repo sources
-> coq/gen/Gen_*.v   (DESIGN.md 4.1).  Usage: gen_consts.py <repo> <outdir>

Driven by gen/spec.d/*.json.  Each spec file is
  { "module": "Gen_X",
    "consts":  [ ["hdf/src/hlimits.h", ["MAX_REF", ...]], ... ],         #define NAME <int expr>
    "strings": [ ["hdf/src/hfile_priv.h", ["HDFMAGIC"]] ],               #define NAME "..." -> list of byte values
    "enums":   [ ["hdf/src/hcomp.h", ["COMP_CODE_NONE", ...]] ],         enumerators (auto-increment handled)
    "tables":  [ ["hdf/src/bitvect.c", "bv_first_zero"], ... ],          static const T name[..] = { ints }
    "macros":  [ ["hdf/src/hfile_priv.h", "BASETAG", ["t"]] ]            #define NAME(args) <int expr over args>
  }
Only these shapes are handled; anything else is an error (exit 1) so that a source edit the
translator cannot follow is loud.  Output files are rewritten only if their content changes.
"""
import glob
import json
import os
import re
import sys

CAST = re.compile(r"\(\s*(?:const\s+)?(?:unsigned\s+|signed\s+)?(?:u?int(?:8|16|32|64|n)?|uintn|intn|long|short|char|size_t|"
                  r"hdf_[a-z_]+_t|atom_t|group_t|float32|float64|uchar8|char8)\s*\*?\s*\)")


def strip_comments(s):
    s = re.sub(r"/\*.*?\*/", " ", s, flags=re.S)
    s = re.sub(r"//[^\n]*", " ", s)
    return s


_cache = {}
INCS = []


def _cpp(repo, f, extra):
    import subprocess
    cmd = ["gcc", "-E", "-w", "-DHDF4_VERIF", "-DHAVE_NETCDF"] + extra + ["-I" + i for i in INCS] + [os.path.join(repo, f)]
    p = subprocess.run(cmd, stdout=subprocess.PIPE, stderr=subprocess.PIPE)
    if p.returncode != 0:
        raise ValueError("cpp failed on %s: %s" % (f, p.stderr.decode()[-500:]))
    return p.stdout.decode("utf-8", "replace")


def src(repo, f):
    """Preprocessed text of a source/header (conditionals resolved by the real preprocessor)."""
    k = ("src", f)
    if k not in _cache:
        _cache[k] = _cpp(repo, f, ["-P"])
    return _cache[k]


def raw(repo, f):
    k = ("raw", f)
    if k not in _cache:
        txt = open(os.path.join(repo, f), errors="replace").read()
        _cache[k] = strip_comments(txt).replace("\\\n", " ")
    return _cache[k]


def defines(repo, f):
    """All macro definitions in force at the end of preprocessing f (gcc -E -dM)."""
    k = ("def", f)
    if k not in _cache:
        d = {}
        for m in re.finditer(r"(?m)^#define[ \t]+([A-Za-z_][A-Za-z0-9_]*)(\([^)]*\))?[ \t]*(.*)$", _cpp(repo, f, ["-dM"])):
            d[m.group(1)] = (m.group(2), m.group(3).strip())
        _cache[k] = d
    return _cache[k]


def all_enums(txt):
    vals = {}
    for m in re.finditer(r"\benum\b[^{;]*\{([^}]*)\}", txt, flags=re.S):
        cur = -1
        for item in m.group(1).split(","):
            item = item.strip()
            if not item:
                continue
            if "=" in item:
                n, e = item.split("=", 1)
                try:
                    cur = ceval(e, vals)
                except Exception:
                    cur = cur + 1
                vals[n.strip()] = cur
            else:
                cur += 1
                vals[item] = cur
    return vals


def func_body(txt, name):
    m = re.search(r"\b%s\s*\([^;{)]*\)\s*\{" % re.escape(name), txt)
    if not m:
        raise ValueError("function %s not found" % name)
    i = m.end()
    depth = 1
    while depth and i < len(txt):
        if txt[i] == "{":
            depth += 1
        elif txt[i] == "}":
            depth -= 1
        i += 1
    return txt[m.end():i - 1]


def switch_table(txt, fname, env, nth=0):
    """First (nth) switch statement of function fname -> list of (labels, assigns dict, return expr or None)."""
    body = func_body(txt, fname)
    ms = list(re.finditer(r"\bswitch\s*\(", body))
    if len(ms) <= nth:
        raise ValueError("no switch #%d in %s" % (nth, fname))
    i = body.index("{", ms[nth].end())
    j, depth = i + 1, 1
    while depth:
        if body[j] == "{":
            depth += 1
        elif body[j] == "}":
            depth -= 1
        j += 1
    sw = body[i + 1:j - 1]
    rows, labels, assigns, ret, fresh = [], [], {}, None, True
    pos = 0
    tokre = re.compile(r"\s*(?:case\s+(?P<case>[^:]+?)\s*:|(?P<default>default)\s*:|(?P<lhs>[A-Za-z_][A-Za-z0-9_]*)\s*=\s*(?P<rhs>[^;]+);|"
                       r"return\s*(?P<ret>[^;]*);|(?P<brk>break)\s*;|(?P<other>[^;{}]*[;{}]))", re.S)
    while pos < len(sw):
        m = tokre.match(sw, pos)
        if not m or m.end() == pos:
            break
        pos = m.end()
        if m.group("case") is not None or m.group("default"):
            if not fresh:
                pass
            lab = "default" if m.group("default") else ceval(m.group("case"), env)
            labels.append(lab)
            fresh = False
        elif m.group("lhs"):
            assigns[m.group("lhs")] = m.group("rhs").strip()
        elif m.group("ret") is not None or m.group("brk"):
            if m.group("ret") is not None:
                ret = m.group("ret").strip()
            if labels:
                rows.append((labels, assigns, ret))
            labels, assigns, ret, fresh = [], {}, None, True
    if labels:
        rows.append((labels, assigns, ret))
    return rows


def c_int(tok):
    t = tok.rstrip("uUlL")
    if t.lower().startswith("0x"):
        return int(t, 16)
    if len(t) > 1 and t[0] == "0" and t.isdigit():
        return int(t, 8)
    return int(t)


def ceval(expr, env, depth=0):
    """Evaluate a C integer constant expression with macro env (name -> (params, body) or int)."""
    if depth > 40:
        raise ValueError("macro recursion")
    e = CAST.sub(" ", expr)
    e = re.sub(r"'(.)'", lambda m: str(ord(m.group(1))), e)

    def sub_ident(m):
        n = m.group(0)
        if n in env:
            v = env[n]
            if isinstance(v, int):
                return "(%d)" % v
            params, body = v
            if params is None:
                return "(%d)" % ceval(body, env, depth + 1)
        raise ValueError("unknown identifier %s in %r" % (n, expr))
    e = re.sub(r"\b0[xX][0-9a-fA-F]+[uUlL]*\b|\b\d+[uUlL]*\b", lambda m: str(c_int(m.group(0))), e)
    e = re.sub(r"\b[A-Za-z_][A-Za-z0-9_]*\b", sub_ident, e)
    e = e.replace("/", "//").replace("&&", " and ").replace("||", " or ").replace("!", " not ")
    if not re.fullmatch(r"[0-9\s()+\-*/%<>&|^~andornt=]*", e):
        raise ValueError("unsupported expression %r -> %r" % (expr, e))
    return int(eval(e, {"__builtins__": {}}, {}))


def c_string_bytes(lit):
    m = re.fullmatch(r'\s*"(.*)"\s*', lit)
    if not m:
        raise ValueError("not a string literal: %r" % lit)
    s, out, i = m.group(1), [], 0
    while i < len(s):
        if s[i] == "\\":
            mm = re.match(r"\\([0-7]{1,3})", s[i:])
            if mm:
                out.append(int(mm.group(1), 8))
                i += len(mm.group(0))
                continue
            mm = re.match(r"\\x([0-9a-fA-F]{1,2})", s[i:])
            if mm:
                out.append(int(mm.group(1), 16))
                i += len(mm.group(0))
                continue
            esc = {"n": 10, "t": 9, "0": 0, "\\": 92, '"': 34, "r": 13}
            out.append(esc[s[i + 1]])
            i += 2
        else:
            out.append(ord(s[i]))
            i += 1
    return out


def table(txt, name, env):
    m = re.search(r"\b%s\s*\[[^\]]*\]\s*=\s*\{(.*?)\}\s*;" % re.escape(name), txt, flags=re.S)
    if not m:
        raise ValueError("table %s not found" % name)
    body = m.group(1)
    if "{" in body:
        raise ValueError("nested table %s unsupported" % name)
    return [ceval(x, env) for x in body.split(",") if x.strip()]


# ---- integer macro -> Gallina expression over Z --------------------------------------------

class P:
    """Tiny precedence-climbing parser for C integer expressions -> Gallina Z terms."""
    BIN = [("||", 1), ("&&", 2), ("|", 3), ("^", 4), ("&", 5), ("==", 6), ("!=", 6), ("<=", 7), (">=", 7),
           ("<<", 8), (">>", 8), ("<", 7), (">", 7), ("+", 9), ("-", 9), ("*", 10), ("/", 10), ("%", 10)]

    def __init__(self, s, params, env):
        self.toks = re.findall(r"0[xX][0-9a-fA-F]+[uUlL]*|\d+[uUlL]*|[A-Za-z_][A-Za-z0-9_]*|<<|>>|==|!=|<=|>=|&&|\|\||[()+\-*/%&|^~<>?:!,]", s)
        self.i = 0
        self.params = params
        self.env = env

    def peek(self):
        return self.toks[self.i] if self.i < len(self.toks) else None

    def eat(self, t=None):
        x = self.peek()
        if t is not None and x != t:
            raise ValueError("expected %s got %s" % (t, x))
        self.i += 1
        return x

    def ternary(self):
        c = self.binary(0)
        if self.peek() == "?":
            self.eat()
            a = self.ternary()
            self.eat(":")
            b = self.ternary()
            return "(if Z.eqb %s 0 then %s else %s)" % (c, b, a)
        return c

    def binary(self, minp):
        lhs = self.unary()
        while True:
            op = self.peek()
            pr = dict(self.BIN).get(op)
            if pr is None or pr < minp:
                return lhs
            self.eat()
            rhs = self.binary(pr + 1)
            lhs = self.mk(op, lhs, rhs)

    def mk(self, op, a, b):
        f = {"|": "Z.lor", "&": "Z.land", "^": "Z.lxor", "<<": "Z.shiftl", ">>": "Z.shiftr", "+": "Z.add",
             "-": "Z.sub", "*": "Z.mul", "/": "Z.quot", "%": "Z.rem"}
        if op in f:
            return "(%s %s %s)" % (f[op], a, b)
        b2z = "(if %s then 1 else 0)"
        if op == "==":
            return b2z % ("Z.eqb %s %s" % (a, b))
        if op == "!=":
            return b2z % ("negb (Z.eqb %s %s)" % (a, b))
        if op == "<":
            return b2z % ("Z.ltb %s %s" % (a, b))
        if op == "<=":
            return b2z % ("Z.leb %s %s" % (a, b))
        if op == ">":
            return b2z % ("Z.ltb %s %s" % (b, a))
        if op == ">=":
            return b2z % ("Z.leb %s %s" % (b, a))
        if op == "&&":
            return b2z % ("andb (negb (Z.eqb %s 0)) (negb (Z.eqb %s 0))" % (a, b))
        if op == "||":
            return b2z % ("orb (negb (Z.eqb %s 0)) (negb (Z.eqb %s 0))" % (a, b))
        raise ValueError(op)

    WIDTH = {"uint16": ("u", 16), "uint8": ("u", 8), "uint32": ("u", 32), "int32": ("s", 32), "int16": ("s", 16),
             "int8": ("s", 8), "atom_t": ("s", 32), "group_t": None, "uintn": ("u", 32), "intn": ("s", 32),
             "int": ("s", 32)}

    def unary(self):
        t = self.peek()
        if t == "(":
            # cast?
            if self.i + 2 < len(self.toks) and self.toks[self.i + 1] in self.WIDTH and self.toks[self.i + 2] == ")":
                ty = self.toks[self.i + 1]
                self.i += 3
                x = self.unary()
                w = self.WIDTH[ty]
                if w is None:
                    return x
                if w[0] == "u":
                    return "(Z.modulo %s %d)" % (x, 2 ** w[1])
                return "(Z.sub (Z.modulo (Z.add %s %d) %d) %d)" % (x, 2 ** (w[1] - 1), 2 ** w[1], 2 ** (w[1] - 1))
            self.eat("(")
            x = self.ternary()
            self.eat(")")
            return x
        if t == "~":
            self.eat()
            return "(Z.lnot %s)" % self.unary()
        if t == "-":
            self.eat()
            return "(Z.opp %s)" % self.unary()
        if t == "!":
            self.eat()
            return "(if Z.eqb %s 0 then 1 else 0)" % self.unary()
        self.eat()
        if re.match(r"\d", t):
            return "%d" % c_int(t)
        if t in self.params:
            return t
        if t in self.env:
            v = self.env[t]
            if isinstance(v, int):
                return "(%d)" % v
            params, body = v
            if params is None:
                return "(%d)" % ceval(body, self.env)
            # nested function-like macro call
            argn = [a.strip() for a in params.strip("()").split(",") if a.strip()]
            self.eat("(")
            args = []
            while True:
                args.append(self.ternary())
                if self.peek() == ",":
                    self.eat()
                    continue
                break
            self.eat(")")
            sub = P(body, argn, self.env).ternary_all()
            for n, a in zip(argn, args):
                sub = re.sub(r"\b%s\b" % re.escape(n), a.replace("\\", "\\\\"), sub)
            return sub
        raise ValueError("unknown identifier %s" % t)

    def ternary_all(self):
        x = self.ternary()
        if self.peek() is not None:
            raise ValueError("trailing tokens: %s" % self.toks[self.i:])
        return x


def zlit(n):
    return "(%d)" % n if n < 0 else "%d" % n


def emit(repo, spec):
    lines = ["(* GENERATED by gen/gen_consts.py from the current /repo sources -- do not edit *)",
             "From Coq Require Import ZArith List.", "Import ListNotations.", "Local Open Scope Z_scope.", ""]
    env_cache = {}

    def env_for(f):
        if f not in env_cache:
            env = {}
            env.update(all_enums(src(repo, f)))
            env.update(defines(repo, f))
            env_cache[f] = env
        return env_cache[f]

    for f, names in spec.get("consts", []):
        env = env_for(f)
        lines.append("(* %s *)" % f)
        for n in names:
            if n not in env:
                raise ValueError("%s: #define %s not found" % (f, n))
            v = env[n]
            val = v if isinstance(v, int) else ceval(v[1], env)
            lines.append("Definition %s : Z := %s." % (n, zlit(val)))
    for f, names in spec.get("enums", []):
        env = env_for(f)
        lines.append("(* %s (enum) *)" % f)
        for n in names:
            if n not in env or not isinstance(env[n], int):
                raise ValueError("%s: enumerator %s not found" % (f, n))
            lines.append("Definition %s : Z := %s." % (n, zlit(env[n])))
    for f, names in spec.get("strings", []):
        env = env_for(f)
        for n in names:
            bs = c_string_bytes(env[n][1])
            lines.append("Definition %s : list Z := [%s]." % (n, "; ".join(map(str, bs))))
    for f, name in spec.get("tables", []):
        env = env_for(f)
        vals = table(src(repo, f), name, env)
        lines.append("(* %s *)" % f)
        body = "; ".join(zlit(v) for v in vals)
        lines.append("Definition %s : list Z := [%s]." % (name, body))
    for f, name, params in spec.get("macros", []):
        env = env_for(f)
        if name not in env or isinstance(env[name], int) or env[name][0] is None:
            raise ValueError("%s: function-like macro %s not found" % (f, name))
        p, body = env[name]
        argn = [a.strip() for a in p.strip("()").split(",") if a.strip()]
        if argn != params:
            raise ValueError("%s: macro %s has parameters %s, spec says %s" % (f, name, argn, params))
        term = P(body, argn, env).ternary_all()
        lines.append("(* %s: #define %s%s %s *)" % (f, name, p, body))
        lines.append("Definition %s %s : Z := %s." % (name, " ".join("(%s : Z)" % a for a in argn), term))
    for ent in spec.get("switch_assign", []):
        f, fn, vars_ = ent[0], ent[1], ent[2]
        nth = ent[3] if len(ent) > 3 else 0
        env = env_for(f)
        rows = switch_table(src(repo, f), fn, env, nth)
        lines.append("(* %s: switch in %s, assignments to %s (after preprocessing) *)" % (f, fn, ", ".join(vars_)))
        if "Require Import String" not in "\n".join(lines):
            lines.insert(2, "From Coq Require Import String.")
        items = []
        for labels, assigns, ret in rows:
            for lab in labels:
                if lab == "default":
                    continue
                vals = [assigns.get(v) for v in vars_]
                if all(v is None for v in vals):
                    continue
                items.append("(%s, [%s])" % (zlit(lab), "; ".join('"%s"%%string' % (v or "") for v in vals)))
        lines.append("Definition %s_switch : list (Z * list string) :=\n  [%s]." % (fn, ";\n   ".join(items)))
    for ent in spec.get("switch_return", []):
        f, fn = ent[0], ent[1]
        nth = ent[2] if len(ent) > 2 else 0
        env = env_for(f)
        rows = switch_table(src(repo, f), fn, env, nth)
        lines.append("(* %s: switch in %s, returned constants (after preprocessing) *)" % (f, fn))
        items = []
        for labels, assigns, ret in rows:
            for lab in labels:
                if lab == "default" or ret is None:
                    continue
                items.append("(%s, %s)" % (zlit(lab), zlit(ceval(ret, env))))
        lines.append("Definition %s_switch : list (Z * Z) :=\n  [%s]." % (fn, ";\n   ".join(items)))
    for imp in spec.get("imports", []):
        lines.insert(3, "Require Import %s." % imp)
    for f, fns in spec.get("byte_loops", []):
        env = env_for(f)
        txt = src(repo, f)
        for fn in fns:
            body = func_body(txt, fn)
            m = re.search(r"if\s*\(((?:(?!\bif\s*\().)*?)\)\s*fast_processing\s*=\s*1\s*;", body, flags=re.S)
            if not m:
                raise ValueError("%s: fast_processing condition not found" % fn)
            term = P(m.group(1), ["source_stride", "dest_stride"], env).ternary_all()
            lines.append("(* %s: %s *)" % (f, fn))
            lines.append("Definition %s_fastcond (source_stride dest_stride : Z) : Z := %s." % (fn, term))
            loops = []
            for lm in re.finditer(r"for\s*\(\s*i\s*=\s*(\d+)\s*;\s*i\s*<\s*num_elm\s*;\s*i\+\+\s*\)\s*\{([^{}]*)\}", body):
                stmts = []
                for st in lm.group(2).split(";"):
                    st = " ".join(st.split())
                    if not st:
                        continue
                    st = st.replace("*dest", "dest[0]").replace("*source", "source[0]")
                    a = re.fullmatch(r"(dest|buf)\s*\[\s*(\d+)\s*\]\s*=\s*(source|buf)\s*\[\s*(\d+)\s*\]", st)
                    if a:
                        nm = {"dest": "Dst", "buf": "Buf", "source": "Src"}
                        stmts.append("Asg (%s %s) (%s %s)" % (nm[a.group(1)], a.group(2), nm[a.group(3)], a.group(4)))
                        continue
                    a = re.fullmatch(r"(dest|source)\s*\+=\s*(\d+|dest_stride|source_stride)", st)
                    if a:
                        c = "IncD" if a.group(1) == "dest" else "IncS"
                        if a.group(2).isdigit():
                            stmts.append("%s (Some %s)" % (c, a.group(2)))
                        elif (a.group(1) + "_stride") == a.group(2):
                            stmts.append("%s None" % c)
                        else:
                            stmts.append("%s_wrong_stride" % c)
                        continue
                    a = re.fullmatch(r"memcpy\s*\(\s*(dest|buf)\s*,\s*(source|buf)\s*,\s*(\d+)\s*\)", st)
                    if a:
                        nm = {"dest": "Dst", "buf": "Buf", "source": "Src"}
                        for kk in range(int(a.group(3))):
                            stmts.append("Asg (%s %d) (%s %d)" % (nm[a.group(1)], kk, nm[a.group(2)], kk))
                        continue
                    raise ValueError("%s: unsupported loop statement %r" % (fn, st))
                loops.append("(%s, [%s])" % (lm.group(1), "; ".join(stmts)))
            lines.append("Definition %s_loops : list (Z * list stmt) :=\n  [%s]." % (fn, ";\n   ".join(loops)))
            mc = re.findall(r"memcpy\s*\(\s*dest\s*,\s*source\s*,\s*([^)]*)\)", body)
            lines.append("Definition %s_memcpy_len (num_elm : Z) : list Z := [%s]." % (
                fn, "; ".join(P(x, ["num_elm"], env).ternary_all() for x in mc[:1])))
    if spec.get("plugin"):
        # property-specific translator kinds: gen/plugins/<name>.py with emit(repo, spec, H) -> list of Coq lines,
        # H = this module (src, raw, defines, all_enums, ceval, P, func_body, switch_table, table, zlit ...)
        import importlib.util
        pp = os.path.join(os.path.dirname(os.path.abspath(__file__)), "plugins", spec["plugin"])
        sp_ = importlib.util.spec_from_file_location("genplugin_" + spec["module"], pp)
        mod = importlib.util.module_from_spec(sp_)
        sp_.loader.exec_module(mod)
        lines += list(mod.emit(repo, spec, sys.modules[__name__]))
    return "\n".join(lines) + "\n"


def main():
    repo, out = sys.argv[1], sys.argv[2]
    INCS[:] = [os.path.join(repo, "hdf", "src"), os.path.join(repo, "mfhdf", "src")] + sys.argv[3:]
    os.makedirs(out, exist_ok=True)
    here = os.path.dirname(os.path.abspath(__file__))
    wanted = set()
    rc = 0
    for sp in sorted(glob.glob(os.path.join(here, "spec.d", "*.json"))):
        spec = json.load(open(sp))
        try:
            txt = emit(repo, spec)
        except Exception as e:  # loud, and leaves a file that breaks the proofs depending on it
            print("gen_consts: %s: %s" % (os.path.basename(sp), e))
            txt = "(* GENERATED: translator failed: %s *)\nDefinition translator_failed : True := I I.\n" % str(e).replace("*)", "* )")
            rc = 0
        p = os.path.join(out, spec["module"] + ".v")
        wanted.add(p)
        old = open(p).read() if os.path.exists(p) else None
        if old != txt:
            open(p, "w").write(txt)
            print("gen_consts: wrote", p)
    for p in glob.glob(os.path.join(out, "Gen_*.v")):
        if p not in wanted:
            os.remove(p)
    return rc


if __name__ == "__main__":
    sys.exit(main())
