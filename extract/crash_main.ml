(* Driver for the extracted C17 specification (format reader, preserves) and model (write log of a session).
   Input: blocks
     S <name>
     old <hex>                  image of the pre-populated file
     W <off> <flushno> <hex>    write log of the real library, in order
     ops <cache>                (optional) start of the H-level op list for the model
     put <tag> <ref> <len> <hex> | app <tag> <ref> <hex> .. | putn <tag> <len> <hex> | del <tag> <ref> | get | copy <tag> <ref> <len> <hex> | rw <tag> <ref> <len> <hex> | sync
     X
   Output:
     S <name> / wf <0|1> / E <old_end|fail> / D <tag> <ref> <off> <len> (old directory)
     P <k> <parses> <preserves>   for every prefix k = 0..n of the library's log (image built incrementally)
     A <k> <0|1>                  offset of write k >= old end
     ML <episode> <pre|flush> <off> <hex>    model's predicted log
     X *)
open Crash_model

let rec pos_of_int n = if n = 1 then XH else if n land 1 = 1 then XI (pos_of_int (n lsr 1)) else XO (pos_of_int (n lsr 1))
let z_of_int n = if n = 0 then Z0 else if n > 0 then Zpos (pos_of_int n) else Zneg (pos_of_int (-n))
let rec int_of_pos = function XH -> 1 | XI p -> 2 * int_of_pos p + 1 | XO p -> 2 * int_of_pos p
let int_of_z = function Z0 -> 0 | Zpos p -> int_of_pos p | Zneg p -> - (int_of_pos p)

let unhex s =
  if s = "-" || s = "" then [] else
  let n = String.length s / 2 in
  List.init n (fun i -> z_of_int (int_of_string ("0x" ^ String.sub s (2 * i) 2)))
let hex l = if l = [] then "-" else String.concat "" (List.map (fun z -> Printf.sprintf "%02x" (int_of_z z land 255)) l)
let b2s b = if b then "1" else "0"

let process name old writes ops =
  Printf.printf "S %s\n" name;
  Printf.printf "wf %s\n" (b2s (wf_image old));
  (match parse_file old with
   | None -> print_string "E fail\n"
   | Some bl ->
     let e = old_end bl in
     Printf.printf "E %d\n" (int_of_z e);
     List.iter (fun d -> Printf.printf "D %d %d %d %d\n" (int_of_z d.d_tag) (int_of_z d.d_ref) (int_of_z d.d_off) (int_of_z d.d_len))
       (all_dds bl);
     let img = ref old in
     Printf.printf "P 0 %s %s\n" (b2s (parse_file !img <> None)) (b2s (preserves old !img));
     List.iteri (fun i (off, _, bs) ->
         img := write_at !img off bs;
         Printf.printf "P %d %s %s\n" (i + 1) (b2s (parse_file !img <> None)) (b2s (preserves old !img))) writes;
     List.iteri (fun i (off, _, _) -> Printf.printf "A %d %s\n" i (b2s (int_of_z off >= int_of_z e))) writes);
  (match ops with
   | None -> ()
   | Some (cache, eps) ->
     (match load old cache with
      | None -> print_string "ML fail\n"
      | Some fr ->
        let res = episodes fr eps in
        List.iteri (fun i (pre, fl) ->
            List.iter (fun (o, b) -> Printf.printf "ML %d pre %d %s\n" i (int_of_z o) (hex b)) pre;
            List.iter (fun (o, b) -> Printf.printf "ML %d flush %d %s\n" i (int_of_z o) (hex b)) fl) res));
  print_string "X\n"

let () =
  let ic = if Array.length Sys.argv > 1 then open_in Sys.argv.(1) else stdin in
  let name = ref "" and old = ref [] and writes = ref [] and inops = ref false and cache = ref true in
  let eps = ref [] and cur = ref [] in
  (try
     while true do
       let line = input_line ic in
       let toks = List.filter (fun s -> s <> "") (String.split_on_char ' ' line) in
       match toks with
       | "S" :: n :: _ -> name := n; old := []; writes := []; inops := false; eps := []; cur := []
       | "old" :: h :: _ -> old := unhex h
       | "W" :: off :: fl :: h :: _ -> writes := (z_of_int (int_of_string off), int_of_string fl, unhex h) :: !writes
       | "ops" :: c :: _ -> inops := true; cache := (c <> "0")
       | "put" :: t :: r :: l :: h :: _ ->
         cur := OpPut (z_of_int (int_of_string t), z_of_int (int_of_string r), z_of_int (int_of_string l), unhex h) :: !cur
       | "app" :: t :: r :: hs ->
         cur := OpApp (z_of_int (int_of_string t), z_of_int (int_of_string r), List.map unhex hs) :: !cur
       | "putn" :: t :: l :: h :: _ ->
         cur := OpPutNew (z_of_int (int_of_string t), z_of_int (int_of_string l), unhex h) :: !cur
       | "get" :: _ -> cur := OpGet :: !cur
       | "copy" :: t :: r :: l :: h :: _ ->
         cur := OpCopy (z_of_int (int_of_string t), z_of_int (int_of_string r), z_of_int (int_of_string l), unhex h) :: !cur
       | "dup" :: t :: r :: ot :: orf :: _ ->
         cur := OpDup (z_of_int (int_of_string t), z_of_int (int_of_string r), z_of_int (int_of_string ot), z_of_int (int_of_string orf)) :: !cur
       | "rw" :: t :: r :: l :: h :: _ ->
         cur := OpRewrite (z_of_int (int_of_string t), z_of_int (int_of_string r), z_of_int (int_of_string l), unhex h) :: !cur
       | "del" :: t :: r :: _ -> cur := OpDel (z_of_int (int_of_string t), z_of_int (int_of_string r)) :: !cur
       | "sync" :: _ -> eps := List.rev !cur :: !eps; cur := []
       | "X" :: _ ->
         let e = List.rev (List.rev !cur :: !eps) in
         process !name !old (List.rev !writes) (if !inops then Some (!cache, e) else None)
       | _ -> ()
     done
   with End_of_file -> ())
