(* Stepwise driver for the extracted contiguous model (coq/HFileModel.v).  Each input line describes ONE library
   state observed by the harness plus one operation; the model predicts the outcome:
     W off len fend pos app n   -> "fail" | "promote" | "ok n len' fend'"
     C fend len                 -> "ok off len fend'"   (Hstartwrite on a new tag/ref = hcreate)
     T off len fend tlen        -> "fail" | "ok len'"
     R off len fend pos n       -> "fail" | "ok count"      (Hread of n bytes at pos; n = 0 means to the end)
     D off len fend newexists   -> "fail" | "ok off' len'"  (Hdupdd onto a new tag/ref that exists or not)      *)
open Hfile_model
let rec pos_of_int n = if n = 1 then XH else if n land 1 = 1 then XI (pos_of_int (n lsr 1)) else XO (pos_of_int (n lsr 1))
let z n = if n = 0 then Z0 else if n > 0 then Zpos (pos_of_int n) else Zneg (pos_of_int (-n))
let rec int_of_pos = function XH -> 1 | XI p -> 2 * int_of_pos p + 1 | XO p -> 2 * int_of_pos p
let iz = function Z0 -> 0 | Zpos p -> int_of_pos p | Zneg p -> - (int_of_pos p)
let k1 = (z 1, z 1)
let () =
  let ic = open_in Sys.argv.(1) in
  (try while true do
    let toks = List.filter (fun s -> s <> "") (String.split_on_char ' ' (String.trim (input_line ic))) in
    let i k = int_of_string (List.nth toks k) in
    (match toks with
     | "W" :: _ ->
       let s = { dds = [ { dk = k1; doff = z (i 1); dlen = z (i 2) } ]; fend = z (i 3); img = (fun _ -> Z0) } in
       let (s', r) = hwrite s k1 (z (i 4)) (i 5 <> 0) (List.init (i 6) (fun _ -> Z0)) in
       (match r with
        | WFail -> print_string "fail\n"
        | WPromote -> print_string "promote\n"
        | WOk n -> let d = List.hd s'.dds in Printf.printf "ok %d %d %d\n" (iz n) (iz d.dlen) (iz s'.fend))
     | "C" :: _ ->
       let s = { dds = []; fend = z (i 1); img = (fun _ -> Z0) } in
       (match hcreate s k1 (z (i 2)) with
        | Some s' -> let d = List.hd s'.dds in Printf.printf "ok %d %d %d\n" (iz d.doff) (iz d.dlen) (iz s'.fend)
        | None -> print_string "fail\n")
     | "T" :: _ ->
       let s = { dds = [ { dk = k1; doff = z (i 1); dlen = z (i 2) } ]; fend = z (i 3); img = (fun _ -> Z0) } in
       (match htrunc s k1 (z (i 4)) with
        | Some s' -> Printf.printf "ok %d\n" (iz (List.hd s'.dds).dlen)
        | None -> print_string "fail\n")
     | "R" :: _ ->
       let s = { dds = [ { dk = k1; doff = z (i 1); dlen = z (i 2) } ]; fend = z (i 3); img = (fun _ -> Z0) } in
       (match hread s k1 (z (i 4)) (z (i 5)) with
        | Some l -> Printf.printf "ok %d\n" (List.length l)
        | None -> print_string "fail\n")
     | "D" :: _ ->
       let k2 = (z 1, z 2) in
       let old = { dk = k1; doff = z (i 1); dlen = z (i 2) } in
       let s = { dds = (if i 4 <> 0 then [ { dk = k2; doff = z 0; dlen = z 0 }; old ] else [ old ]); fend = z (i 3); img = (fun _ -> Z0) } in
       (match hdup s k2 k1 with
        | Some s' -> (match dfind k2 s'.dds with
                      | Some d -> Printf.printf "ok %d %d %d\n" (iz d.doff) (iz d.dlen) (iz s'.fend)
                      | None -> print_string "lost\n")
        | None -> print_string "fail\n")
     | _ -> print_string "bad\n")
  done with End_of_file -> ())
