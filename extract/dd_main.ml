(* Driver for the extracted C12 model M and specification S.
   mode "dd": input = the transcript printed by harness/drive_dd (lines "op args => result"); the operations are
     replayed through m_run and s_run; Hnewref/Htagnewref lines carry the library's answer, which S judges.
     Output per line:  M <result> ; S <result>
   mode "bv": input = lines for harness/drive_bv ("new N" starts a vector; "s n v" | "g n" | "z").
     Output per op line:  result bits_used array_size last_zero                                      *)
open Dd_model

let rec pos_of_int n = if n = 1 then XH else if n land 1 = 1 then XI (pos_of_int (n lsr 1)) else XO (pos_of_int (n lsr 1))
let z_of_int n = if n = 0 then Z0 else if n > 0 then Zpos (pos_of_int n) else Zneg (pos_of_int (-n))
let rec int_of_pos = function XH -> 1 | XI p -> 2 * int_of_pos p + 1 | XO p -> 2 * int_of_pos p
let int_of_z = function Z0 -> 0 | Zpos p -> int_of_pos p | Zneg p -> - (int_of_pos p)

let words s = List.filter (fun x -> x <> "") (String.split_on_char ' ' (String.trim s))
let zi s = z_of_int (int_of_string s)

let parse_op line =
  (* "op a b c => result" *)
  let lhs, rhs =
    match Str.bounded_split_delim (Str.regexp "=>") line 2 with
    | [a; b] -> a, String.trim b
    | [a] -> a, ""
    | _ -> line, "" in
  let ans () = match words rhs with x :: _ -> (try zi x with _ -> z_of_int (-7)) | [] -> z_of_int (-7) in
  match words lhs with
  | ["open"; n] -> Some (OOpen (zi n))
  | ["reopen"] -> Some OReopen
  | ["cache"; b] -> Some (OCache (zi b))
  | ["sync"] -> Some OSync
  | ["put"; t; r; l] -> Some (OPut (zi t, zi r, zi l))
  | ["dup"; a; b; c; d] -> Some (ODup (zi a, zi b, zi c, zi d))
  | ["del"; t; r] -> Some (ODel (zi t, zi r))
  | ["reuse"; t; r] -> Some (OReuse (zi t, zi r))
  | ["newref"] -> Some (ONewref (ans ()))
  | ["tagnewref"; t] -> Some (OTagnewref (zi t, ans ()))
  | ["number"; t] -> Some (ONumber (zi t))
  | ["exist"; t; r] -> Some (OExist (zi t, zi r))
  | ["check"; t; r] -> Some (OCheck (zi t, zi r))
  | ["length"; t; r] -> Some (OLength (zi t, zi r))
  | ["findall"; t; r; d] -> Some (OFindall (zi t, zi r, zi d))
  | ["dump"] -> Some ODump
  | ["eof"] -> Some ODump            (* does not change M or S; judged separately (eof_line) *)
  | ["aopen"; _; _] -> Some ODump    (* a read access element: no effect on the directory; result not judged *)
  | ["aend"] -> Some ODump
  | ["awrite"; t; r; l] -> Some (OPut (zi t, zi r, zi l))   (* Hstartwrite+Hwrite: the directory effect of Hputelement *)
  | ["tryclose"] -> if rhs = "refused" then Some ODump else Some OReopen
  | _ -> None

let triple ((t, r), l) = Printf.sprintf "%d/%d/%d" (int_of_z t) (int_of_z r) (int_of_z l)

let show = function
  | ROk -> "ok" | RFail -> "fail" | RNoDomain -> "nodomain"
  | RVal z -> string_of_int (int_of_z z)
  | RList l -> String.concat " " (List.map triple l)
  | RDump (mx, ndds, l) ->
    let n = int_of_z ndds in
    let b = Buffer.create 256 in
    Buffer.add_string b (Printf.sprintf "maxref %d :" (int_of_z mx));
    List.iteri (fun i (((t, _), _) as e) ->
        if n > 0 && i mod n = 0 then Buffer.add_string b (Printf.sprintf " [%d]" n);
        if int_of_z t = 1 then Buffer.add_string b " -" else Buffer.add_string b (" " ^ triple e)) l;
    Buffer.contents b

let read_lines ic =
  let r = ref [] in
  (try while true do r := input_line ic :: !r done with End_of_file -> ());
  List.rev !r

(* "eof => E | off:ndds o+l o+l ... | off:ndds ..." : the library's f_end_off with the layout read from its DD blocks.
   M = HTPstart's end of file recomputed from that layout (extracted htpstart_end_off);
   S = "ok" when E covers every DD block and every element (extracted eof_covers), "low" otherwise *)
let eof_line line =
  match Str.bounded_split_delim (Str.regexp "=>") line 2 with
  | [lhs; rhs] when words lhs = ["eof"] ->
    (match List.map String.trim (String.split_on_char '|' rhs) with
     | e :: blocks when e <> "fail" ->
       let blk b =
         match words b with
         | hd :: dds ->
           (match String.split_on_char ':' hd with
            | [o; n] ->
              { lb_off = zi o; lb_ndds = zi n;
                lb_dds = List.map (fun d -> match String.split_on_char '+' d with
                    | [a; b] -> (zi a, zi b) | _ -> (z_of_int 0, z_of_int 0)) dds }
            | _ -> { lb_off = z_of_int 0; lb_ndds = z_of_int 0; lb_dds = [] })
         | [] -> { lb_off = z_of_int 0; lb_ndds = z_of_int 0; lb_dds = [] } in
       let bl = List.map blk blocks in
       Some (Printf.sprintf "M %d ; S %s" (int_of_z (htpstart_end_off bl)) (if eof_covers (zi e) bl then "ok" else "low"))
     | _ -> Some "M fail ; S nodomain")
  | _ -> None

let run_dd lines =
  let lines = List.filter (fun l -> parse_op l <> None) lines in
  let ops = List.filter_map parse_op lines in
  let ms = m_run m_empty ops and ss = s_run [] ops in
  let rec go ls ms ss =
    match ls, ms, ss with
    | l :: ls', m :: ms', s :: ss' ->
      (match eof_line l with
       | Some txt -> print_string (txt ^ "\n")
       | None when (match words l with ("aopen" | "aend") :: _ -> true | _ -> false) ->
         print_string "M any ; S any\n"
       | None when (match words l, m with "tryclose" :: _, RDump _ -> true | _ -> false) ->
         print_string "M refused ; S refused\n"
       | None -> print_string ("M " ^ show m ^ " ; S " ^ show s ^ "\n"));
      go ls' ms' ss'
    | _ -> () in
  go lines ms ss

let run_bv lines =
  let flush_seq nb ops =
    match nb with
    | None -> ()
    | Some n ->
      (match bv_run_new (z_of_int n) (List.rev ops) with
       | None -> print_string "new fail\n"
       | Some rs ->
         print_string "new ok\n";
         List.iter (fun (((r, bu), asz), lz) ->
             Printf.printf "%d %d %d %d\n" (int_of_z r) (int_of_z bu) (int_of_z asz) (int_of_z lz)) rs) in
  let nb = ref None and ops = ref [] in
  List.iter (fun line ->
      match words line with
      | ["new"; n] -> flush_seq !nb !ops; nb := Some (int_of_string n); ops := []
      | ["s"; n; v] -> ops := ((z_of_int 0, zi n), zi v) :: !ops
      | ["g"; n] -> ops := ((z_of_int 1, zi n), z_of_int 0) :: !ops
      | ["z"] -> ops := ((z_of_int 2, z_of_int 0), z_of_int 0) :: !ops
      | _ -> ()) lines;
  flush_seq !nb !ops

let rec nat_of_int n = if n <= 0 then O else S (nat_of_int (n - 1))

(* mode "dyn": lines for harness/drive_dyn ("new S I" | "s e p" | "g e" | "d e"); output per op: result num_elems *)
let run_dyn lines =
  let flush_seq hd ops =
    match hd with
    | None -> ()
    | Some (s, i) ->
      (match dn_run_new (z_of_int s) (z_of_int i) (List.rev ops) with
       | None -> print_string "new fail\n"
       | Some rs ->
         print_string "new ok\n";
         List.iter (fun (r, n) -> Printf.printf "%d %d\n" (int_of_z r) (int_of_z n)) rs) in
  let hd = ref None and ops = ref [] in
  List.iter (fun line ->
      match words line with
      | ["new"; s; i] -> flush_seq !hd !ops; hd := Some (int_of_string s, int_of_string i); ops := []
      | ["s"; e; p] -> ops := ((z_of_int 0, zi e), nat_of_int (int_of_string p)) :: !ops
      | ["g"; e] -> ops := ((z_of_int 1, zi e), O) :: !ops
      | ["d"; e] -> ops := ((z_of_int 2, zi e), O) :: !ops
      | _ -> ()) lines;
  flush_seq !hd !ops

let () =
  let mode = if Array.length Sys.argv > 1 then Sys.argv.(1) else "dd" in
  let ic = if Array.length Sys.argv > 2 then open_in Sys.argv.(2) else stdin in
  let lines = List.filter (fun l -> String.length l > 0 && l.[0] <> '#') (read_lines ic) in
  if mode = "bv" then run_bv lines else if mode = "dyn" then run_dyn lines else run_dd lines
