(* Driver for the extracted C06 model.  One case per input line:
     ntype acc n ss ds s d len b0 .. b(len-1)
   acc: 1 = DFACC_READ (numin), 2 = write (numout).  Prints, per line,
     M <ok b..|fail> ; S <ok b..|fail|nodomain>   *)
open Conv_model

let rec pos_of_int n = if n = 1 then XH else if n land 1 = 1 then XI (pos_of_int (n lsr 1)) else XO (pos_of_int (n lsr 1))
let z_of_int n = if n = 0 then Z0 else if n > 0 then Zpos (pos_of_int n) else Zneg (pos_of_int (-n))
let rec int_of_pos = function XH -> 1 | XI p -> 2 * int_of_pos p + 1 | XO p -> 2 * int_of_pos p
let int_of_z = function Z0 -> 0 | Zpos p -> int_of_pos p | Zneg p -> - (int_of_pos p)

let show = function
  | None -> "fail"
  | Some l -> "ok " ^ String.concat " " (List.map (fun z -> string_of_int (int_of_z z)) l)

let () =
  let ic = if Array.length Sys.argv > 1 then open_in Sys.argv.(1) else stdin in
  (try
    while true do
      let line = input_line ic in
      let toks = List.filter (fun s -> s <> "") (String.split_on_char ' ' line) in
      match List.map int_of_string toks with
      | nt :: acc :: n :: ss :: ds :: s :: d :: len :: bytes when List.length bytes = len ->
        let l = List.map z_of_int bytes in
        let z = z_of_int in
        let m = model_case l (z s) (z d) (z nt) (z n) (acc = 1) (z ss) (z ds) in
        let sp = if domain_case (z s) (z d) (z nt) (z n) (z ss) (z ds) then show (spec_case l (z s) (z d) (z nt) (z n) (z ss) (z ds))
                 else "nodomain" in
        print_string ("M " ^ show m ^ " ; S " ^ sp ^ "\n")
      | _ -> print_string "M badline ; S badline\n"
    done
  with End_of_file -> ())
