(* Driver for the extracted C15 specification S (MixSpec) and record models M (MixModel).
   Reads the same case files as harness/drive_mix.c and prints, per case, the observation lines the specification
   requires ("<id> <view> ...", same syntax as the harness).
   Extra line kinds handled here (second phase, built by checks/C15.py from the harness output):
     <id> recs <n> { <tag> <ref> <hex|-> }*n      element dump of a file: the record models read it (M lines)   *)
open Mix_spec

let rec pos_of_int n = if n = 1 then XH else if n land 1 = 1 then XI (pos_of_int (n lsr 1)) else XO (pos_of_int (n lsr 1))
let z_of_int n = if n = 0 then Z0 else if n > 0 then Zpos (pos_of_int n) else Zneg (pos_of_int (-n))
let rec int_of_pos = function XH -> 1 | XI p -> 2 * int_of_pos p + 1 | XO p -> 2 * int_of_pos p
let int_of_z = function Z0 -> 0 | Zpos p -> int_of_pos p | Zneg p -> - (int_of_pos p)

let bytes_of_hex s =
  if s = "-" then [] else
  List.init (String.length s / 2) (fun i -> z_of_int (int_of_string ("0x" ^ String.sub s (2 * i) 2)))
let hex_of_bytes l =
  if l = [] then "-" else String.concat "" (List.map (fun z -> Printf.sprintf "%02x" ((int_of_z z) land 255)) l)

let toks = ref []
let next () = match !toks with [] -> "0" | t :: r -> toks := r; t
let next_int () = int_of_string (next ())
let nextz () = z_of_int (next_int ())

let words = [| "?"; "dfsd"; "sd"; "nc"; "vg"; "sdn"; "dfr8"; "df24"; "gr"; "grr"; "dfp"; "vgi"; "n"; "lut"; "nolut";
               "dfan"; "an"; "fl"; "fd"; "ol"; "od"; "nostrip"; "-"; "ndgm"; "rigm"; "bad"; "dfsdm"; "r8m"; "wm" |]
let show_tok = function
  | TI z -> string_of_int (int_of_z z)
  | TH b -> hex_of_bytes b
  | TS c -> let i = int_of_z c in if i >= 0 && i < Array.length words then words.(i) else "?"
let print_lines id ls =
  List.iter (fun l -> print_string (id ^ " " ^ String.concat " " (List.map show_tok l) ^ "\n")) ls

let parse_ds () =
  let rank = next_int () in
  let dims = List.init rank (fun _ ->
    let t = next () in
    let t = if String.length t > 0 && t.[0] = 'u' then String.sub t 1 (String.length t - 1) else t in
    z_of_int (int_of_string t)) in
  let nt = nextz () in
  let data = bytes_of_hex (next ()) in
  { ds_dims = dims; ds_nt = nt; ds_data = data }

let parse_im () =
  let x = nextz () in let y = nextz () in let nc = nextz () in let nt = nextz () in let il = nextz () in
  let _comp = next_int () in
  let data = bytes_of_hex (next ()) in
  let p = next () in
  { im_x = x; im_y = y; im_ncomp = nc; im_nt = nt; im_il = il; im_data = data;
    im_pal = if p = "-" then None else Some (bytes_of_hex p) }

let () =
  let ic = if Array.length Sys.argv > 1 then open_in Sys.argv.(1) else stdin in
  (try
    while true do
      let line = input_line ic in
      toks := List.filter (fun s -> s <> "") (String.split_on_char ' ' line);
      if !toks <> [] then begin
        let id = next () in
        let kind = next () in
        (match kind with
         | "sds" ->
           let w = next () in
           let n = next_int () in
           let l = List.init n (fun _ -> parse_ds ()) in
           let wz = z_of_int (match w with "dfsd" -> 1 | "sd" -> 2 | _ -> 3) in
           print_lines id (sds_views wz l)
         | "img" ->
           let w = next () in
           let ril = nextz () in
           let n = next_int () in
           let l = List.init n (fun _ -> parse_im ()) in
           print_lines id (img_views (z_of_int (if w = "df" then 1 else 2)) ril l)
         | "pal" ->
           let n = next_int () in
           let l = List.init n (fun _ -> bytes_of_hex (next ())) in
           (* free-standing palettes: no image anywhere, the palettes in order through the palette calls *)
           print_lines id ([ [TS w_dfr8; TS w_n; TI Z0]; [TS w_gr; TS w_n; TI Z0]; [TS w_dfp; TS w_n; TI (z_of_int n)] ]
                           @ List.mapi (fun k p -> [TS w_dfp; TI (z_of_int k); TH p]) l)
         | "ann" ->
           let _w = next () in
           let n = next_int () in
           let l = List.init n (fun _ ->
             let ty = next () in
             let tag = nextz () in let r = nextz () in
             let txt = bytes_of_hex (next ()) in
             { an_kind = (match ty with "fl" -> FileLabel | "fd" -> FileDesc | "ol" -> ObjLabel | _ -> ObjDesc);
               an_tag = tag; an_ref = r; an_text = txt }) in
           print_lines id (ann_views l)
         | _ -> ());
        print_string (id ^ " end\n")
      end
    done
  with End_of_file -> ())
