(* Driver for the extracted C15 specification S (MixSpec) and record models M (MixModel).
   Reads the same case files as harness/drive_mix.c and prints, per case, the observation lines the specification
   requires ("<id> <view> ...", same syntax as the harness).  Further line kinds (built by checks/C15.py):
     <id> rawsds <sdg|ndg> <n> { dataset }*n     M writes an old-style file: prints "<id> RAW raw <views> <ril> <n> {tag ref hex}*"
     <id> rawimg <rig|ri8> <n> { image }*n        (a case line for the harness) followed by the S lines for that content
     <id> recs <n> { <tag> <ref> <special> <hex|-> }*n
                                                 element dump of a file the library wrote: the M readers run on it
                                                 (ndgm / dfsdm / rigm / r8m lines) and the M codecs re-encode every
                                                 SDD / ID / NT record (wm lines)                                      *)
module M = Mix_model

let rec pos_of_int n = if n = 1 then M.XH else if n land 1 = 1 then M.XI (pos_of_int (n lsr 1)) else M.XO (pos_of_int (n lsr 1))
let z_of_int n = if n = 0 then M.Z0 else if n > 0 then M.Zpos (pos_of_int n) else M.Zneg (pos_of_int (-n))
let rec int_of_pos = function M.XH -> 1 | M.XI p -> 2 * int_of_pos p + 1 | M.XO p -> 2 * int_of_pos p
let int_of_z = function M.Z0 -> 0 | M.Zpos p -> int_of_pos p | M.Zneg p -> - (int_of_pos p)

let bytes_of_hex s =
  if s = "-" then [] else
  List.init (String.length s / 2) (fun i -> z_of_int (int_of_string ("0x" ^ String.sub s (2 * i) 2)))
let hex_of_bytes l =
  if l = [] then "-" else String.concat "" (List.map (fun z -> Printf.sprintf "%02x" ((int_of_z z) land 255)) l)

let toks = ref []
let next () = match !toks with [] -> "0" | t :: r -> toks := r; t
let next_int () = int_of_string (next ())
let nextz () = z_of_int (next_int ())

let words = [| "?"; "dfsd"; "sd"; "nc"; "vg"; "sdn"; "dfr8"; "df24"; "gr"; "grr"; "dfp"; "vgi"; "n"; "lut"; "nolut";
               "dfan"; "an"; "fl"; "fd"; "ol"; "od"; "nostrip"; "-"; "dfsdmeta"; "sdmeta"; "scale"; "strs"; "range"; "none";
               "dfsdp"; "dfr8p"; "padok"; "dstrs"; "dname"; "df24s"; "dfr8s" |]
let show_tok = function
  | M.TI z -> string_of_int (int_of_z z)
  | M.TH b -> hex_of_bytes b
  | M.TS c -> let i = int_of_z c in if i >= 0 && i < Array.length words then words.(i) else "?"
let print_lines id ls =
  List.iter (fun l -> print_string (id ^ " " ^ String.concat " " (List.map show_tok l) ^ "\n")) ls

let parse_ds () =
  let rank = next_int () in
  let dims = List.init rank (fun _ ->
    let t = next () in
    let t = if String.length t > 0 && t.[0] = 'u' then String.sub t 1 (String.length t - 1) else t in
    z_of_int (int_of_string t)) in
  let nt = nextz () in
  let data = bytes_of_hex (next ()) in
  let scales = Array.make rank None in
  let strs = ref None and range = ref None in
  let dstrs = Array.make rank None and dnames = Array.make rank [] in
  let hx s = if s = "_" then [] else bytes_of_hex s in
  let m = next () in
  if m <> "-" then
    List.iter (fun it ->
      match it.[0] with
      | 's' -> let eq = String.index it '=' in
               scales.(int_of_string (String.sub it 1 (eq - 1))) <- Some (bytes_of_hex (String.sub it (eq + 1) (String.length it - eq - 1)))
      | 't' -> (match String.split_on_char ';' (String.sub it 2 (String.length it - 2)) with
                | [a; b; c] -> strs := Some ((hx a, hx b), hx c) | _ -> ())
      | 'd' -> let eq = String.index it '=' in
               (match String.split_on_char ';' (String.sub it (eq + 1) (String.length it - eq - 1)) with
                | [a; b; c] -> dstrs.(int_of_string (String.sub it 1 (eq - 1))) <- Some ((hx a, hx b), hx c) | _ -> ())
      | 'n' -> let eq = String.index it '=' in
               dnames.(int_of_string (String.sub it 1 (eq - 1))) <- hx (String.sub it (eq + 1) (String.length it - eq - 1))
      | 'r' -> (match String.split_on_char ';' (String.sub it 2 (String.length it - 2)) with
                | [a; b] -> range := Some (hx a, hx b) | _ -> ())
      | _ -> ()) (String.split_on_char ',' m);
  { M.ds_dims = dims; ds_nt = nt; ds_data = data; ds_scales = Array.to_list scales; ds_strs = !strs; ds_range = !range;
    ds_dstrs = Array.to_list dstrs; ds_dnames = Array.to_list dnames }

let parse_im () =
  let x = nextz () in let y = nextz () in let nc = nextz () in let nt = nextz () in let il = nextz () in
  let _comp = next_int () in
  let data = bytes_of_hex (next ()) in
  let p = next () in
  { M.im_x = x; im_y = y; im_ncomp = nc; im_nt = nt; im_il = il; im_data = data;
    im_pal = if p = "-" then None else Some (bytes_of_hex p) }

let show_store id views ril (st : M.store) =
  print_string (Printf.sprintf "%s RAW raw %s %d %d %s\n" id views ril (List.length st)
    (String.concat " " (List.map (fun ((t, r), b) -> Printf.sprintf "%d %d %s" (int_of_z t) (int_of_z r) (hex_of_bytes b)) st)))

let zi = int_of_z
let ints l = String.concat " " (List.map (fun z -> string_of_int (zi z)) l)

(* the record models on the element dump of a real file *)
let run_recs id =
  let n = next_int () in
  let els = List.init n (fun _ ->
    let t = nextz () in let r = nextz () in let sp = next_int () in let h = next () in
    (((t, r), bytes_of_hex h), sp)) in
  let st : M.store = List.map fst els in
  let special t r = List.exists (fun (((t', r'), _), sp) -> t' = t && r' = r && sp <> 0) els in
  let data_of tag r =
    if zi r = 0 then "-" else if special tag r then "special" else
    match M.get st tag r with Some b -> hex_of_bytes b | None -> "missing" in
  let seen = List.concat (List.map (fun ((t, _), b) ->
    if t = M.dFTAG_NDG then M.sdlnk_sdg st (M.di_decode (M.length b) b) else []) st) in
  (* the values a reader hands over: the data element converted with the type the reader decoded (MixModel.convert) *)
  let values_of ty r =
    if zi r = 0 then "-" else if special M.dFTAG_SD r then "special" else
    match M.get st M.dFTAG_SD r with Some b -> hex_of_bytes (M.convert ty b) | None -> "missing" in
  let k = ref 0 in
  List.iter (fun ((t, r), b) ->
    if t = M.dFTAG_NDG || (t = M.dFTAG_SDG && not (List.mem r seen)) then begin
      let members = M.di_decode (M.length b) b in
      let kind = if t = M.dFTAG_NDG then "ndg" else "sdg" in
      (match M.ndg_view st members with
       | Some (((rank, dims), ty), dref) ->
         print_string (Printf.sprintf "%s ndgm %d %s %d %d %s %d %s\n" id !k kind (zi r) (zi rank) (ints dims) (zi ty) (values_of ty dref))
       | None -> print_string (Printf.sprintf "%s ndgm %d %s %d none\n" id !k kind (zi r)));
      (* the scales record of the group, through the SD reader's offset walk and the DFSD reader's sequential read *)
      (match M.ndg_view st members, List.filter (fun (t', _) -> t' = M.dFTAG_SDS) members with
       | Some (((_, dims), ty), _), (_, sr) :: _ ->
         (match M.get st M.dFTAG_SDS sr with
          | Some rc ->
            let sizes = List.map (fun d -> z_of_int (zi d * zi (M.ntsize ty))) dims in
            let show name l = List.iteri (fun i s ->
              print_string (Printf.sprintf "%s %s %d %d %s\n" id name !k i (match s with Some b -> hex_of_bytes b | None -> "none"))) l in
            show "scalem" (M.sd_read_scales sizes rc);
            show "dscalem" (M.dfsd_read_scales sizes rc)
          | None -> ())
       | _, _ -> ());
      (match M.dfsd_view st members with
       | Some (((rank, dims), ty), dref) ->
         print_string (Printf.sprintf "%s dfsdm %d %s %d %d %s %d %s\n" id !k kind (zi r) (zi rank) (ints dims) (zi ty) (values_of ty dref))
       | None -> print_string (Printf.sprintf "%s dfsdm %d %s %d none\n" id !k kind (zi r)));
      incr k
    end) st;
  let k = ref 0 in
  List.iter (fun ((t, r), b) ->
    if t = M.dFTAG_RIG then begin
      let members = M.di_decode (M.length b) b in
      let show name v =
        match v with
        | Some v ->
          print_string (Printf.sprintf "%s %s %d %d %d %d %d %d %d %d %s\n" id name !k (zi r) (zi v.M.rv_x) (zi v.M.rv_y) (zi v.M.rv_ncomp)
                          (zi v.M.rv_il) (zi v.M.rv_ctag) (zi v.M.rv_lut_ref) (data_of v.M.rv_img_tag v.M.rv_img_ref))
        | None -> print_string (Printf.sprintf "%s %s %d %d none\n" id name !k (zi r)) in
      show "rigm" (M.dfgr_view st members);
      show "r8m" (M.dfr8_view st members);
      incr k
    end) st;
  (* canonical form of the records: decode with a reader's field sequence, encode with a writer's *)
  List.iter (fun ((t, r), b) ->
    if b <> [] then begin
      if t = M.dFTAG_SDD then
        print_string (Printf.sprintf "%s wm sdd %d %s\n" id (zi r)
          (match M.sd_read_sdd b, M.dfsd_read_sdd b with
           | Some s, Some s' -> if M.sdd_encode M.hdf_write_var_SDD s = b && M.sdd_encode M.dFSDIputndg_SDD s' = b then "ok" else "differs"
           | _, _ -> "undecodable"))
      else if t = M.dFTAG_ID then
        print_string (Printf.sprintf "%s wm id %d %s\n" id (zi r)
          (match M.id_decode M.dFGRgetrig_ID b with
           | Some d -> if M.id_encode M.dFGRaddrig_ID d = b && M.id_encode M.dFR8putrig_ID d = b then "ok" else "differs"
           | None -> "undecodable"))
      else if t = M.dFTAG_NT then
        print_string (Printf.sprintf "%s wm nt %d %s\n" id (zi r)
          (match M.nt_decode b with Some ty -> string_of_int (zi ty) | None -> "undecodable"))
    end) st

let () =
  let ic = if Array.length Sys.argv > 1 then open_in Sys.argv.(1) else stdin in
  (try
    while true do
      let line = input_line ic in
      toks := List.filter (fun s -> s <> "") (String.split_on_char ' ' line);
      if !toks <> [] then begin
        let id = next () in
        let kind = next () in
        (match kind with
         | "sds" ->
           let w = next () in
           let _pre = next () in let _edits = next () in let _pad = next () in
           let n = next_int () in
           let l = List.init n (fun _ -> parse_ds ()) in
           let wz = z_of_int (match w with "dfsd" -> 1 | "sd" -> 2 | _ -> 3) in
           print_lines id (M.sds_views wz l)
         | "img" ->
           let w = next () in
           let _pre = next () in let _edits = next () in let _pad = next () in
           let ril = nextz () in
           let n = next_int () in
           let l = List.init n (fun _ -> parse_im ()) in
           print_lines id (M.img_views (z_of_int (if w = "df" then 1 else 2)) ril l)
         | "pal" ->
           let n = next_int () in
           let l = List.init n (fun _ -> bytes_of_hex (next ())) in
           (* free-standing palettes: no image anywhere, the palettes in order through the palette calls *)
           print_lines id ([ [M.TS M.w_dfr8; M.TS M.w_n; M.TI M.Z0]; [M.TS M.w_gr; M.TS M.w_n; M.TI M.Z0];
                             [M.TS M.w_dfp; M.TS M.w_n; M.TI (z_of_int n)] ]
                           @ List.mapi (fun k p -> [M.TS M.w_dfp; M.TI (z_of_int k); M.TH p]) l)
         | "ann" ->
           let _w = next () in
           let _decoy = next () in
           let n = next_int () in
           let l = List.init n (fun _ ->
             let ty = next () in
             let tag = nextz () in let r = nextz () in
             let txt = bytes_of_hex (next ()) in
             { M.an_kind = (match ty with "fl" -> M.FileLabel | "fd" -> M.FileDesc | "ol" -> M.ObjLabel | _ -> M.ObjDesc);
               an_tag = tag; an_ref = r; an_text = txt }) in
           print_lines id (M.ann_views l)
         | "dfsdseq" ->
           let n = next_int () in
           let hx s = if s = "_" then [] else bytes_of_hex s in
           let ops = List.init n (fun _ ->
             match next () with
             | "D" -> let r = next_int () in M.OpDims (List.init r (fun _ -> nextz ()))
             | "N" -> M.OpNT (nextz ())
             | "S" -> let d = nextz () in let h = next () in M.OpScale (d, if h = "-" then None else Some (bytes_of_hex h))
             | "T" -> let a = hx (next ()) in let b = hx (next ()) in let c = hx (next ()) in M.OpStrs (a, b, c)
             | "X" -> let d = nextz () in let a = hx (next ()) in let b = hx (next ()) in let c = hx (next ()) in M.OpDimStrs (d, a, b, c)
             | "R" -> let a = bytes_of_hex (next ()) in let b = bytes_of_hex (next ()) in M.OpRange (a, b)
             | "A" -> M.OpAdd (bytes_of_hex (next ()))
             | _ -> M.OpClear) in
           print_lines id (M.sds_views (z_of_int 1) (M.dfsd_session ops))
         | "rawsds" ->
           let form = next () in
           let n = next_int () in
           let l = List.init n (fun _ -> parse_ds ()) in
           let st = M.old_sds_file (if form = "sdg" then M.dFTAG_SDG else M.dFTAG_NDG)
                      (List.map (fun d -> (((d.M.ds_dims, d.M.ds_nt), M.file_order d.M.ds_nt d.M.ds_data),
                                            List.map (function Some b -> Some (M.file_order d.M.ds_nt b) | None -> None) d.M.ds_scales)) l) in
           show_store id "dsnvg" (-1) st;
           print_lines id (M.sds_views (z_of_int 1) l)
         | "rawimg" ->
           let form = next () in
           let ril = next_int () in
           let n = next_int () in
           let l = List.init n (fun _ -> parse_im ()) in
           let st = M.old_img_file (form = "ri8")
                      (List.map (fun m -> (((((m.M.im_x, m.M.im_y), m.M.im_ncomp), m.M.im_il), m.M.im_data), m.M.im_pal)) l) in
           show_store id "82GpVR" ril st;
           print_lines id (M.img_views (z_of_int 1) (z_of_int ril) l)
         | "recs" -> run_recs id
         | _ -> ());
        print_string (id ^ " end\n")
      end
    done
  with End_of_file -> ())
