(* Driver for the extracted linked-block model M (coq/HBlocksModel.v).  Same history format as
   harness/drive_h.c, restricted to ONE linked-block element per history:
     hlcreate H F tag ref bl nb | startaccess H .. | startwrite H .. | write H hex | read H n | seek H off org |
     tell H | blocks H | end H | open .. | reopen ..      (anything else: "nomodel")
   Handles only carry a position; the element record is shared, exactly as info is shared in hblocks.c. *)
open Hblocks_model

let rec pos_of_int n = if n = 1 then XH else if n land 1 = 1 then XI (pos_of_int (n lsr 1)) else XO (pos_of_int (n lsr 1))
let z n = if n = 0 then Z0 else if n > 0 then Zpos (pos_of_int n) else Zneg (pos_of_int (-n))
let rec int_of_pos = function XH -> 1 | XI p -> 2 * int_of_pos p + 1 | XO p -> 2 * int_of_pos p
let iz = function Z0 -> 0 | Zpos p -> int_of_pos p | Zneg p -> - (int_of_pos p)

let unhex s =
  if s = "-" then [] else
  List.init (String.length s / 2) (fun i -> z (int_of_string ("0x" ^ String.sub s (2 * i) 2)))
let hex l = if l = [] then "-" else String.concat "" (List.map (fun b -> Printf.sprintf "%02x" (iz b land 255)) l)

let () =
  let ic = open_in Sys.argv.(1) in
  let st = ref None in
  let pos : (int, int) Hashtbl.t = Hashtbl.create 16 in
  let wr : (int, bool) Hashtbl.t = Hashtbl.create 16 in   (* Hwrite's own access check, outside HLPwrite *)
  let ln = ref 0 in
  (try
    while true do
      let line = input_line ic in
      incr ln;
      let toks = List.filter (fun s -> s <> "") (String.split_on_char ' ' (String.trim line)) in
      let i k = int_of_string (List.nth toks k) in
      let out s = Printf.printf "%d %s\n" !ln s in
      (match toks with
       | [] -> out "skip"
       | "history" :: _ -> st := None; Hashtbl.reset pos; out "history"
       | ("open" | "reopen") :: _ -> out "ok"
       | "hlcreate" :: _ ->
         (match !st with
          | None -> st := Some (hl_new (z (i 5)) (z (i 6))); Hashtbl.replace pos (i 1) 0; Hashtbl.replace wr (i 1) true; out "ok"
          | Some _ -> out "fail")
       | "startaccess" :: _ -> Hashtbl.replace pos (i 1) 0; Hashtbl.replace wr (i 1) ((i 5) land 2 <> 0); out "ok"
       | "startwrite" :: _ -> Hashtbl.replace pos (i 1) 0; Hashtbl.replace wr (i 1) true; out "ok"
       | "end" :: _ -> if Hashtbl.mem pos (i 1) then (Hashtbl.remove pos (i 1); out "ok") else out "fail"
       | "tell" :: _ -> (match Hashtbl.find_opt pos (i 1) with Some p -> out (Printf.sprintf "ok %d" p) | None -> out "fail")
       | "seek" :: _ ->
         (match !st, Hashtbl.find_opt pos (i 1) with
          | Some s, Some p ->
            (match hl_seek s (z p) (z (i 2)) (z (i 3)) with
             | Some t -> Hashtbl.replace pos (i 1) (iz t); out "ok"
             | None -> out "fail")
          | _ -> out "fail")
       | "write" :: _ ->
         (match !st, Hashtbl.find_opt pos (i 1) with
          | Some s, Some p when Hashtbl.find wr (i 1) ->
            (match hl_write s (z p) (unhex (List.nth toks 2)) with
             | Some (s', n) -> st := Some s'; Hashtbl.replace pos (i 1) (p + iz n); out (Printf.sprintf "ok %d" (iz n))
             | None -> out "fail")
          | _ -> out "fail")
       | "read" :: _ ->
         (match !st, Hashtbl.find_opt pos (i 1) with
          | Some s, Some p ->
            (match hl_read s (z p) (z (i 2)) with
             | Some b -> Hashtbl.replace pos (i 1) (p + List.length b);
               out (Printf.sprintf "ok %d %s" (List.length b) (hex b))
             | None -> out "fail")
          | _ -> out "fail")
       | "blocks" :: _ ->
         (match !st with
          | Some s when Hashtbl.mem pos (i 1) ->
            let fl_ = table_flags s in
            out (Printf.sprintf "ok %d %d %d %d%s" (iz (len s)) (iz (fl s)) (iz (bl s)) (iz (nb s))
                   (String.concat "" (List.map (fun t -> " t:" ^ String.concat "" (List.map (fun b -> if b then "1" else "0") t)) fl_)))
          | _ -> out "fail")
       | _ -> out "nomodel")
    done
  with End_of_file -> ())
