(* Driver for the extracted C16 specification S (FaultSpec.judge) and L1 error-flow model M (FaultModel).
   Reads the OUTPUT lines of harness/drive_fault (one per job) and prints one line per input line:
     workload jobs:   "<lineno> S <Holds|Silent|Unsafe> absorbed=<0|1> visible=<0|1>"
     function jobs:   "<lineno> M ret=<0|-1> trace=<letters>"      (the model's prediction for the same record,
                      function and fault plan; compared literally with the harness' ret= / trace= fields)        *)
open Fault_model

let rec pos_of_int n = if n = 1 then XH else if n land 1 = 1 then XI (pos_of_int (n lsr 1)) else XO (pos_of_int (n lsr 1))
let z n = if n = 0 then Z0 else if n > 0 then Zpos (pos_of_int n) else Zneg (pos_of_int (-n))
let rec int_of_pos = function XH -> 1 | XI p -> 2 * int_of_pos p + 1 | XO p -> 2 * int_of_pos p
let iz = function Z0 -> 0 | Zpos p -> int_of_pos p | Zneg p -> - (int_of_pos p)
let nn n = if n = 0 then N0 else Npos (pos_of_int n)
let rec nat_of_int n = if n <= 0 then O else S (nat_of_int (n - 1))

let field l k = (* "k=v" lookup *)
  let pre = k ^ "=" in
  let pl = String.length pre in
  match List.find_opt (fun t -> String.length t >= pl && String.sub t 0 pl = pre) l with
  | Some t -> String.sub t pl (String.length t - pl)
  | None -> ""

let letter = function DOpen -> 'o' | DRead -> 'r' | DWrite -> 'w' | DSeek -> 's' | DTell -> 't' | DFlush -> 'f'
                    | DClose -> 'c' | DAny -> '?'

let () =
  let ic = open_in Sys.argv.(1) in
  (try
    while true do
      let line = input_line ic in
      let toks = List.filter (fun s -> s <> "") (String.split_on_char ' ' (String.trim line)) in
      match toks with
      | ln :: "fn" :: rest when field rest "pre" <> "" && field rest "pre" <> "?" ->
        let ints s = List.map int_of_string (String.split_on_char ',' s) in
        (match ints (field rest "pre") with
         | [cur; lop; eoff; cache; ddd; dend; rc; att; vm; fo; wr; own] ->
           let blocks =
             let b = field rest "blocks" in
             if b = "" then [] else
             List.map (fun t -> match String.split_on_char ':' t with
                 | [o; d; n] -> { b_off = z (int_of_string o); b_dirty = (d = "1"); b_ndds = z (int_of_string n) }
                 | _ -> failwith "block") (String.split_on_char '/' b) in
           let st = { cur_off = z cur;
                      last_op = (match lop with 1 -> OpSeek | 2 -> OpWrite | 3 -> OpRead | _ -> OpUnknown);
                      end_off = z eoff; cache = (cache = 1); dirty_dd = (ddd = 1); dirty_end = (dend = 1);
                      blocks = blocks; cursor = O; refcount = z rc; attach = z att; vmod = (vm = 1); vcalls = O;
                      file_open = (fo = 1); writable = (wr = 1); own_aid = (own = 1);
                      nb_published = false; nb_freed = false } in
           let fn = field rest "f" and arg = int_of_string (field rest "arg") in
           let md = field rest "mode" and k = int_of_string (field rest "k") in
           let prog = match fn with
             | "HPseek" -> Some (hPseek_prog (fun _ -> z arg))
             | "HPseekcur" -> Some (hPseek_prog (fun s -> s.cur_off))
             | "HP_write" -> Some (hP_write_prog (fun _ -> z arg))
             | "HP_read" -> Some (hP_read_prog (fun _ -> z arg))
             | "HIextend_file" -> Some hIextend_file_prog
             | "HTPsync" -> Some hTPsync_prog
             | "HIsync" -> Some hIsync_prog
             | "Hsync" -> Some hsync_prog
             | "Hclose" -> Some hclose_prog
             | "Hclose_orig" -> Some hclose_prog_orig
             | "HTInew_dd_block" -> Some hTInew_dd_block_prog
             | "HPgetdiskblock" -> Some (hPgetdiskblock_prog (fun _ -> z arg) true)
             | "HTIupdate_dd" ->
               Some (hTIupdate_dd_prog (fun s -> match s.blocks with b :: _ -> z (iz b.b_off + 6 + 12 * arg) | [] -> z 0))
             | _ -> None in
           (match prog with
            | None -> Printf.printf "%s M nomodel\n" ln
            | Some p ->
              let o = if md = "n" || k < 0 then [] else plan (nat_of_int k) (md = "t") (nat_of_int 200) in
              let (((ok, _), _), tr) = run_fn p st o in
              let s = String.concat "" (List.map (fun (d, f) ->
                  String.make 1 (if f then Char.uppercase_ascii (letter d) else letter d)) tr) in
              Printf.printf "%s M ret=%d trace=%s\n" ln (if ok then 0 else -1) (if s = "" then "-" else s))
         | _ -> Printf.printf "%s M badpre\n" ln)
      | ln :: rest when field rest "wl" <> "" ->
        let status = match field rest "status" with
          | "ok" -> StOk | "timeout" -> StHang | "asan" | "ubsan" -> StSanitizer | _ -> StCrash in
        let rets =
          let r = field rest "rets" in
          if r = "" then [] else
          List.map (fun t -> match List.rev (String.split_on_char ':' t) with
              | ok :: _ -> ok = "1" | [] -> false) (String.split_on_char ',' r) in
        let o = { o_status = status; o_rets = rets; o_faults = nn (int_of_string (field rest "nfaults"));
                  o_same_file = (field rest "same" = "1"); o_same_data = (field rest "datasame" = "1") } in
        Printf.printf "%s S %s absorbed=%d visible=%d\n" ln
          (match judge o with Holds -> "Holds" | Silent -> "Silent" | Unsafe -> "Unsafe")
          (if absorbed o then 1 else 0) (if visible o then 1 else 0)
      | ln :: "skipped-after-hangs" :: _ -> Printf.printf "%s skip\n" ln
      | ln :: _ -> Printf.printf "%s skip\n" ln
      | [] -> print_endline "skip"
    done
  with End_of_file -> ());
  close_in ic
