(* Driver for the extracted C10 implementation model (AttrModel.v): function-level correspondence.
   Same history format as harness/drive_attr.c; lines the model does not cover print "<ln> nomodel". *)
open Attr_model

let rec pos_of_int n = if n = 1 then XH else if n land 1 = 1 then XI (pos_of_int (n lsr 1)) else XO (pos_of_int (n lsr 1))
let z n = if n = 0 then Z0 else if n > 0 then Zpos (pos_of_int n) else Zneg (pos_of_int (-n))
let rec int_of_pos = function XH -> 1 | XI p -> 2 * int_of_pos p + 1 | XO p -> 2 * int_of_pos p
let iz = function Z0 -> 0 | Zpos p -> int_of_pos p | Zneg p -> - (int_of_pos p)
let rec int_of_nat = function O -> 0 | S n -> 1 + int_of_nat n

let unhex s =
  if s = "-" || s = "e" then [] else
  List.init (String.length s / 2) (fun i -> z (int_of_string ("0x" ^ String.sub s (2 * i) 2)))
let hex l =
  if l = [] then "-" else
  let b = Buffer.create (2 * List.length l) in
  List.iter (fun x -> Buffer.add_string b (Printf.sprintf "%02x" (iz x land 255))) l;
  Buffer.contents b

let () =
  let ic = open_in Sys.argv.(1) in
  let ln = ref 0 in
  let unit_list = ref None in
  let vds = ref [||] and vgs = ref [||] in
  let grg = ref ([], Z0) and imgs = ref [||] in
  let writable = ref true in
  let reset () = unit_list := None; vds := [||]; vgs := [||]; grg := ([], Z0); imgs := [||]; writable := true in
  let dump_unit () = match !unit_list with
    | None -> " 0"
    | Some l -> Printf.sprintf " %d" (List.length l) ^
                String.concat "" (List.map (fun a -> Printf.sprintf " %s %d %d %s" (hex a.m_name) (iz a.m_hdf) (iz a.m_count) (hex a.m_data)) l) in
  let dump_tab l = Printf.sprintf "ok %d" (List.length l) ^
    String.concat "" (List.map (fun e -> let v = e.ae_vd in
      Printf.sprintf " %d %s %s %s %d %d %d" (iz e.ae_findex) (hex v.av_name) (hex v.av_class) (hex v.av_field) (iz v.av_type) (iz v.av_order) (iz v.av_nrecs)) l) in
  (try
    while true do
      let line = input_line ic in
      incr ln;
      let toks = List.filter (fun s -> s <> "") (String.split_on_char ' ' (String.trim line)) in
      let t k = List.nth toks k in
      let i k = int_of_string (t k) in
      let out = (try match toks with
        | [] -> "skip"
        | "history" :: _ -> reset (); "history"
        | "unit.put" :: _ ->
          (match sdi_putattr !unit_list (unhex (t 1)) (z (i 2)) (z (i 3)) (unhex (t 4)) with
           | Some ap -> unit_list := ap; "ok" ^ dump_unit ()
           | None -> "fail" ^ dump_unit ())
        | "unit.find" :: _ ->
          (match nc_findattr !unit_list (unhex (t 1)) with Some k -> Printf.sprintf "ok %d" (int_of_nat k) | None -> "fail")
        | "h.start" :: m :: _ -> writable := (m <> "r"); "ok"
        | "h.end" :: _ -> "ok"
        | "vs.create" :: _ -> vds := Array.append !vds [| (i 2, []) |]; Printf.sprintf "ok %d" (Array.length !vds - 1)
        | "vs.setattr" :: _ ->
          let (nf, l) = !vds.(i 1) in
          (match vs_setattr !writable (z nf) l (z (i 2)) (unhex (t 3)) (z (i 4)) (z (i 5)) (unhex (t 6)) with
           | VOk l' -> !vds.(i 1) <- (nf, l'); "ok"
           | VFail -> "fail")
        | "vs.rsetattr" :: _ ->
          let (nf, l) = !vds.(i 1) in
          (match vs_setattr false (z nf) l (z (i 2)) (unhex (t 3)) (z (i 4)) (z (i 5)) (unhex (t 6)) with
           | VOk l' -> !vds.(i 1) <- (nf, l'); "ok"
           | VFail -> "fail")
        | "vg.rsetattr" :: _ ->
          (match vg_setattr false !vgs.(i 1) (unhex (t 2)) (z (i 3)) (z (i 4)) (unhex (t 5)) with
           | VOk l' -> !vgs.(i 1) <- l'; "ok"
           | VFail -> "fail")
        | "vs.raw" :: _ -> dump_tab (snd !vds.(i 1))
        | "vg.create" :: _ -> vgs := Array.append !vgs [| [] |]; Printf.sprintf "ok %d" (Array.length !vgs - 1)
        | "vg.setattr" :: _ ->
          (match vg_setattr !writable !vgs.(i 1) (unhex (t 2)) (z (i 3)) (z (i 4)) (unhex (t 5)) with
           | VOk l' -> !vgs.(i 1) <- l'; "ok"
           | VFail -> "fail")
        | "vg.raw" :: _ -> dump_tab !vgs.(i 1)
        | "gr.create" :: _ -> imgs := Array.append !imgs [| ([], Z0) |]; Printf.sprintf "ok %d" (Array.length !imgs - 1)
        | "gr.setattr" :: o :: _ ->
          let get, put = if o = "G" then (fun () -> !grg), (fun x -> grg := x)
            else let k = int_of_string (String.sub o 1 (String.length o - 1)) in (fun () -> !imgs.(k)), (fun x -> !imgs.(k) <- x) in
          let (tr, c) = get () in
          (match gr_setattr tr c (unhex (t 2)) (z (i 3)) (z (i 4)) (unhex (t 5)) with
           | Some (tr2, c2) -> put (tr2, c2); "ok"
           | None -> "fail")
        | "gr.raw" :: o :: _ ->
          let (tr, c) = if o = "G" then !grg else !imgs.(int_of_string (String.sub o 1 (String.length o - 1))) in
          Printf.sprintf "ok %d" (iz c) ^
          String.concat "" (List.map (fun a -> Printf.sprintf " %d %s %d %d" (iz a.g_index) (hex a.g_name) (iz a.g_nt) (iz a.g_len)) tr)
        | _ -> "nomodel"
      with _ -> "nomodel") in
      Printf.printf "%d %s\n" !ln out
    done
  with End_of_file -> ())
