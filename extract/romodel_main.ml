(* Driver for the extracted C14 effect model (coq/ROModel.v).
   usage: ro_model <history-file> <library-output-file>
   Element-level histories in the language of harness/drive_ro.c.  The model's initial state of a session is built
   from the library's own "ddlist" line (descriptor list, file length, stored version: inputs, not results) and the
   mode of the following "hopen".  Per line prints "<ln> M <ok|fail> <w0|w1>" for modelled operations of an open
   session, "<ln> -" otherwise.  Slots of the history are mapped to the model's access ids / V keys. *)
open Ro_model

let rec pos_of_int n = if n = 1 then XH else if n land 1 = 1 then XI (pos_of_int (n lsr 1)) else XO (pos_of_int (n lsr 1))
let z n = if n = 0 then Z0 else if n > 0 then Zpos (pos_of_int n) else Zneg (pos_of_int (-n))
let rec int_of_pos = function XH -> 1 | XI p -> 2 * int_of_pos p + 1 | XO p -> 2 * int_of_pos p
let iz = function Z0 -> 0 | Zpos p -> int_of_pos p | Zneg p -> - (int_of_pos p)

let read_lines f = let ic = open_in f in let l = ref [] in
  (try while true do l := input_line ic :: !l done with End_of_file -> ()); close_in ic; List.rev !l
let toks s = List.filter (fun x -> x <> "") (String.split_on_char ' ' (String.trim s))

let () =
  let hist = read_lines Sys.argv.(1) in
  let out = read_lines Sys.argv.(2) in
  let tbl = Hashtbl.create 1024 in
  List.iter (fun l -> match toks l with
    | n :: rest when int_of_string_opt n <> None && (match rest with "pre" :: _ -> false | _ -> true) ->
      let k = int_of_string n in if not (Hashtbl.mem tbl k) then Hashtbl.add tbl k rest
    | _ -> ()) out;
  let st : frec option ref = ref None in
  let init : (dd list * int * (int * int * int)) option ref = ref None in
  let aids = Hashtbl.create 16 and vss = Hashtbl.create 16 and vgs = Hashtbl.create 16 in
  let sdst : sd option ref = ref None in
  let sd_mut = [ "sdcreate", 0; "sdsetdimname", 1; "sdsetrange", 2; "sdsetattr", 3; "sdsetdatastrs", 4; "sdsetcal", 5;
                 "sdsetfillvalue", 6; "sdsetdimstrs", 7; "sdsetdimscale", 8; "sdsetdimval_comp", 9; "sdwritedata", 10;
                 "sdwritedim", 10; "sdsetexternalfile", 11; "sdsetcompress", 12; "sdsetchunk", 13; "sdsetnbitdataset", 14;
                 "sdwritechunk", 15 ] in
  let sd_readers = [ "sdselect"; "sdendaccess"; "sdreaddata"; "sdreadattr"; "sdinfo"; "sdfileinfo"; "sdnametoindex"; "sdfindattr";
                     "sdreadchunk"; "sdsetchunkcache"; "sdsetblocksize"; "sdsetaccesstype" ] in
  let rec nat_of_int n = if n <= 0 then O else S (nat_of_int (n - 1)) in
  let reset () = st := None; Hashtbl.reset aids; Hashtbl.reset vss; Hashtbl.reset vgs in
  List.iteri (fun i line ->
    let ln = i + 1 in
    let r = try Hashtbl.find tbl ln with Not_found -> [] in
    let field pfx = List.find_map (fun t -> let n = String.length pfx in
      if String.length t > n && String.sub t 0 n = pfx then Some (String.sub t n (String.length t - n)) else None) r in
    let t = toks line in
    let num k = match List.nth_opt t k with Some s -> (match int_of_string_opt s with Some v -> v | None -> if s = "w" then 119 else if s = "r" then 114 else 0) | None -> 0 in
    let modelled o bind =
      match !st with
      | None -> Printf.printf "%d -\n" ln
      | Some _ when (match r with "na" :: _ -> true | [] -> true | _ -> false) -> Printf.printf "%d -\n" ln   (* not executed by the library *)
      | Some f ->
        let ((f', res), w) = step f o in
        st := Some f';
        let ok = iz res <> -1 in
        if ok then bind (iz res);
        Printf.printf "%d M %s %s\n" ln (if ok then "ok" else "fail") (if w = [] then "w0" else "w1") in
    let nobind _ = () in
    let aid k = match Hashtbl.find_opt aids (num k) with Some a -> z a | None -> z (-7) in
    let vkey tblv k = match Hashtbl.find_opt tblv (num k) with Some a -> z a | None -> z (-7) in
    let rref () = match field "ref=" with Some s -> (match int_of_string_opt s with Some v -> v | None -> -5) | None -> -5 in
    (* SD guard-structure model: read-only SDstart sessions on slot 0 (the L1 calls inside an SD function are not
       visible from here; on a read-only handle the model's answer does not depend on them) *)
    let sd_modelled o =
      match !sdst with
      | Some sds when (match r with "ok" :: _ | "fail" :: _ -> true | _ -> false) ->
        let ((s', res), w) = sd_step sds o in
        sdst := (if s_open s' then Some s' else None);
        Printf.printf "%d M %s %s\n" ln (if iz res <> -1 then "ok" else "fail") (if w = [] then "w0" else "w1")
      | _ -> Printf.printf "%d -\n" ln in
    match t with
    | "sdstart" :: "0" :: _ ->
      (match !init, r with
       | Some (dds, e, (a, b, c)), "ok" :: _ when (num 3) land 6 = 0 ->
         sdst := Some (sdstart (z (num 3)) dds (z e) ((z a, z b), z c)); Printf.printf "%d M ok w0\n" ln
       | _ -> sdst := None; Printf.printf "%d -\n" ln)
    | "sdend" :: "0" :: _ -> sd_modelled (SEnd ([], [], []))
    | "sdsetfillmode" :: "0" :: _ -> sd_modelled (SSetFill [])
    | "sdgetdimscale" :: _ -> sd_modelled (SGetDimScale [])
    | name :: _ when List.mem_assoc name sd_mut && (name <> "sdcreate" || num 2 = 0) && (name <> "sdsetattr" || num 1 <> 0 || num 2 = 0) ->
      sd_modelled (SMut (nat_of_int (List.assoc name sd_mut), []))
    | name :: _ when List.mem name sd_readers -> sd_modelled (SRead [])
    | [] -> Printf.printf "%d -\n" ln
    | "history" :: _ -> reset (); init := None; sdst := None; Printf.printf "%d -\n" ln
    | "ddlist" :: _ ->
      (match field "end=", field "ver=", field "dds=" with
       | Some e, Some v, dds ->
         let dl = match dds with None -> [] | Some s -> List.filter (fun x -> x <> "") (String.split_on_char ',' s) in
         let mk s = match List.map int_of_string (String.split_on_char ':' s) with
           | [tg; rf; off; len; sp] -> { d_tag = z tg; d_ref = z rf; d_off = z off; d_len = z len; d_special = (sp <> 0); d_ext = (sp = 2) }
           | _ -> failwith "dd" in
         let ver = match List.map int_of_string (String.split_on_char '.' v) with [a; b; c] -> (a, b, c) | _ -> (0, 0, 0) in
         init := Some (List.map mk dl, int_of_string e, ver)
       | _ -> init := None);
      Printf.printf "%d -\n" ln
    | "hopen" :: "0" :: _ ->
      (match !init, r with
       | Some (dds, e, (a, b, c)), "ok" :: _ when !st = None && num 2 <> 4 ->
         reset (); st := Some (hopen_existing (z (num 2)) dds (z e) ((z a, z b), z c));
         Printf.printf "%d M ok w0\n" ln
       | _ -> reset (); init := None; Printf.printf "%d -\n" ln)
    | "hopen" :: _ -> reset (); init := None; Printf.printf "%d -\n" ln      (* a second open: outside the model *)
    | "hclose" :: "0" :: _ -> modelled OClose nobind; (match !st with Some f when not (f_open f) -> reset (); init := None | _ -> ())
    | "closeall" :: _ -> reset (); init := None; sdst := None; Printf.printf "%d -\n" ln
    | "startaccess" :: _ -> modelled (OStartAccess (z (num 3), z (num 4), z (num 5))) (fun id -> Hashtbl.replace aids (num 1) id)
    | "startread" :: _ -> modelled (OStartAccess (z (num 3), z (num 4), z 1)) (fun id -> Hashtbl.replace aids (num 1) id)
    | "startwrite" :: _ -> modelled (OStartWrite (z (num 3), z (num 4), z (num 5))) (fun id -> Hashtbl.replace aids (num 1) id)
    | "write" :: _ -> modelled (OWrite (aid 1, z (num 2))) nobind
    | "read" :: _ -> modelled (ORead (aid 1, z (num 2))) nobind
    | "seek" :: _ -> modelled (OSeek (aid 1, z (num 2))) nobind
    | "trunc" :: _ -> modelled (OTrunc (aid 1, z (num 2))) nobind
    | "setlength" :: _ -> modelled (OSetLength (aid 1, z (num 2))) nobind
    | "appendable" :: _ -> modelled (OAppendable (aid 1)) nobind
    | "endaccess" :: _ -> modelled (OEndAccess (aid 1)) nobind; Hashtbl.remove aids (num 1)
    | "putelement" :: _ -> modelled (OPutElement (z (num 2), z (num 3), z (num 4))) nobind
    | "dupdd" :: _ -> modelled (ODupdd (z (num 2), z (num 3), z (num 4), z (num 5))) nobind
    | "deldd" :: _ -> modelled (ODeldd (z (num 2), z (num 3))) nobind
    | "reuse" :: _ -> modelled (OReuse (z (num 2), z (num 3))) nobind
    | "hlcreate" :: _ -> modelled (OSpecialCreate (z 0, z (num 3), z (num 4))) (fun id -> Hashtbl.replace aids (num 1) id)
    | "hxcreate" :: _ -> modelled (OSpecialCreate (z 1, z (num 3), z (num 4))) (fun id -> Hashtbl.replace aids (num 1) id)
    | "hccreate" :: _ -> modelled (OSpecialCreate (z 2, z (num 3), z (num 4))) (fun id -> Hashtbl.replace aids (num 1) id)
    | "hmccreate" :: _ -> modelled (OSpecialCreate (z 3, z (num 3), z (num 4))) (fun id -> Hashtbl.replace aids (num 1) id)
    | "hlconvert" :: _ -> modelled (OHLconvert (aid 1)) nobind
    | "hsync" :: _ -> modelled OSync nobind
    | "hcache" :: _ -> modelled (OCache (z (num 2))) nobind
    | "vattach" :: _ -> modelled (OVattach (z (num 3), z (num 4))) (fun id -> Hashtbl.replace vgs (num 1) id)
    | "vsattach" :: _ -> modelled (OVSattach (z (num 3), z (num 4))) (fun id -> Hashtbl.replace vss (num 1) id)
    | "vattachn" :: _ -> if rref () = -5 then Printf.printf "%d -\n" ln else modelled (OVattach (z (rref ()), z (num 4))) (fun id -> Hashtbl.replace vgs (num 1) id)
    | "vsattachn" :: _ -> if rref () = -5 then Printf.printf "%d -\n" ln else modelled (OVSattach (z (rref ()), z (num 4))) (fun id -> Hashtbl.replace vss (num 1) id)
    | ("vsetname" | "vsetclass" | "vaddtagref" | "vdeletetagref") :: _ -> modelled (OVset (vkey vgs 1)) nobind
    | ("vssetname" | "vssetclass") :: _ -> modelled (OVset (vkey vss 1)) nobind
    | "vsdefinefields" :: _ -> modelled (OVSdefine (vkey vss 1, z 0, z 0)) nobind      (* the harness runs it only on a vdata without fields and records *)
    | "vswrite" :: _ -> modelled (OVSwrite (vkey vss 1, z (num 2))) nobind
    | "vdetach" :: _ -> modelled (OVdetach (vkey vgs 1)) nobind; Hashtbl.remove vgs (num 1)
    | "vsdetach" :: _ -> modelled (OVdetach (vkey vss 1)) nobind; Hashtbl.remove vss (num 1)
    | "vdeleten" :: _ -> if rref () = -5 then Printf.printf "%d -\n" ln else modelled (OVdelete (false, z (rref ()))) nobind
    | "vsdeleten" :: _ -> if rref () = -5 then Printf.printf "%d -\n" ln else modelled (OVdelete (true, z (rref ()))) nobind
    | _ -> Printf.printf "%d -\n" ln
  ) hist
