(* Driver for the extracted C03 specification S and implementation model M.
   Reads the same history files as harness/drive_sd.c (see there for the syntax) and prints, per input record,
     S <spec output>      and      M <model output>
   Values are element bit patterns: hex of the memory bytes <-> Z (unsigned little-endian integer).      *)
open Slab_model

let rec pos_of_int n = if n = 1 then XH else if n land 1 = 1 then XI (pos_of_int (n lsr 1)) else XO (pos_of_int (n lsr 1))
let z_of_int n = if n = 0 then Z0 else if n > 0 then Zpos (pos_of_int n) else Zneg (pos_of_int (-n))
let rec int_of_pos = function XH -> 1 | XI p -> 2 * int_of_pos p + 1 | XO p -> 2 * int_of_pos p
let int_of_z = function Z0 -> 0 | Zpos p -> int_of_pos p | Zneg p -> - (int_of_pos p)

(* bits, least significant first *)
let rec pos_of_bits = function
  | [] -> None
  | b :: r -> (match pos_of_bits r with
               | None -> if b then Some XH else None
               | Some p -> Some (if b then XI p else XO p))
let rec bits_of_pos = function XH -> [true] | XI p -> true :: bits_of_pos p | XO p -> false :: bits_of_pos p

let z_of_hex s =
  let n = String.length s / 2 in
  let bits = ref [] in
  for i = n - 1 downto 0 do
    let b = int_of_string ("0x" ^ String.sub s (2 * i) 2) in
    for k = 7 downto 0 do bits := ((b lsr k) land 1 = 1) :: !bits done
  done;
  match pos_of_bits !bits with None -> Z0 | Some p -> Zpos p

let hex_of_z w z =
  let bits = match z with Z0 -> [] | Zpos p -> bits_of_pos p | Zneg _ -> [] in
  let a = Array.make (8 * w) false in
  List.iteri (fun i b -> if i < 8 * w then a.(i) <- b) bits;
  let buf = Buffer.create (2 * w) in
  for i = 0 to w - 1 do
    let v = ref 0 in
    for k = 7 downto 0 do v := (!v lsl 1) lor (if a.(8 * i + k) then 1 else 0) done;
    Buffer.add_string buf (Printf.sprintf "%02x" !v)
  done;
  Buffer.contents buf

let toks = ref []
let next () = match !toks with [] -> raise End_of_file | t :: r -> toks := r; t
let next_int () = int_of_string (next ())
let rec take n = if n <= 0 then [] else let x = next () in x :: take (n - 1)
let zvec n = List.map (fun s -> z_of_int (int_of_string s)) (take n)

let res_s = function ROk -> "ok" | RFail -> "fail" | RAny -> "any"

let show_sout w = function
  | SNone -> "-"
  | SRet r -> "ret " ^ res_s r
  | SRead (r, cs) ->
    "read " ^ res_s r ^ " " ^ string_of_int (List.length cs) ^
    String.concat "" (List.map (function Val v -> " " ^ hex_of_z w v | _ -> " ?") cs)
  | SInfo (dims, fv) ->
    "info" ^ String.concat "" (List.map (fun (a, b) -> Printf.sprintf " %d:%d" (int_of_z a) (int_of_z b)) dims) ^
    " ; fv " ^ (match fv with Some v -> hex_of_z w v | None -> "-")

let rec show_mout w = function
  | MNone -> "-"
  | MRet (r, tr) -> "ret " ^ string_of_int (int_of_z r) ^ " |" ^ tr_s tr
  | MRead (r, cs, tr) ->
    "read " ^ string_of_int (int_of_z r) ^ " " ^ string_of_int (List.length cs) ^
    String.concat "" (List.map (function Val v -> " " ^ hex_of_z w v | _ -> " ?") cs) ^ " |" ^ tr_s tr
  | MInfo (dims, fv) ->
    "info" ^ String.concat "" (List.map (fun a -> Printf.sprintf " %d" (int_of_z a)) dims) ^
    " ; fv " ^ (match fv with Some v -> hex_of_z w v | None -> "-")
and tr_s tr =
  String.concat "" (List.map (function
      | TSetlen n -> Printf.sprintf " l%d" (int_of_z n)
      | TWrite (p, n) -> Printf.sprintf " w%d:%d" (int_of_z p) (int_of_z n)
      | TRead (p, n) -> Printf.sprintf " r%d:%d" (int_of_z p) (int_of_z n)) tr)

(* A file holds several independent datasets: every dataset has its own specification array and its own model
   state; V/B/W/R/G address the current one, M (fill mode, a file-level flag) and C (close + reopen) reach all. *)
type ds = { mutable sa : arr; mutable mm : mstate; w : int; rank : int }

let () =
  let ic = if Array.length Sys.argv > 1 then open_in Sys.argv.(1) else stdin in
  let buf = Buffer.create 65536 in
  (try while true do Buffer.add_channel buf ic 1 done with End_of_file -> ());
  toks := List.filter (fun s -> s <> "") (String.split_on_char ' '
            (String.concat " " (String.split_on_char '\n' (Buffer.contents buf))));
  let out = Buffer.create 65536 in
  let dss : ds array ref = ref [||] and cur = ref 0 and nofill = ref false and recsize = ref Z0 in
  let emit s m = Buffer.add_string out ("S " ^ s ^ "\nM " ^ m ^ "\n") in
  let new_ds () =
    let r = next_int () in let nt = next_int () in let u = next_int () in
    let dims = zvec r in
    let w = match nt_size (z_of_int nt) with Some s -> int_of_z s | None -> 1 in
    let d = { sa = s_init dims (u <> 0) (default_fill (z_of_int nt));
              mm = m_set_recsize (m_init dims (u <> 0) (z_of_int nt)) !recsize; w = w; rank = r } in
    (* a dataset created while the file is in no-fill mode starts in that mode *)
    if !nofill then begin
      d.sa <- fst (s_step d.sa (OpMode (z_of_int 256)));
      d.mm <- fst (m_step d.mm (OpMode (z_of_int 256)))
    end;
    d in
  let step_cur o =
    let d = (!dss).(!cur) in
    let (a', so) = s_step d.sa o in
    let (m', mo) = m_step d.mm o in
    d.sa <- a'; d.mm <- m';
    emit (show_sout d.w so) (show_mout d.w mo) in
  let step_all o =
    Array.iteri (fun i d ->
        let (a', so) = s_step d.sa o in
        let (m', mo) = m_step d.mm o in
        d.sa <- a'; d.mm <- m';
        if i = !cur then emit (show_sout d.w so) (show_mout d.w mo)) !dss in
  (try
     while true do
       match next () with
       | "H" -> nofill := false; recsize := Z0; dss := [| new_ds () |]; cur := 0; emit "H" "H"
       | "D" -> let d = new_ds () in dss := Array.append !dss [| d |]; cur := Array.length !dss - 1; emit "D" "D"
       | "S" -> cur := next_int (); emit "S" "S"
       | "M" -> let m = next_int () in
         if m = 0 then nofill := false else if m = 256 then nofill := true;
         step_all (OpMode (z_of_int m))
       | "V" -> step_cur (OpFillv (z_of_hex (next ())))
       | "B" -> step_cur (OpBlock (z_of_int (next_int ())))
       | "W" ->
         let rank = (!dss).(!cur).rank in
         let us = next_int () in
         let st = zvec rank in let sd = zvec rank in let ct = zvec rank in
         let n = next_int () in
         let vals = List.map z_of_hex (take n) in
         step_cur (OpWrite (us <> 0, st, sd, ct, vals))
       | "R" ->
         let rank = (!dss).(!cur).rank in
         let us = next_int () in
         let st = zvec rank in let sd = zvec rank in let ct = zvec rank in
         step_cur (OpRead (us <> 0, st, sd, ct))
       | "G" -> step_cur OpInfo
       | "C" -> nofill := false; step_all OpReopen;
         (* NC_computeshapes at open: handle->recsize = sum of the lengths of the file's record variables *)
         recsize := file_recsize (Array.to_list (Array.map (fun d -> d.mm) !dss));
         Array.iter (fun d -> d.mm <- m_set_recsize d.mm !recsize) !dss
       | "O" -> nofill := false; step_all OpReopenRO;
         recsize := file_recsize (Array.to_list (Array.map (fun d -> d.mm) !dss));
         Array.iter (fun d -> d.mm <- m_set_recsize d.mm !recsize) !dss
       | "E" -> emit "E" "E"
       | t -> failwith ("bad token " ^ t)
     done
   with End_of_file -> ());
  print_string (Buffer.contents out)
