(* Driver for the extracted C03 specification S and implementation model M.
   Reads the same history files as harness/drive_sd.c (see there for the syntax) and prints, per input record,
     S <spec output>      and      M <model output>
   Values are element bit patterns: hex of the memory bytes <-> Z (unsigned little-endian integer).      *)
open Slab_model

let rec pos_of_int n = if n = 1 then XH else if n land 1 = 1 then XI (pos_of_int (n lsr 1)) else XO (pos_of_int (n lsr 1))
let z_of_int n = if n = 0 then Z0 else if n > 0 then Zpos (pos_of_int n) else Zneg (pos_of_int (-n))
let rec int_of_pos = function XH -> 1 | XI p -> 2 * int_of_pos p + 1 | XO p -> 2 * int_of_pos p
let int_of_z = function Z0 -> 0 | Zpos p -> int_of_pos p | Zneg p -> - (int_of_pos p)

(* bits, least significant first *)
let rec pos_of_bits = function
  | [] -> None
  | b :: r -> (match pos_of_bits r with
               | None -> if b then Some XH else None
               | Some p -> Some (if b then XI p else XO p))
let rec bits_of_pos = function XH -> [true] | XI p -> true :: bits_of_pos p | XO p -> false :: bits_of_pos p

let z_of_hex s =
  let n = String.length s / 2 in
  let bits = ref [] in
  for i = n - 1 downto 0 do
    let b = int_of_string ("0x" ^ String.sub s (2 * i) 2) in
    for k = 7 downto 0 do bits := ((b lsr k) land 1 = 1) :: !bits done
  done;
  match pos_of_bits !bits with None -> Z0 | Some p -> Zpos p

let hex_of_z w z =
  let bits = match z with Z0 -> [] | Zpos p -> bits_of_pos p | Zneg _ -> [] in
  let a = Array.make (8 * w) false in
  List.iteri (fun i b -> if i < 8 * w then a.(i) <- b) bits;
  let buf = Buffer.create (2 * w) in
  for i = 0 to w - 1 do
    let v = ref 0 in
    for k = 7 downto 0 do v := (!v lsl 1) lor (if a.(8 * i + k) then 1 else 0) done;
    Buffer.add_string buf (Printf.sprintf "%02x" !v)
  done;
  Buffer.contents buf

let toks = ref []
let next () = match !toks with [] -> raise End_of_file | t :: r -> toks := r; t
let next_int () = int_of_string (next ())
let rec take n = if n <= 0 then [] else let x = next () in x :: take (n - 1)
let zvec n = List.map (fun s -> z_of_int (int_of_string s)) (take n)

let res_s = function ROk -> "ok" | RFail -> "fail" | RAny -> "any"

let show_sout w = function
  | SNone -> "-"
  | SRet r -> "ret " ^ res_s r
  | SRead (r, cs) ->
    "read " ^ res_s r ^ " " ^ string_of_int (List.length cs) ^
    String.concat "" (List.map (function Val v -> " " ^ hex_of_z w v | _ -> " ?") cs)
  | SInfo (dims, fv) ->
    "info" ^ String.concat "" (List.map (fun (a, b) -> Printf.sprintf " %d:%d" (int_of_z a) (int_of_z b)) dims) ^
    " ; fv " ^ (match fv with Some v -> hex_of_z w v | None -> "-")

let rec show_mout w = function
  | MNone -> "-"
  | MRet (r, tr) -> "ret " ^ string_of_int (int_of_z r) ^ " |" ^ tr_s tr
  | MRead (r, cs, tr) ->
    "read " ^ string_of_int (int_of_z r) ^ " " ^ string_of_int (List.length cs) ^
    String.concat "" (List.map (function Val v -> " " ^ hex_of_z w v | _ -> " ?") cs) ^ " |" ^ tr_s tr
  | MInfo (dims, fv) ->
    "info" ^ String.concat "" (List.map (fun a -> Printf.sprintf " %d" (int_of_z a)) dims) ^
    " ; fv " ^ (match fv with Some v -> hex_of_z w v | None -> "-")
and tr_s tr =
  String.concat "" (List.map (function
      | TSetlen n -> Printf.sprintf " l%d" (int_of_z n)
      | TWrite (p, n) -> Printf.sprintf " w%d:%d" (int_of_z p) (int_of_z n)
      | TRead (p, n) -> Printf.sprintf " r%d:%d" (int_of_z p) (int_of_z n)) tr)

let () =
  let ic = if Array.length Sys.argv > 1 then open_in Sys.argv.(1) else stdin in
  let buf = Buffer.create 65536 in
  (try while true do Buffer.add_channel buf ic 1 done with End_of_file -> ());
  toks := List.filter (fun s -> s <> "") (String.split_on_char ' '
            (String.concat " " (String.split_on_char '\n' (Buffer.contents buf))));
  let out = Buffer.create 65536 in
  let flush_hist hdr ops =
    match hdr with
    | None -> ()
    | Some (rank, nt, unlim, dims) ->
      let w = match nt_size (z_of_int nt) with Some s -> int_of_z s | None -> 1 in
      let ops = List.rev ops in
      let a = s_init dims unlim (default_fill (z_of_int nt)) in
      let souts = s_run a ops in
      let mouts = m_run (m_init dims unlim (z_of_int nt)) ops in
      Buffer.add_string out "S H\nM H\n";
      List.iter2 (fun s m ->
          Buffer.add_string out ("S " ^ show_sout w s ^ "\n");
          Buffer.add_string out ("M " ^ show_mout w m ^ "\n")) souts mouts;
      Buffer.add_string out "S E\nM E\n"
  in
  let hdr = ref None and ops = ref [] and rank = ref 0 in
  (try
     while true do
       match next () with
       | "H" ->
         let r = next_int () in let nt = next_int () in let u = next_int () in
         let dims = zvec r in
         rank := r; hdr := Some (r, nt, u <> 0, dims); ops := []
       | "M" -> ops := OpMode (z_of_int (next_int ())) :: !ops
       | "V" -> ops := OpFillv (z_of_hex (next ())) :: !ops
       | "B" -> ops := OpBlock (z_of_int (next_int ())) :: !ops
       | "W" ->
         let us = next_int () in
         let st = zvec !rank in let sd = zvec !rank in let ct = zvec !rank in
         let n = next_int () in
         let vals = List.map z_of_hex (take n) in
         ops := OpWrite (us <> 0, st, sd, ct, vals) :: !ops
       | "R" ->
         let us = next_int () in
         let st = zvec !rank in let sd = zvec !rank in let ct = zvec !rank in
         ops := OpRead (us <> 0, st, sd, ct) :: !ops
       | "G" -> ops := OpInfo :: !ops
       | "C" -> ops := OpReopen :: !ops
       | "E" -> flush_hist !hdr !ops; hdr := None; ops := []
       | t -> failwith ("bad token " ^ t)
     done
   with End_of_file -> ());
  print_string (Buffer.contents out)
