(* h4read: driver around the extracted C02 format specification (coq/FmtSpec.v).  It reads files written by the
   REAL library and answers, from the bytes alone, the same questions the harness asked the library.
   usage: fmt_read <command-file>
   commands (one per line):
     image <path>              load an image; prints  "I <path> wf=ok|BAD:<failed checks>" and "N blocks=.. dds=.. live=.."
     ext <name> <path>         bytes of the external file whose name is recorded as <name> (give before image)
     dump                      E <tag> <ref> sp<k> <len> <hex>     one line per live descriptor (logical content)
     vdump                     VH .. / VG ..                       one line per Vdata header / Vgroup
     blocks                    B <off> <ndds> <next>               one line per DD block
     dds                       D <tag> <ref> <off> <len>           one line per descriptor slot, file order
     di <kind> <a> <b> <count|N> <c1,c2..|->     DI <same words> = <ret> <off:len,...>
     sddata <ndgref> / grdata <vgref>            SDDATA <ndgref> <hex> / GRDATA <ref> <hex>
   deflate streams are piped through python3's zlib (trusted base). *)
open Fmt_spec

let rec pos_of_int n = if n = 1 then XH else if n land 1 = 1 then XI (pos_of_int (n lsr 1)) else XO (pos_of_int (n lsr 1))
let z n = if n = 0 then Z0 else if n > 0 then Zpos (pos_of_int n) else Zneg (pos_of_int (-n))
let rec int_of_pos = function XH -> 1 | XI p -> 2 * int_of_pos p + 1 | XO p -> 2 * int_of_pos p
let iz = function Z0 -> 0 | Zpos p -> int_of_pos p | Zneg p -> - (int_of_pos p)
let ztab = Array.init 256 z

let read_file path =
  let ic = open_in_bin path in
  let n = in_channel_length ic in
  let s = really_input_string ic n in
  close_in ic; s

let zlist_of_string s =
  let r = ref [] in
  for i = String.length s - 1 downto 0 do r := ztab.(Char.code s.[i]) :: !r done; !r

let string_of_zlist l =
  let b = Buffer.create 64 in
  List.iter (fun v -> Buffer.add_char b (Char.chr ((iz v) land 255))) l; Buffer.contents b

let hex l = if l = [] then "-" else String.concat "" (List.map (fun b -> Printf.sprintf "%02x" ((iz b) land 255)) l)

(* ---- oracles ---- *)
let exts : (Stdlib.String.t * Stdlib.String.t) list ref = ref []
let ext_file name = match List.assoc_opt (string_of_zlist name) !exts with
  | Some p -> (try Some (zlist_of_string (read_file p)) with _ -> None)
  | None -> None

(* one python3 helper for the whole run: a line "hex-of-stream" in, a line "hex-of-inflated-data" (or "!") out *)
let helper : (in_channel * out_channel) option ref = ref None
let get_helper () = match !helper with
  | Some h -> h
  | None ->
    let prog = "import sys,zlib,binascii\nfor l in sys.stdin:\n  try:\n    print(binascii.hexlify(zlib.decompressobj().decompress(binascii.unhexlify(l.strip()))).decode())\n  except Exception:\n    print('!')\n  sys.stdout.flush()\n" in
    let h = Unix.open_process (Printf.sprintf "python3 -u -c %s" (Filename.quote prog)) in
    helper := Some h; h

let inflate raw n =
  try
    let (ic, oc) = get_helper () in
    output_string oc (Stdlib.String.concat "" (List.map (fun b -> Printf.sprintf "%02x" ((iz b) land 255)) raw));
    output_char oc '\n'; flush oc;
    let line = input_line ic in
    let want = iz n in
    if line = "!" || Stdlib.String.length line / 2 < want then None
    else Some (List.init want (fun i -> ztab.(int_of_string ("0x" ^ Stdlib.String.sub line (2 * i) 2))))
  with _ -> None

(* ---- state ---- *)
let img : z list ref = ref []
let blocks : ddblock list option ref = ref None
let ds () = match !blocks with Some bl -> all_dds bl | None -> []

let elem tag rf = element ext_file inflate !img (ds ()) (z tag) (z rf)

let sp_kind d =
  if not (is_special d.dd_tag) then 0 else
  match raw_of !img d with
  | None -> -1
  | Some raw -> (match p_special raw with
      | Some (SLinked _, _) -> 1 | Some (SExt _, _) -> 2 | Some (SComp _, _) -> 3 | Some (SChunked _, _) -> 5
      | Some (SOther k, _) -> iz k | None -> -1)

let cmp_dd a b = compare (iz (base_tag a.dd_tag), iz a.dd_ref) (iz (base_tag b.dd_tag), iz b.dd_ref)

let do_image path =
  let s = read_file path in
  img := zlist_of_string s;
  blocks := parse_file !img;
  (match !blocks with
   | None -> Printf.printf "I %s wf=BAD:parse_file\n" path
   | Some bl ->
     let checks = [ "blocks", chk_blocks !img bl; "nodup", chk_nodup bl; "extents", chk_extents !img bl;
                    "overlap", chk_overlap bl; "special", chk_special ext_file inflate !img bl;
                    "vrecords", chk_vrecords ext_file inflate !img bl ] in
     let bad = List.filter (fun (_, ok) -> not ok) checks in
     let all = wf_check ext_file inflate !img in
     if bad = [] && all then Printf.printf "I %s wf=ok\n" path
     else begin
       Printf.printf "I %s wf=BAD:%s%s\n" path (String.concat "," (List.map fst bad)) (if all then "+inconsistent" else "");
       (* name the offending descriptors *)
       List.iter (fun d ->
         if not (extent_ok !img d) then Printf.printf "W extent %d %d off=%d len=%d\n" (iz d.dd_tag) (iz d.dd_ref) (iz d.dd_off) (iz d.dd_len);
         if not (special_ok ext_file inflate !img (all_dds bl) d) then Printf.printf "W special %d %d\n" (iz d.dd_tag) (iz d.dd_ref);
         if not (vrecord_ok ext_file inflate !img (all_dds bl) d) then Printf.printf "W vrecord %d %d\n" (iz d.dd_tag) (iz d.dd_ref))
         (live (all_dds bl))
     end;
     Printf.printf "N blocks=%d dds=%d live=%d size=%d\n" (List.length bl) (List.length (all_dds bl))
       (List.length (live (all_dds bl))) (String.length s))

let do_dump () =
  let l = List.sort cmp_dd (live (ds ())) in
  List.iter (fun d ->
    let t = iz (base_tag d.dd_tag) and r = iz d.dd_ref in
    let k = sp_kind d in
    if iz d.dd_off = -1 && iz d.dd_len = -1 then Printf.printf "E %d %d sp%d nodata\n" t r k
    else match elem t r with
      | CBytes b -> Printf.printf "E %d %d sp%d %d %s\n" t r k (List.length b) (hex b)
      | COpaque w -> Printf.printf "E %d %d sp%d ? opaque%d\n" t r k (iz w)
      | CErr c -> Printf.printf "E %d %d sp%d ! err%d\n" t r k (iz c)) l

let rec take n l = if n <= 0 then [] else match l with [] -> [] | x :: t -> x :: take (n - 1) t
let nth_or l i d = try List.nth l i with _ -> d

let do_vdump () =
  let l = List.sort cmp_dd (live (ds ())) in
  List.iter (fun d ->
    let t = iz d.dd_tag and r = iz d.dd_ref in
    if t = 1962 then
      (match elem 1962 r with
       | CBytes b -> (match parse_vh b with
           | Some v ->
             let n = List.length v.vh_types in
             let fields = List.init n (fun i ->
               Printf.sprintf "%d:%d:%d:%s" (iz (nth_or v.vh_types i Z0)) (iz (nth_or v.vh_isizes i Z0))
                 (iz (nth_or v.vh_orders i Z0)) (hex (nth_or v.vh_names i []))) in
             Printf.printf "VH %d il=%d nv=%d iv=%d name=%s class=%s f=%s na=%d\n" r (iz v.vh_interlace) (iz v.vh_nvert)
               (iz v.vh_ivsize) (hex v.vh_name) (hex v.vh_class) (if fields = [] then "-" else String.concat "," fields)
               (List.length v.vh_attrs)
           | None -> Printf.printf "VH %d ! unparsable\n" r)
       | _ -> Printf.printf "VH %d ! unreadable\n" r)
    else if t = 1965 then
      (match elem 1965 r with
       | CBytes b -> (match parse_vg b with
           | Some g ->
             let n = List.length g.vg_tags in
             let ms = List.init n (fun i -> Printf.sprintf "%d:%d" (iz (nth_or g.vg_tags i Z0)) (iz (nth_or g.vg_refs i Z0))) in
             Printf.printf "VG %d name=%s class=%s m=%s na=%d\n" r (hex g.vg_name) (hex g.vg_class)
               (if ms = [] then "-" else String.concat "," ms) (List.length g.vg_attrs)
           | None -> Printf.printf "VG %d ! unparsable\n" r)
       | _ -> Printf.printf "VG %d ! unreadable\n" r)) l

let pairs_of_bytes b =
  let rec go = function
    | b0 :: b1 :: b2 :: b3 :: t -> ((iz b0) * 256 + iz b1, (iz b2) * 256 + iz b3) :: go t
    | _ -> [] in go b

(* the data element an SDS (by NDG ref) / a raster image (by its vgroup ref) points to *)
let sd_data ndg = match elem 720 ndg with
  | CBytes b -> (try Some (List.assoc 702 (pairs_of_bytes b)) with Not_found -> None)
  | _ -> None
let gr_data vgref = match elem 1965 vgref with
  | CBytes b -> (match parse_vg b with
      | Some g ->
        let ms = List.combine (List.map iz g.vg_tags) (List.map iz g.vg_refs) in
        (match List.filter (fun (t, _) -> t = 302 || t = 303) ms with (t, r) :: _ -> Some (t, r) | [] -> None)
      | None -> None)
  | _ -> None


(* ---- SD convention helpers (driver glue; the parsers are the specification's) ---- *)
let ndg_pairs ndg = match elem 720 ndg with CBytes b -> pairs_of_bytes b | _ -> []
let all_vgroups () =
  List.filter_map (fun d ->
    if iz d.dd_tag = 1965 then
      (match elem 1965 (iz d.dd_ref) with
       | CBytes b -> (match parse_vg b with Some g -> Some (iz d.dd_ref, g) | None -> None)
       | _ -> None)
    else None) (live (ds ()))
let vg_members g = List.combine (List.map iz g.vg_tags) (List.map iz g.vg_refs)
let vh_of r = match elem 1962 r with CBytes b -> parse_vh b | _ -> None
(* the attribute vdata called [name] inside vgroup g *)
let zstr (s : Stdlib.String.t) = zlist_of_string s
let attr_members g =
  List.filter_map (fun (t, r) -> if t = 1962 then (match vh_of r with Some v -> Some ((v.vh_class, v.vh_name), z r) | None -> None) else None)
    (vg_members g)
let attr_in_vgroup_spec g name = match attr_find (attr_members g) (zstr name) with Some r -> Some (iz r) | None -> None
let attr_in_vgroup_model g name = match sd_attr_lookup (attr_members g) (zstr name) with Some r -> Some (iz r) | None -> None
let attr_in_vgroup_old g name =
  List.find_map (fun (t, r) ->
    if t = 1962 then
      (match vh_of r with
       | Some v when string_of_zlist v.vh_class = "Attr0.0" && string_of_zlist v.vh_name = name -> Some r
       | _ -> None)
    else None) (vg_members g)
(* a raster-image attribute: vdata of class RIATTR0.0C whose (single) field carries the attribute's name *)
let gr_attr_in_vgroup g name =
  List.find_map (fun (t, r) ->
    if t = 1962 then
      (match vh_of r with
       | Some v when string_of_zlist v.vh_class = "RIATTR0.0C" &&
                     (match v.vh_names with f :: _ -> string_of_zlist f = name | [] -> false) -> Some r
       | _ -> None)
    else None) (vg_members g)
let unhex_str h = if h = "-" then "" else
  Stdlib.String.init (Stdlib.String.length h / 2) (fun i -> Char.chr (int_of_string ("0x" ^ Stdlib.String.sub h (2 * i) 2)))

let one_extent toks e = match e with
  | Some [(o, n)] -> Printf.printf "DI %s = 1 %d:%d\n" (Stdlib.String.concat " " toks) (iz o) (iz n)
  | Some [] -> Printf.printf "DI %s = 0\n" (Stdlib.String.concat " " toks)
  | Some ((o, n) :: more) ->   (* data in several blocks: a single (offset, length) cannot describe it *)
    Printf.printf "DI %s = multi %d %d:%d\n" (Stdlib.String.concat " " toks) (1 + List.length more) (iz o) (iz n)
  | _ -> Printf.printf "DI %s = -1\n" (Stdlib.String.concat " " toks)

let do_sdcheck () =
  List.iter (fun d ->
    if iz d.dd_tag = 720 then begin
      let ndg = iz d.dd_ref in
      let ps = ndg_pairs ndg in
      let sdd = try Some (List.assoc 701 ps) with Not_found -> None in
      let sd = try Some (List.assoc 702 ps) with Not_found -> None in
      match sdd with
      | None -> Printf.printf "SDC %d nosdd\n" ndg
      | Some sr ->
        (match elem 701 sr with
         | CBytes b -> (match p_sdd b with
             | Some (dims, (nt_t, nt_r)) ->
               let bits = match elem (iz nt_t) (iz nt_r) with CBytes [_; _; w; _] -> iz w | _ -> -1 in
               let dlen = match sd with
                 | None -> "none"
                 | Some r -> (match find_dd (ds ()) (z 702) (z r) with
                     | None -> "none"
                     | Some dd when iz dd.dd_off = -1 -> "none"
                     | Some _ -> (match elem 702 r with CBytes c -> string_of_int (List.length c) | COpaque _ -> "opaque" | CErr e -> "err")) in
               Printf.printf "SDC %d dims=%s bits=%d datalen=%s\n" ndg
                 (Stdlib.String.concat "," (List.map (fun v -> string_of_int (iz v)) dims)) bits dlen
             | None -> Printf.printf "SDC %d badsdd\n" ndg)
         | _ -> Printf.printf "SDC %d badsdd\n" ndg)
    end) (List.sort cmp_dd (live (ds ())))

let do_orphans () =
  let o = orphan_blocks ext_file inflate !img (ds ()) in
  Printf.printf "ORPH %s\n" (if o = [] then "-" else Stdlib.String.concat "," (List.map (fun r -> string_of_int (iz r)) o))

let answer toks exts count =
  let head = String.concat " " toks in
  match exts with
  | None -> Printf.printf "DI %s = -1\n" head
  | Some e ->
    let ic = if count = "N" then None else Some (z (int_of_string count)) in
    let (ret, got) = datainfo_answer e ic in
    Printf.printf "DI %s = %d%s\n" head (iz ret)
      (String.concat "" (List.map (fun (o, n) -> Printf.sprintf " %d:%d" (iz o) (iz n)) got))

let do_di toks =
  match toks with
  | [kind; a; b; count; coords] ->
    let a' = int_of_string a and b' = int_of_string b in
    let coord = if coords = "-" then None else
      (try Some (List.map (fun s -> z (int_of_string s)) (String.split_on_char ',' coords)) with _ -> None) in
    let ext t r = data_extents ext_file inflate !img (ds ()) (z t) (z r) coord in
    (match kind with
     | "H" -> answer toks (ext a' b') count
     | "VS" ->
       (match elem 1962 a' with
        | CBytes vb -> (match parse_vh vb with
            | Some v when iz v.vh_nvert <= 0 -> answer toks (Some []) count
            | Some _ -> answer toks (ext 1963 a') count
            | None -> answer toks None count)
        | _ -> answer toks None count)
     | "SD" -> (match sd_data a' with
         | None -> answer toks (Some []) count
         | Some r -> answer toks (ext 702 r) count)
     | "GR" -> (match gr_data a' with
         | None -> answer toks (Some []) count
         | Some (t, r) -> (match find_dd (ds ()) (z t) (z r) with
             | None -> answer toks (Some []) count
             | Some _ -> answer toks (ext t r) count))
     | "OLD" ->
       (* a = ndg ref (all old-style elements of a data set share it), b = tag of the string element, coords = dim index or - *)
       (match find_dd (ds ()) (z b') (z a') with
        | None -> one_extent toks None
        | Some d ->
          (match raw_of !img d with
           | None -> one_extent toks None
           | Some raw ->
             if raw = [] then one_extent toks (Some []) else
             let k = if coords = "-" then 0 else 1 + int_of_string coords in
             let rec nat_of_int n = if n <= 0 then O else S (nat_of_int (n - 1)) in
             (match luf_nth (nat_of_int k) raw d.dd_off with
              | Some (o, n) -> one_extent toks (Some [(o, n)])
              | None -> one_extent toks None)))
     | "ATTF" | "ATTS" | "ATTD" ->
       let vgs = all_vgroups () in
       let target =
         if kind = "ATTF" then List.find_opt (fun (_, g) -> string_of_zlist g.vg_class = "CDF0.0") vgs
         else if kind = "ATTS" then
           List.find_opt (fun (_, g) -> string_of_zlist g.vg_class = "Var0.0" && List.mem (720, a') (vg_members g)) vgs
         else
           (let dn = unhex_str (List.hd (Stdlib.String.split_on_char ':' coords)) in
            List.find_opt (fun (_, g) -> string_of_zlist g.vg_class = "Var0.0" && string_of_zlist g.vg_name = dn) vgs) in
       let aname = if kind = "ATTD" then unhex_str (List.nth (Stdlib.String.split_on_char ':' coords) 1) else unhex_str coords in
       (match target with
        | None when kind <> "ATTF" -> Printf.printf "DI %s = novg\n" (Stdlib.String.concat " " toks)
        | None -> one_extent toks None
        | Some (_, g) ->
          (if attr_in_vgroup_model g aname <> attr_in_vgroup_spec g aname then
             Printf.printf "AM %s model-differs\n" (Stdlib.String.concat " " toks));
          (match attr_in_vgroup_spec g aname with
           | None -> one_extent toks (Some [])
           | Some r -> one_extent toks (data_extents ext_file inflate !img (ds ()) (z 1963) (z r) None)))
     | "VSATT" ->
       (* a = vdata ref, b = field index (-1 = the vdata itself), coords = index among the attributes of that field *)
       (match vh_of a' with
        | None -> one_extent toks None
        | Some v ->
          let k = z (int_of_string coords) in
          let spec_e = vsattr_nth v.vh_attrs (z b') k and model_e = vs_getattdatainfo_entry v.vh_attrs (z b') k in
          if spec_e <> model_e then Printf.printf "AM %s model-differs\n" (Stdlib.String.concat " " toks);
          (match spec_e with
           | Some at -> one_extent toks (data_extents ext_file inflate !img (ds ()) (z 1963) at.va_ref None)
           | None -> one_extent toks None))
     | "VGATT" ->
       (match List.assoc_opt a' (all_vgroups ()) with
        | None -> one_extent toks None
        | Some g ->
          (match List.nth_opt g.vg_attrs (int_of_string coords) with
           | Some (_, r) -> one_extent toks (data_extents ext_file inflate !img (ds ()) (z 1963) r None)
           | None -> one_extent toks None))
     | "GRATT" ->
       (* a = 0: file attribute (vgroup of class RIG0.0), else the image's vgroup ref; coords = attribute name *)
       let vgs = all_vgroups () in
       let target = if a' = 0 then List.find_opt (fun (_, g) -> string_of_zlist g.vg_class = "RIG0.0") vgs
                    else List.find_opt (fun (r, _) -> r = a') vgs in
       (match target with
        | None -> one_extent toks None
        | Some (_, g) ->
          (match gr_attr_in_vgroup g (unhex_str coords) with
           | None -> one_extent toks None
           | Some r -> one_extent toks (data_extents ext_file inflate !img (ds ()) (z 1963) (z r) None)))
     | "PAL" ->
       (* palette descriptors in directory order (specification: pal_answer); the model of GRgetpalinfo's walk is
          run next to it (PM line) *)
       let head = Stdlib.String.concat " " toks in
       let show l = Stdlib.String.concat "" (List.map (fun d -> Printf.sprintf " %d/%d/%d/%d" (iz d.dd_tag) (iz d.dd_ref) (iz d.dd_off) (iz d.dd_len)) l) in
       let cap = if count = "N" then None else Some (z (int_of_string count)) in
       let (ret, got) = pal_answer (ds ()) cap in
       Printf.printf "DI %s = %d%s\n" head (iz ret) (show got);
       (match cap with
        | Some n -> let (mr, mg) = gr_getpalinfo (ds ()) n in Printf.printf "PM %s = %d%s\n" head (iz mr) (show mg)
        | None -> ())
     | "ANNF" | "ANNS" ->
       (* file labels / descriptions: every element of tag 100 / 101; data labels / descriptions of (720, ndg):
          elements of tag 104 / 105 whose first four bytes name that tag/ref -- the text follows them *)
       let ty = if kind = "ANNF" then a' else b' in
       let tag = [| 100; 101; 104; 105 |].(ty) in
       let es = List.filter (fun d -> iz d.dd_tag = tag) (ds ()) in
       let locs = List.filter_map (fun d ->
         if ty <= 1 then Some (iz d.dd_off, iz d.dd_len)
         else match raw_of !img d with
           | Some (b0 :: b1 :: b2 :: b3 :: _) when (iz b0) * 256 + iz b1 = 720 && (iz b2) * 256 + iz b3 = a' ->
             Some (iz d.dd_off + 4, iz d.dd_len - 4)
           | _ -> None) es in
       let locs = List.sort compare locs in
       let head = Stdlib.String.concat " " toks in
       if count = "N" then Printf.printf "DI %s = %d\n" head (List.length locs)
       else begin
         let got = take (int_of_string count) locs in
         Printf.printf "DI %s = %d%s\n" head (List.length got)
           (Stdlib.String.concat "" (List.map (fun (o, n) -> Printf.sprintf " %d:%d" o n) locs))
       end
     | _ -> Printf.printf "DI %s = ?\n" (String.concat " " toks))
  | _ -> Printf.printf "DI ? badquery\n"

(* ---- R-vs-M: the model's encoders applied to the parsed records must reproduce the library's bytes ---- *)
let rec prefix_eq a b = match a, b with
  | [], _ -> true
  | x :: a', y :: b' -> iz x = iz y && prefix_eq a' b'
  | _, [] -> false
let same a b = List.length a = List.length b && prefix_eq a b

let linked_hdr_of d =
  if not (is_special d.dd_tag) then None else
  match raw_of !img d with
  | Some raw -> (match p_special raw with Some (SLinked h, _) -> Some h | _ -> None)
  | None -> None

let tables_of h =
  link_tables (length !img) (fun t r -> element ext_file inflate !img (ds ()) t r) h.lh_ref (Z.to_nat h.lh_nblk)

let do_reencode () =
  (match !blocks with
   | Some bl -> List.iter (fun b ->
       let enc = block_encode b in
       let ok = match sub0 !img b.blk_off (z (List.length enc)) with Some raw -> same enc raw | None -> false in
       Printf.printf "RE blk %d %d %s\n" (iz b.blk_off) (iz b.blk_ndds) (if ok then "ok" else "DIFF")) bl
   | None -> ());
  List.iter (fun d ->
    let t = iz d.dd_tag and r = iz d.dd_ref in
    if is_special d.dd_tag then
      (match raw_of !img d with
       | Some raw -> (match p_special raw with
           | Some (s, rest) ->
             let enc = special_encode s in
             let used = List.length raw - List.length rest in
             Printf.printf "RE sp %d %d %s\n" (iz (base_tag d.dd_tag)) r
               (if List.length enc = used && prefix_eq enc raw then "ok" else "DIFF");
             (match s with
              | SLinked h when iz h.lh_nblk > 0 && iz h.lh_nblk < 65536 ->
                let rec go lref fuel =
                  if fuel > 0 && lref <> 0 then
                    (match elem 20 lref with
                     | CBytes tb -> (match p_linktable (Z.to_nat h.lh_nblk) tb with
                         | Some ((nx, refs), rest') ->
                           Printf.printf "RE lt %d %d %s\n" r lref (if rest' = [] && same (linktable_encode nx refs) tb then "ok" else "DIFF");
                           go (iz nx) (fuel - 1)
                         | None -> Printf.printf "RE lt %d %d unparsable\n" r lref)
                     | _ -> Printf.printf "RE lt %d %d unreadable\n" r lref) in
                go (iz h.lh_ref) 1000
              | _ -> ())
           | None -> Printf.printf "RE sp %d %d unparsable\n" t r)
       | None -> ())
    else if t = 1962 then
      (match elem 1962 r with
       | CBytes b -> (match parse_vh b with Some v -> Printf.printf "RE vh %d %s\n" r (if same (vh_encode v) b then "ok" else "DIFF") | None -> ())
       | _ -> ())
    else if t = 1965 then
      (match elem 1965 r with
       | CBytes b -> (match parse_vg b with Some g -> Printf.printf "RE vg %d %s\n" r (if same (vg_encode g) b then "ok" else "DIFF") | None -> ())
       | _ -> ())) (live (ds ()))

(* the model of HLgetdatainfo on the block tables of a linked-block element *)
let do_dimodel toks =
  match toks with
  | [tag; rf; count] ->
    let t = int_of_string tag and r = int_of_string rf in
    let cap = if count = "N" then None else Some (z (int_of_string count)) in
    let head = Printf.sprintf "DM %d %d %s" t r count in
    let run h =
      let blk rr = match find_dd (ds ()) (z 20) rr with Some d -> Some (d.dd_off, d.dd_len) | None -> None in
      (match hl_getdatainfo blk (tables_of h) h.lh_blen h.lh_length cap with
       | Some (ret, out) -> Printf.printf "%s = %d%s\n" head (iz ret)
                              (String.concat "" (List.map (fun (o, n) -> Printf.sprintf " %d:%d" (iz o) (iz n)) out))
       | None -> Printf.printf "%s = -1\n" head) in
    (match find_dd (ds ()) (z t) (z r) with
     | Some d -> (match linked_hdr_of d with
         | Some h -> run h
         | None -> Printf.printf "%s = notlinked\n" head)
     | None -> Printf.printf "%s = nosuch\n" head)
  | _ -> Printf.printf "DM ? badquery\n"

let show_content pfx id c = match c with
  | CBytes [] -> Printf.printf "%s %d none\n" pfx id
  | CBytes b -> Printf.printf "%s %d %s\n" pfx id (hex b)
  | COpaque w -> Printf.printf "%s %d opaque%d\n" pfx id (iz w)
  | CErr e -> Printf.printf "%s %d err%d\n" pfx id (iz e)

let () =
  let ic = open_in Sys.argv.(1) in
  (try
    while true do
      let line = input_line ic in
      let toks = List.filter (fun s -> s <> "") (String.split_on_char ' ' (String.trim line)) in
      (match toks with
       | [] -> ()
       | "image" :: p :: _ -> (try do_image p with Sys_error e -> (blocks := None; img := []; Printf.printf "I %s wf=BAD:unreadable\n" p))
       | "ext" :: n :: p :: _ -> exts := (n, p) :: !exts
       | "dump" :: _ -> do_dump ()
       | "vdump" :: _ -> do_vdump ()
       | "blocks" :: _ -> (match !blocks with
           | Some bl -> List.iter (fun b -> Printf.printf "B %d %d %d\n" (iz b.blk_off) (iz b.blk_ndds) (iz b.blk_next)) bl
           | None -> ())
       | "dds" :: _ -> List.iter (fun d -> Printf.printf "D %d %d %d %d\n" (iz d.dd_tag) (iz d.dd_ref) (iz d.dd_off) (iz d.dd_len)) (ds ())
       | "di" :: rest -> do_di rest
       | "reencode" :: _ -> do_reencode ()
       | "sdcheck" :: _ -> do_sdcheck ()
       | "orphans" :: _ -> do_orphans ()
       | "dimodel" :: rest -> do_dimodel rest
       | "sddata" :: n :: _ ->
         let n' = int_of_string n in
         (match sd_data n' with Some r -> show_content "SDDATA" n' (elem 702 r) | None -> Printf.printf "SDDATA %d none\n" n')
       | "grdata" :: n :: _ ->
         let n' = int_of_string n in
         (match gr_data n' with Some (t, r) -> show_content "GRDATA" n' (elem t r) | None -> Printf.printf "GRDATA %d none\n" n')
       | _ -> Printf.printf "? %s\n" line);
      flush stdout
    done
  with End_of_file -> ())
