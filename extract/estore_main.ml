(* Driver for the extracted C01 specification: same history format as harness/drive_h.c.
   Output per line: "<ln> ok v.. [hex]" / "<ln> fail" / "<ln> nospec" (operation outside the spec).
   Never-written bytes are printed as ".." (wildcard in-session). *)
open Estore_spec

let rec pos_of_int n = if n = 1 then XH else if n land 1 = 1 then XI (pos_of_int (n lsr 1)) else XO (pos_of_int (n lsr 1))
let z n = if n = 0 then Z0 else if n > 0 then Zpos (pos_of_int n) else Zneg (pos_of_int (-n))
let rec int_of_pos = function XH -> 1 | XI p -> 2 * int_of_pos p + 1 | XO p -> 2 * int_of_pos p
let iz = function Z0 -> 0 | Zpos p -> int_of_pos p | Zneg p -> - (int_of_pos p)

let unhex s =
  if s = "-" then [] else
  let n = String.length s / 2 in
  List.init n (fun i -> z (int_of_string ("0x" ^ String.sub s (2 * i) 2)))

let hex l =
  if l = [] then "-" else
  String.concat "" (List.map (fun b -> let v = iz b in if v < 0 then ".." else Printf.sprintf "%02x" v) l)

let () =
  let ic = open_in Sys.argv.(1) in
  let st = ref binit in
  let ln = ref 0 in
  (try
    while true do
      let line = input_line ic in
      incr ln;
      let toks = List.filter (fun s -> s <> "") (String.split_on_char ' ' (String.trim line)) in
      let i k = int_of_string (List.nth toks k) in
      let zi k = z (i k) in
      let op = match toks with
        | [] -> None
        | "history" :: _ -> st := binit; None
        | "open" :: _ -> Some (OOpen (zi 1))
        | "reopen" :: _ -> Some (OReopen (zi 1))
        | "startwrite" :: _ -> Some (OStartWrite (zi 1, zi 2, zi 3, zi 4, zi 5))
        | "startaccess" :: _ -> Some (OStartAccess (zi 1, zi 2, zi 3, zi 4, zi 5))
        | "hlcreate" :: _ -> Some (OHLcreate (zi 1, zi 2, zi 3, zi 4, zi 5, zi 6))
        | "hxcreate" :: _ -> Some (OHXcreate (zi 1, zi 2, zi 3, zi 4, zi 7))
        | "appendable" :: _ -> Some (OAppendable (zi 1))
        | "write" :: _ -> Some (OWrite (zi 1, unhex (List.nth toks 2)))
        | "read" :: _ -> Some (ORead (zi 1, zi 2))
        | "seek" :: _ -> Some (OSeek (zi 1, zi 2, zi 3))
        | "tell" :: _ -> Some (OTell (zi 1))
        | "trunc" :: _ -> Some (OTrunc (zi 1, zi 2))
        | "inquire" :: _ -> Some (OInquire (zi 1))
        | "end" :: _ -> Some (OEnd (zi 1))
        | "length" :: _ -> Some (OLength (zi 1, zi 2, zi 3))
        | "getelement" :: _ -> Some (OGetElement (zi 1, zi 2, zi 3))
        | "putelement" :: _ -> Some (OPutElement (zi 1, zi 2, zi 3, unhex (List.nth toks 4)))
        | "dupdd" :: _ -> Some (ODup (zi 1, zi 2, zi 3, zi 4, zi 5))
        | "deldd" :: _ -> Some (ODel (zi 1, zi 2, zi 3))
        | "exist" :: _ -> Some (OExist (zi 1, zi 2, zi 3))
        | "hbconvert" :: _ -> Some (OHBconvert (zi 1))
        | _ -> None in
      match op with
      | None -> (match toks with "history" :: _ -> Printf.printf "%d history\n" !ln
                 | [] -> Printf.printf "%d skip\n" !ln
                 | t :: _ when String.length t > 0 && t.[0] = '#' -> Printf.printf "%d skip\n" !ln
                 | _ -> Printf.printf "%d nospec\n" !ln)
      | Some o ->
        let (s', r) = bstep !st o in
        st := s';
        (match r with
         | RFail -> Printf.printf "%d fail\n" !ln
         | RUnspec -> Printf.printf "%d unspec\n" !ln
         | ROk (vals, bytes) ->
           Printf.printf "%d ok%s%s\n" !ln
             (String.concat "" (List.map (fun v -> " " ^ string_of_int (iz v)) vals))
             (match bytes with None -> "" | Some b -> " " ^ hex b))
    done
  with End_of_file -> ())
