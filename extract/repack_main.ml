(* Driver for the extracted C18 model (M) and specification (S).  Input: cases

     case <id>
     raw <t|c|m> <hex of the option argument>          in command-line / option-file order      (M parses these)
     ent t <hexname,hexname,...> <type> <info>         the same options, structured             (S is phrased over these)
     ent c <hexname,...> <rank> <len,len,...|->
     th <threshold>                                    threshold in force (S)
     node <depth> <kind> <hexname> <empty> <rank> <bytes> <comp> <info> <chunk|-> <rec> [<comp> <info> <chunk|-> <rec>]
     end                                               (optional second layout = what the library produced)

   Output per case:
     case <id> build=<ok|err|undef> consistent=<0|1> names=<0|1> run=<ok|fail|-> roundtrip=<0|1|->
     M <index> <comp> <info> <chunk|-> <rec>           model's decision for node <index> (preorder, root = 0)
     S <index> comp=<t,i|-> chunk=<l,l|none|->         what the specification demands
     V <index> <0|1>                                   does the library's layout meet the specification ([meets])
     end *)
open Repack_model

let rec pos_of_int n = if n = 1 then XH else if n land 1 = 1 then XI (pos_of_int (n lsr 1)) else XO (pos_of_int (n lsr 1))
let z_of_int n = if n = 0 then Z0 else if n > 0 then Zpos (pos_of_int n) else Zneg (pos_of_int (-n))
let rec int_of_pos = function XH -> 1 | XI p -> 2 * int_of_pos p + 1 | XO p -> 2 * int_of_pos p
let int_of_z = function Z0 -> 0 | Zpos p -> int_of_pos p | Zneg p -> - (int_of_pos p)

let unhex s =
  if s = "-" then [] else
  let n = String.length s / 2 in
  List.init n (fun i -> z_of_int (int_of_string ("0x" ^ String.sub s (2 * i) 2)))

let zlist s = if s = "-" || s = "" then [] else List.map (fun x -> z_of_int (int_of_string x)) (String.split_on_char ',' s)
let names s = if s = "" then [] else List.map unhex (String.split_on_char ',' s)
let show_zl l = if l = [] then "-" else String.concat "," (List.map (fun z -> string_of_int (int_of_z z)) l)
let show_chunk = function None -> "-" | Some l -> show_zl l

let kind_of = function "root" -> KRoot | "vg" -> KVg | "sds" -> KSds | "gr" -> KGr | _ -> KVs

let layout_of comp info chunk recd =
  { l_comp = z_of_int (int_of_string comp); l_info = z_of_int (int_of_string info);
    l_chunk = (if chunk = "-" then None else Some (zlist chunk)); l_rec = (recd = "1") }

(* flat preorder list with depths -> tree *)
type flat = { depth : int; k : kind; name : str; idx : int; info : objinfo; rout : layout option }

let rec build_children d items =
  (* returns (children at depth d, rest) *)
  match items with
  | it :: rest when it.depth = d ->
    let (ch, rest') = build_children (d + 1) rest in
    let nd = Node (it.k, it.name, [z_of_int it.idx], it.info, ch) in
    let (sibs, rest'') = build_children d rest' in
    (nd :: sibs, rest'')
  | _ -> ([], items)

let show_layout l =
  Printf.sprintf "%d %d %s %d" (int_of_z l.l_comp) (int_of_z l.l_info) (show_chunk l.l_chunk) (if l.l_rec then 1 else 0)

let path_join prefix name = match prefix with None -> name | Some p -> p @ [z_of_int 47] @ name

let process id raws ents th (items : flat list) =
  let raws = List.rev raws and ents = List.rev ents and items = List.rev items in
  let b = build raws in
  let roundtrip =
    if ents = [] then "-" else begin
      let rt = List.filter (function OM _ -> false | _ -> true) raws in
      if List.length rt <> List.length ents then "0" else
      if List.for_all2 (fun r e -> match r, e with
          | OT s, ET ce -> str_eqb (print_comp ce) s && (match parse_comp s with ROk ce' -> ce' = ce | _ -> false)
          | OC s, EC ke -> str_eqb (print_chunk ke) s &&
                           (match parse_chunk s with
                            | ROk ke' -> ke'.ke_names = ke.ke_names && ke'.ke_rank = ke.ke_rank &&
                                         (int_of_z ke.ke_rank = -2 || ke'.ke_lens = ke.ke_lens)
                            | _ -> false)
          | _ -> false) rt ents then "1" else "0"
    end in
  let tree = match build_children 0 items with (t :: _, _) -> Some t | _ -> None in
  (match b, tree with
   | ROk o, Some t ->
     let cons = options_consistent o and nm = names_ok o t in
     let r = repack o t in
     Printf.printf "case %s build=ok consistent=%d names=%d run=%s roundtrip=%s\n" id (if cons then 1 else 0)
       (if nm then 1 else 0) (match r with Some _ -> "ok" | None -> "fail") roundtrip;
     (match r with
      | Some t' ->
        (* model layouts, preorder *)
        let rec walk (Node (k, _, c, i, ch)) =
          (match k, c with
           | KRoot, _ -> ()
           | _, [ix] -> Printf.printf "M %d %s\n" (int_of_z ix) (show_layout i.o_lay)
           | _ -> ());
          List.iter walk ch in
        walk t'
      | None -> ());
     if ents <> [] then begin
       let thz = z_of_int th in
       let rec walk prefix (Node (k, n, c, i, ch)) (its : flat list ref) =
         let it = List.hd !its in
         its := List.tl !its;
         (match k with
          | KRoot -> List.iter (fun c -> walk None c its) ch
          | _ ->
            let p = path_join prefix n in
            (match k with
             | KSds | KGr ->
               let ec = expect_comp ents thz k p i and ek = expect_chunk ents thz k p i in
               Printf.printf "S %d comp=%s chunk=%s\n" it.idx
                 (match ec with Some (t, x) -> Printf.sprintf "%d,%d" (int_of_z t) (int_of_z x) | None -> "-")
                 (match ek with KeepUnknown -> "-" | MustNotChunk -> "none" | MustChunk l -> show_zl l);
               (match it.rout with
                | Some lo -> Printf.printf "V %d %d\n" it.idx (if meets ents thz k p i lo then 1 else 0)
                | None -> ())
             | _ -> ());
            ignore c;
            List.iter (fun c -> walk (Some p) c its) ch) in
       walk None t (ref items)
     end
   | ROk _, None -> Printf.printf "case %s build=ok consistent=- names=- run=- roundtrip=%s\n" id roundtrip
   | RErr, _ -> Printf.printf "case %s build=err consistent=- names=- run=- roundtrip=%s\n" id roundtrip
   | RUndef, _ -> Printf.printf "case %s build=undef consistent=- names=- run=- roundtrip=%s\n" id roundtrip);
  print_string "end\n"

(* ---- function-level mode: the same line format as harness/drive_repack_fn.c, the same "R ..." output ---- *)
let rec take n l = if n <= 0 then [] else match l with [] -> z_of_int 0 :: take (n - 1) [] | x :: r -> x :: take (n - 1) r
let show_lens rank l = if rank <= 0 then "-" else String.concat "," (List.map (fun z -> string_of_int (int_of_z z)) (take rank l))

let fn_line toks =
  match toks with
  | "O" :: k :: rest ->
    let k = int_of_string k in
    let rec opts n l acc = if n = 0 then (List.rev acc, l) else
        match l with
        | f :: h :: r -> opts (n - 1) r ((match f with "t" -> OT (unhex h) | "c" -> OC (unhex h) | _ -> OM (unhex h)) :: acc)
        | _ -> (List.rev acc, []) in
    let (raws, rest) = opts k rest [] in
    (match build raws with
     | RUndef -> print_string "R build=undef\nR end\n"
     | RErr -> print_string "R build=err\nR end\n"
     | ROk o ->
       let zi = int_of_z in
       Printf.printf "R build=ok all_chunk=%d all_comp=%d comp_g=%d,%d chunk_g=%d:%s\n" (if o.all_chunk then 1 else 0)
         (if o.all_comp then 1 else 0) (if o.all_comp then zi o.comp_g.c_type else 0) (if o.all_comp then zi o.comp_g.c_info else 0)
         (if o.all_chunk then zi o.chunk_g.k_rank else 0)
         (if o.all_chunk then show_lens (zi o.chunk_g.k_rank) o.chunk_g.k_lens else "-");
       Printf.printf "R threshold=%d consistent=%d tbl=%d\n" (zi o.threshold) (if options_consistent o then 1 else 0) (List.length o.tbl);
       List.iter (fun e ->
           Printf.printf "R e %s %d %d %d %s\n"
             (if e.p_path = [] then "-" else String.concat "" (List.map (fun c -> Printf.sprintf "%02x" (zi c)) e.p_path))
             (zi e.p_comp.c_type) (zi e.p_comp.c_info) (zi e.p_chunk.k_rank) (show_lens (zi e.p_chunk.k_rank) e.p_chunk.k_lens)) o.tbl;
       (match rest with
        | "Q" :: _ :: qs ->
          let rec go = function
            | rk :: ph :: fl :: ls :: ct :: ci :: cp :: inf :: r ->
              let rank = int_of_string rk in
              let z s = z_of_int (int_of_string s) in
              let g = { g_flags = z fl; g_lens = take rank (zlist ls); g_ctype = z ct; g_cinfo = z ci; g_comp = z cp; g_info = z inf } in
              (match get_info o (z_of_int rank) (unhex ph) g with
               | None -> print_string "R q -1\n"
               | Some (g', have) ->
                 Printf.printf "R q %d %d %s %d %d %d %d\n" (if have then 1 else 0) (zi g'.g_flags) (show_lens rank g'.g_lens)
                   (zi g'.g_ctype) (zi g'.g_cinfo) (zi g'.g_comp) (zi g'.g_info));
              go r
            | _ -> () in
          go qs
        | _ -> ());
       print_string "R end\n")
  | _ -> ()

(* ---- strips mode: "<namehex> <eltsz> <buf> <flags> <comp> <d0> <d1> ..." -> the blocks copy_sds reads, in the
   format of harness/drive_repack_strips.c *)
let strips_line toks =
  match toks with
  | nm :: es :: bf :: fl :: cp :: ds when ds <> [] ->
    let z s = z_of_int (int_of_string s) in
    let dims = List.map z ds in
    let show l = String.concat " " (List.map (fun x -> string_of_int (int_of_z x)) l) in
    let bytes = Z.mul (zprod dims) (z es) in
    let blocks =
      (* the model's loop itself (strip_walk) with enough fuel for the number of blocks; [strips] uses one unit of
         fuel per array element, which is what the theorem is about but far more than the loop needs *)
      let rec nat_of_int n = if n = 0 then O else S (nat_of_int (n - 1)) in
      if strip_mined bytes (z fl) (z cp) then
        strip_walk (nat_of_int 100000) dims (sm_sizes dims (z es) (z bf)) (List.map (fun _ -> Z0) dims) Z0 (zprod dims)
      else Some (one_piece copy_sds_start copy_sds_edge dims) in
    (match blocks with
     | None -> print_string ("B " ^ nm ^ " out-of-fuel\n")
     | Some l -> List.iter (fun (st, ed) ->
         Printf.printf "B %s %d %s | %s | %s\n" nm (List.length dims) (show dims) (show st) (show ed)) l)
  | _ -> ()

let () =
  if Array.length Sys.argv > 2 && Sys.argv.(1) = "strips" then begin
    let ic = open_in Sys.argv.(2) in
    (try
       while true do
         let line = input_line ic in
         strips_line (List.filter (fun s -> s <> "") (String.split_on_char ' ' line))
       done
     with End_of_file -> ());
    exit 0
  end;
  if Array.length Sys.argv > 2 && Sys.argv.(1) = "fn" then begin
    let ic = open_in Sys.argv.(2) in
    (try
       while true do
         let line = input_line ic in
         fn_line (List.filter (fun s -> s <> "") (String.split_on_char ' ' line))
       done
     with End_of_file -> ());
    exit 0
  end;
  let ic = if Array.length Sys.argv > 1 then open_in Sys.argv.(1) else stdin in
  let id = ref "" and raws = ref [] and ents = ref [] and th = ref 1024 and items = ref [] and idx = ref 0 in
  (try
    while true do
      let line = input_line ic in
      let toks = List.filter (fun s -> s <> "") (String.split_on_char ' ' line) in
      match toks with
      | ["case"; i] -> id := i; raws := []; ents := []; th := 1024; items := []; idx := 0
      | ["raw"; "t"; h] -> raws := OT (unhex h) :: !raws
      | ["raw"; "c"; h] -> raws := OC (unhex h) :: !raws
      | ["raw"; "m"; h] -> raws := OM (unhex h) :: !raws
      | ["ent"; "t"; ns; ty; inf] ->
        ents := ET { ce_names = names ns; ce_type = z_of_int (int_of_string ty); ce_info = z_of_int (int_of_string inf) } :: !ents
      | ["ent"; "c"; ns; rk; lens] ->
        ents := EC { ke_names = names ns; ke_rank = z_of_int (int_of_string rk); ke_lens = zlist lens } :: !ents
      | ["th"; n] -> th := int_of_string n
      | "node" :: d :: k :: nm :: em :: rk :: by :: comp :: info :: chunk :: recd :: rest ->
        let rout = match rest with
          | [c2; i2; k2; r2] -> Some (layout_of c2 i2 k2 r2)
          | _ -> None in
        items := { depth = int_of_string d; k = kind_of k; name = unhex nm; idx = !idx;
                   info = { o_empty = (em = "1"); o_rank = z_of_int (int_of_string rk); o_bytes = z_of_int (int_of_string by);
                            o_lay = layout_of comp info chunk recd }; rout } :: !items;
        incr idx
      | ["end"] -> process !id !raws !ents !th !items
      | _ -> ()
    done
  with End_of_file -> ())
