(* Driver for the extracted C11 implementation model (coq/ANModel.v): prints what harness/drive_an.c prints.  Input: the history format of harness/drive_an.c,
   where the lines of ref-allocating operations (create, createf, select, dfputlabel, dfputdesc, dfaddfid,
   dfaddfds) carry one extra trailing token: the ref the library chose (0 when it failed).
   Output per line: "<ln> ok v.. alt/alt .." | "<ln> oneof v.." | "<ln> fail" | "<ln> unspec" | "<ln> badref" *)
open An_model

let rec pos_of_int n = if n = 1 then XH else if n land 1 = 1 then XI (pos_of_int (n lsr 1)) else XO (pos_of_int (n lsr 1))
let z n = if n = 0 then Z0 else if n > 0 then Zpos (pos_of_int n) else Zneg (pos_of_int (-n))
let rec int_of_pos = function XH -> 1 | XI p -> 2 * int_of_pos p + 1 | XO p -> 2 * int_of_pos p
let iz = function Z0 -> 0 | Zpos p -> int_of_pos p | Zneg p -> - (int_of_pos p)

let unhex s =
  if s = "-" then [] else
  let n = String.length s / 2 in
  List.init n (fun i -> z (int_of_string ("0x" ^ String.sub s (2 * i) 2)))
let hex l = if l = [] then "-" else String.concat "" (List.map (fun b -> Printf.sprintf "%02x" (iz b land 255)) l)

let () =
  let ic = open_in Sys.argv.(1) in
  let nofile = (fun _ -> []) in
  let st = ref (ginit nofile) in
  let nfiles = ref 1 in
  let ln = ref 0 in
  (try
    while true do
      let line = input_line ic in
      incr ln;
      let toks = List.filter (fun s -> s <> "") (String.split_on_char ' ' (String.trim line)) in
      let i k = try int_of_string (List.nth toks k) with _ -> 0 in
      let zi k = z (i k) in
      let tx k = try unhex (List.nth toks k) with _ -> [] in
      let op = match toks with
        | [] -> None
        | "history" :: _ -> st := ginit nofile; nfiles := 1; None
        | "start" :: _ -> Some OStart
        | "end" :: _ -> Some OEnd
        | "create" :: _ -> Some (OCreate (zi 1, zi 2, zi 3, zi 4, zi 5))
        | "createf" :: _ -> Some (OCreatef (zi 1, zi 2, zi 3))
        | "write" :: _ -> Some (OWrite (zi 1, tx 2))
        | "read" :: _ -> Some (ORead (zi 1, zi 2))
        | "len" :: _ -> Some (OLen (zi 1))
        | "select" :: _ -> Some (OSelect (zi 1, zi 2, zi 3, zi 4))
        | "selectall" :: _ -> Some (OSelectAll (zi 1))
        | "fileinfo" :: _ -> Some OFileInfo
        | "numann" :: _ -> Some (ONumann (zi 1, zi 2, zi 3))
        | "annlist" :: _ -> Some (OAnnlist (zi 1, zi 2, zi 3))
        | "tagref2id" :: _ -> Some (OTagref2id (zi 1, zi 2, zi 3))
        | "id2tagref" :: _ -> Some (OId2tagref (zi 1))
        | "endaccess" :: _ -> Some (OEndaccess (zi 1))
        | "ids" :: _ -> Some OIds
        | "dfputlabel" :: _ -> Some (ODfPut (z 0, zi 1, zi 2, tx 3, zi 4))
        | "dfputdesc" :: _ -> Some (ODfPut (z 1, zi 1, zi 2, tx 3, zi 4))
        | "dfgetlabel" :: _ -> Some (ODfGet (z 0, zi 1, zi 2, zi 3))
        | "dfgetdesc" :: _ -> Some (ODfGet (z 1, zi 1, zi 2, zi 3))
        | "dfgetlablen" :: _ -> Some (ODfGetLen (z 0, zi 1, zi 2))
        | "dfgetdesclen" :: _ -> Some (ODfGetLen (z 1, zi 1, zi 2))
        | "dfaddfid" :: _ -> Some (ODfAddF (z 0, tx 1, zi 2))
        | "dfaddfds" :: _ -> Some (ODfAddF (z 1, tx 1, zi 2))
        | "dfgetfids" :: _ -> Some (ODfGetFs (z 0))
        | "dfgetfdss" :: _ -> Some (ODfGetFs (z 1))
        | "dflablist" :: _ when List.length toks >= 5 -> None
        | "dflablist" :: _ -> Some (ODfLablist (zi 1, zi 2))
        | _ -> None in
      let show r = match r with
        | MFail -> Printf.printf "%d fail\n" !ln
        | MBad -> Printf.printf "%d bad\n" !ln
        | MNoModel -> Printf.printf "%d nomodel\n" !ln
        | MOk (vals, bufs) ->
          Printf.printf "%d ok%s%s\n" !ln
            (String.concat "" (List.map (fun v -> " " ^ string_of_int (iz v)) vals))
            (String.concat "" (List.map (fun b -> " " ^ hex b) bufs)) in
      match op with
      | None -> (match toks with
                 | "history" :: _ -> Printf.printf "%d history\n" !ln
                 | "names" :: rest ->
                   let bytes nm = List.init (String.length nm) (fun k -> z (Char.code nm.[k])) in
                   let arr = Array.of_list (List.map bytes rest) in
                   nfiles := Array.length arr;
                   st := ginit (fun n -> let k = iz n in if k >= 0 && k < Array.length arr then arr.(k) else []);
                   Printf.printf "%d skip\n" !ln
                 | "file" :: _ -> if i 1 >= 0 && i 1 < !nfiles then begin st := gfile !st (zi 1); Printf.printf "%d ok\n" !ln end
                                  else Printf.printf "%d fail\n" !ln
                 | "dffidlen" :: _ -> let (s', r) = g_fann_len !st (z 0) (i 1 <> 0) in st := s'; show r
                 | "dffdslen" :: _ -> let (s', r) = g_fann_len !st (z 1) (i 1 <> 0) in st := s'; show r
                 | "dffid" :: _ -> let (s', r) = g_fann_get !st (z 0) (i 1 <> 0) (zi 2) in st := s'; show r
                 | "dffds" :: _ -> let (s', r) = g_fann_get !st (z 1) (i 1 <> 0) (zi 2) in st := s'; show r
                 | "dflablist" :: _ -> let (s', r) = g_lablist_page !st (zi 1) (zi 2) (zi 3) (zi 4) in st := s'; show r
                 | "restart" :: _ -> let (s', r) = g_restart !st in st := s'; show r
                 | "gettagref" :: _ -> let (s', r) = g_gettagref !st (zi 1) (zi 2) in st := s'; show r
                 | "key" :: _ -> let k = aN_CREATE_KEY (zi 1) (zi 2) in
                   Printf.printf "%d ok %d %d %d\n" !ln (iz k) (iz (aN_KEY2TYPE k)) (iz (aN_KEY2REF k))
                 | "cmp" :: _ -> Printf.printf "%d ok %d\n" !ln (iz (aNIanncmp (zi 1) (zi 2)))
                 | "codec" :: _ -> let b0 = uINT16ENCODE_b0 (zi 1) and b1 = uINT16ENCODE_b1 (zi 1) in
                   Printf.printf "%d ok %d %d %d\n" !ln (iz b0) (iz b1) (iz (uINT16DECODE b0 b1))
                 | "atype2tag" :: _ -> Printf.printf "%d ok %d\n" !ln (iz (m_atype2tag (zi 1)))
                 | "tag2atype" :: _ -> Printf.printf "%d ok %d\n" !ln (iz (m_tag2atype (zi 1)))
                 | _ -> Printf.printf "%d skip\n" !ln)
      | Some o -> let (s', r) = gstep !st o in st := s'; show r
    done
  with End_of_file -> ())
