(* Driver for the extracted C07 specification: same history format as harness/drive_vs.c.
   Output per line: "<ln> ok v.. [names] [hex..]" / "<ln> fail" / "<ln> unspec" (outside the property's domain; nothing
   later in the history is compared) / "<ln> any" (result not specified, history goes on) / "<ln> nospec" (R-vs-M only op). *)
open Vtable_spec

let rec pos_of_int n = if n = 1 then XH else if n land 1 = 1 then XI (pos_of_int (n lsr 1)) else XO (pos_of_int (n lsr 1))
let z n = if n = 0 then Z0 else if n > 0 then Zpos (pos_of_int n) else Zneg (pos_of_int (-n))
let rec int_of_pos = function XH -> 1 | XI p -> 2 * int_of_pos p + 1 | XO p -> 2 * int_of_pos p
let iz = function Z0 -> 0 | Zpos p -> int_of_pos p | Zneg p -> - (int_of_pos p)

(* the 256 byte values, shared *)
let ztab = Array.init 256 z
let hexval c = match c with '0'..'9' -> Char.code c - 48 | 'a'..'f' -> Char.code c - 87 | 'A'..'F' -> Char.code c - 55 | _ -> 0

let unhex s =
  if s = "-" then [] else begin
    let n = String.length s / 2 in
    let r = ref [] in
    for i = n - 1 downto 0 do
      r := ztab.(hexval s.[2 * i] * 16 + hexval s.[2 * i + 1]) :: !r
    done; !r
  end

let hex l =
  if l = [] then "-" else begin
    let b = Buffer.create 1024 in
    List.iter (fun x -> Buffer.add_string b (Printf.sprintf "%02x" (iz x land 255))) l;
    Buffer.contents b
  end

let name_of s = List.init (String.length s) (fun i -> ztab.(Char.code s.[i]))
let str_of_name l = String.concat "" (List.map (fun c -> String.make 1 (Char.chr (iz c land 255))) l)
let names_of s = List.map name_of (String.split_on_char ',' s)
let opt_names s = if s = "*" then None else Some (names_of s)

let () =
  let ic = open_in Sys.argv.(1) in
  let st = ref init in
  let ln = ref 0 in
  (try
    while true do
      let line = input_line ic in
      incr ln;
      let toks = List.filter (fun s -> s <> "") (String.split_on_char ' ' (String.trim line)) in
      let nth k = try List.nth toks k with _ -> "" in
      let i k = try int_of_string (nth k) with _ -> 0 in
      let zi k = z (i k) in
      let op = match toks with
        | [] -> None
        | "history" :: _ -> st := init; None
        | "new" :: _ -> Some (ONew (zi 1))
        | "define" :: _ -> Some (ODefine (zi 1, name_of (nth 2), zi 3, zi 4))
        | "setil" :: _ -> Some (OSetIl (zi 1, zi 2))
        | "setfields" :: _ -> Some (OSetFields (zi 1, names_of (nth 2)))
        | "write" :: _ -> Some (OWrite (zi 1, zi 2, zi 3, unhex (nth 4)))
        | "seek" :: _ -> Some (OSeek (zi 1, zi 2))
        | "read" :: _ -> Some (ORead (zi 1, zi 2, zi 3))
        | "detach" :: _ -> Some (ODetach (zi 1))
        | "attach" :: _ -> Some (OAttach (zi 1, (nth 2 = "w")))
        | "attachto" :: _ -> Some (OAttachTo (zi 1, zi 2, (nth 3 = "w")))
        | "reopen" :: _ -> Some OReopen
        | "inquire" :: _ -> Some (OInquire (zi 1))
        | "elts" :: _ -> Some (OElts (zi 1))
        | "setname" :: _ -> Some (OSetName (zi 1, if nth 2 = "-" then [] else name_of (nth 2)))
        | "setclass" :: _ -> Some (OSetClass (zi 1, if nth 2 = "-" then [] else name_of (nth 2)))
        | "getname" :: _ -> Some (OGetName (zi 1))
        | "getclass" :: _ -> Some (OGetClass (zi 1))
        | "sizeof" :: _ -> Some (OSizeof (zi 1, names_of (nth 2)))
        | "fexist" :: _ -> Some (OFexist (zi 1, names_of (nth 2)))
        | "field" :: _ -> Some (OField (zi 1, zi 2))
        | "nfields" :: _ -> Some (ONFields (zi 1))
        | "blocksize" :: _ -> Some (OBlockSize (zi 1, zi 2))
        | "numblocks" :: _ -> Some (ONumBlocks (zi 1, zi 2))
        | "pack" :: _ -> Some (OPack (zi 1, zi 2, opt_names (nth 3), opt_names (nth 4),
                                      List.map unhex (String.split_on_char ';' (nth 5))))
        | "unpack" :: _ -> Some (OUnpack (zi 1, zi 2, opt_names (nth 3), opt_names (nth 4), unhex (nth 5)))
        | _ -> None in
      match op with
      | None -> (match toks with "history" :: _ -> Printf.printf "%d history\n" !ln
                 | [] -> Printf.printf "%d skip\n" !ln
                 | t :: _ when String.length t > 0 && t.[0] = '#' -> Printf.printf "%d skip\n" !ln
                 | _ -> Printf.printf "%d nospec\n" !ln)
      | Some o ->
        let (s', r) = step !st o in
        st := s';
        (match r with
         | RFail -> Printf.printf "%d fail\n" !ln
         | RUnspec -> Printf.printf "%d unspec\n" !ln
         | RAny -> Printf.printf "%d any\n" !ln
         | ROk (vals, names, bytes) ->
           Printf.printf "%d ok%s%s%s\n" !ln
             (String.concat "" (List.map (fun v -> " " ^ string_of_int (iz v)) vals))
             (match names with [] -> "" | _ -> " " ^ String.concat "," (List.map (fun n -> if n = [] then "-" else str_of_name n) names))
             (String.concat "" (List.map (fun b -> " " ^ hex b) bytes)))
    done
  with End_of_file -> ())
