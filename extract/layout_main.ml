(* Driver for the extracted C04 specification (and, in "fn"/"mc" mode, the implementation models).
   Mode "hist" (default): history file, one record =
     hist <id> <api> <rank> <d0..> <nt> <hasfill> <fill>
     cfg <kind> <cache> <coder> <p1> <p2> <p3> <p4> <c0..>
     w <start..> <stride..> <edge..> <n> <v..> | r <start..> <stride..> <edge..>
     wc <origin..> <n> <v..> | rc <origin..> | reopen | cache <n>
     end
   prints  "H <id>", one line per op ("w ok", "r v v ..", "wc fail", ...), "E".
   cfg kind 4 / 7 = n-bit: p1 start_bit p2 bit_len p3 sign_ext p4 fill_one -> read results are projected. *)
open Layout_model

let rec pos_of_int n = if n = 1 then XH else if n land 1 = 1 then XI (pos_of_int (n lsr 1)) else XO (pos_of_int (n lsr 1))
let z_of_int n = if n = 0 then Z0 else if n > 0 then Zpos (pos_of_int n) else Zneg (pos_of_int (-n))
let rec int_of_pos = function XH -> 1 | XI p -> 2 * int_of_pos p + 1 | XO p -> 2 * int_of_pos p
let int_of_z = function Z0 -> 0 | Zpos p -> int_of_pos p | Zneg p -> - (int_of_pos p)
let zl l = List.map z_of_int l
let il l = List.map int_of_z l

let rec take n l = if n = 0 then [] else match l with [] -> failwith "short line" | x :: r -> x :: take (n - 1) r
let rec drop n l = if n = 0 then l else match l with [] -> failwith "short line" | _ :: r -> drop (n - 1) r

let nt_width nt = match nt land 0xfff with
  | 3 | 4 | 20 | 21 -> 8 | 22 | 23 -> 16 | 24 | 25 | 5 -> 32 | 6 -> 64 | _ -> 32
let nt_signed nt = match nt land 0xfff with 4 | 20 | 22 | 24 -> true | _ -> false

let show_out name = function
  | RFail -> name ^ " fail"
  | ROk -> name ^ " ok"
  | RData vs -> name ^ " " ^ String.concat " " (List.map (fun z -> string_of_int (int_of_z z)) vs)

let toks line = List.filter (fun s -> s <> "") (String.split_on_char ' ' (String.trim line))

let run_hist ic =
  let api = ref 0 and rank = ref 0 and dims = ref [] and nt = ref 0 and fill = ref 0 and id = ref "" in
  let cl = ref [] and view = ref (fun (z : z) -> z) in
  let ops = ref [] and names = ref [] in
  (try
    while true do
      let line = input_line ic in
      match toks line with
      | [] -> ()
      | "hist" :: i :: ap :: r :: rest ->
        id := i; api := int_of_string ap; rank := int_of_string r;
        let nums = List.map int_of_string rest in
        dims := take !rank nums;
        (match drop !rank nums with
         | n :: _hf :: f :: _ -> nt := n; fill := f
         | _ -> failwith "bad hist line");
        ops := []; names := []; cl := List.map (fun _ -> 0) !dims; view := (fun z -> z)
      | "cfg" :: rest ->
        (match List.map int_of_string rest with
         | kind :: _cache :: _coder :: p1 :: p2 :: p3 :: p4 :: cs ->
           cl := take !rank cs;
           if kind = 4 || kind = 7 then
             view := nbit_proj (z_of_int (nt_width !nt)) (nt_signed !nt) (z_of_int p1) (z_of_int p2) (p3 <> 0) (p4 <> 0)
         | _ -> failwith "bad cfg line")
      | "w" :: rest ->
        let n = List.map int_of_string rest in
        let r = !rank in
        let s = take r n and t = take r (drop r n) and e = take r (drop (2 * r) n) in
        let d = drop (3 * r + 1) n in
        ops := OWrite (zl s, zl t, zl e, zl d) :: !ops; names := "w" :: !names
      | "r" :: rest ->
        let n = List.map int_of_string rest in
        let r = !rank in
        ops := ORead (zl (take r n), zl (take r (drop r n)), zl (take r (drop (2 * r) n))) :: !ops; names := "r" :: !names
      | "wc" :: rest ->
        let n = List.map int_of_string rest in
        let r = !rank in
        ops := OWriteChunk (zl (take r n), zl (drop (r + 1) n)) :: !ops; names := "wc" :: !names
      | "rc" :: rest ->
        let n = List.map int_of_string rest in
        ops := OReadChunk (zl (take !rank n)) :: !ops; names := "rc" :: !names
      | "hr" :: _k :: rest ->
        let n = List.map int_of_string rest in
        let rec trip l = match l with a :: p :: c :: tl -> ((z_of_int a, z_of_int p), z_of_int c) :: trip tl | _ -> [] in
        ops := OHRead (trip n) :: !ops; names := "hr" :: !names
      | [ "reopen" ] -> ops := OReopen :: !ops; names := "reopen" :: !names
      | [ "cache"; n ] -> ops := OCache (z_of_int (int_of_string n)) :: !ops; names := "cache" :: !names
      | [ "end" ] ->
        let cdims = if !api = 1 then (match !dims with [y; x; c] -> [x; y; c] | d -> d) else !dims in
        let outs = spec_history (zl !dims) (zl cdims) (zl !cl) (z_of_int !fill) (List.rev !ops) in
        print_string ("H " ^ !id ^ "\n");
        List.iter2 (fun nm o -> print_string (show_out nm (apply_view !view o) ^ "\n")) (List.rev !names) outs;
        print_string "E\n"
      | _ -> print_string ("badline " ^ line ^ "\n")
    done
  with End_of_file -> ())

(* function-level cases for the implementation models (same lines as harness/drive_chunkfn.c, drive_mcache.c) *)
let show_ints l = String.concat " " (List.map (fun z -> string_of_int (int_of_z z)) l)

let run_fn ic =
  (try
    while true do
      let line = input_line ic in
      match toks line with
      | [] -> ()
      | kw :: rest ->
        let n = List.map int_of_string rest in
        (match n with
         | nt :: nd :: r ->
           let d = take nd r and c = take nd (drop nd r) in
           let tl = drop (2 * nd) r in
           if kw = "P" then
             (match tl with
              | [pos; len; dn] -> print_string (show_ints (fn_case (z_of_int nt) (zl d) (zl c) (z_of_int pos) (z_of_int len) (z_of_int dn)) ^ "\n")
              | _ -> print_string "badline\n")
           else print_string (show_ints (fn_case_chunk (z_of_int nt) (zl d) (zl c) (zl (take nd tl))) ^ "\n")
         | _ -> print_string "badline\n")
    done
  with End_of_file -> ())

let run_mc ic =
  (try
    while true do
      let line = input_line ic in
      match List.map int_of_string (toks line) with
      | [] -> ()
      | maxc :: np :: psize :: fill :: nops :: r ->
        let rec ops k l = if k = 0 then [] else match l with
          | a :: b :: c :: tl -> ((z_of_int a, z_of_int b), z_of_int c) :: ops (k - 1) tl
          | _ -> failwith "short ops" in
        let (outs, fin) = mc_test (z_of_int maxc) (z_of_int np) (z_of_int psize) (z_of_int fill) (ops nops r) in
        let show pg = "[ " ^ String.concat "" (List.map (fun z -> string_of_int (int_of_z z) ^ " ") pg) ^ "] " in
        print_string (String.concat "" (List.map show outs) ^ "S " ^ String.concat "" (List.map show fin) ^ "\n")
      | _ -> print_string "badline\n"
    done
  with End_of_file -> ())

let () =
  let mode, file =
    if Array.length Sys.argv > 2 then Sys.argv.(1), Sys.argv.(2)
    else "hist", (if Array.length Sys.argv > 1 then Sys.argv.(1) else "-") in
  let ic = if file = "-" then stdin else open_in file in
  match mode with
  | "hist" -> run_hist ic
  | "fn" -> run_fn ic
  | "mc" -> run_mc ic
  | _ -> prerr_endline "unknown mode"; exit 2
