(* Driver for the extracted C10 specification: same history format as harness/drive_attr.c.
   Output per input line: "<ln> ok tok.." / "<ln> fail" / "<ln> unspec" / "<ln> any" / "<ln> history" / "<ln> skip" /
   "<ln> nospec" (line the specification does not cover).  "?" is a wildcard token. *)
open Attr_spec

let rec pos_of_int n = if n = 1 then XH else if n land 1 = 1 then XI (pos_of_int (n lsr 1)) else XO (pos_of_int (n lsr 1))
let z n = if n = 0 then Z0 else if n > 0 then Zpos (pos_of_int n) else Zneg (pos_of_int (-n))
let rec int_of_pos = function XH -> 1 | XI p -> 2 * int_of_pos p + 1 | XO p -> 2 * int_of_pos p
let iz = function Z0 -> 0 | Zpos p -> int_of_pos p | Zneg p -> - (int_of_pos p)

let unhex s =
  if s = "-" || s = "e" then [] else
  let n = String.length s / 2 in
  List.init n (fun i -> z (int_of_string ("0x" ^ String.sub s (2 * i) 2)))
let hex l =
  if l = [] then "-" else
  let b = Buffer.create (2 * List.length l) in
  List.iter (fun x -> Buffer.add_string b (Printf.sprintf "%02x" (iz x land 255))) l;
  Buffer.contents b
let sarg s = if s = "-" then None else Some (unhex s)

exception Nospec
let mode_of s = match s with "c" -> MCreate | "w" -> MWrite | "r" -> MRead | _ -> raise Nospec
let obj_of s =
  if s = "F" then OFile
  else if s.[0] = 'V' then OVar (z (int_of_string (String.sub s 1 (String.length s - 1))))
  else if s.[0] = 'D' then
    (match String.split_on_char '.' (String.sub s 1 (String.length s - 1)) with
     | [a; b] -> ODim (z (int_of_string a), z (int_of_string b))
     | _ -> raise Nospec)
  else raise Nospec
let var_of s = match obj_of s with OVar i -> i | _ -> raise Nospec
let dim_of s = match obj_of s with ODim (i, d) -> (i, d) | _ -> raise Nospec
let gobj s = if s = "G" then None else if s.[0] = 'I' then Some (z (int_of_string (String.sub s 1 (String.length s - 1)))) else raise Nospec

let rec parse0 toks =
  let t k = List.nth toks k in
  let i k = z (int_of_string (t k)) in
  match List.hd toks with
  | "sd.start" -> SdStart (mode_of (t 1))
  | "sd.end" -> SdEnd
  | "sd.create" ->
    let rank = int_of_string (t 3) in
    SdCreate (unhex (t 1), i 2, i 3, List.init (max 0 (min rank (List.length toks - 4))) (fun k -> i (4 + k)))
  | "sd.setattr" -> SdSetAttr (obj_of (t 1), unhex (t 2), i 3, i 4, unhex (t 5))
  | "sd.attrs" -> SdAttrs (obj_of (t 1))
  | "sd.attrinfo" -> SdAttrInfo (obj_of (t 1), i 2)
  | "sd.findattr" -> SdFindAttr (obj_of (t 1), unhex (t 2))
  | "sd.setdatastrs" -> SdSetDataStrs (var_of (t 1), sarg (t 2), sarg (t 3), sarg (t 4), sarg (t 5))
  | "sd.getdatastrs" -> SdGetDataStrs (var_of (t 1), i 2)
  | "sd.setcal" -> SdSetCal (var_of (t 1), unhex (t 2), i 3)
  | "sd.getcal" -> SdGetCal (var_of (t 1))
  | "sd.setrange" -> SdSetRange (var_of (t 1), unhex (t 2), unhex (t 3))
  | "sd.getrange" -> SdGetRange (var_of (t 1))
  | "sd.setfill" -> SdSetFill (var_of (t 1), unhex (t 2))
  | "sd.getfill" -> SdGetFill (var_of (t 1))
  | "sd.setdimname" -> let (a, b) = dim_of (t 1) in SdSetDimName (a, b, unhex (t 2))
  | "sd.diminfo" -> let (a, b) = dim_of (t 1) in SdDimInfo (a, b)
  | "sd.setdimscale" -> let (a, b) = dim_of (t 1) in SdSetDimScale (a, b, i 2, i 3, unhex (t 4))
  | "sd.getdimscale" -> let (a, b) = dim_of (t 1) in SdGetDimScale (a, b)
  | "sd.setdimstrs" -> let (a, b) = dim_of (t 1) in SdSetDimStrs (a, b, sarg (t 2), sarg (t 3), sarg (t 4))
  | "sd.getdimstrs" -> let (a, b) = dim_of (t 1) in SdGetDimStrs (a, b, i 2)
  | "sd.lookup" -> SdLookup
  | "h.start" -> HStart (mode_of (t 1))
  | "h.end" -> HEnd
  | "gr.create" -> GrCreate (unhex (t 1), i 2, i 3, i 4, i 5)
  | "gr.setattr" -> GrSetAttr (gobj (t 1), unhex (t 2), i 3, i 4, unhex (t 5))
  | "gr.attrs" -> GrAttrs (gobj (t 1))
  | "gr.attrinfo" -> GrAttrInfo (gobj (t 1), i 2)
  | "gr.findattr" -> GrFindAttr (gobj (t 1), unhex (t 2))
  | "gr.lookup" -> GrLookup
  | "vs.create" -> VsCreate (unhex (t 1), i 2)
  | "vs.setattr" -> VsSetAttr (i 1, i 2, unhex (t 3), i 4, i 5, unhex (t 6))
  | "vs.attrs" -> VsAttrs (i 1, i 2)
  | "vs.attrinfo" -> VsAttrInfo (i 1, i 2, i 3)
  | "vs.findattr" -> VsFindAttr (i 1, i 2, unhex (t 3))
  | "vg.create" -> VgCreate (unhex (t 1))
  | "vg.setattr" -> VgSetAttr (i 1, unhex (t 2), i 3, i 4, unhex (t 5))
  | "vg.attrs" -> VgAttrs (i 1)
  | "vg.attrinfo" -> VgAttrInfo (i 1, i 2)
  | "vg.findattr" -> VgFindAttr (i 1, unhex (t 2))
  | "vs.rsetattr" | "vs.rattrs" | "vs.rattrinfo" | "vs.rfindattr" | "vg.rsetattr" | "vg.rattrs" | "vg.rattrinfo" | "vg.rfindattr" ->
    let o = List.hd toks in
    HRead (parse0 ((String.sub o 0 3 ^ String.sub o 4 (String.length o - 4)) :: List.tl toks))
  | _ -> raise Nospec

let parse = parse0

(* usage: attr_spec [-m] <history-file>     -m: the whole-file implementation model [mstep] instead of [step] *)
let () =
  let use_model = Array.length Sys.argv > 2 && Sys.argv.(1) = "-m" in
  let step = if use_model then mstep else step in
  let ic = open_in Sys.argv.(Array.length Sys.argv - 1) in
  let st = ref init in
  let ln = ref 0 in
  (try
    while true do
      let line = input_line ic in
      incr ln;
      let toks = List.filter (fun s -> s <> "") (String.split_on_char ' ' (String.trim line)) in
      (match toks with
       | [] -> Printf.printf "%d skip\n" !ln
       | "history" :: _ -> st := init; Printf.printf "%d history\n" !ln
       | t :: _ when t.[0] = '#' -> Printf.printf "%d skip\n" !ln
       | _ ->
         (match (try Some (parse toks) with _ -> None) with
          | None -> Printf.printf "%d nospec\n" !ln
          | Some o ->
            let (s', r) = step !st o in
            st := s';
            (match r with
             | RFail -> Printf.printf "%d fail\n" !ln
             | RUnspec -> Printf.printf "%d unspec\n" !ln
             | RSkip -> Printf.printf "%d any\n" !ln
             | ROk ts ->
               let b = Buffer.create 256 in
               List.iter (fun tk -> Buffer.add_char b ' ';
                           match tk with TI v -> Buffer.add_string b (string_of_int (iz v))
                                       | TB x -> Buffer.add_string b (hex x)
                                       | TQ -> Buffer.add_char b '?') ts;
               Printf.printf "%d ok%s\n" !ln (Buffer.contents b))))
    done
  with End_of_file -> ())
